import sys
sys.path.insert(0, sys.argv[1])

import pickle

from construct.expr import this, obj_, list_, len_, sum_, min_, max_, abs_, Path, Path2, FuncPath, UniExpr, BinExpr


def show(label, fn):
    try:
        print(label, "->", repr(fn()))
    except BaseException as e:
        print(label, "-> EXC", type(e).__name__, str(e)[:80])


class BadRepr(object):
    def __repr__(self):
        raise KeyError("badrepr")
    def __str__(self):
        return "fine"


class TwoFaces(object):
    def __repr__(self):
        return "REPR"
    def __str__(self):
        return "STR"
    def __call__(self, obj):
        return obj


class BadStr(object):
    def __repr__(self):
        return "fine"
    def __str__(self):
        raise IndexError("badstr")


class ReprSub(Path):
    def __repr__(self):
        return "ReprSub!"


class StrSub(Path):
    def __str__(self):
        return "StrSub!"


fields = ["a", "", "with'quote", 'with"dq', "a b", 0, -1, 10**20, 1.5, None, True, b"by", (1, "t"), TwoFaces(), u"é"]

roots = [this, obj_, Path("custom"), Path(""), Path("x y")]
forms = [
    ("repr", repr),
    ("str", str),
    ("percent_s", lambda p: "%s" % (p,)),
    ("percent_r", lambda p: "%r" % (p,)),
    ("format", lambda p: "{}".format(p)),
    ("format_r", lambda p: "{!r}".format(p)),
    ("format_s", lambda p: "{!s}".format(p)),
    ("fstring", lambda p: f"{p}|{p!r}|{p!s}"),
    ("dunder_str", lambda p: p.__str__()),
    ("dunder_repr", lambda p: p.__repr__()),
    ("cls_str", lambda p: Path.__str__(p)),
    ("cls_repr", lambda p: Path.__repr__(p)),
]

paths = []
for ri, root in enumerate(roots):
    paths.append(("root%d" % ri, root))
    for fi, f in enumerate(fields):
        p = root[f]
        paths.append(("root%d[%d]" % (ri, fi), p))
        if isinstance(f, str) and f.isidentifier():
            paths.append(("root%d.%s" % (ri, f), getattr(root, f)))
        for gi, g in enumerate(fields[:6]):
            paths.append(("root%d[%d][%d]" % (ri, fi, gi), p[g]))
paths.append(("deep", this.a.b["c"][0]._._.d[-1]))
paths.append(("under", this._))
paths.append(("underunder", this._._))
paths.append(("root_", this._root.x))
paths.append(("index", this._index))

for label, p in paths:
    for fname, form in forms:
        show("%s %s" % (label, fname), lambda: form(p))

# explicit constructor forms: parent given but field None, odd parents
odd = [
    ("field none", Path("n", None, this)),
    ("parent twofaces", Path("n", "f", TwoFaces())),
    ("parent string", Path("n", "f", "strparent")),
    ("parent int", Path("n", "f", 0)),
    ("parent false", Path("n", "f", False)),
    ("parent badstr", Path("n", "f", BadStr())),
    ("field badrepr", Path("n", BadRepr(), this)),
    ("name nonstr", Path(42)),
    ("name none", Path(None)),
    ("child of nonstr", Path(42).a),
    ("parent path2", Path("n", "f", list_[1])),
    ("parent funcpath", Path("n", "f", len_(this.x))),
    ("parent binexpr", Path("n", "f", this.a + 1)),
    ("parent uniexpr", Path("n", "f", -this.a)),
]
for label, p in odd:
    for fname, form in forms:
        show("%s %s" % (label, fname), lambda: form(p))

# subclasses overriding one of the two methods
subs = [
    ("reprsub root", ReprSub("r")),
    ("reprsub child of path", ReprSub("r", "f", this.a)),
    ("path child of reprsub", Path("r", "f", ReprSub("q"))),
    ("reprsub getattr", ReprSub("r").zzz),
    ("strsub root", StrSub("r")),
    ("strsub child of path", StrSub("r", "f", this.a)),
    ("path child of strsub", Path("r", "f", StrSub("q"))),
    ("path grandchild of strsub", Path("r", "g", Path("r", "f", StrSub("q")))),
    ("strsub getitem", StrSub("r")["zzz"]),
]
for label, p in subs:
    for fname, form in forms[:10]:
        show("%s %s" % (label, fname), lambda: form(p))

# paths inside larger expressions
exprs = [
    this.a + 1, 1 + this.a, -this.a.b, ~this["x"][0], this.a == this.b, len_(this.items), sum_(this.a.b), abs_(this.x) * 2,
    (this.a + this["b"]) * obj_.c - this._.d, this.a[this.b], Path2("list_")[this.a], list_[0][this.i],
    BinExpr(max, this.a, this.b) if False else (this.a < this.b), UniExpr(__import__("operator").neg, this._.c),
]
for i, e in enumerate(exprs):
    show("expr %d repr" % i, lambda: repr(e))
    show("expr %d str" % i, lambda: str(e))

# evaluation and misc behaviour of Path is untouched
ctx = {"a": {"b": {"c": [7]}}, "x": [3, 4], "_": {"c": 5, "_": {"d": 6}}, 0: "zero"}
for label, p in [("this", this), ("a", this.a), ("a.b.c[0]", this.a.b.c[0]), ("x[1]", this.x[1]), ("x[-1]", this.x[-1]), ("_.c", this._.c),
                 ("int key", this[0]), ("missing", this.nope), ("bad index", this.x[9]), ("bad type", this.x["k"]), ("obj_", obj_), ("obj_.a", obj_.a)]:
    show("call %s" % label, lambda: p(ctx))
    show("call %s extra args" % label, lambda: p(ctx, 1, 2))
    show("getfield %s" % label, lambda: p.__getfield__())
show("call none ctx", lambda: this.a(None))
show("call no args", lambda: this.a())

for label, p in [("this", this), ("a.b", this.a.b), ("idx", this["k"][3])]:
    show("getstate %s" % label, lambda: sorted(p.__getstate__().items(), key=lambda kv: kv[0]) if False else sorted((k, str(v)) for k, v in p.__getstate__().items()))
    show("pickle %s" % label, lambda: repr(pickle.loads(pickle.dumps(p))))
    show("pickle str %s" % label, lambda: str(pickle.loads(pickle.dumps(p))))
show("type str", lambda: type(this.__str__()).__name__)
show("hasattr class __str__", lambda: "__str__" in Path.__dict__)
show("hasattr class __repr__", lambda: "__repr__" in Path.__dict__)
show("path2 has own __str__", lambda: "__str__" in Path2.__dict__)
