#!/usr/bin/env python
"""C18 twin z1: observation script for Struct/Sequence parse+build loops.

usage: equiv.py <repo root>
Prints a deterministic transcript (results, bytes, sizes, stream positions, exception
types/paths/messages, callback order, compiled behaviour).  Output on the reference tree and
on the refactored tree must be byte-identical.
"""
import io
import sys

root = sys.argv[1]
sys.path.insert(0, root)

from construct import *  # noqa: E402

LINE = [0]


def out(*parts):
    LINE[0] += 1
    print("%04d" % LINE[0], *parts)


def show(v):
    """Deterministic rendering of parse/build results."""
    if isinstance(v, dict):
        return "{" + ", ".join("%s=%s" % (k, show(x)) for k, x in dict.items(v) if not str(k).startswith("_")) + "}"
    if isinstance(v, (list, tuple)):
        return "[" + ", ".join(show(x) for x in v) + "]"
    if callable(v):
        return "<callable>"
    return repr(v)


def describe(e):
    if isinstance(e, ConstructError):
        return "%s path=%r msg=%r" % (type(e).__name__, e.path, str(e))
    return "%s msg=%r" % (type(e).__name__, str(e))


def try_parse(label, con, data, **kw):
    stream = io.BytesIO(data)
    try:
        res = con.parse_stream(stream, **kw)
        out("parse", label, data.hex(), "->", show(res), "pos=%d" % stream.tell())
    except Exception as e:
        out("parse", label, data.hex(), "!!", describe(e), "pos=%d" % stream.tell())


def try_build(label, con, obj, **kw):
    stream = io.BytesIO()
    try:
        con.build_stream(obj, stream, **kw)
        out("build", label, show(obj), "->", stream.getvalue().hex(), "pos=%d" % stream.tell())
    except Exception as e:
        out("build", label, show(obj), "!!", describe(e), "pos=%d written=%s" % (stream.tell(), stream.getvalue().hex()))


def try_sizeof(label, con, **kw):
    try:
        out("sizeof", label, "->", con.sizeof(**kw))
    except Exception as e:
        out("sizeof", label, "!!", describe(e))


LOG = []


def logged(tag, value=None):
    def f(ctx):
        LOG.append("%s(%s)" % (tag, ",".join(sorted(k for k in dict.keys(ctx) if not k.startswith("_")))))
        return value(ctx) if callable(value) else value
    return f


def hook(tag):
    def f(obj, ctx):
        LOG.append("parsed:%s=%s" % (tag, show(obj)))
    return f


def flush(label):
    out("callbacks", label, " ".join(LOG) if LOG else "-")
    del LOG[:]


# ---------------------------------------------------------------------------------------------
# shapes
# ---------------------------------------------------------------------------------------------
inner = Struct(
    "x" / Int16ub,
    Const(b"\xee"),
    "y" / Int8ub * hook("y"),
    "twice" / Computed(logged("twice", lambda ctx: ctx.y * 2)),
)
record = Struct(
    "tag" / Byte,
    Padding(1),
    "in" / inner * hook("in"),
    "stop" / StopIf(logged("stop?", lambda ctx: ctx.tag == 0xFF)),
    "n" / Rebuild(Byte, logged("len", lambda ctx: len(ctx.items))),
    "items" / Array(this.n, "it" / Struct("k" / Byte, "v" / Int16ul)),
    "tail" / Default(Int16ub, 0xABCD),
    "opt" / If(this.tag == 2, "w" / Int32ub),
    Check(logged("check", lambda ctx: ctx.tag != 3)),
    "sel" / Switch(this.tag, {4: "four" / Int16ub, 5: "five" / Sequence("a" / Byte, "b" / Byte)}),
    Terminated,
)
seq = Sequence(
    "a" / Byte,
    Const(b"Q"),
    "b" / Int16ub * hook("b"),
    StopIf(logged("seqstop?", lambda ctx: ctx.a == 9)),
    "c" / Sequence(Byte, "d" / Bytes(this._.a), Computed(logged("inner", lambda ctx: ctx._.b + 1))),
    "e" / Computed(logged("e", lambda ctx: ctx.a + ctx.b)),
    Pass,
    "f" / Prefixed(Byte, Struct("g" / Byte, "h" / Int16ub)),
)
mixed = Struct(
    "hdr" / Sequence("m" / Byte, "s" / Struct("p" / Byte, "q" / FixedSized(3, Struct("r" / Int16ub, Padding(1))))),
    "body" / Struct(),
    "rest" / Sequence(),
    "last" / Struct(Pass, "z" / Byte, StopIf(True), "never" / Int32ub),
)


def enc_record(tag, n=1):
    data = bytes([tag, 0]) + b"\x01\x02\xee\x07"
    if tag == 0xFF:
        return data
    data += bytes([n]) + b"".join(bytes([i, i, 0]) for i in range(n)) + b"\x12\x34"
    if tag == 2:
        data += b"\x00\x00\x00\x2a"
    if tag == 4:
        data += b"\x00\x04"
    if tag == 5:
        data += b"\x05\x06"
    return data


# ---------------------------------------------------------------------------------------------
# parsing: valid inputs, trailing garbage, every truncation offset
# ---------------------------------------------------------------------------------------------
for tag in (1, 2, 3, 4, 5, 0xFF):
    data = enc_record(tag, n=2)
    try_parse("record tag=%d" % tag, record, data)
    flush("record tag=%d" % tag)
    try_parse("record tag=%d +junk" % tag, record, data + b"\x99")
    flush("record tag=%d +junk" % tag)

for tag in (2, 5):
    data = enc_record(tag, n=2)
    for cut in range(len(data)):
        try_parse("record tag=%d cut=%d" % (tag, cut), record, data[:cut])
    flush("record tag=%d cuts" % tag)

try_parse("record bad const", record, b"\x01\x00\x01\x02\xef\x07\x00\x12\x34")
flush("record bad const")

seqdata = b"\x02Q\x01\x00\x07AB\x03\x05\x00\x09"
try_parse("seq", seq, seqdata)
flush("seq")
for cut in range(len(seqdata)):
    try_parse("seq cut=%d" % cut, seq, seqdata[:cut])
flush("seq cuts")
try_parse("seq stop", seq, b"\x09Q\x00\x01rest")
flush("seq stop")
try_parse("seq short prefix", seq, b"\x00Q\x00\x00\x07\x02\x05\x00\x09")
flush("seq short prefix")

mixdata = b"\x01\x02\x00\x03\x00\x7f"
try_parse("mixed", mixed, mixdata)
for cut in range(len(mixdata)):
    try_parse("mixed cut=%d" % cut, mixed, mixdata[:cut])

# ---------------------------------------------------------------------------------------------
# building: valid objects, every member made unbuildable / missing in turn
# ---------------------------------------------------------------------------------------------
def recobj(tag, **over):
    obj = dict(tag=tag, stop=None, n=None, items=[dict(k=1, v=2), dict(k=3, v=4)], tail=None, opt=None, sel=None)
    obj["in"] = dict(x=0x0102, y=7)
    if tag == 2:
        obj["opt"] = 42
    if tag == 4:
        obj["sel"] = 4
    if tag == 5:
        obj["sel"] = [5, 6]
    obj.update(over)
    return obj


for tag in (1, 2, 3, 4, 5, 0xFF):
    try_build("record tag=%d" % tag, record, recobj(tag))
    flush("build record tag=%d" % tag)

try_build("record tag unbuildable", record, recobj(300))
try_build("record in.x unbuildable", record, recobj(1, **{"in": dict(x=-1, y=7)}))
try_build("record in.y unbuildable", record, recobj(1, **{"in": dict(x=1, y=999)}))
try_build("record in.y missing", record, recobj(1, **{"in": dict(x=1)}))
try_build("record items[1].v unbuildable", record, recobj(1, items=[dict(k=1, v=2), dict(k=3, v=-4)]))
try_build("record items[0].k missing", record, recobj(1, items=[dict(v=2)]))
try_build("record tail unbuildable", record, recobj(1, tail=70000))
try_build("record opt unbuildable", record, recobj(2, opt=-5))
try_build("record sel four unbuildable", record, recobj(4, sel=-1))
try_build("record sel five.b unbuildable", record, recobj(5, sel=[5, 600]))
try_build("record sel five short", record, recobj(5, sel=[5]))
flush("build record failures")
for missing in ("tag", "in", "items", "tail", "sel"):
    obj = recobj(1)
    del obj[missing]
    try_build("record without %s" % missing, record, obj)
flush("build record missing keys")
try_build("record from None", record, None)
try_build("inner from None", Struct("a" / Default(Byte, 5), Pass, "b" / Computed(7)), None)
try_build("struct returns context", Struct("a" / Byte, "b" / Rebuild(Byte, this.a + 1), Const(b"!")), dict(a=1))

try_build("seq", seq, [2, None, 0x100, None, [7, b"AB", None], None, None, dict(g=5, h=9)])
flush("build seq")
try_build("seq stop", seq, [9, None, 1, None, [7, b"AB", None], None, None, dict(g=5, h=9)])
flush("build seq stop")
try_build("seq too short", seq, [2, None, 0x100])
try_build("seq b unbuildable", seq, [2, None, -1, None, [7, b"AB", None], None, None, dict(g=5, h=9)])
try_build("seq c.d wrong length", seq, [2, None, 1, None, [7, b"ABC", None], None, None, dict(g=5, h=9)])
try_build("seq f.h unbuildable", seq, [2, None, 1, None, [7, b"AB", None], None, None, dict(g=5, h=-9)])
try_build("seq from None", Sequence("a" / Default(Byte, 1), Pass, "b" / Computed(this.a)), None)
flush("build seq failures")

try_build("mixed", mixed, dict(hdr=[1, dict(p=2, q=dict(r=3))], body={}, rest=[], last=dict(z=0x7f)))
try_build("mixed q.r unbuildable", mixed, dict(hdr=[1, dict(p=2, q=dict(r=-3))], body={}, rest=[], last=dict(z=0x7f)))
try_build("mixed last.z unbuildable", mixed, dict(hdr=[1, dict(p=2, q=dict(r=3))], body={}, rest=[], last=dict(z=-1)))
try_build("mixed hdr missing", mixed, dict(body={}, rest=[], last=dict(z=1)))

# return values of the build methods themselves (Struct returns its context, Sequence a list)
def raw_build(label, con, obj):
    ctx = Container(_parsing=False, _building=True, _sizing=False, outerkey=77)
    ctx._params = ctx
    stream = io.BytesIO()
    try:
        ret = con._build(obj, stream, ctx, "(raw)")
        out("rawbuild", label, "->", type(ret).__name__, show(ret), stream.getvalue().hex())
    except Exception as e:
        out("rawbuild", label, "!!", describe(e), stream.getvalue().hex())


raw_build("record tag=1", record, recobj(1))
raw_build("record tag=5", record, recobj(5))
raw_build("record tag=255", record, recobj(0xFF))
raw_build("record tag=2 bad opt", record, recobj(2, opt=-1))
raw_build("seq", seq, [2, None, 0x100, None, [7, b"AB", None], None, None, dict(g=5, h=9)])
raw_build("seq stop", seq, [9, None, 1, None, [7, b"AB", None], None, None, dict(g=5, h=9)])
raw_build("mixed", mixed, dict(hdr=[1, dict(p=2, q=dict(r=3))], body={}, rest=[], last=dict(z=0x7f)))
raw_build("anonymous members", Struct(Const(b"A"), "k" / Byte, Padding(2), "l" / Rebuild(Byte, this.k + this._.outerkey)), dict(k=1))
raw_build("anonymous sequence", Sequence(Const(b"A"), "k" / Byte, Padding(2), Rebuild(Byte, this.k + this._.outerkey)), [None, 1, None, None])
flush("rawbuild")

# ---------------------------------------------------------------------------------------------
# sizeof
# ---------------------------------------------------------------------------------------------
try_sizeof("inner", inner)
try_sizeof("record", record)
try_sizeof("record n=2 tag=4", record, n=2, tag=4)
try_sizeof("seq", seq)
try_sizeof("mixed", mixed)
try_sizeof("struct of arrays", Struct("a" / Byte, "b" / Array(this.cnt, "c" / Int16ub)), cnt=3)
try_sizeof("struct of arrays no ctx", Struct("a" / Byte, "b" / Array(this.cnt, "c" / Int16ub)))
try_sizeof("sequence greedy", Sequence("a" / Byte, "g" / GreedyBytes))
flush("sizeof")

# ---------------------------------------------------------------------------------------------
# compiled instances take the emitted code, not the loops; keep them in the transcript anyway
# ---------------------------------------------------------------------------------------------
plain = Struct("a" / Byte, "s" / Sequence("b" / Int16ub, Const(b"\x01"), "c" / Byte), StopIf(this.a == 0), "t" / Int16ul)
cplain = plain.compile()
for data in (b"\x05\x00\x02\x01\x03\x04\x00", b"\x00\x00\x02\x01\x03", b"\x05\x00\x02\x01", b""):
    try_parse("plain", plain, data)
    try_parse("plain compiled", cplain, data)
for obj in (dict(a=5, s=[2, None, 3], t=4), dict(a=0, s=[2, None, 3], t=4), dict(a=5, s=[2, None, 300], t=4), dict(a=5)):
    try_build("plain", plain, obj)
    try_build("plain compiled", cplain, obj)
try_sizeof("plain", plain)
try_sizeof("plain compiled", cplain)

out("done")
