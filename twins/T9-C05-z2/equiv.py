#!/usr/bin/env python
"""C05 twin z2: observation script for the length handling of FixedSized and Padded
(_parse / _build / _sizeof) in construct/core.py, and of everything layered on them
(Padding, PaddedString, Struct members, bit-level use, compiled code).

usage: equiv.py <repo root>

Prints deterministic observations: sizeof, built bytes, parse results, stream positions
after build / after parse with and without trailing data, exception type names and
messages, the order in which user callbacks (length lambdas, subcon hooks) are invoked,
and what compiled constructs do.  The output on the clean tree and on the refactored
tree must be byte-identical.
"""
import sys, io

root = sys.argv[1]
sys.path.insert(0, root)

from construct import *

LINE = [0]
CALLS = []


def out(*parts):
    LINE[0] += 1
    print("%04d" % LINE[0], *parts)


def section(title):
    out("=" * 10, title)


def logged(name, func):
    """A context lambda that records when it is evaluated and with which public keys."""
    def wrapper(ctx):
        keys = sorted(k for k in ctx.keys() if not k.startswith("_"))
        flags = "".join(c for c, k in (("P", "_parsing"), ("B", "_building"), ("S", "_sizing")) if ctx.get(k))
        CALLS.append("%s[%s|%s]" % (name, ",".join(keys), flags))
        return func(ctx)
    return wrapper


class Noisy(Construct):
    """A 1..n byte field that records when it is parsed / built / sized."""

    def __init__(self, name, width):
        super().__init__()
        self.tag = name
        self.width = width

    def _parse(self, stream, context, path):
        CALLS.append("%s.parse@%d" % (self.tag, stream.tell()))
        data = stream.read(self.width)
        if len(data) != self.width:
            raise StreamError("noisy short read", path=path)
        return data

    def _build(self, obj, stream, context, path):
        CALLS.append("%s.build@%d" % (self.tag, stream.tell()))
        stream.write(obj)
        return obj

    def _sizeof(self, context, path):
        CALLS.append("%s.sizeof" % (self.tag,))
        return self.width


def drain():
    got = list(CALLS)
    del CALLS[:]
    return got


TRAILER = b"\xee" * 6


def show(obj):
    """repr without memory addresses: lazies are resolved, lazy containers are listed."""
    if isinstance(obj, list):
        return "[" + ", ".join(show(x) for x in obj) + "]"
    if obj.__class__.__name__ == "LazyContainer":
        return "Lazy{" + ", ".join("%s: %s" % (k, show(v)) for k, v in obj.items()) + "}"
    if callable(obj) and not isinstance(obj, dict):
        return "<lazy -> %s>" % show(obj())
    return repr(obj)


def observe(label, con, ctx, values, datas=()):
    try:
        n = con.sizeof(**ctx)
        out(label, "| sizeof ->", repr(n), "| calls", drain())
    except Exception as e:
        out(label, "| sizeof RAISED", type(e).__name__, "|", str(e), "| calls", drain())
    for v in values:
        s = io.BytesIO(b"\x11\x22")
        s.seek(2)
        try:
            ret = con.build_stream(v, s, **ctx)
        except Exception as e:
            out(label, "| build", repr(v), "RAISED", type(e).__name__, "|", str(e), "| stream", s.getvalue().hex(), "pos", s.tell(), "| calls", drain())
            continue
        data = s.getvalue()[2:]
        out(label, "| build", repr(v), "->", data.hex(), "pos", s.tell(), "| calls", drain())
        datas = tuple(datas) + (data,)
    seen = set()
    for data in datas:
        if data in seen:
            continue
        seen.add(data)
        for variant, blob in (("exact", data), ("trailing", data + TRAILER), ("truncated", data[:-1])):
            s = io.BytesIO(b"\x99" + blob)
            s.seek(1)
            try:
                obj = con.parse_stream(s, **ctx)
                out(label, "| parse", variant, blob.hex(), "->", show(obj), "pos", s.tell(), "| calls", drain())
            except Exception as e:
                out(label, "| parse", variant, blob.hex(), "RAISED", type(e).__name__, "|", str(e), "pos", s.tell(), "| calls", drain())


# ----------------------------------------------------------------------------
section("FixedSized")
observe("FixedSized(4, Byte)", FixedSized(4, Byte), {}, [7, 256, None])
observe("FixedSized(0, Pass)", FixedSized(0, Pass), {}, [None])
observe("FixedSized(0, Byte)", FixedSized(0, Byte), {}, [7], [b"", b"\x01"])
observe("FixedSized(3, GreedyBytes)", FixedSized(3, GreedyBytes), {}, [b"", b"a", b"abc", b"abcd", u"ab", None])
observe("FixedSized(-1, Byte)", FixedSized(-1, Byte), {}, [7], [b"\x01\x02"])
observe("FixedSized(-255, GreedyBytes)", FixedSized(-255, GreedyBytes), {}, [b""], [b""])
observe("FixedSized(this.n, GreedyBytes) n=5", FixedSized(this.n, GreedyBytes), dict(n=5), [b"ab", b"abcdef"])
observe("FixedSized(this.n, GreedyBytes) n=0", FixedSized(this.n, GreedyBytes), dict(n=0), [b"", b"a"])
observe("FixedSized(this.n, GreedyBytes) n=-3", FixedSized(this.n, GreedyBytes), dict(n=-3), [b""], [b"abc"])
observe("FixedSized(this.n, GreedyBytes) missing", FixedSized(this.n, GreedyBytes), {}, [b"ab"], [b"ab"])
observe("FixedSized(this._.n, ..) missing parent", FixedSized(this._.n, GreedyBytes), {}, [b"ab"], [b"ab"])
observe("FixedSized(lambda ctx: ctx.n) missing", FixedSized(lambda ctx: ctx.n, GreedyBytes), {}, [b"ab"], [b"ab"])
observe("FixedSized(lambda ctx: ctx.n) n=2", FixedSized(lambda ctx: ctx.n, GreedyBytes), dict(n=2), [b"ab", b"a"])
observe("FixedSized(lambda: 1/0)", FixedSized(lambda ctx: 1 // 0, GreedyBytes), {}, [b"ab"], [b"ab"])
observe("FixedSized(lambda: ValueError)", FixedSized(lambda ctx: int("x"), GreedyBytes), {}, [b"ab"], [b"ab"])
observe("FixedSized(lambda: None)", FixedSized(lambda ctx: None, GreedyBytes), {}, [b"ab"], [b"ab"])
observe("FixedSized(2.0, GreedyBytes)", FixedSized(2.0, GreedyBytes), {}, [b"ab"], [b"ab"])
observe("FixedSized(True, Byte)", FixedSized(True, Byte), {}, [3])
observe("FixedSized(6, CString)", FixedSized(6, CString("utf8")), {}, [u"abc", u"abcdef"])
observe("FixedSized(4, VarInt)", FixedSized(4, VarInt), {}, [1, 300, 2 ** 40])
observe("FixedSized(2, Noisy) logged length", FixedSized(logged("len", lambda c: 3), Noisy("N", 2)), dict(k=1), [b"hi", b"hey!"])
observe("FixedSized(len, Noisy) order n=2", FixedSized(logged("len", lambda c: c.n), Noisy("N", 1)), dict(n=2), [b"q"])
observe("FixedSized(len, Noisy) order missing", FixedSized(logged("len", lambda c: c["n"]), Noisy("N", 1)), {}, [b"q"], [b"qq"])
observe("FixedSized(len<0, Noisy) order", FixedSized(logged("len", lambda c: -2), Noisy("N", 1)), {}, [b"q"], [b"qq"])
observe("FixedSized(3, FixedSized(2, GreedyBytes))", FixedSized(3, FixedSized(2, GreedyBytes)), {}, [b"a", b"abc"])
observe("FixedSized(2, FixedSized(3, GreedyBytes))", FixedSized(2, FixedSized(3, GreedyBytes)), {}, [b"a"], [b"abc"])
observe("FixedSized(4, Struct(Tell, Byte, Tell))", FixedSized(4, Struct("t1" / Tell, "b" / Byte, "t2" / Tell)), {}, [dict(b=1)])

# ----------------------------------------------------------------------------
section("Padded / Padding")
observe("Padded(4, Byte)", Padded(4, Byte), {}, [7, 256])
observe("Padded(4, Byte, pattern=x)", Padded(4, Byte, pattern=b"x"), {}, [7])
observe("Padded(1, Int16ub)", Padded(1, Int16ub), {}, [7], [b"\x00\x07"])
observe("Padded(2, VarInt)", Padded(2, VarInt), {}, [1, 300, 70000], [b"\xf0\xa2\x04"])
observe("Padded(0, Pass)", Padded(0, Pass), {}, [None])
observe("Padded(-1, Pass)", Padded(-1, Pass), {}, [None], [b"ab"])
observe("Padded(this.n, Byte) n=3", Padded(this.n, Byte), dict(n=3), [9])
observe("Padded(this.n, Byte) n=0", Padded(this.n, Byte), dict(n=0), [9], [b"\x09"])
observe("Padded(this.n, Byte) n=-2", Padded(this.n, Byte), dict(n=-2), [9], [b"\x09"])
observe("Padded(this.n, Byte) missing", Padded(this.n, Byte), {}, [9], [b"\x09\x00"])
observe("Padded(lambda ctx: ctx.n) missing", Padded(lambda ctx: ctx.n, Byte), {}, [9], [b"\x09\x00"])
observe("Padded(lambda: 1/0)", Padded(lambda ctx: 1 // 0, Byte), {}, [9], [b"\x09\x00"])
observe("Padded(3, GreedyBytes)", Padded(3, GreedyBytes), {}, [b"a", b"abcd"], [b"abcd"])
observe("Padded(len, Noisy) order", Padded(logged("len", lambda c: 3), Noisy("N", 2)), dict(k=1), [b"hi"])
observe("Padded(len, Noisy) overshoot", Padded(logged("len", lambda c: 1), Noisy("N", 2)), {}, [b"hi"], [b"hi"])
observe("Padded(len<0, Noisy) order", Padded(logged("len", lambda c: -1), Noisy("N", 2)), {}, [b"hi"], [b"hi"])
observe("Padded(len missing, Noisy) order", Padded(logged("len", lambda c: c.zz), Noisy("N", 2)), {}, [b"hi"], [b"hi"])
observe("Padding(3)", Padding(3), {}, [None, b"ignored"], [b"abc"])
observe("Padding(3, pattern=!)", Padding(3, pattern=b"!"), {}, [None])
observe("Padding(this.n) n=2", Padding(this.n), dict(n=2), [None])
observe("Padding(this.n) missing", Padding(this.n), {}, [None], [b"ab"])
observe("Padding(-1)", Padding(-1), {}, [None], [b"ab"])
for bad in (b"", b"ab", u"x", None, 0):
    for name, factory in (("Padded", lambda p: Padded(2, Byte, pattern=p)), ("Padding", lambda p: Padding(2, pattern=p))):
        try:
            factory(bad)
            out(name, "pattern", repr(bad), "accepted")
        except Exception as e:
            out(name, "pattern", repr(bad), "RAISED", type(e).__name__, "|", str(e))

# ----------------------------------------------------------------------------
section("macros and containers built from them")
observe("PaddedString(6, utf8)", PaddedString(6, "utf8"), {}, [u"", u"abc", u"abcdef", u"toolong", 5])
observe("PaddedString(6, utf16)", PaddedString(6, "utf16"), {}, [u"a"])
observe("PaddedString(this.n, ascii) n=4", PaddedString(this.n, "ascii"), dict(n=4), [u"ab"])
observe("PaddedString(this.n, ascii) missing", PaddedString(this.n, "ascii"), {}, [u"ab"], [b"ab\x00\x00"])
st = Struct("n" / Byte, "a" / FixedSized(this.n, GreedyBytes), "b" / Padded(this.n, Byte), "t" / Tell)
observe("Struct(n, FixedSized(n), Padded(n), Tell)", st, {}, [dict(n=2, a=b"x", b=1), dict(n=0, a=b"", b=1), dict(n=1, a=b"xy", b=1)])
observe("same Struct with n from outside", Struct("a" / FixedSized(this._.n, GreedyBytes), "b" / Padded(this._.n, Byte)), dict(n=3), [dict(a=b"x", b=1)])
observe("Array(2, FixedSized(this.n, GreedyBytes)) n=2", Array(2, FixedSized(this.n, GreedyBytes)), dict(n=2), [[b"a", b"bc"]])
observe("Array(this.c, Padded(2, Byte)) c=3", Array(this.c, Padded(2, Byte)), dict(c=3), [[1, 2, 3]])
observe("Aligned(4, FixedSized(3, GreedyBytes))", Aligned(4, FixedSized(3, GreedyBytes)), {}, [b"ab"])
observe("Prefixed(Byte, Padded(3, Byte))", Prefixed(Byte, Padded(3, Byte)), {}, [5])
observe("Prefixed(Byte, FixedSized(3, GreedyBytes))", Prefixed(Byte, FixedSized(3, GreedyBytes)), {}, [b"a"])
observe("BitStruct(a, Padding(3), b)", BitStruct("a" / BitsInteger(1), Padding(3), "b" / Nibble), {}, [dict(a=1, b=5)])
observe("Bitwise(Padded(8, Nibble))", Bitwise(Padded(8, Nibble)), {}, [9])
observe("Bitwise(FixedSized(this.n, GreedyBytes)) n=8", Bitwise(FixedSized(this.n, GreedyBytes)), dict(n=8), [b"\x01\x00\x01"])
observe("Switch(t: FixedSized|Padded) t=1", Switch(this.t, {1: FixedSized(2, GreedyBytes), 2: Padded(3, Byte)}), dict(t=1), [b"z"])
observe("Switch(t: FixedSized|Padded) t=2", Switch(this.t, {1: FixedSized(2, GreedyBytes), 2: Padded(3, Byte)}), dict(t=2), [4])
observe("IfThenElse(flag, FixedSized, Padded) flag=0", IfThenElse(this.flag, FixedSized(2, GreedyBytes), Padded(3, Byte)), dict(flag=0), [4])
observe("RawCopy(FixedSized(3, GreedyBytes))", RawCopy(FixedSized(3, GreedyBytes)), {}, [dict(value=b"a")])
observe("LazyStruct(FixedSized(this.n), Byte) n=2", LazyStruct("a" / FixedSized(this._.n, GreedyBytes), "b" / Byte), dict(n=2), [dict(a=b"x", b=1)])
observe("Lazy(Padded(3, Byte))", Sequence(Lazy(Padded(3, Byte)), Byte), {}, [[1, 2]])

# ----------------------------------------------------------------------------
section("compiled")
for label, con, ctx, values in [
    ("FixedSized(4, Byte)", FixedSized(4, Byte), {}, [7]),
    ("FixedSized(3, GreedyBytes)", FixedSized(3, GreedyBytes), {}, [b"a", b"abcd"]),
    ("FixedSized(this.n, GreedyBytes) n=2", FixedSized(this.n, GreedyBytes), dict(n=2), [b"a"]),
    ("FixedSized(-1, Byte)", FixedSized(-1, Byte), {}, [7]),
    ("Padded(4, Byte, pattern=x)", Padded(4, Byte, pattern=b"x"), {}, [7]),
    ("Padded(this.n, Byte) n=3", Padded(this.n, Byte), dict(n=3), [7]),
    ("Padded(2, VarInt)", Padded(2, VarInt), {}, [1]),
    ("Padding(3)", Padding(3), {}, [None]),
    ("PaddedString(6, utf8)", PaddedString(6, "utf8"), {}, [u"abc"]),
    ("Struct(n, FixedSized(n), Padded(4))", Struct("n" / Byte, "a" / FixedSized(this.n, GreedyBytes), "b" / Padded(4, Byte)), {}, [dict(n=2, a=b"x", b=1)]),
]:
    try:
        c = con.compile()
    except Exception as e:
        out(label, "| compile RAISED", type(e).__name__, "|", str(e))
        continue
    text = [l.strip() for l in c.source.splitlines() if "restream(" in l and "def " not in l or "io.read((" in l or "io.write(b" in l]
    out(label, "| emitted", [t.replace(str(id(con)), "ID") for t in text if "linked" not in t][:3])
    try:
        out(label, "| compiled sizeof", c.sizeof(**ctx))
    except Exception as e:
        out(label, "| compiled sizeof RAISED", type(e).__name__)
    for v in values:
        try:
            data = c.build(v, **ctx)
            out(label, "| compiled build", repr(v), "->", data.hex())
        except Exception as e:
            out(label, "| compiled build", repr(v), "RAISED", type(e).__name__, "|", str(e))
            continue
        s = io.BytesIO(data + TRAILER)
        try:
            obj = c.parse_stream(s, **ctx)
            out(label, "| compiled parse ->", show(obj), "pos", s.tell())
        except Exception as e:
            out(label, "| compiled parse RAISED", type(e).__name__, "pos", s.tell())

# ----------------------------------------------------------------------------
section("sizeof against measured advance, swept")
for n in range(0, 7):
    for con_label, con in (("FixedSized(this.n, GreedyBytes)", FixedSized(this.n, GreedyBytes)), ("Padded(this.n, VarInt)", Padded(this.n, VarInt))):
        for v in ((b"", b"ab", b"abcdef") if "Fixed" in con_label else (0, 200, 70000)):
            size = con.sizeof(n=n)
            s = io.BytesIO()
            try:
                con.build_stream(v, s, n=n)
                adv = s.tell()
                s2 = io.BytesIO(s.getvalue() + TRAILER)
                con.parse_stream(s2, n=n)
                out(con_label, "n=%d" % n, repr(v), "sizeof", size, "built", adv, "parsed", s2.tell(), "agree", size == adv == s2.tell())
            except Exception as e:
                out(con_label, "n=%d" % n, repr(v), "sizeof", size, "build/parse RAISED", type(e).__name__, "|", str(e))

out("done")
