import sys, io
sys.path.insert(0, sys.argv[1])
from construct import *
from construct.core import LazyListContainer

N = [0]
def out(*a):
    N[0] += 1
    print("%03d" % N[0], *a)

def attempt(label, f):
    try:
        r = f()
    except Exception as e:
        out(label, "EXC", type(e).__name__, str(e).replace("\n", " | "))
    else:
        out(label, "OK", repr(r))

LOG = []
def logged(tag, value):
    def f(ctx):
        LOG.append((tag, sorted(k for k in ctx.keys() if not k.startswith("_"))))
        return value
    return f

class Raiser:
    def __init__(self, exc): self.exc = exc
    def __call__(self, ctx): raise self.exc

class CallableInt(int):
    def __call__(self, ctx):
        LOG.append(("CallableInt", int(self)))
        return int(self) + 1

data = bytes(range(1, 17))

# ---- parsing with many kinds of count
counts = [
    ("int0", 0), ("int3", 3), ("int16", 16), ("int17", 17), ("neg", -1), ("true", True),
    ("float2", 2.0), ("floatneg", -0.5), ("none", None), ("str", "3"),
    ("lam2", lambda ctx: 2), ("lamneg", lambda ctx: -4), ("lamfloat", lambda ctx: 3.0),
    ("lamnone", lambda ctx: None), ("lamstr", lambda ctx: "x"),
    ("this_missing", this.n), ("keyerr", Raiser(KeyError("kk"))), ("valerr", Raiser(ValueError("vv"))),
    ("attrerr", Raiser(AttributeError("aa"))), ("callint", CallableInt(2)), ("logged", logged("L", 4)),
]
for name, c in counts:
    d = LazyArray(c, Byte)
    def p():
        s = io.BytesIO(data)
        r = d._parsereport(s, Container(_parsing=True, _building=False, _sizing=False, _params=Container()), "(p)")
        pos = s.tell()
        return (type(r).__name__, len(r), repr(r), list(r), repr(r), pos, s.tell())
    attempt("parse %s" % name, p)
    attempt("parse2 %s" % name, lambda: list(d.parse(data)))
    def b():
        s = io.BytesIO()
        r = d._build([7, 8, 9][:3], s, Container(_parsing=False, _building=True, _sizing=False, _params=Container()), "(b)")
        return (type(r).__name__, list(r), s.getvalue(), s.tell())
    attempt("build3 %s" % name, b)
    attempt("build2 %s" % name, lambda: d.build([1, 2]))
    attempt("build0 %s" % name, lambda: d.build([]))
    attempt("buildnone %s" % name, lambda: d.build(None))
    attempt("sizeof %s" % name, lambda: d.sizeof())
out("LOG", LOG)
del LOG[:]

# ---- variable-size element (forces real parsing), stream positions and caching
d = LazyArray(lambda ctx: ctx._params.k, VarInt)
raw = b"\x01\x81\x01\x02\x83\x01\xff"
for k in (0, 1, 4, 5):
    def p():
        s = io.BytesIO(raw)
        ctx = Container(_parsing=True, _building=False, _sizing=False, _params=Container(k=k))
        r = d._parsereport(s, ctx, "(v)")
        return (repr(r), s.tell(), list(r), repr(r), s.tell(), sorted(r._offsets.items()), r._count)
    attempt("varint k=%d" % k, p)
    attempt("varint kw k=%d" % k, lambda: list(d.parse(raw, k=k)))
    attempt("varint build k=%d" % k, lambda: d.build([1, 129, 2, 131][:k], k=k))
    attempt("varint sizeof k=%d" % k, lambda: d.sizeof(k=k))

# ---- inside a Struct, count taken from the context; order of callbacks
st = Struct(
    "n" / Byte,
    "items" / LazyArray(logged("items", 3), Bytes(2)),
    "m" / Computed(logged("m", 5)),
    "more" / LazyArray(this.n, Byte),
    "tail" / Tell,
)
blob = b"\x02" + b"aabbcc" + b"\x09\x08" + b"zz"
def p():
    s = io.BytesIO(blob)
    r = st.parse_stream(s)
    return (r.n, list(r["items"]), r.m, list(r.more), r.tail, s.tell(), r["items"][::2], r.more[-1:] if False else r.more[1])
attempt("struct parse", p)
out("LOG", LOG); del LOG[:]
attempt("struct build", lambda: st.build(dict(n=2, items=[b"aa", b"bb", b"cc"], more=[9, 8])))
out("LOG", LOG); del LOG[:]
attempt("struct build short", lambda: st.build(dict(n=2, items=[b"aa", b"bb"], more=[9, 8])))
attempt("struct build more", lambda: st.build(dict(n=3, items=[b"aa", b"bb", b"cc"], more=[9, 8])))
attempt("struct build negative", lambda: Struct("n" / Int8sb, "x" / LazyArray(this.n, Byte)).build(dict(n=-1, x=[])))
attempt("struct parse negative", lambda: Struct("n" / Int8sb, "x" / LazyArray(this.n, Byte)).parse(b"\xff"))
attempt("struct parse short", lambda: st.parse(b"\x05aabbcc\x01"))
attempt("struct sizeof", lambda: st.sizeof())
attempt("struct sizeof n", lambda: Struct("x" / LazyArray(this._.n, Int16ub)).sizeof(n=3))
out("LOG", LOG); del LOG[:]

# ---- generators / non-list objects when building, _index left in the context
def b():
    s = io.BytesIO()
    ctx = Container(_parsing=False, _building=True, _sizing=False, _params=Container(), _index=99)
    r = LazyArray(logged("cnt", 2), Byte)._build((5, 6), s, ctx, "(g)")
    return (list(r), s.getvalue(), ctx._index)
attempt("build tuple", b)
attempt("build gen", lambda: LazyArray(2, Byte).build(x for x in (1, 2)))
attempt("build bytes", lambda: LazyArray(3, Byte).build(b"\x01\x02\x03"))
attempt("build str elem", lambda: LazyArray(1, Byte).build(["a"]))
out("LOG", LOG); del LOG[:]

# ---- non seekable stream, and count evaluated before the stream is touched
class NoTell(io.RawIOBase):
    def tell(self): raise OSError("no tell")
    def read(self, n=-1): return b"\x00" * n
attempt("notell ok count", lambda: LazyArray(2, Byte).parse_stream(NoTell()))
attempt("notell neg count", lambda: LazyArray(-2, Byte).parse_stream(NoTell()))
attempt("notell raising count", lambda: LazyArray(Raiser(ZeroDivisionError("z")), Byte).parse_stream(NoTell()))
attempt("compile", lambda: LazyArray(2, Byte).compile())
attempt("nested", lambda: [list(x) for x in LazyArray(2, LazyArray(lambda c: 2, Byte)).parse(b"\x01\x02\x03\x04")])
attempt("nested build", lambda: LazyArray(2, LazyArray(lambda c: 2, Byte)).build([[1, 2], [3, 4]]))
attempt("compiled parse", lambda: list(LazyArray(lambda c: 2, Byte).compile().parse(b"\x01\x02\x03")))
attempt("compiled build", lambda: LazyArray(lambda c: 2, Byte).compile().build([1, 2]))
attempt("compiled struct", lambda: list(Struct("n" / Byte, "x" / LazyArray(this.n, Byte)).compile().parse(b"\x02\x07\x08").x))
