#!/usr/bin/env python
"""equiv.py <repo root>

Deterministic observations of GreedyRange and Peek (and things built on them:
Union, Optional-like lookahead, Sequence lookahead) at top level and inside
delimited regions: parse results, stream positions, _index left in the context,
exception type names, user-callback order, compiled-parser behaviour, behaviour on
streams that cannot seek/tell.  Output must be byte-identical before/after a
behaviour-preserving refactoring.
"""
import sys, io, itertools

root = sys.argv[1]
sys.path.insert(0, root)

from construct import *
from construct.core import ExplicitError

N = [0]


def show(label, fn):
    N[0] += 1
    try:
        r = fn()
        print("%03d %s -> %r" % (N[0], label, r))
    except Exception as e:
        print("%03d %s !! %s" % (N[0], label, type(e).__name__))


def parse_pos(d, data, **kw):
    """parse from a stream, return (result, final position, bytes left)"""
    s = io.BytesIO(data)
    r = d.parse_stream(s, **kw)
    return r, s.tell(), s.read()


calls = []


def rec(tag):
    def f(obj, ctx):
        calls.append((tag, obj, ctx.get("_index", None)))
    return f


def raiser(exc):
    def f(ctx):
        raise exc
    return f


# ---------------------------------------------------------------- GreedyRange, bare
elements = [
    ("Byte", Byte),
    ("Int16ub", Int16ub),
    ("Int24ub", Int24ub),
    ("Bytes2", Bytes(2)),
    ("Struct(a,b16)", Struct("a" / Byte, "b" / Int16ub)),
    ("Const(AB)", Const(b"AB")),
    ("OneOf", OneOf(Byte, [65, 66, 67])),
    ("Prefixed(Byte,GreedyBytes)", Prefixed(Byte, GreedyBytes)),
    ("CString", CString("ascii")),
    ("FixedSized(3,GreedyRange(Int16ub))", FixedSized(3, GreedyRange(Int16ub))),
]
datas = [b"", b"A", b"AB", b"ABC", b"ABAB\x00", b"\x02AB\x01C\x05xy", b"ABCDEFG", b"ab\x00cd\x00ef"]
for (en, el), data in itertools.product(elements, datas):
    for discard in (False, True):
        d = GreedyRange(el, discard=discard)
        show("GreedyRange(%s,discard=%d) %r" % (en, discard, data), lambda: parse_pos(d, data))

# ---------------------------------------------------------------- _index left behind, parsed hooks order
for data in [b"", b"\x01", b"\x01\x02\x03", b"\x01\x02\x03\x04\x05"]:
    del calls[:]
    d = Struct(
        "items" / GreedyRange(Struct("i" / Computed(this._index), "v" / (Int16ub * rec("elem")))),
        "after" / Computed(lambda ctx: ctx._index),
        "pos" / Tell,
        "rest" / GreedyBytes,
    )
    show("index/hook %r" % data, lambda: (parse_pos(d, data), list(calls)))

# ---------------------------------------------------------------- StopIf / Error / foreign exceptions inside GreedyRange
stopper = Struct("v" / Byte, StopIf(this.v == 0), "w" / Byte)
for data in [b"", b"\x01\x02\x03\x04", b"\x01\x02\x00\x09\x09", b"\x01\x02\x03", b"\x00", b"\x01\x02\x05\x06\x00"]:
    d = Struct("r" / GreedyRange(stopper), "idx" / Computed(this._index), "pos" / Tell, "rest" / GreedyBytes)
    show("StopIf in GreedyRange %r" % data, lambda: parse_pos(d, data))
    d2 = GreedyRange(FocusedSeq("v", "v" / Byte, StopIf(this.v == 0), "w" / Byte))
    show("StopIf(seq) in GreedyRange %r" % data, lambda: parse_pos(d2, data))

exploding = Struct("v" / Byte, "boom" / If(this.v == 9, Error))
checking = Struct("v" / Byte, Check(this.v != 9))
keyerr = Struct("v" / Byte, "k" / If(this.v == 9, Computed(raiser(KeyError("nope")))))
zerodiv = Struct("v" / Byte, "k" / Computed(lambda ctx: 10 // (ctx.v - 9)))
for data in [b"\x01\x02\x03", b"\x01\x09\x03", b"\x09", b"\x01\x02\x09"]:
    for nm, el in [("Error", exploding), ("Check", checking), ("KeyError", keyerr), ("ZeroDiv", zerodiv)]:
        d = Struct("r" / GreedyRange(el), "idx" / Computed(this._index), "pos" / Tell, "rest" / GreedyBytes)
        show("%s in GreedyRange %r" % (nm, data), lambda: parse_pos(d, data))

# ---------------------------------------------------------------- Peek, bare and in sequences
peeked = [
    ("Byte", Byte),
    ("Int16ub", Int16ub),
    ("Int32ub", Int32ub),
    ("Const(AB)", Const(b"AB")),
    ("GreedyBytes", GreedyBytes),
    ("GreedyRange(Int16ub)", GreedyRange(Int16ub)),
    ("Error", Error),
    ("Check(False)", Check(False)),
    ("KeyError", Computed(raiser(KeyError("k")))),
    ("Terminated", Terminated),
    ("Prefixed(Byte,GreedyBytes)", Prefixed(Byte, GreedyBytes)),
    ("NullTerminated(GreedyBytes)", NullTerminated(GreedyBytes)),
    ("Peek(Int16ub)", Peek(Int16ub)),
]
for (pn, pc), data in itertools.product(peeked, [b"", b"A", b"AB", b"\x02ABC", b"AB\x00CD"]):
    d = Sequence(Peek(pc), Tell, GreedyBytes)
    show("Peek(%s) %r" % (pn, data), lambda: parse_pos(d, data))
    show("Peek(%s) bare %r" % (pn, data), lambda: parse_pos(Peek(pc), data))

del calls[:]
d = Struct("p" / Peek(Int16ub * rec("peek16")), "q" / Peek(Int32ub * rec("peek32")), "b" / (Byte * rec("byte")))
show("Peek hooks", lambda: (parse_pos(d, b"\x01\x02\x03"), list(calls)))
show("Peek build", lambda: Struct("p" / Peek(Byte), "b" / Byte).build(dict(b=7)))
show("Peek sizeof", lambda: Peek(Int32ub).sizeof())
show("GreedyRange sizeof", lambda: GreedyRange(Byte).sizeof())
show("GreedyRange build", lambda: GreedyRange(Int16ub).build([1, 2, 3]))
show("GreedyRange build discard", lambda: GreedyRange(Int16ub, discard=True).build([1, 2, 3]))

# ---------------------------------------------------------------- inside delimited regions, at several starting offsets
body = Struct(
    "t0" / Tell,
    "look" / Peek(Int16ub),
    "look4" / Peek(Int32ub),
    "t1" / Tell,
    "items" / GreedyRange(Int16ub),
    "idx" / Computed(this._index),
    "t2" / Tell,
    "odd" / GreedyBytes,
    "t3" / Tell,
)
regions = [
    ("Prefixed(Byte)", lambda b: Prefixed(Byte, b), lambda p: bytes([len(p)]) + p),
    ("Prefixed(Int16ub,incl)", lambda b: Prefixed(Int16ub, b, includelength=True), lambda p: (len(p) + 2).to_bytes(2, "big") + p),
    ("FixedSized(len)", lambda b: FixedSized(this._.n, b), lambda p: p),
    ("NullTerminated(FF)", lambda b: NullTerminated(b, term=b"\xff"), lambda p: p + b"\xff"),
    ("NullTerminated(FF,consume=0,include=1)", lambda b: NullTerminated(b, term=b"\xff", consume=False, include=True), lambda p: p + b"\xff"),
    ("NullStripped(EE)", lambda b: FixedSized(this._.n + 3, NullStripped(b, pad=b"\xee")), lambda p: p + b"\xee\xee\xee"),
    ("ProcessXor(0x20)", lambda b: FixedSized(this._.n, ProcessXor(0x20, b)), lambda p: bytes(x ^ 0x20 for x in p)),
    ("Prefixed(Byte,Prefixed(Byte))", lambda b: Prefixed(Byte, Prefixed(Byte, b)), lambda p: bytes([len(p) + 1, len(p)]) + p),
    ("FixedSized(NullTerminated(Prefixed))", lambda b: FixedSized(this._.n + 4, NullTerminated(Prefixed(Byte, b), term=b"\xff")),
        lambda p: bytes([len(p)]) + p + b"\xff\xaa\xaa"),
]
payloads = [b"", b"a", b"ab", b"abc", b"abcd", b"abcdefg"]
for (rn, wrap, enc), payload, start in itertools.product(regions, payloads, (0, 2)):
    d = Struct("lead" / Bytes(start), "box" / wrap(body), "after" / Tell, "rest" / GreedyBytes)
    blob = b"#" * start + enc(payload) + b"TAIL"
    show("%s start=%d %r" % (rn, start, payload), lambda: parse_pos(d, blob, n=len(payload)))

# overlong / truncated regions
for blob in [b"\x05ab", b"\x00", b"", b"\x02ab", b"\x03abcd"]:
    d = Struct("box" / Prefixed(Byte, body), "after" / Tell, "rest" / GreedyBytes)
    show("Prefixed(Byte) raw %r" % blob, lambda: parse_pos(d, blob))

# ---------------------------------------------------------------- Union and Select (built on Peek / rewinding)
u = Union(0, "a" / Int16ub, "b" / Int32ub, "c" / GreedyRange(Byte), "d" / Bytes(9))
for data in [b"", b"AB", b"ABCD", b"ABCDEFGHIJ"]:
    show("Union %r" % data, lambda: parse_pos(u, data))
    show("Prefixed(Union) %r" % data, lambda: parse_pos(Sequence(Byte, Prefixed(Byte, u), Tell, GreedyBytes), b"!" + bytes([len(data)]) + data + b"zz"))
sel = Select(Int32ub, Int16ub, Byte)
for data in [b"", b"A", b"AB", b"ABC", b"ABCD", b"ABCDE"]:
    show("GreedyRange(Select) %r" % data, lambda: parse_pos(GreedyRange(sel), data))

# ---------------------------------------------------------------- compiled parsers
for (en, el), data in itertools.product(elements[:6], datas[:6]):
    d = Struct("n" / Byte, "box" / Prefixed(Byte, Struct("look" / Peek(Int16ub), "items" / GreedyRange(el), "odd" / GreedyBytes)), "rest" / GreedyBytes)
    blob = b"\x07" + bytes([len(data)]) + data + b"zz"
    try:
        dc = d.compile()
    except Exception as e:
        print("compile failed %s %s" % (en, type(e).__name__))
        continue
    show("compiled %s %r" % (en, data), lambda: (dc.parse(blob), d.parse(blob) == dc.parse(blob)))
show("compiled Peek source has parse_peek", lambda: "def parse_peek" in Struct("p" / Peek(Byte)).compile().source)


# ---------------------------------------------------------------- streams that cannot tell / seek
class NoTell(io.BytesIO):
    def tell(self):
        raise OSError("no tell")


class NoSeek(io.BytesIO):
    def seek(self, *a):
        raise OSError("no seek")


class LateNoSeek(io.BytesIO):
    """seek works twice, then breaks"""
    left = 2

    def seek(self, *a):
        if self.left <= 0:
            raise OSError("no seek any more")
        self.left -= 1
        return io.BytesIO.seek(self, *a)


for sn, scls in [("NoTell", NoTell), ("NoSeek", NoSeek), ("LateNoSeek", LateNoSeek)]:
    for dn, d in [
        ("GreedyRange(Int16ub)", GreedyRange(Int16ub)),
        ("GreedyRange(Byte)", GreedyRange(Byte)),
        ("GreedyRange(stopper)", GreedyRange(stopper)),
        ("GreedyRange(Error)", GreedyRange(exploding)),
        ("Peek(Byte)", Peek(Byte)),
        ("Peek(Int32ub)", Peek(Int32ub)),
        ("Peek(Error)", Peek(Error)),
        ("Seq(Peek,Peek,Peek(Int32ub),Byte)", Sequence(Peek(Byte), Peek(Byte), Peek(Int32ub), Byte)),
    ]:
        for data in [b"\x01\x02\x03", b"\x01\x09\x00\x00"]:
            def run():
                s = scls(data)
                r = d.parse_stream(s)
                return r, io.BytesIO.tell(s)
            show("%s on %s %r" % (dn, sn, data), run)

print("observations: %d" % N[0])
