#!/usr/bin/env python
"""equiv.py <repo root>

Deterministic observations of the code touched by the z1 refactoring
(stream_read, stream_write, Struct._parse, Struct._build) as seen through
RawCopy / Checksum formats.  Output must be byte-identical on the reference
tree and on the refactored tree.
"""
import sys, io, zlib, hashlib

root = sys.argv[1]
sys.path.insert(0, root)

from construct import *
from construct.core import stream_read, stream_write

N = [0]


def show(label, thunk):
    N[0] += 1
    try:
        r = thunk()
        print("%03d %s -> %r" % (N[0], label, r))
    except Exception as e:
        msg = str(e).replace("\n", " | ")
        print("%03d %s !! %s: %s" % (N[0], label, type(e).__name__, msg))


def crc(data):
    return zlib.crc32(data) & 0xffffffff


def plain(obj):
    """containers -> plain python, private keys dropped, deterministic"""
    if isinstance(obj, dict):
        return {k: plain(v) for k, v in obj.items() if not (isinstance(k, str) and k.startswith("_"))}
    if isinstance(obj, list):
        return [plain(v) for v in obj]
    return obj


# ---------------------------------------------------------------- stream helpers
class Flaky(io.BytesIO):
    def __init__(self, data=b"", readfail=False, writefail=False, shortwrite=None, shortread=None, nonewrite=False):
        super().__init__(data)
        self.readfail, self.writefail, self.shortwrite, self.shortread, self.nonewrite = readfail, writefail, shortwrite, shortread, nonewrite

    def read(self, n=-1):
        if self.readfail:
            raise IOError("boom")
        if self.shortread is not None:
            n = min(n, self.shortread)
        return super().read(n)

    def write(self, data):
        if self.writefail:
            raise IOError("boom")
        if self.nonewrite:
            super().write(data)
            return None
        if self.shortwrite is not None:
            return super().write(data[:self.shortwrite])
        return super().write(data)


class NoneReader(object):
    def read(self, n):
        return None


for n in (0, 1, 3, 4, 5, -1, -7):
    show("stream_read(b'abcd', %d)" % n, lambda: stream_read(io.BytesIO(b"abcd"), n, "p"))
for n in (0, 2):
    def t():
        s = io.BytesIO(b"abcd")
        s.seek(3)
        r = stream_read(s, n, "p")
        return r, s.tell()
    show("stream_read at offset 3, %d" % n, t)
show("stream_read failing stream", lambda: stream_read(Flaky(b"abcd", readfail=True), 2, "p"))
show("stream_read failing stream negative", lambda: stream_read(Flaky(b"abcd", readfail=True), -2, "p"))
show("stream_read short-reading stream", lambda: stream_read(Flaky(b"abcdef", shortread=2), 4, "p"))
show("stream_read None-returning stream", lambda: stream_read(NoneReader(), 4, "p"))
show("stream_read closed stream", lambda: (lambda s: (s.close(), stream_read(s, 1, "p")))(io.BytesIO(b"x")))

for data, length in ((b"", 0), (b"ab", 2), (b"ab", 3), (b"ab", 1), (b"ab", -1), (b"", -1), (u"ab", 2), (bytearray(b"ab"), 2), (None, 0), (5, -1), (u"x", -1)):
    def t(data=data, length=length):
        s = io.BytesIO()
        r = stream_write(s, data, length, "p")
        return r, s.getvalue(), s.tell()
    show("stream_write(%r, %r)" % (data, length), t)
show("stream_write failing stream", lambda: stream_write(Flaky(writefail=True), b"ab", 2, "p"))
show("stream_write failing stream wrong length", lambda: stream_write(Flaky(writefail=True), b"ab", 3, "p"))
show("stream_write short-writing stream", lambda: stream_write(Flaky(shortwrite=1), b"abc", 3, "p"))
show("stream_write None-returning stream", lambda: stream_write(Flaky(nonewrite=True), b"abc", 3, "p"))
show("stream_write None-returning stream empty", lambda: stream_write(Flaky(nonewrite=True), b"", 0, "p"))
show("stream_write read-only file", lambda: stream_write(open(__file__, "rb"), b"abc", 3, "p"))

# ---------------------------------------------------------------- Struct + RawCopy + Checksum
inner = Struct("kind" / Byte, "name" / PascalString(Byte, "ascii"), Padding(1), "n" / Int16ub)

msg = Struct(
    "magic" / Const(b"\x7fM"),
    "fields" / RawCopy(inner),
    Check(this.fields.length >= 5),
    "digest" / Checksum(Bytes(16), lambda d: hashlib.md5(d).digest(), this.fields.data),
    "stop" / Flag,
    StopIf(this.stop),
    "extra" / RawCopy(Prefixed(Byte, GreedyBytes)),
    "extrasum" / Checksum(Int32ul, crc, this.extra.data),
    Terminated,
)

values = [
    dict(kind=1, name=u"ab", n=513),
    dict(kind=255, name=u"", n=0),
    dict(kind=9, name=u"sensor-unit-04", n=65535),
]

built = []
for v in values:
    for stop in (False, True):
        obj = dict(fields=dict(value=v), stop=stop, extra=dict(value=b"xyz" * v["kind"] if v["kind"] < 10 else b""))
        def t(obj=obj):
            b = msg.build(obj)
            built.append(b)
            return b
        show("msg.build value=%r stop=%r" % (v, stop), t)
        show("msg.build (data) value=%r stop=%r" % (v, stop), lambda obj=obj, v=v: msg.build(dict(obj, fields=dict(data=inner.build(v)))))

for b in list(built):
    show("msg.parse %s" % b.hex(), lambda b=b: plain(msg.parse(b)))
    def t(b=b):
        s = io.BytesIO(b"\xee\xee\xee" + b)
        s.seek(3)
        o = msg.parse_stream(s)
        return plain(o.fields), s.tell()
    show("msg.parse_stream at offset 3", t)
    show("msg.build(msg.parse(..)) roundtrip", lambda b=b: msg.build(msg.parse(b)) == b)

# corruption of every byte of the first message: exception type per position
b0 = built[0]
for i in range(len(b0)):
    broken = b0[:i] + bytes([b0[i] ^ 0x04]) + b0[i + 1:]
    show("corrupt byte %d" % i, lambda broken=broken: plain(msg.parse(broken)).get("fields", {}).get("value"))
for cut in (0, 1, 2, 5, 10, len(b0) - 1):
    show("truncated to %d" % cut, lambda cut=cut: plain(msg.parse(b0[:cut])))

# missing / odd build inputs
show("build missing fields", lambda: msg.build(dict(stop=True)))
show("build missing stop", lambda: msg.build(dict(fields=dict(value=values[0]))))
show("build missing extra", lambda: msg.build(dict(fields=dict(value=values[0]), stop=False)))
show("build empty rawcopy dict", lambda: msg.build(dict(fields=dict(), stop=True)))
show("build None", lambda: msg.build(None))
show("build fields with unicode data", lambda: msg.build(dict(fields=dict(data=u"abc"), stop=True)))
show("build both keys (data wins)", lambda: msg.build(dict(fields=dict(data=inner.build(values[1]), value=values[0]), stop=True)))
show("sizeof msg", lambda: msg.sizeof())
show("sizeof inner", lambda: inner.sizeof())
show("sizeof RawCopy(Int32ub)", lambda: RawCopy(Int32ub).sizeof())

# the context a Struct build returns (what later members see), via RawCopy(Struct)
ctx = Struct(
    "a" / Byte,
    Padding(2),
    "raw" / RawCopy(Struct("x" / Byte, Const(b"!"), "y" / Default(Byte, 7), "z" / Rebuild(Byte, this.x + 1))),
    "len" / Rebuild(Byte, this.raw.length),
    "o1" / Rebuild(Byte, this.raw.offset1),
    "o2" / Rebuild(Byte, this.raw.offset2),
    "sum" / Checksum(Byte, lambda d: sum(d) & 0xff, this.raw.data),
    "echo" / Computed(this.raw.value.z),
)
for x in (0, 1, 200):
    show("ctx.build x=%d" % x, lambda x=x: ctx.build(dict(a=9, raw=dict(value=dict(x=x)))))
    show("ctx.parse(build) x=%d" % x, lambda x=x: plain(ctx.parse(ctx.build(dict(a=9, raw=dict(value=dict(x=x)))))))
show("ctx.parse bad checksum", lambda: plain(ctx.parse(b"\x09\x00\x00\x01!\x07\x02\x04\x03\x07\x00")))
show("ctx.parse bad const", lambda: plain(ctx.parse(b"\x09\x00\x00\x01?\x07\x02\x04\x03\x07\x2b")))

# unnamed members, StopIf in nested structs, embedded _ access
nest = Struct(
    "hdr" / RawCopy(Struct("n" / Byte, StopIf(this.n == 0), "body" / Bytes(this.n))),
    "tail" / Struct(Probe() if False else Pass, "sum" / Checksum(Byte, lambda d: (sum(d) * 3) & 0xff, this._.hdr.data), StopIf(this._.hdr.value.n == 1), "more" / Byte),
)
for raw in (b"\x00\x00\x05", b"\x01A\xc6", b"\x02AB\x8f\x09", b"\x02AB\x8e\x09", b"\x03AB", b""):
    show("nest.parse %r" % raw, lambda raw=raw: plain(nest.parse(raw)))
for v in (dict(n=0), dict(n=1, body=b"A"), dict(n=2, body=b"AB"), dict(n=2, body=b"A"), dict(n=2)):
    show("nest.build %r" % v, lambda v=v: nest.build(dict(hdr=dict(value=v), tail=dict(more=9))))
    show("nest.build %r no more" % v, lambda v=v: nest.build(dict(hdr=dict(value=v), tail=dict())))

# generated code still agrees with the interpreter
cmsg = msg.compile()
for b in built:
    show("compiled parse == interpreted", lambda b=b: plain(cmsg.parse(b)) == plain(msg.parse(b)))
for v in values:
    obj = dict(fields=dict(value=v), stop=False, extra=dict(value=b"q"))
    show("compiled build", lambda obj=obj: cmsg.build(obj) == msg.build(obj))
show("compiled parse corrupt", lambda: cmsg.parse(b0[:4] + b"\x00" + b0[5:]))

# build_file / parse_file go through the same helpers on a real file
import os, tempfile
fn = os.path.join(tempfile.gettempdir(), "c14_z1_equiv_%d.bin" % os.getpid())
show("build_file", lambda: msg.build_file(dict(fields=dict(value=values[0]), stop=True), fn))
show("file content", lambda: open(fn, "rb").read())
show("parse_file", lambda: plain(msg.parse_file(fn)))
os.remove(fn)
print("observations:", N[0])
