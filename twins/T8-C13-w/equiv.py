import sys, io, enum
sys.path.insert(0, sys.argv[1])
import construct
from construct import *
from construct.core import EnumIntegerString, EnumInteger

out = []
def p(*a):
    out.append(" ".join(str(x) for x in a))

def attempt(tag, fn):
    try:
        r = fn()
        if isinstance(r, bytes):
            r = "bytes:" + r.hex()
        p(tag, "->", "OK", type(r).__name__, repr(r))
    except BaseException as e:
        p(tag, "->", "EXC", type(e).__name__, "|", str(e).replace("\n", "\\n"))

class BadRepr:
    def __repr__(self):
        raise ZeroDivisionError("repr-boom")
    def __hash__(self):
        return 1

class OddRepr:
    def __repr__(self):
        return "Odd%s{repr}%(x)s"
    def __format__(self, spec):
        return "FORMAT-CALLED"
    def __str__(self):
        return "STR-CALLED"

class StrSub(str):
    def __repr__(self):
        return "StrSub<%s>" % str.__str__(self)
    def __format__(self, spec):
        return "FORMAT-CALLED"

class E(enum.IntEnum):
    alpha = 1
    beta = 200

x = object

def safe_repr(o):
    try:
        return repr(o)
    except BaseException:
        return "<repr failed>"

enum_labels = (list(range(0, 256, 15)) + [255, 256, -1, 2**70, True, False] +
    ["one", "two", "four", "eight", "unknown", "", "One", "one|two", "alpha", "beta", "{}", "%s", "%r", "{obj!r}"] +
    [EnumIntegerString.new(1, "one"), EnumIntegerString.new(99, "nope"), EnumInteger(77), E.alpha, E.beta, StrSub("one"), StrSub("bad")] +
    [None, 1.5, b"one", ("one",), ("one", "two"), (), frozenset(["one"]), OddRepr(), BadRepr(), 3+0j] +
    [["one"], {"one": True}, {"one"}])

def run_enum(name, d):
    p("=== ", name)
    for lab in enum_labels:
        attempt("build " + safe_repr(lab), lambda: d.build(lab))
    for lab in ["one", "unknown", 7, None, ("a", "b")]:
        s = io.BytesIO(b"")
        try:
            d.build_stream(lab, s)
            p("build_stream", repr(lab), "OK", s.tell(), s.getvalue().hex())
        except BaseException as e:
            p("build_stream", repr(lab), "EXC", type(e).__name__, s.tell(), s.getvalue().hex())

e1 = Enum(Byte, one=1, two=2, four=4, eight=8)
run_enum("Enum(Byte)", e1)
e2 = Enum(Int16ub, E, one=1, two=0x1234)
run_enum("Enum(Int16ub, E)", e2)
e3 = Enum(VarInt, one=1, big=2**70)
run_enum("Enum(VarInt)", e3)
e4 = Enum(Bytes(2), one=b"ab", two=b"cd")
run_enum("Enum(Bytes(2))", e4)
e5 = Enum(Byte)
run_enum("Enum(Byte) empty", e5)

p("=== Enum exhaustive parse/build")
for i in range(256):
    obj = e1.parse(bytes([i]))
    p(i, type(obj).__name__, repr(obj), int(obj), e1.build(obj).hex(), e1.build(str(obj)).hex() if not str(obj).isdigit() else "-")
attempt("e3 parse big", lambda: e3.parse(e3.build("big")))
attempt("e3 parse unmapped big", lambda: e3.parse(VarInt.build(2**90)))
attempt("e1.one", lambda: e1.one)
attempt("e1.missing", lambda: e1.missing)

p("=== Enum nested")
st = Struct("a" / Byte, "e" / Enum(Byte, one=1), "arr" / Array(2, Enum(Byte, x=5)))
for lab in ["one", "bad", 3, None, ("t",)]:
    attempt("struct build e=" + repr(lab), lambda: st.build(dict(a=0, e=lab, arr=["x", 5])))
    attempt("struct build arr=" + repr(lab), lambda: st.build(dict(a=0, e=1, arr=["x", lab])))

def run_mapping(name, d, blabels, pdatas):
    p("=== ", name)
    for lab in blabels:
        attempt("build " + safe_repr(lab), lambda: d.build(lab))
    for data in pdatas:
        s = io.BytesIO(data)
        try:
            r = d.parse_stream(s)
            p("parse", data.hex(), "OK", safe_repr(r), s.tell())
        except BaseException as e:
            p("parse", data.hex(), "EXC", type(e).__name__, "|", str(e).replace("\n", "\\n"), "|", s.tell())

map_labels = [x, "a", "b", "zero", 0, 1, 2, True, False, None, 1.5, b"a", ("a",), ("a", "b"), (), ["a"], {"a": 1}, {"a"},
              OddRepr(), BadRepr(), StrSub("a"), StrSub("q"), "%s", "{obj!r}", E.alpha, 2**70]
m1 = Mapping(Byte, {x: 0, "a": 1, "b": 2, None: 3, ("a", "b"): 4, 1.5: 5})
run_mapping("Mapping(Byte)", m1, map_labels, [bytes([i]) for i in range(0, 256, 1)] + [b""])
m2 = Mapping(Bytes(2), {"ab": b"ab", "cd": b"cd", 7: b"\x00\x07"})
run_mapping("Mapping(Bytes(2))", m2, map_labels + ["ab", "cd", 7], [b"ab", b"cd", b"\x00\x07", b"zz", b"a", b"", b"abX"])
m3 = Mapping(Int16ub, {})
run_mapping("Mapping(Int16ub) empty", m3, map_labels[:8], [b"\x00\x00", b"\x00"])
# subcon parsing to unhashable objects -> TypeError path in _decode
m4 = Mapping(Array(2, Byte), {"p": (1, 2)})
run_mapping("Mapping(Array) unhashable parse", m4, ["p", "q", [1, 2]], [b"\x01\x02", b"\x00\x00", b"\x01"])
m5 = Mapping(Struct("k" / Byte), {"p": 1})
run_mapping("Mapping(Struct) unhashable parse", m5, ["p", "q"], [b"\x01", b""])

p("=== Mapping nested")
st2 = Struct("a" / Byte, "m" / Mapping(Byte, {"yes": 1, "no": 0}))
for lab in ["yes", "no", "maybe", None, ("t",), ("t", "u")]:
    attempt("struct build m=" + repr(lab), lambda: st2.build(dict(a=0, m=lab)))
for data in [b"\x00\x00", b"\x00\x01", b"\x00\x02", b"\x00"]:
    attempt("struct parse " + data.hex(), lambda: st2.parse(data))
for wrap_name, wrap in [("Optional", Optional), ("Peek", Peek), ("GreedyRange", GreedyRange)]:
    d = wrap(Mapping(Byte, {"yes": 1, "no": 0}))
    for data in [b"\x01\x00\x05\x01", b"\x05", b""]:
        s = io.BytesIO(data)
        try:
            r = d.parse_stream(s)
            p(wrap_name, data.hex(), "OK", repr(r), s.tell())
        except BaseException as e:
            p(wrap_name, data.hex(), "EXC", type(e).__name__, s.tell())
sel = Select(Mapping(Byte, {"yes": 1}), Enum(Byte, five=5))
for lab in ["yes", "five", "nope", 9, None]:
    attempt("select build " + repr(lab), lambda: sel.build(lab))

p("=== compiled")
ec = e1.compile()
mc = Mapping(Byte, {"a": 1, "b": 2}).compile()
for lab in ["one", 3, "unknown", None]:
    attempt("compiled enum build " + repr(lab), lambda: ec.build(lab))
for lab in ["a", "q", None]:
    attempt("compiled mapping build " + repr(lab), lambda: mc.build(lab))
for i in (0, 1, 2, 9):
    attempt("compiled enum parse %d" % i, lambda: ec.parse(bytes([i])))
    attempt("compiled mapping parse %d" % i, lambda: mc.parse(bytes([i])))

p("=== ksy primitive type names")
from construct.core import KsyGen
ksy = KsyGen()
for d in (e1, e2, e3, e5, e1):
    attempt("emitprimitivetype", lambda: d._emitprimitivetype(ksy, False))
    attempt("compileprimitivetype", lambda: d._compileprimitivetype(ksy, False))
p("ksy enums", sorted(ksy.enums.items()), ksy.nextid)

sys.stdout.write("\n".join(out) + "\n")
