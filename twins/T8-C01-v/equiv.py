import sys, io
sys.path.insert(0, sys.argv[1])
from construct import *


def show(label, fn):
    try:
        r = fn()
        print(label, "->", repr(r))
    except Exception as e:
        print(label, "!!", type(e).__name__)


def parse_pos(d, data, **kw):
    s = io.BytesIO(data)
    try:
        r = d.parse_stream(s, **kw)
        return (r, s.tell())
    except Exception as e:
        return ("EXC", type(e).__name__, s.tell())


def build_pos(d, obj, prefix=b"", **kw):
    s = io.BytesIO()
    s.write(prefix)
    try:
        r = d.build_stream(obj, s, **kw)
        return (r, s.getvalue(), s.tell())
    except Exception as e:
        return ("EXC", type(e).__name__, s.getvalue(), s.tell())


class Weird(int):
    """modulus whose comparison raises"""
    def __lt__(self, other):
        raise KeyError("boom")


subcons = [
    ("Byte", Byte, [0, 255, 256, -1, None]),
    ("Int16ub", Int16ub, [0, 65535, 65536]),
    ("Int24ul", Int24ul, [1, 2**24 - 1]),
    ("VarInt", VarInt, [0, 127, 128, 2**40, -1]),
    ("GreedyBytes", GreedyBytes, [b"", b"a", b"abcd", b"abcdefg"]),
    ("CString", CString("utf8"), ["", "a", "abc", "abcdefgh"]),
    ("Pass", Pass, [None]),
    ("Bytes5", Bytes(5), [b"12345", b"1234"]),
]
moduli = [2, 3, 4, 8, 16, 1, 0, -3, this.m, lambda ctx: ctx.missing, Weird(4), 2.5, None, "4"]

datas = [b"", b"\x00", b"\x01\x02", b"\x81\x82\x03\x04\x05", b"abc\x00defgh\x00\x00\x00\x00\x00\x00\x00", bytes(range(40))]

for sname, sc, values in subcons:
    for mi, m in enumerate(moduli):
        for pat in (b"\x00", b"\xff"):
            try:
                d = Aligned(m, sc, pattern=pat)
            except Exception as e:
                print("ctor", sname, mi, pat, type(e).__name__)
                continue
            for ctx in ({}, {"m": 4}, {"m": 1}, {"m": 5}):
                tag = f"{sname} m#{mi} pat={pat!r} ctx={ctx}"
                for v in values:
                    print("build", tag, repr(v), build_pos(d, v, **ctx))
                    print("build+prefix", tag, repr(v), build_pos(d, v, prefix=b"xyz", **ctx))
                for data in datas:
                    print("parse", tag, data.hex(), parse_pos(d, data, **ctx))
                show("sizeof " + tag, lambda: d.sizeof(**ctx))

# constructor checks
for pat in (b"", b"ab", "a", None, 0):
    show(f"ctor pattern {pat!r}", lambda: Aligned(4, Byte, pattern=pat))

# nested + composed
d = Struct("a" / Aligned(4, Byte), "b" / Aligned(this.a, GreedyBytes))
for obj in (dict(a=2, b=b"abc"), dict(a=1, b=b"abc"), dict(a=7, b=b""), dict(a=0, b=b"x")):
    r = build_pos(d, obj)
    print("nested build", obj, r)
    if r[0] != "EXC":
        print("nested parse", parse_pos(d, r[1]))
d = AlignedStruct(4, "a" / Byte, "b" / Int16ub, "c" / VarInt)
for obj in (dict(a=1, b=2, c=3), dict(a=1, b=2, c=2**30), dict(a=1, b=70000, c=0)):
    r = build_pos(d, obj)
    print("alignedstruct build", obj, r)
    if r[0] != "EXC":
        print("alignedstruct parse", parse_pos(d, r[1]))
show("alignedstruct sizeof", lambda: d.sizeof())
d = Aligned(4, Aligned(3, Bytes(2)))
print(build_pos(d, b"ab"), parse_pos(d, b"ab" + bytes(10)))
show("sizeof nested", d.sizeof)
d = Bitwise(Aligned(8, BitsInteger(3)))
print(build_pos(d, 5), parse_pos(d, b"\xa0\x01"))
show("sizeof bitwise", d.sizeof)

# non-seekable / non-tellable stream
class NoTell(io.RawIOBase):
    def __init__(self, data):
        self.b = io.BytesIO(data)
    def read(self, n=-1):
        return self.b.read(n)
    def write(self, data):
        return self.b.write(data)
    def readable(self): return True
    def writable(self): return True
    def tell(self):
        raise OSError("no tell")
for m in (4, 1):
    d = Aligned(m, Byte)
    try:
        print("notell parse", d.parse_stream(NoTell(b"\x01\x00\x00\x00")))
    except Exception as e:
        print("notell parse !!", type(e).__name__)
    try:
        print("notell build", d.build_stream(1, NoTell(b"")))
    except Exception as e:
        print("notell build !!", type(e).__name__)

# compiled form
for m in (4, 8):
    d = Aligned(m, Int16ub)
    try:
        dc = d.compile()
        print("compiled", m, dc.parse(b"\x00\x01" + bytes(8)), dc.build(7), dc.sizeof())
    except Exception as e:
        print("compiled !!", m, type(e).__name__)
