#!/usr/bin/env python
"""
usage: equiv.py <repo root>

Prints deterministic observations of everything that goes through
construct.core.Restreamed: BitsSwapped / Bitwise / Bytewise over subcons whose
size is not known up front, and Restreamed used directly with various unit
sizes, including the failure to close on partial units.
The output must be byte-identical before and after the refactoring.
"""
import sys, io

sys.path.insert(0, sys.argv[1])
from construct import *
from construct.lib import *

N = [0]

def show(label, value):
    N[0] += 1
    print("%03d %s: %s" % (N[0], label, value))

def describe(e):
    ctx = e.__context__
    return "%s: %s [context %s]" % (type(e).__name__, e, type(ctx).__name__ if ctx is not None else None)

def obs(label, func, *a, **kw):
    try:
        r = func(*a, **kw)
        show(label, "-> %r" % (r,))
    except Exception as e:
        show(label, "raised " + describe(e))

def obs_stream_parse(label, d, data, **kw):
    s = io.BytesIO(data)
    try:
        r = d.parse_stream(s, **kw)
        show(label, "-> %r, stream at %d of %d" % (r, s.tell(), len(data)))
    except Exception as e:
        show(label, "raised %s, stream at %d of %d" % (describe(e), s.tell(), len(data)))

def obs_stream_build(label, d, obj, prefix=b"", **kw):
    s = io.BytesIO()
    s.write(prefix)
    try:
        d.build_stream(obj, s, **kw)
        show(label, "-> %r, stream at %d" % (s.getvalue(), s.tell()))
    except Exception as e:
        show(label, "raised %s, stream holds %r at %d" % (describe(e), s.getvalue(), s.tell()))

SAMPLE = bytes((91 * i + 13) & 0xff for i in range(40))

# --- BitsSwapped over variable-size subcons (Restreamed with unit 1) ------------
show("BitsSwapped(GreedyBytes) is", type(BitsSwapped(GreedyBytes)).__name__)
show("BitsSwapped(Bytes(2)) is", type(BitsSwapped(Bytes(2))).__name__)
for n in range(0, 17):
    data = SAMPLE[:n]
    d = BitsSwapped(GreedyBytes)
    obs_stream_parse("BitsSwapped(GreedyBytes).parse len %d" % n, d, data)
    obs_stream_build("BitsSwapped(GreedyBytes).build len %d" % n, d, data, prefix=b"#")
d = BitsSwapped(GreedyBytes)
obs("BitsSwapped(GreedyBytes).sizeof", d.sizeof)

VARIABLE = [
    ("BitsSwapped(PascalString(Byte,'utf8'))", BitsSwapped(PascalString(Byte, "utf8")), b"\xc0\x86\x46", u"ab"),
    ("BitsSwapped(Prefixed(Byte,GreedyBytes))", BitsSwapped(Prefixed(Byte, GreedyBytes)), b"\x40\x80\xff", b"\x01\xff"),
    ("BitsSwapped(VarInt)", BitsSwapped(VarInt), b"\x81\x80", 128),
    ("BitsSwapped(CString('ascii'))", BitsSwapped(CString("ascii")), b"\x86\x46\x00", u"ab"),
    ("BitsSwapped(GreedyRange(Byte))", BitsSwapped(GreedyRange(Byte)), b"\x80\x40\xc0", [1, 2, 3]),
    ("BitsSwapped(RepeatUntil(obj_==1,Byte))", BitsSwapped(RepeatUntil(obj_ == 1, Byte)), b"\x40\xc0\x80", [2, 3, 1]),
    ("BitsSwapped(Struct(n/Byte,d/Bytes(this.n)))", BitsSwapped(Struct("n" / Byte, "d" / Bytes(this.n))), b"\x40\x0f\xf0", dict(n=2, d=b"\xf0\x0f")),
    ("BitsSwapped(Bitwise(GreedyBytes))", BitsSwapped(Bitwise(GreedyBytes)), b"\xf2", b"\x00\x01\x00\x00\x01\x01\x01\x01"),
    ("Bitwise(GreedyBytes)", Bitwise(GreedyBytes), b"\xa5", b"\x01\x00\x01\x00\x00\x01\x00\x01"),
    ("Bitwise(GreedyRange(Bit))", Bitwise(GreedyRange(Bit)), b"\xa5", [1, 0, 1, 0, 0, 1, 0, 1]),
    ("Bitwise(Struct(n/Nibble,b/Array(this.n,Bit),Padding(1)))", Bitwise(Struct("n" / Nibble, "b" / Array(this.n, Bit), Padding(1))), b"\x3b", dict(n=3, b=[1, 0, 1])),
    ("Bitwise(Bytewise(GreedyBytes))", Bitwise(Bytewise(GreedyBytes)), b"\xa5\x3c", b"\xa5\x3c"),
    ("BitStruct(a/BitsInteger(this._.w),Padding(8-this._.w))", Struct("w" / Computed(3), "v" / BitStruct("a" / BitsInteger(this._.w), "p" / Padding(8 - this._.w))), b"\xa0", dict(v=dict(a=5))),
]
for name, d, data, obj in VARIABLE:
    show(name + " wraps with", type(d).__name__ if not isinstance(d, Struct) else "Struct")
    obs_stream_parse(name + ".parse", d, data)
    obs_stream_parse(name + ".parse + trailing", d, data + b"\xaa\x55")
    obs_stream_parse(name + ".parse truncated", d, data[:-1])
    obs_stream_build(name + ".build", d, obj, prefix=b"##")
    obs(name + ".sizeof", d.sizeof)
    try:
        c = d.compile()
        obs(name + " compiled.parse", c.parse, data)
        obs(name + " compiled.build", c.build, obj)
    except Exception as e:
        show(name + " compile", "raised " + describe(e))

# --- partial units: close must fail, on parse and on build ----------------------
d = Bitwise(Struct("a" / BitsInteger(this._params.n)))
for n in (1, 4, 7, 8, 9, 16):
    obs_stream_parse("Bitwise(BitsInteger(n=%d)).parse" % n, d, b"\xff\x01\x80", n=n)
    obs_stream_build("Bitwise(BitsInteger(n=%d)).build" % n, d, dict(a=1), prefix=b"#", n=n)
    obs("Bitwise(BitsInteger(n=%d)).sizeof" % n, d.sizeof, n=n)
d = Bytewise(Struct("a" / Bytes(this._params.n)))
for n in (0, 1, 2):
    obs("Bytewise(Bytes(n=%d)) parse on bits" % n, Bitwise(d).parse, b"\xa5\x3c", n=n)
    obs("Bytewise(Bytes(n=%d)) build on bits" % n, Bitwise(d).build, dict(a=b"\xa5\x3c"[:n]), n=n)

# --- Restreamed used directly ----------------------------------------------------
log = []
def dec(data):
    log.append(("dec", data))
    return data.upper()
def enc(data):
    log.append(("enc", data))
    return data.lower()
def size(n):
    log.append(("size", n))
    return n * 10

for du in (1, 2, 3):
    for eu in (1, 2, 3):
        for subname, sub, obj in (("Bytes(4)", Bytes(4), b"WXYZ"), ("GreedyBytes", GreedyBytes, b"WXYZ"), ("Bytes(6)", Bytes(6), b"UVWXYZ")):
            d = Restreamed(sub, dec, du, enc, eu, size)
            tag = "Restreamed(%s, dec unit %d, enc unit %d)" % (subname, du, eu)
            del log[:]
            obs_stream_parse(tag + ".parse", d, b"abcdefgh")
            obs_stream_build(tag + ".build", d, obj, prefix=b">")
            obs(tag + ".sizeof", d.sizeof)
            show(tag + " callbacks", log[:])

d = Restreamed(Bytes(2), dec, 1, enc, 1, None)
obs("no sizecomputer sizeof", d.sizeof)
obs("no sizecomputer parse", d.parse, b"ab")
d = Restreamed(GreedyBytes, dec, 1, enc, 1, size)
obs("sizeof over unsized subcon", d.sizeof)
d = Restreamed(Bytes(2), lambda b: b * 2, 1, lambda b: b[0:1], 1, lambda n: n * 2)
obs("expanding decoder parse", d.parse, b"aa")
obs("expanding decoder parse leftover", Restreamed(Bytes(1), lambda b: b * 2, 1, lambda b: b, 1, None).parse, b"a")
obs("expanding decoder build", d.build, b"aa")
obs("expanding decoder sizeof", d.sizeof)
def boom(data):
    raise KeyError("boom %r" % (data,))
d = Restreamed(Bytes(2), boom, 1, boom, 1, None)
obs("decoder raises", d.parse, b"ab")
obs("encoder raises", d.build, b"ab")
d = Restreamed(Bytes(2), lambda b: "s", 1, lambda b: "s", 1, None)
obs("decoder returns str", d.parse, b"ab")
obs("encoder returns str", d.build, b"ab")
obs("inner build fails", Restreamed(Bytes(2), dec, 1, enc, 1, size).build, b"abc")
obs("empty input", Restreamed(Bytes(2), dec, 1, enc, 1, size).parse, b"")
obs("sizecomputer raises", Restreamed(Bytes(2), dec, 1, enc, 1, lambda n: 1 // 0).sizeof)

# --- results and hooks pass through ------------------------------------------------
seen = []
d = BitsSwapped(GreedyBytes * (lambda obj, ctx: seen.append(obj)))
obs("parsed hook under BitsSwapped", d.parse, b"\x80\x01")
show("hook saw", seen)
d = Struct("v" / BitsSwapped(Default(VarInt, 300)), "c" / Computed(this.v))
obs("Default under BitsSwapped(VarInt), build result visible in context", d.build, dict())
obs("Default under BitsSwapped(VarInt), parse", d.parse, d.build(dict()))
d = Struct("b" / BitStruct("n" / Rebuild(Nibble, 9), "m" / Nibble), "c" / Computed(this.b.n))
obs("Rebuild inside BitStruct build", d.build, dict(b=dict(m=1)))
d = Struct("h" / Byte, "x" / BitsSwapped(PascalString(Byte, "ascii")), "p" / Tell, "rest" / GreedyBytes)
obs_stream_parse("Struct with BitsSwapped member parse", d, b"\x07\x40\x86\x46tail")
obs_stream_build("Struct with BitsSwapped member build", d, dict(h=7, x=u"ab", rest=b"tail"), prefix=b"##")
c = d.compile()
obs("compiled Struct parse", c.parse, b"\x07\x40\x86\x46tail")
obs("compiled Struct build", c.build, dict(h=7, x=u"ab", rest=b"tail"))
r = Restreamed(Bytes(1), dec, 1, enc, 1, size)
show("instance attributes", sorted(r.__dict__))
import copy
r2 = copy.copy(r)
obs("copied instance parse", r2.parse, b"q")

show("total observations", N[0])
