#!/usr/bin/env python
"""
Observation script for Struct / Sequence (member loops and context hand-over).

usage: equiv.py <repo root>

Prints parse results, built bytes, build return values, sizeof results, stream
positions, and - through probe members - the full layout of the context that
members see (key order, flags, links to outer/root/params contexts, _io,
_index, _subcons), plus exception type names and messages for a fixed list of
inputs.  Output is deterministic; two trees with the same behaviour print the
same text.
"""
import sys, io, re

root = sys.argv[1]
sys.path.insert(0, root)

from construct import *
from construct.lib import *

LINE = [0]

def out(text):
    LINE[0] += 1
    text = re.sub(r" at 0x[0-9a-fA-F]+", " at 0x?", text)  # object addresses are not behaviour
    print("%03d %s" % (LINE[0], text))

def show_exc(e):
    chain = []
    c = e.__context__
    while c is not None:
        chain.append(type(c).__name__)
        c = c.__context__
    return "%s(%s) context=%s" % (type(e).__name__, str(e).replace("\n", " | "), chain)

def obs_parse(label, d, data, **kw):
    stream = io.BytesIO(data)
    try:
        obj = d.parse_stream(stream, **kw)
        out("parse %-30s data=%s kw=%r -> %r pos=%d" % (label, data.hex(), kw, obj, stream.tell()))
        return obj
    except Exception as e:
        out("parse %-30s data=%s kw=%r !! %s pos=%d" % (label, data.hex(), kw, show_exc(e), stream.tell()))

def obs_build(label, d, obj, **kw):
    stream = io.BytesIO()
    try:
        d.build_stream(obj, stream, **kw)
        out("build %-30s obj=%r kw=%r -> %s" % (label, obj, kw, stream.getvalue().hex()))
    except Exception as e:
        out("build %-30s obj=%r kw=%r !! %s written=%s" % (label, obj, kw, show_exc(e), stream.getvalue().hex()))

def obs_sizeof(label, d, **kw):
    try:
        out("size  %-30s kw=%r -> %r" % (label, kw, d.sizeof(**kw)))
    except Exception as e:
        out("size  %-30s kw=%r !! %s" % (label, kw, show_exc(e)))

def obs_buildret(label, d, obj, **kw):
    ctx = Container(**kw)
    ctx._parsing = False; ctx._building = True; ctx._sizing = False; ctx._params = ctx
    stream = io.BytesIO()
    try:
        ret = d._build(obj, stream, ctx, "(b)")
        keys = list(ret.keys()) if isinstance(ret, dict) else None
        out("bret  %-30s obj=%r -> %s ret=%r keys=%r" % (label, obj, stream.getvalue().hex(), ret, keys))
    except Exception as e:
        out("bret  %-30s obj=%r !! %s" % (label, obj, show_exc(e)))

# a probe member: describes the context it is evaluated in
SEEN = []
def describe(ctx, depth=0):
    parts = []
    for k in ctx.keys():
        v = ctx[k]
        if k == "_":
            parts.append("_=<%s>" % describe(v, depth + 1) if depth < 3 else "_=<...>")
        elif k == "_params":
            parts.append("_params=%s" % ("outermost" if v is outermost(ctx) else "other:%r" % sorted(x for x in v.keys() if not x.startswith("_"))))
        elif k == "_root":
            parts.append("_root=%s" % whois(ctx, v))
        elif k == "_subcons":
            parts.append("_subcons=%r" % (None if v is None else list(v.keys()),))
        elif k == "_io":
            parts.append("_io=%s" % (None if v is None else "%s@%d" % (type(v).__name__, v.tell())))
        else:
            parts.append("%s=%r" % (k, v))
    return ", ".join(parts)

def outermost(ctx):
    while "_" in ctx:
        ctx = ctx["_"]
    return ctx

def whois(ctx, target):
    level = 0
    c = ctx
    while True:
        if c is target:
            return "up%d" % level
        if "_" not in c:
            return "foreign"
        c = c["_"]
        level += 1

def probe(tag):
    def f(ctx):
        SEEN.append("%s{%s}" % (tag, describe(ctx)))
        return tag
    return Computed(f)

def flush(label):
    for line in SEEN:
        out("ctx   %-30s %s" % (label, line))
    SEEN[:] = []

# ------------------------------------------------------------------ Struct
inner = Struct("c" / Byte, "pi" / probe("inner"), "up" / Computed(this._.a), "rt" / Computed(this._root.a), "par" / Computed(this._params.k))
d = Struct("a" / Byte, "p1" / probe("outer1"), "b" / inner, "p2" / probe("outer2"), Const(b"\xee"), "d" / Int16ub)
obj = obs_parse("nested Struct", d, b"\x01\x02\xee\x00\x03", k=7)
flush("nested Struct parse")
obs_build("nested Struct", d, dict(a=1, b=dict(c=2), d=3), k=7)
flush("nested Struct build")
obs_build("nested Struct rebuild parsed", d, obj, k=8)
flush("nested Struct rebuild")
obs_sizeof("nested Struct", d, k=7)
flush("nested Struct sizeof")
obs_parse("nested Struct short", d, b"\x01\x02\xee\x00", k=7)
SEEN[:] = []
obs_parse("nested Struct bad const", d, b"\x01\x02\xef\x00\x03", k=7)
SEEN[:] = []
obs_parse("nested Struct no kw", d, b"\x01\x02\xee\x00\x03")
SEEN[:] = []
obs_build("nested Struct missing key", d, dict(a=1, b=dict(), d=3), k=7)
SEEN[:] = []
obs_build("nested Struct missing d", d, dict(a=1, b=dict(c=2)), k=7)
SEEN[:] = []
obs_buildret("nested Struct", d, dict(a=1, b=dict(c=2), d=3), k=7)
SEEN[:] = []

# array of structs: _index hand-over
d = Struct("n" / Byte, "items" / Array(this.n, Struct("v" / Byte, "i" / Index, "i2" / Computed(this._index), "pp" / probe("el"))), "last" / Computed(this._index))
obs_parse("Array(Struct)", d, b"\x02\x0a\x0b")
flush("Array(Struct) parse")
obs_build("Array(Struct)", d, dict(n=2, items=[dict(v=10), dict(v=11)]))
flush("Array(Struct) build")
obs_sizeof("Array(Struct)", d)
SEEN[:] = []
obs_sizeof("Array(Struct) n in kw", d.items, n=3)
flush("Array(Struct) sizeof")

# members that build from nothing, anonymous members, StopIf, None object
d = Struct("sig" / Const(b"MZ"), "len" / Rebuild(Byte, len_(this.data)), "data" / Bytes(this.len), "dflt" / Default(Byte, 9), Padding(1), "pos" / Tell, StopIf(this.len == 0), "tail" / Byte, "chk" / Check(this.tail < 128))
for data in (b"MZ\x02ab\x07\x00\x05", b"MZ\x00\x07\x00\x05", b"MZ\x02ab\x07\x00\x85", b"MX\x02ab\x07\x00\x05", b"MZ\x02a"):
    obs_parse("flat Struct", d, data)
for obj in (dict(data=b"ab", tail=5), dict(data=b"", tail=5), dict(data=b""), dict(data=b"ab", dflt=1, tail=200), dict(data=b"ab"), dict(sig=b"MZ", len=77, data=b"abc", tail=1), dict(sig=b"XX", data=b"", tail=1), None, [], 5):
    obs_build("flat Struct", d, obj)
    obs_buildret("flat Struct", d, obj)
obs_sizeof("flat Struct", d)
obs_sizeof("flat Struct len in kw", d, len=4)
d = Struct()
obs_parse("empty Struct", d, b"xyz")
obs_build("empty Struct", d, None)
obs_build("empty Struct", d, dict(extra=1))
obs_buildret("empty Struct", d, dict(extra=1, _private=2))
obs_sizeof("empty Struct", d)

# user values with odd keys flow into the context (context.update(obj))
d = Struct("a" / Byte, "seen" / Computed(lambda ctx: sorted(k for k in ctx.keys() if not k.startswith("_"))), "io" / Computed(lambda ctx: type(ctx._io).__name__), "b" / Byte)
obs_build("Struct extra keys", d, dict(a=1, b=2, zzz=3, _io="fake", _index=44))
obs_build("Struct Container keys", d, Container(b=2, a=1))
obs_buildret("Struct extra keys", d, dict(a=1, b=2, zzz=3, _io="fake", _index=44))

# duplicate names and names shadowing dict methods
d = Struct("x" / Byte, "x" / Byte, "update" / Byte, "keys" / Computed(this.x + this.update))
obs_parse("Struct dup/shadow names", d, b"\x01\x02\x03")
obs_build("Struct dup/shadow names", d, dict(x=5, update=6))

# hooks
calls = []
d = Struct("a" / (Byte * (lambda obj, ctx: calls.append("a:%r:%r" % (obj, sorted(k for k in ctx.keys() if not k.startswith("_")))))), "b" / (Byte * (lambda obj, ctx: calls.append("b:%r:%r" % (obj, sorted(k for k in ctx.keys() if not k.startswith("_")))))))
obs_parse("Struct hooks", d, b"\x01\x02")
out("calls %r" % (calls,))

# ------------------------------------------------------------------ Sequence
d = Sequence("a" / Byte, probe("s1"), "in" / Sequence("c" / Byte, probe("s2"), Computed(this._.a), Computed(this._root.a)), Int16ub, probe("s3"))
obs_parse("nested Sequence", d, b"\x01\x02\x00\x03", k=1)
flush("nested Sequence parse")
obs_build("nested Sequence", d, [1, None, [2, None, None, None], 3, None], k=1)
flush("nested Sequence build")
obs_build("nested Sequence from None", Sequence(Computed(1), Pass, probe("sn")), None)
flush("Sequence from None")
obs_sizeof("nested Sequence", d, k=1)
flush("nested Sequence sizeof")
d = Sequence("n" / Byte, Bytes(this.n), StopIf(this.n == 0), "m" / Int16ul, Array(2, Sequence(Index, Computed(this._index), Byte)))
for data in (b"\x02ab\x01\x00\x07\x08", b"\x00\x01\x00", b"\x02a", b"\x01a\x01\x00\x07"):
    obs_parse("flat Sequence", d, data)
for obj in ([2, b"ab", None, 1, [[None, None, 7], [None, None, 8]]], [0, b"", None], [0, b""], [2, b"ab", None, 1], [2, b"abc", None, 1, []], None, 5, (1, b"x", None, 2, [[0, 0, 1], [0, 0, 2]]), iter([1, b"x", None, 2, [[0, 0, 1], [0, 0, 2]]])):
    obs_build("flat Sequence", d, obj)
    obs_buildret("flat Sequence", d, obj)
obs_sizeof("flat Sequence", d)
obs_sizeof("flat Sequence n in kw", d, n=3)
obs_sizeof("fixed Sequence", Sequence(Byte, Int16ub, Padding(3)))
obs_parse("empty Sequence", Sequence(), b"x")
obs_build("empty Sequence", Sequence(), None)

# ------------------------------------------------------------------ inside other combinators
cases = [
    ("Prefixed(Struct)", Struct("h" / Byte, "box" / Prefixed(Byte, Struct("pos" / Tell, "v" / Int16ub, "pp" / probe("pfx"), "rest" / GreedyBytes)), "t" / Byte), b"\x09\x04\x00\x01zz\x07", dict(h=9, box=dict(v=1, rest=b"zz"), t=7)),
    ("BitStruct", BitStruct("a" / Nibble, "f" / Flag, "pp" / probe("bits"), Padding(3), "w" / BitsInteger(16, signed=True, swapped=True)), b"\xa8\x80\xff", dict(a=10, f=True, w=-128)),
    ("FocusedSeq(Struct)", FocusedSeq("s", "n" / Byte, "s" / Struct("v" / Bytes(this._.n), "pp" / probe("foc"))), b"\x02ab", dict(v=b"ab")),
    ("Union(Struct,Seq)", Union(0, "st" / Struct("x" / Byte, "pp" / probe("un")), "sq" / Sequence(Byte, Byte)), b"\x01\x02", dict(st=dict(x=1))),
    ("Switch(Struct)", Struct("t" / Enum(Byte, a=1, b=2), "body" / Switch(this.t, {"a": Struct("x" / Byte, "up" / Computed(this._.t)), "b": Sequence(Int16ub, Computed(this._.t))})), b"\x02\x00\x05", dict(t="b", body=[5, None])),
    ("PrefixedArray(Struct)", PrefixedArray(VarInt, Struct("name" / PascalString(Byte, "utf8"), "val" / ZigZag, "i" / Index)), b"\x02\x01a\x03\x00\x04", [dict(name=u"a", val=-2), dict(name=u"", val=2)]),
    ("AlignedStruct", AlignedStruct(4, "a" / Byte, "b" / Int16ub, "pp" / probe("al")), b"\x01\x00\x00\x00\x00\x02\x00\x00", dict(a=1, b=2)),
    ("LazyStruct(Struct)", LazyStruct("a" / Byte, "s" / Struct("b" / Byte, "up" / Computed(this._.a))), b"\x01\x02", dict(a=1, s=dict(b=2))),
    ("RepeatUntil(Struct)", RepeatUntil(lambda x, lst, ctx: x.last, Struct("last" / Flag, "i" / Index, "pp" / probe("ru"))), b"\x00\x01\x09", [dict(last=False), dict(last=True)]),
    ("Struct + Struct", Struct("a" / Byte) + Struct("b" / Byte), b"\x01\x02", dict(a=1, b=2)),
    ("Seq >> Seq", (Byte >> Int16ub) >> Byte, b"\x01\x00\x02\x03", [1, 2, 3]),
]
for label, d, data, obj in cases:
    parsed = obs_parse(label, d, data)
    flush(label + " parse")
    obs_build(label, d, obj)
    flush(label + " build")
    if parsed is not None and not label.startswith("Lazy"):
        obs_build(label + " reparsed", d, parsed)
        SEEN[:] = []
    obs_sizeof(label, d)
    SEEN[:] = []

# ------------------------------------------------------------------ direct calls with deficient contexts
for label, ctx in (("empty dict ctx", {}), ("empty Container ctx", Container()), ("Container w/o _sizing", Container(_params=1, _parsing=True, _building=False)), ("full ctx with _root/_index", Container(_params=Container(q=1), _parsing=True, _building=False, _sizing=False, _root="R", _index=5))):
    for kind, d in (("Struct", Struct("a" / Byte, "pp" / probe("direct"))), ("Sequence", Sequence(Byte, probe("direct")))):
        try:
            r = d._parse(io.BytesIO(b"\x01"), ctx, "(x)")
            out("direct %s._parse %s -> %r" % (kind, label, r))
        except Exception as e:
            out("direct %s._parse %s !! %s" % (kind, label, show_exc(e)))
        flush("direct " + kind)
        try:
            r = d._sizeof(ctx, "(x)")
            out("direct %s._sizeof %s -> %r" % (kind, label, r))
        except Exception as e:
            out("direct %s._sizeof %s !! %s" % (kind, label, show_exc(e)))
        SEEN[:] = []

# ------------------------------------------------------------------ compiled forms and round trips
d = Struct("n" / Byte, "items" / Array(this.n, Struct("v" / Int16sl, "w" / Computed(this.v * 2))), "seq" / Sequence(Byte, "x" / Byte, Computed(this.x + 1)), "tail" / Default(Byte, 3))
c = d.compile()
for data in (b"\x01\xfe\xff\x05\x06\x07", b"\x00\x05\x06\x07", b"\x01\xfe"):
    obs_parse("interpreted", d, data)
    obs_parse("compiled", c, data)
for obj in (dict(n=1, items=[dict(v=-2)], seq=[5, 6, None]), dict(n=0, items=[], seq=[5, 6, None], tail=1), dict(n=1, items=[], seq=[1, 2, 3])):
    obs_build("interpreted", d, obj)
    obs_build("compiled", c, obj)
for label, d, obj in (
    ("rt Struct deep", Struct("a" / Struct("b" / Struct("c" / Int24sb, "r" / Computed(this._root.k)), "k2" / Computed(this._.k)), "k" / Computed(5)), dict(a=dict(b=dict(c=-70000)))),
    ("rt Sequence mix", Sequence(VarInt, CString("utf8"), Struct("f" / Float32b), Bitwise(Sequence(Nibble, Nibble))), [300, u"hi", dict(f=1.5), [1, 2]]),
):
    try:
        data = d.build(obj)
        back = d.parse(data)
        out("%-30s %r -> %s -> %r" % (label, obj, data.hex(), back))
    except Exception as e:
        out("%-30s %r !! %s" % (label, obj, show_exc(e)))

out("done")
