#!/usr/bin/env python
"""usage: equiv.py <repo root>

Prints a deterministic transcript centred on how expression objects (this, obj_, list_, len_ and
friends) are rendered and how the rendering behaves once inlined into generated code: repr() and
str() of many expressions, their interpreted value on sample contexts, the lines of generated source
that contain them, and parse/build/sizeof of interpreter and compiled instance (results, stream
positions, exception type names). The transcript of the clean tree and of the changed tree must be
byte-identical.
"""
import sys, io, re, hashlib, pickle

root = sys.argv[1] if len(sys.argv) > 1 else "."
sys.path.insert(0, root)

from construct import *
from construct.expr import Path, Path2, FuncPath, BinExpr, UniExpr


def outcome(func, *args, **kw):
    try:
        return "ok %r" % (func(*args, **kw),)
    except Exception as e:
        return "raised %s" % (type(e).__name__,)


# ------------------------------------------------------------------ rendering of expressions
ctx = Container(a=5, b=0, c=-3, s="text", raw=b"\x00\x01", items=[3, 1, 2], neg=[-4, 2], flag=True, none=None,
                sub=Container(x=7, y=[10, 20, 30], deep=Container(z=2)), f=2.5, **{"with space": 1, "_priv": 9})
ctx["_"] = Container(outer=11, _=Container(top=13))
ctx[3] = "three"

expressions = [
    ("this", this),
    ("this.a", this.a),
    ("this['a']", this["a"]),
    ("this.sub.x", this.sub.x),
    ("this.sub.deep.z", this.sub.deep.z),
    ("this._.outer", this._.outer),
    ("this._._.top", this._._.top),
    ("this['with space']", this["with space"]),
    ("this[3]", this[3]),
    ("this._priv", this._priv),
    ("this.sub.y[1]", this.sub.y[1]),
    ("this.sub.y[-1]", this.sub.y[-1]),
    ("this.items[0]", this["items"][0]),
    ("this.raw[1]", this.raw[1]),
    ("this.missing", this.missing),
    ("this.a.b", this.a.b),
    ("obj_", obj_),
    ("obj_.x", obj_.x),
    ("this.a + 1", this.a + 1),
    ("1 + this.a", 1 + this.a),
    ("this.a - this.b", this.a - this.b),
    ("10 - this.a", 10 - this.a),
    ("this.a * this.sub.x", this.a * this.sub.x),
    ("this.a // 2", this.a // 2),
    ("this.a / 2", this.a / 2),
    ("7 // this.a", 7 // this.a),
    ("this.a % 3", this.a % 3),
    ("this.a ** 2", this.a ** 2),
    ("2 ** this.a", 2 ** this.a),
    ("this.a ^ 1", this.a ^ 1),
    ("this.a << 2", this.a << 2),
    ("this.a >> 1", this.a >> 1),
    ("this.a & 4", this.a & 4),
    ("this.a | 8", this.a | 8),
    ("-this.a", -this.a),
    ("+this.c", +this.c),
    ("~this.b", ~this.b),
    ("-(-this.a)", -(-this.a)),
    ("this.a + -1", this.a + -1),
    ("(-this.a) ** 2", (-this.a) ** 2),
    ("this.a > 4", this.a > 4),
    ("this.a >= 5", this.a >= 5),
    ("this.a < 5", this.a < 5),
    ("this.a <= 5", this.a <= 5),
    ("this.a == 5", this.a == 5),
    ("this.a != 5", this.a != 5),
    ("this.s == 'text'", this.s == "text"),
    ("this.s == 'it\\'s'", this.s == "it's"),
    ("this.raw == b'\\x00\\x01'", this.raw == b"\x00\x01"),
    ("this.raw + b'\\xff'", this.raw + b"\xff"),
    ("this.f * 2.0", this.f * 2.0),
    ("this.none == None", this.none == None),
    ("this.flag & True", this.flag & True),
    ("(this.a > 1) & (this.b < 1)", (this.a > 1) & (this.b < 1)),
    ("(this.a > 9) | ~(this.b > 0)", (this.a > 9) | ~(this.b > 0)),
    ("len_", len_),
    ("sum_", sum_),
    ("min_", min_),
    ("max_", max_),
    ("abs_", abs_),
    ("len_(this.items)", len_(this.items)),
    ("len_(this.s)", len_(this.s)),
    ("len_(this.raw) * 2", len_(this.raw) * 2),
    ("sum_(this.items)", sum_(this.items)),
    ("min_(this.items)", min_(this.items)),
    ("max_(this.sub.y)", max_(this.sub.y)),
    ("abs_(this.c)", abs_(this.c)),
    ("abs_(this.c - this.a)", abs_(this.c - this.a)),
    ("len_(this.items) + sum_(this.neg)", len_(this.items) + sum_(this.neg)),
    ("max_(this.items) - min_(this.items) == 2", max_(this.items) - min_(this.items) == 2),
    ("len_(this.sub.y) >= this.sub.deep.z", len_(this.sub.y) >= this.sub.deep.z),
    ("len_(7)", len_(7)),
    ("abs_(-7)", abs_(-7)),
    ("len_('abc')", len_("abc")),
    ("len_(this.sub.y[1:])", None),
    ("this.sub.y[this.b]", None),
]

print("### rendering and interpreted value")
for label, e in expressions:
    if e is None:
        continue
    print("%-44s repr %-54s str %s" % (label, repr(e), str(e)))
    print("%-44s value %s" % ("", outcome(e, ctx) if callable(e) else "constant %r" % (e,)))

print("### list_ and obj_ (three-argument form)")
lst = [4, 5, 6, 0]
for label, e in [("list_", list_), ("list_[0]", list_[0]), ("list_[-1]", list_[-1]), ("list_[-1][0]", list_[-1][0]), ("list_[1] + list_[2]", list_[1] + list_[2]),
                 ("list_[-1] == 0", list_[-1] == 0), ("obj_ == list_[-1]", obj_ == list_[-1]), ("obj_ + this.a", obj_ + this.a)]:
    print("%-24s repr %-28s str %-28s value %s" % (label, repr(e), str(e), outcome(e, 0, lst, ctx)))

print("### expression classes built by hand")
for label, e in [("Path('ctx')", Path("ctx")), ("Path('ctx','k',Path('ctx'))", Path("ctx", "k", Path("ctx"))), ("Path('p', 1, 'literal')", Path("p", 1, "literal")),
                 ("Path2('L')", Path2("L")), ("Path2('L', 2, Path2('L'))", Path2("L", 2, Path2("L"))), ("Path2('L', 'k', 'lit')", Path2("L", "k", "lit")),
                 ("FuncPath(len)", FuncPath(len)), ("FuncPath(sorted, this.items)", FuncPath(sorted, this["items"])), ("FuncPath(len, 'str')", FuncPath(len, "str")),
                 ("FuncPath(len, 0)", FuncPath(len, 0)), ("FuncPath(repr, this.s)", FuncPath(repr, this.s)),
                 ("BinExpr(add, len_, 1)", BinExpr(lambda a, b: None, 1, 2) if False else len_(this.s) + 1), ("UniExpr(neg, len_(..))", -len_(this.s))]:
    print("%-34s repr %-30s str %-30s" % (label, repr(e), str(e)))
    if callable(e):
        print("%-34s value %s" % ("", outcome(e, ctx)))

print("### pickling keeps rendering")
for e in [this.a.b, list_[1][2], len_(this.x), len_, this.a + len_(this.b)]:
    e2 = pickle.loads(pickle.dumps(e))
    print("%-30r %-30r %-30s" % (e, e2, e2))


# ------------------------------------------------------------------ expressions inside generated code
def normalise(source):
    ids = {}
    def repl(m):
        return "%s[#%d]" % (m.group(1), ids.setdefault(m.group(2), len(ids)))
    return re.sub(r"(linkedinstances|linkedparsers|linkedbuilders)\[(\d+)\]", repl, source)


def parse_with_position(d, data, kw):
    stream = io.BytesIO(data)
    try:
        obj = d.parse_stream(stream, **kw)
    except Exception as e:
        return "raised %s" % (type(e).__name__,)
    return "ok %r pos=%d" % (obj, stream.tell())


def build_with_position(d, obj, kw):
    stream = io.BytesIO()
    try:
        d.build_stream(obj, stream, **kw)
    except Exception as e:
        return "raised %s" % (type(e).__name__,)
    return "ok %s pos=%d" % (stream.getvalue().hex(), stream.tell())


def report(label, d, datas=(), objs=(), **kw):
    print("=== %s ctx=%r" % (label, sorted(kw.items())))
    try:
        c = d.compile()
    except Exception as e:
        print("compile raised %s" % (type(e).__name__,))
        c = None
    if c is not None:
        source = normalise(c.source)
        print("source sha1 %s" % (hashlib.sha1(source.encode()).hexdigest(),))
        for line in source.splitlines()[20:]:
            if ("this[" in line or "obj_" in line or "list_" in line) and not line.lstrip().startswith(("this = Container", "this['_root']", "def ", "len_ =", "sum_ =", "min_ =", "max_ =", "abs_ =")):
                print("    | " + line.strip())
    for data in datas:
        print("parse %s" % (data.hex(),))
        print("    interpreter: " + parse_with_position(d, data, kw))
        if c is not None:
            print("    compiled   : " + parse_with_position(c, data, kw))
    for obj in objs:
        print("build %r" % (obj,))
        print("    interpreter: " + build_with_position(d, obj, kw))
        if c is not None:
            print("    compiled   : " + build_with_position(c, obj, kw))
    print("sizeof interpreter: " + outcome(d.sizeof, **kw))
    if c is not None:
        print("sizeof compiled   : " + outcome(c.sizeof, **kw))


report("lengths and counts from paths",
       Struct("n" / Byte, "m" / Int16ub, "a" / Bytes(this.n), "b" / Array(this.m, Byte), "c" / Bytes(this.n + this.m * 2 - 1), "d" / Bytes(len_(this.b) + len_(this.a))),
       datas=[b"\x01\x00\x02A\x05\x06cccc123", b"\x00\x00\x01\x07c\x09", b"\x01\x01\x2c" + bytes(1 + 300 + 600 + 301), b"\x01\x00"],
       objs=[dict(n=1, m=2, a=b"A", b=[5, 6], c=b"cccc", d=b"123"), dict(n=0, m=1, a=b"", b=[0], c=b"c", d=b"d")])
report("nested structs, upward references",
       Struct("k" / Byte, "inner" / Struct("j" / Byte, "x" / Bytes(this._.k), "deep" / Struct("y" / Bytes(this._._.k + this._.j))), "z" / Bytes(this.inner.j), "w" / Bytes(len_(this.inner.deep.y))),
       datas=[b"\x01\x02X123zzwww", b"\x00\x00", b"\x02\x00xxyy--"],
       objs=[dict(k=1, inner=dict(j=2, x=b"X", deep=dict(y=b"123")), z=b"zz", w=b"www"), dict(k=0, inner=dict(j=0, x=b"", deep=dict(y=b"")), z=b"", w=b"")])
report("branches from comparisons and constants",
       Struct("t" / Byte, "name" / Bytes(2),
              "v" / IfThenElse(this.t == 0, Byte, Int16ub), "w" / If(this.name == b"ab", Byte), "x" / If((this.t > 1) & (this.t < 4), Byte),
              "sw" / Switch(this.t % 3, {0: Byte, 1: Int16ul}, default=Bytes(1)), "neg" / If(~(this.t >= 2) | (this.name != b"ab"), Byte)),
       datas=[b"\x00ab\x01\x02\x03\x04", b"\x01ab\x00\x01\x02\x03\x04\x05", b"\x02zz\x00\x01\x02\x03\x04", b"\x03ab\x00\x01\x02\x03\x04", b"\x04"],
       objs=[dict(t=0, name=b"ab", v=1, w=2, x=None, sw=3, neg=4), dict(t=2, name=b"ab", v=1, w=2, x=3, sw=b"q", neg=None), dict(t=1, name=b"zz", v=300, w=None, x=None, sw=513, neg=0)])
report("keyword contexts",
       Struct("a" / Bytes(this._.width), "b" / Array(this._.count - 1, Byte), "c" / If(this._.mode == "long", Int32ub), "d" / Computed(this._.width * this._.count), "e" / Bytes(this.d - 5)),
       datas=[b"xyz\x01\xff\xff\xff\xff" + b"e", b"xyz\x01"], objs=[dict(a=b"xyz", b=[1], c=7, e=b"e"), dict(a=b"xy", b=[1], c=7, e=b"e")],
       width=3, count=2, mode="long")
report("keyword contexts, other branch",
       Struct("a" / Bytes(this._.width), "c" / If(this._.mode == "long", Int32ub), "e" / Bytes(abs_(this._.count))),
       datas=[b"\x09ab", b"\x09"], objs=[dict(a=b"", c=None, e=b"ab")],
       width=0, count=-2, mode="short")
report("RepeatUntil with obj_",
       Struct("n" / Byte, "r1" / RepeatUntil(obj_ == 0, Byte), "r2" / RepeatUntil(obj_ >= 300, Int16ub), "r3" / RepeatUntil((obj_.v + obj_.w == 9) | (obj_["v"] == 1), Struct("v" / Byte, "w" / Byte)), "t" / Bytes(len_(this.r1) + len_(this.r3))),
       datas=[b"\x02\x05\x00\x00\x01\x01\x2c\x04\x05abc", b"\x00\x00\x01\x2d\x00\x00\x01\x00\x08\x01xyzw", b"\x09\x01\x02"],
       objs=[dict(n=2, r1=[5, 0], r2=[1, 300], r3=[dict(v=4, w=5)], t=b"abc"), dict(n=0, r1=[0], r2=[301], r3=[dict(v=0, w=0), dict(v=1, w=0)], t=b"xyz"), dict(n=0, r1=[1], r2=[1], r3=[], t=b"")])
report("RepeatUntil with list_ (only the compiled form accepts list_ inside an operator)",
       Struct("n" / Byte, "r" / RepeatUntil(list_[-1] > this.n, Int16ub), "q" / RepeatUntil(obj_ == list_[0], Byte)),
       datas=[b"\x02\x00\x01\x00\x03\x07", b"\x09\x01"],
       objs=[dict(n=2, r=[1, 3], q=[7])])
report("Rebuild Default Check Computed Padded Aligned Pointer Seek",
       Struct("count" / Rebuild(Byte, len_(this.items)), "items" / Array(this.count, Byte), "total" / Rebuild(Int16ub, sum_(this.items) + max_(this.items) - min_(this.items)),
              "dflt" / Default(Byte, this.count + 1), Check(this.count == len_(this.items)), "comp" / Computed(this.items[0] * this.items[-1]),
              "pad" / Padded(this.count + 2, Byte), "al" / Aligned(this.count + 1, Byte), "ptr" / Pointer(this.count - 2, Byte), "pos" / Tell),
       datas=[b"\x02\x03\x04\x00\x08\x09\x01\x00\x00\x00\x02\x00\x00", b"\x03\x01\x01\x01\x00\x03\x00\x07\x00\x00\x00\x00\x09\x00\x00\x00", b"\x02\x01"],
       objs=[dict(items=[3, 4], dflt=None, pad=1, al=2, ptr=2), dict(items=[1, 1, 1], dflt=0, pad=7, al=9, ptr=1), dict(items=[], dflt=0, pad=7, al=9, ptr=1)])
report("FocusedSeq, Prefixed, FixedSized, StopIf, Const",
       Struct("h" / Const(b"\x01\x02"), "n" / Byte, "fs" / FixedSized(this.n * 2, GreedyBytes), "foc" / FocusedSeq("v", "l" / Byte, "v" / Bytes(this.l + this._.n)),
              StopIf(this.n == 0), "after" / Bytes(len_(this.fs) // 2)),
       datas=[b"\x01\x02\x01ab\x01XY!", b"\x01\x02\x00\x00", b"\x01\x03\x00"],
       objs=[dict(n=1, fs=b"ab", foc=b"XY", after=b"!"), dict(n=0, fs=b"", foc=b""), dict(n=2, fs=b"a", foc=b"XYZ", after=b"--")])
report("unary and power rendering", Struct("a" / Byte, "x" / Bytes(-(-this.a)), "y" / Bytes((-this.a) ** 2), "z" / Bytes(2 ** this.a - +this.a), "w" / Bytes(this.a + -1)),
       datas=[b"\x02ab1234cc!", b"\x01a1b", b"\x00"],
       objs=[dict(a=2, x=b"ab", y=b"1234", z=b"cc", w=b"!"), dict(a=1, x=b"a", y=b"1", z=b"b", w=b"")])
report("sizeof through expressions", Struct("a" / Bytes(this._.p), "b" / Array(this._.q, Int16ub), "c" / Padded(this._.p + this._.q, Byte)),
       datas=[b"ab\x00\x01\x07\x00\x00"], objs=[dict(a=b"ab", b=[1], c=7)], p=2, q=1)
