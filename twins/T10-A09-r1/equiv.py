#!/usr/bin/env python
"""equiv.py <repo root> -- observations about construct.lib.containers.value_to_string
(and the Container/ListContainer __str__ that use it)."""
import sys

sys.path.insert(0, sys.argv[1])

import construct
from construct import *
from construct.lib import containers as C
from construct.lib.containers import value_to_string, Container, ListContainer
from construct.lib import (
    setGlobalPrintFullStrings,
    setGlobalPrintFalseFlags,
    setGlobalPrintPrivateEntries,
    HexDisplayedBytes,
    HexDumpDisplayedBytes,
    HexDisplayedInteger,
)

n = [0]


def show(label, fn):
    n[0] += 1
    try:
        out = fn()
        print("%03d %s -> %s %r" % (n[0], label, type(out).__name__, out))
    except Exception as e:
        print("%03d %s !! %s: %s" % (n[0], label, type(e).__name__, e))


class MyBytes(bytes):
    pass


class MyStr(str):
    pass


class ReprBytes(bytes):
    def __repr__(self):
        return "<ReprBytes %d>" % len(self)


class LenStr(str):
    calls = []

    def __len__(self):
        LenStr.calls.append("len")
        return 5

    def __getitem__(self, i):
        LenStr.calls.append("getitem %r" % (i,))
        return str.__getitem__(self, i)


class LenBytes(bytes):
    calls = []

    def __len__(self):
        LenBytes.calls.append("len")
        return 40

    def __getitem__(self, i):
        LenBytes.calls.append("getitem %r" % (i,))
        return bytes.__getitem__(self, i)


class Weird:
    def __str__(self):
        return "weird\nobject"


values = [
    ("bytes0", b""),
    ("bytes1", b"a"),
    ("bytes15", b"x" * 15),
    ("bytes16", b"x" * 16),
    ("bytes17", b"x" * 17),
    ("bytes32", bytes(range(32))),
    ("bytes33", bytes(range(33))),
    ("bytes100", bytes(range(100))),
    ("bytes_nl", b"line\nline\nline\nline\nline"),
    ("str0", ""),
    ("str1", "a"),
    ("str15", "y" * 15),
    ("str16", "y" * 16),
    ("str17", "y" * 17),
    ("str31", "y" * 31),
    ("str32", "y" * 32),
    ("str33", "y" * 33),
    ("str100", "z" * 100),
    ("str_unicode", "Афон" * 10),
    ("str_nl", "a\nb" * 20),
    ("str_quote", "it's \"q\"" * 5),
    ("mybytes10", MyBytes(b"q" * 10)),
    ("mybytes20", MyBytes(b"q" * 20)),
    ("mystr10", MyStr("q" * 10)),
    ("mystr20", MyStr("q" * 20)),
    ("mystr40", MyStr("q" * 40)),
    ("reprbytes5", ReprBytes(b"12345")),
    ("reprbytes50", ReprBytes(b"1" * 50)),
    ("bytearray", bytearray(b"k" * 20)),
    ("int", 12345),
    ("float", 1.5),
    ("none", None),
    ("true", True),
    ("list", [b"x" * 20, "y" * 40]),
    ("tuple", (1, 2)),
    ("weird", Weird()),
    ("hexint", HexDisplayedInteger.new(255, "04x")),
    ("hexbytes", HexDisplayedBytes(b"\x01\x02" * 12)),
    ("hexdumpbytes", HexDumpDisplayedBytes(b"\x01\x02" * 12)),
    ("container", Container(a=b"x" * 20, b="y" * 40)),
    ("listcontainer", ListContainer([b"x" * 20, "y" * 40])),
]

for full in (False, True):
    setGlobalPrintFullStrings(full)
    for label, v in values:
        show("full=%r value_to_string(%s)" % (full, label), lambda v=v: value_to_string(v))
setGlobalPrintFullStrings(False)

# order/number of the special-method calls made on str/bytes subclasses
for full in (False, True):
    setGlobalPrintFullStrings(full)
    LenStr.calls[:] = []
    show("full=%r lenstr" % full, lambda: value_to_string(LenStr("abcdefghij" * 5)))
    show("full=%r lenstr calls" % full, lambda: list(LenStr.calls))
    LenBytes.calls[:] = []
    show("full=%r lenbytes" % full, lambda: value_to_string(LenBytes(b"abcdefghij" * 5)))
    show("full=%r lenbytes calls" % full, lambda: list(LenBytes.calls))
setGlobalPrintFullStrings(False)

# enum values produced by parsing
e = Enum(Byte, one=1, two=2)
show("enum known", lambda: value_to_string(e.parse(b"\x01")))
show("enum unknown", lambda: value_to_string(e.parse(b"\x09")))

# through Container.__str__ / ListContainer.__str__
obj = Container(
    data=b"0123456789abcdefXYZ",
    text="t" * 50,
    short=b"ab",
    word="hi",
    num=3,
    _private="p" * 40,
    nested=Container(inner=b"\x00" * 17, s="s" * 33),
    items=ListContainer([b"z" * 16, b"z" * 17, "u" * 32, "u" * 33, 7]),
)
for full in (False, True):
    for private in (False, True):
        setGlobalPrintFullStrings(full)
        setGlobalPrintPrivateEntries(private)
        show("str(container) full=%r private=%r" % (full, private), lambda: str(obj))
        show("str(listcontainer) full=%r private=%r" % (full, private), lambda: str(obj["items"]))
setGlobalPrintFullStrings(False)
setGlobalPrintPrivateEntries(False)
show("repr(container)", lambda: repr(obj))

# through parsing results
st = Struct(
    "magic" / Bytes(20),
    "name" / PaddedString(40, "ascii"),
    "hex" / Hex(Bytes(20)),
    "dump" / HexDump(Bytes(20)),
    "flags" / FlagsEnum(Byte, a=1, b=2),
    "rest" / GreedyBytes,
)
data = bytes(range(20)) + b"n" * 40 + bytes(range(20)) + bytes(range(20)) + b"\x01" + b"r" * 5
for full in (False, True):
    setGlobalPrintFullStrings(full)
    show("str(parsed) full=%r" % full, lambda: str(st.parse(data)))
setGlobalPrintFullStrings(False)
show("sizeof", lambda: st.sizeof() if False else Struct("magic" / Bytes(20)).sizeof())
show("build roundtrip", lambda: st.build(st.parse(data)) == data)
