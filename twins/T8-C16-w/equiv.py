#!/usr/bin/env python
# usage: equiv.py <path-to-checkout>
# Exercises Lazy._parse (remember offset, skip by _actualsize, deferred parse with seek-and-restore),
# Lazy._build and Lazy inside Struct, with a stream that logs every tell/seek/read call.
import sys, io, itertools
sys.path.insert(0, sys.argv[1])
from construct import *


class LogStream(io.BytesIO):
    """BytesIO that records every operation; can be told to fail from the n-th seek or tell on."""
    def __init__(self, data, failseek=None, failtell=None):
        super().__init__(data)
        self.log = []
        self.nseek = 0
        self.ntell = 0
        self.failseek = failseek
        self.failtell = failtell
    def tell(self):
        self.ntell += 1
        if self.failtell is not None and self.ntell >= self.failtell:
            self.log.append("tell!")
            raise OSError("tell fails")
        r = super().tell()
        self.log.append("t%d" % r)
        return r
    def seek(self, offset, whence=0):
        self.nseek += 1
        if self.failseek is not None and self.nseek >= self.failseek:
            self.log.append("seek!(%r,%r)" % (offset, whence))
            raise OSError("seek fails")
        r = super().seek(offset, whence)
        self.log.append("s(%r,%r)" % (offset, whence))
        return r
    def read(self, n=-1):
        r = super().read(n)
        self.log.append("r(%r)->%d" % (n, len(r)))
        return r
    def pos(self):
        return io.BytesIO.tell(self)
    def take(self):
        out = " ".join(self.log)
        self.log = []
        return out


class NoSeek(io.RawIOBase):
    """Readable but neither seekable nor tellable."""
    def __init__(self, data):
        self.data = data
    def readable(self):
        return True
    def readinto(self, b):
        n = min(len(b), len(self.data))
        b[:n] = self.data[:n]
        self.data = self.data[n:]
        return n


def attempt(fn):
    try:
        return "ok %r" % (fn(),)
    except Exception as e:
        return "EXC %s" % (type(e).__name__,)


import re
def out(*a):
    # scrub memory addresses from function reprs so the transcript is deterministic
    print(re.sub(r" at 0x[0-9a-fA-F]+", " at 0x?", " ".join(str(x) for x in a)))


DATA = bytes([3, 65, 66, 67, 0x82, 1, 5, 6, 7, 8, 9, 10, 11, 12])

SUBCONS = [
    ("Byte", Byte),
    ("Int32ub", Int32ub),
    ("Bytes3", Bytes(3)),
    ("Bytes0", Bytes(0)),
    ("PrefixedBytes", Prefixed(Byte, GreedyBytes)),
    ("PrefixedIncl", Prefixed(Byte, GreedyBytes, includelength=True)),
    ("PrefixedVarIntIncl", Prefixed(VarInt, GreedyBytes, includelength=True)),
    ("PrefixedArray", PrefixedArray(Byte, Int16ub)),
    ("Pascal", PascalString(Byte, "utf8")),
    ("VarInt", VarInt),
    ("GreedyBytes", GreedyBytes),
    ("CString", CString("utf8")),
    ("BytesMissingKey", Bytes(this.nosuch)),
    ("Computed", Computed(7)),
    ("Pass", Pass),
    ("Pointer", Pointer(2, Byte)),
    ("Array2", Array(2, Int16ub)),
    ("StructBB", Struct("a" / Byte, "b" / Byte)),
    ("LazyByte", Lazy(Byte)),
    ("Error", Error),
    ("Check", Check(False)),
]

for name, sc in SUBCONS:
    d = Lazy(sc)
    out("## Lazy(%s) sizeof=%s" % (name, attempt(d.sizeof)))
    for start in [0, 1, 4, 12, 14, 20]:
        for data in [DATA, DATA[:5], b""]:
            stream = LogStream(data)
            io.BytesIO.seek(stream, start)
            try:
                fn = d.parse_stream(stream)
            except Exception as e:
                out("   start=%d len=%d parse EXC %s pos=%d log=[%s]" % (start, len(data), type(e).__name__, stream.pos(), stream.take()))
                continue
            out("   start=%d len=%d parsed callable=%r name=%s qualname=%s pos=%d log=[%s]" % (
                start, len(data), callable(fn), fn.__name__, fn.__qualname__, stream.pos(), stream.take()))
            for presk in [None, 0, 2, None]:
                if presk is not None:
                    io.BytesIO.seek(stream, presk)
                r = attempt(fn)
                if name == "LazyByte" and r.startswith("ok"):
                    r = "inner " + attempt(lambda: fn()())
                    stream.take()
                    continue
                out("      presk=%r call -> %s pos=%d log=[%s]" % (presk, r, stream.pos(), stream.take()))
            out("      build(fn) ->", attempt(lambda: d.build(fn)), "pos=%d" % stream.pos())
            stream.take()
            stream.close()
            out("      closed call ->", attempt(fn))

# parse from bytes, build from values and callables
for name, sc in SUBCONS:
    d = Lazy(sc)
    out("## Lazy(%s) parse(bytes) ->" % name, attempt(lambda: d.parse(DATA)()), "| build(1) ->", attempt(lambda: d.build(1)),
        "| build(b'abc') ->", attempt(lambda: d.build(b"abc")), "| build(lambda: 2) ->", attempt(lambda: d.build(lambda: 2)),
        "| build(None) ->", attempt(lambda: d.build(None)))

# flaky streams during _parse: tell fails, seek fails
for name, sc in [("Byte", Byte), ("PrefixedBytes", Prefixed(Byte, GreedyBytes)), ("VarInt", VarInt), ("PrefixedArray", PrefixedArray(Byte, Int16ub))]:
    for failtell in [None, 1, 2, 3, 4]:
        for failseek in [None, 1, 2]:
            d = Lazy(sc)
            stream = LogStream(DATA, failseek=failseek, failtell=failtell)
            r = attempt(lambda: d.parse_stream(stream))
            out("## flaky parse Lazy(%s) failtell=%r failseek=%r -> %s pos=%d log=[%s]" % (
                name, failtell, failseek, "ok" if r.startswith("ok") else r, stream.pos(), stream.take()))
    # flaky during execute
    for failtell in [None, 1, 2]:
        for failseek in [None, 1, 2, 3]:
            d = Lazy(sc)
            stream = LogStream(DATA)
            try:
                fn = d.parse_stream(stream)
            except Exception as e:
                out("## flaky exec Lazy(%s): parse EXC %s" % (name, type(e).__name__))
                continue
            stream.take()
            stream.nseek = stream.ntell = 0
            stream.failseek = failseek
            stream.failtell = failtell
            r = attempt(fn)
            stream.failseek = stream.failtell = None
            out("## flaky exec Lazy(%s) failtell=%r failseek=%r -> %s pos=%d log=[%s]" % (name, failtell, failseek, r, stream.pos(), stream.take()))
            out("   again -> %s pos=%d log=[%s]" % (attempt(fn), stream.pos(), stream.take()))

# non seekable stream
for name, sc in [("Byte", Byte), ("VarInt", VarInt), ("Pass", Pass)]:
    out("## noseek Lazy(%s) ->" % name, attempt(lambda: callable(Lazy(sc).parse_stream(NoSeek(DATA)))))

# Lazy members inside a Struct, all call orders, repeated calls, context captured by the closure
d = Struct(
    "n" / Byte,
    "a" / Lazy(Bytes(this.n)),
    "b" / Lazy(Prefixed(VarInt, GreedyBytes)),
    "c" / Int16ub,
    "d" / Lazy(Computed(this.c)),
    "e" / Lazy(Int16ub),
    "f" / Byte,
)
SDATA = bytes([2, 65, 66, 2, 67, 68, 1, 2, 3, 4, 5, 6, 7])
for perm in itertools.permutations("abde"):
    stream = LogStream(SDATA)
    obj = d.parse_stream(stream)
    line = ["parsed pos=%d log=[%s] n=%r c=%r f=%r" % (stream.pos(), stream.take(), obj.n, obj.c, obj.f)]
    for k in perm + (perm[0],):
        line.append("%s=%s@%d[%s]" % (k, attempt(obj[k]), stream.pos(), stream.take()))
    out("## struct order %s: %s" % ("".join(perm), " ".join(line)))
    out("   build ->", attempt(lambda: d.build(obj)))

for data in [SDATA[:1], SDATA[:4], SDATA[:8], SDATA[:10], b""]:
    stream = LogStream(data)
    out("## struct truncated len=%d ->" % len(data), attempt(lambda: sorted(k for k in d.parse_stream(stream).keys() if not k.startswith("_"))),
        "pos=%d log=[%s]" % (stream.pos(), stream.take()))

# Lazy referring to a later member (KaitaiStruct instances use case), Lazy in Array, nested Lazy
d = Struct("dup" / Lazy(Computed(this.exists)), "exists" / Computed(1))
out("## forward ref ->", attempt(lambda: d.parse(b"").dup()))
d = Array(3, Lazy(Prefixed(Byte, GreedyBytes)))
stream = LogStream(bytes([1, 65, 0, 2, 66, 67, 99]))
objs = d.parse_stream(stream)
out("## array of lazy pos=%d log=[%s]" % (stream.pos(), stream.take()))
for i in [2, 0, 1, 2]:
    out("   [%d] -> %s pos=%d log=[%s]" % (i, attempt(objs[i]), stream.pos(), stream.take()))
out("   build ->", attempt(lambda: d.build(objs)))
stream = LogStream(bytes([1, 65, 0, 2, 66]))
out("## array of lazy truncated ->", attempt(lambda: [f() for f in d.parse_stream(stream)]), "pos=%d log=[%s]" % (stream.pos(), stream.take()))

# late binding: two results of the same Lazy instance keep their own offsets / streams
d = Lazy(Byte)
s1, s2 = LogStream(b"\x0a\x0b"), LogStream(b"\x14\x15")
f1 = d.parse_stream(s1); f2 = d.parse_stream(s2); f3 = d.parse_stream(s1)
out("## late binding", f1(), f2(), f3(), f1(), s1.pos(), s2.pos(), f1 is f3, s1.take(), "|", s2.take())
