import sys
sys.path.insert(0, sys.argv[1])
import random, copy, pickle, collections
from construct.lib.containers import Container, ListContainer
import construct.lib as clib
import construct

def show(label, fn):
    try:
        r = fn()
    except BaseException as e:
        print(label, "EXC", type(e).__name__)
    else:
        print(label, "OK", repr(r))

LOG = []
class Loud:
    """value whose == is logged, to observe evaluation order and short-circuiting"""
    def __init__(self, tag, result=True, exc=None):
        self.tag = tag; self.result = result; self.exc = exc
    def __eq__(self, other):
        LOG.append(("eq", self.tag, getattr(other, "tag", repr(other))))
        if self.exc is not None:
            raise self.exc("boom")
        return self.result
    __hash__ = None
    def __repr__(self):
        return "Loud(%s)" % self.tag

class Truthy:
    """== returns a non-bool object"""
    def __init__(self, val): self.val = val
    def __eq__(self, other): return self.val
    def __repr__(self): return "Truthy(%r)" % (self.val,)

class BadBool:
    def __bool__(self): raise ZeroDivisionError("no truth")

class ndarray:
    """same class name as numpy's array: triggers the numpy branch"""
    def __init__(self, v): self.v = v
    def __eq__(self, other): LOG.append(("ndarray-eq",)); return True
    def __repr__(self): return "fake-ndarray(%r)" % (self.v,)

rnd = random.Random(2020)
KEYS = ["a", "b", "_p", "_", "__dunder", "items", "keys", "update", "copy", "clear", "", "x y", 1, 2.0, None, (1, 2), b"k", True]
def gen_value(depth):
    c = rnd.randrange(10 if depth > 0 else 6)
    if c == 0: return rnd.randrange(-3, 4)
    if c == 1: return rnd.choice(["s", "", "_t", b"raw", None, True, 1.5, float("nan")])
    if c == 2: return [rnd.randrange(3) for _ in range(rnd.randrange(3))]
    if c == 3: return (1, "t")
    if c == 4: return {"plain": rnd.randrange(3), "_hidden": rnd.randrange(3)}
    if c == 5: return 1
    if c == 6: return gen_container(depth - 1)
    if c == 7: return ListContainer(gen_value(depth - 1) for _ in range(rnd.randrange(3)))
    if c == 8: return [gen_container(depth - 1), rnd.randrange(2)]
    return collections.OrderedDict(z=rnd.randrange(2))
def gen_container(depth):
    c = Container()
    for _ in range(rnd.randrange(5)):
        c[rnd.choice(KEYS)] = gen_value(depth)
    return c
def variants(c):
    out = [c, Container(c), copy.copy(c), copy.deepcopy(c), pickle.loads(pickle.dumps(c)), dict(c), Container(reversed(list(dict.items(c))))]
    d = copy.deepcopy(c); d["_extra"] = 99; out.append(d)
    d = copy.deepcopy(c); d["extra"] = 99; out.append(d)
    d = copy.deepcopy(c)
    pub = [k for k in dict.keys(d) if not (isinstance(k, str) and k.startswith("_"))]
    if pub:
        dict.__delitem__(d, pub[0]); out.append(d)
        e = copy.deepcopy(c); e[pub[-1]] = "changed"; out.append(e)
    out.append(collections.OrderedDict(dict.items(c)))
    out.append(list(dict.items(c)))
    out.append(None)
    return out

pool = [gen_container(3) for _ in range(60)]
for i, c in enumerate(pool):
    vs = variants(c)
    row = []
    for v in vs:
        for f in (lambda: c == v, lambda: c != v, lambda: v == c, lambda: v != c):
            try: row.append(str(f())[0])
            except BaseException as e: row.append(type(e).__name__)
    print("pool", i, repr(c)[:100], "".join(row))
# cross comparisons (transitivity material)
for i in range(0, 60, 3):
    print("cross", i, "".join("T" if pool[i] == pool[j] else "F" for j in range(60)))

# evaluation order and short circuiting
def run(label, a, b):
    del LOG[:]
    show(label, lambda: a == b)
    print("   log", LOG)
    del LOG[:]
    show(label + " ne", lambda: a != b)
    print("   log", LOG)
run("loud all true", Container(a=Loud("a1"), b=Loud("b1"), _c=Loud("c1")), Container(b=Loud("b2"), a=Loud("a2"), _c=Loud("c2")))
run("loud first false", Container(a=Loud("a1", False), b=Loud("b1")), Container(a=Loud("a2"), b=Loud("b2")))
run("loud second pass false", Container(a=Loud("a1"), b=Loud("b1")), Container(a=Loud("a2"), b=Loud("b2", False)))
run("loud missing key", Container(a=Loud("a1"), b=Loud("b1")), Container(a=Loud("a2")))
run("loud extra key other", Container(a=Loud("a1")), Container(a=Loud("a2"), z=Loud("z2")))
run("loud raises", Container(a=Loud("a1"), b=Loud("b1", exc=KeyError)), Container(a=Loud("a2"), b=Loud("b2")))
run("loud raises 2nd pass", Container(a=Loud("a1")), Container(a=Loud("a2", exc=ValueError)))
run("loud vs dict", Container(a=Loud("a1"), _h=Loud("h1")), {"a": Loud("a2"), "_q": Loud("q2")})
run("truthy 1", Container(a=Truthy(1)), Container(a=5))
run("truthy 0", Container(a=Truthy(0)), Container(a=5))
run("truthy list", Container(a=Truthy([])), Container(a=5))
run("truthy notimpl", Container(a=Truthy(NotImplemented)), Container(a=5))
run("badbool", Container(a=Truthy(BadBool())), Container(a=5))
run("fake ndarray left", Container(a=ndarray(1)), Container(a=1))
run("fake ndarray right", Container(a=1), Container(a=ndarray(1)))
run("fake ndarray both", Container(a=ndarray(1)), Container(a=ndarray(1)))
run("fake ndarray private", Container(_a=ndarray(1)), Container(_a=2))
run("fake ndarray after mismatch", Container(a=1, b=ndarray(1)), Container(a=2, b=ndarray(1)))
run("fake ndarray in list", Container(a=[ndarray(1)]), Container(a=[ndarray(2)]))
run("identity", pool[0], pool[0])
nan = float("nan")
run("nan same obj", Container(a=nan), Container(a=nan))
run("nan diff obj", Container(a=float("nan")), Container(a=float("nan")))
run("nan in list same", Container(a=[nan]), Container(a=[nan]))

# keys that collide with names used by the implementation
for name in ["isequal", "_values_equal", "_isequal", "items", "__class__", "__eq__", "startswith", "numpy"]:
    a = Container(); a[name] = 1; a["v"] = 2
    b = Container(); b["v"] = 2; b[name] = 1
    c = Container(); c["v"] = 2; c[name] = 3
    show("shadow %s" % name, lambda: (a == b, a != b, a == c, c == a, a == dict(b), dict(c) == a))

# self-referential and deep
r1 = Container(a=1); r1["me"] = r1
r2 = Container(a=1); r2["me"] = r2
show("recursive same", lambda: r1 == r1)
show("recursive other", lambda: r1 == r2)
def deep(n):
    c = Container(leaf=1)
    for _ in range(n): c = Container(n=c)
    return c
for n in [0, 1, 5, 10, 14]:
    show("deep %d" % n, lambda: (deep(n) == deep(n), deep(n) == deep(n + 1)))

# subclasses and ListContainer
class Sub(Container): pass
show("subclass", lambda: (Sub(a=1) == Container(a=1), Container(a=1) == Sub(a=1, _x=1), Sub(a=1) != Sub(a=2)))
show("listcontainer", lambda: (ListContainer([Container(a=1, _b=2)]) == [Container(a=1)], ListContainer([1, 2]) == [1, 2], Container(l=ListContainer([Container(_q=1)])) == Container(l=[{}])))

# namespace: no new public names
show("public names lib", lambda: sorted(clib.__all__) == sorted(n for n in clib.__all__ if hasattr(clib, n)))
ns = {}
exec("from construct.lib.containers import *", ns)
show("star import containers", lambda: sorted(k for k in ns if k != "__builtins__"))
show("class dict", lambda: sorted(Container.__dict__))
show("parse eq", lambda: construct.Struct("a" / construct.Byte, "b" / construct.Array(2, construct.Struct("c" / construct.Byte))).parse(b"\x01\x02\x03") == Container(a=1, b=[Container(c=2), dict(c=3)]))
