import sys, io, random
sys.path.insert(0, sys.argv[1])
from construct import *


def parse_pos(d, data, **kw):
    s = io.BytesIO(data)
    try:
        r = d.parse_stream(s, **kw)
        return (r, type(r).__name__, s.tell())
    except Exception as e:
        return ("EXC", type(e).__name__, s.tell())


def build(d, obj, **kw):
    try:
        return d.build(obj, **kw)
    except Exception as e:
        return ("EXC", type(e).__name__)


datas = [
    b"", b"\x00", b"\x01", b"\x7f", b"\x80", b"\x80\x00", b"\x80\x01", b"\xff", b"\xff\x7f", b"\xff\xff",
    b"\x80\x80\x80\x80\x00", b"\x80\x80\x80\x80\x80", b"\x81\x00\x05", b"\xac\x02rest",
    b"\x80" * 20 + b"\x04", b"\xff" * 9 + b"\x01", b"\xff" * 10 + b"\x7f" + b"tail", b"\xff" * 300,
    b"\x80\x80\x00\x01", b"\x00\x00",
]
rng = random.Random(20240817)
for _ in range(300):
    n = rng.randrange(0, 12)
    datas.append(bytes(rng.randrange(256) for _ in range(n)))

for data in datas:
    print("VarInt.parse", data.hex(), parse_pos(VarInt, data))
    print("ZigZag.parse", data.hex(), parse_pos(ZigZag, data))

values = [0, 1, 2, 126, 127, 128, 129, 255, 256, 16383, 16384, 2**21 - 1, 2**21, 2**32 - 1, 2**32, 2**63, 2**64 - 1, 2**64,
          2**100, 2**1000 + 12345, -1, -128, True, False, 1.0, None, "1", b"\x01"]
for _ in range(300):
    values.append(rng.randrange(0, 2 ** rng.randrange(1, 130)))
for v in values:
    b = build(VarInt, v)
    print("VarInt.build", repr(v), b)
    if isinstance(b, bytes):
        print("  roundtrip", parse_pos(VarInt, b), parse_pos(VarInt, b + b"\x99"))
    z = build(ZigZag, v)
    print("ZigZag.build", repr(v), z)
    if isinstance(z, bytes):
        print("  roundtrip", parse_pos(ZigZag, z))
    if isinstance(v, int):
        z = build(ZigZag, -v)
        print("ZigZag.build", repr(-v), z)
        if isinstance(z, bytes):
            print("  roundtrip", parse_pos(ZigZag, z))

# compositions that go through VarInt._parse
comps = [
    ("Prefixed", Prefixed(VarInt, GreedyBytes), [b"", b"a" * 127, b"b" * 128, b"c" * 20000]),
    ("PrefixedArray", PrefixedArray(VarInt, Int16ul), [[], [1], list(range(200))]),
    ("PascalString", PascalString(VarInt, "utf8"), ["", "x" * 130, "Δ" * 70]),
    ("Array", Array(3, VarInt), [[0, 128, 2**40]]),
    ("GreedyRange", GreedyRange(VarInt), [[], [1, 2, 300, 2**70]]),
    ("Struct", Struct("n" / VarInt, "z" / ZigZag, "d" / Bytes(this.n)), [dict(n=3, z=-70000, d=b"abc")]),
    ("RepeatUntil", RepeatUntil(lambda x, lst, ctx: x == 0, VarInt), [[5, 300, 0]]),
    ("Padded", Padded(4, VarInt), [1, 70000, 2**28]),
]
for name, d, objs in comps:
    for obj in objs:
        b = build(d, obj)
        print(name, "build", repr(obj)[:60], b if not isinstance(b, bytes) else (len(b), b[:12].hex()))
        if isinstance(b, bytes):
            r = parse_pos(d, b)
            print(name, "parse", repr(r)[:200])
            print(name, "parse truncated", parse_pos(d, b[:-1])[1:], parse_pos(d, b[:1])[1:])

print("GreedyRange trailing", parse_pos(GreedyRange(VarInt), b"\x01\x80\x01\x80"))
print("GreedyRange trailing zz", parse_pos(GreedyRange(ZigZag), b"\x01\x80\x01\x80\x80"))


# stream that returns short reads / raises
class Flaky(io.RawIOBase):
    def __init__(self, data, fail_at):
        self.data = data; self.pos = 0; self.fail_at = fail_at
    def readable(self): return True
    def read(self, n=-1):
        if self.pos >= self.fail_at:
            raise OSError("flaky")
        r = self.data[self.pos:self.pos + n]
        self.pos += len(r)
        return r
    def tell(self): return self.pos
for fail_at in range(0, 5):
    s = Flaky(b"\x80\x80\x80\x01", fail_at)
    try:
        print("flaky", fail_at, VarInt.parse_stream(s), s.pos)
    except Exception as e:
        print("flaky", fail_at, "!!", type(e).__name__, s.pos)

try:
    dc = Struct("a" / VarInt, "b" / ZigZag).compile()
    print("compiled", dc.parse(b"\xac\x02\x05"), dc.build(dict(a=300, b=-3)))
except Exception as e:
    print("compiled !!", type(e).__name__)
