import sys, io, os, tempfile
sys.path.insert(0, sys.argv[1])
from construct import *
from construct.core import CancelParsing

out = []
def show(label, fn):
    try:
        r = fn()
        out.append("%s -> %r" % (label, r))
    except Exception as e:
        out.append("%s !! %s" % (label, type(e).__name__))

def ctxdump(ctx):
    keys = list(ctx.keys())
    flags = [(k, ctx[k]) for k in keys if isinstance(ctx[k], (int, str, bool, type(None)))]
    return (keys, flags, ctx._params is ctx, type(ctx).__name__)

def cancel(ctx):
    raise CancelParsing

probe = Computed(ctxdump)
inner = Struct("a" / Byte, "c" / Computed(ctxdump), "up" / Computed(lambda ctx: ctxdump(ctx._)))
kwsets = [
    {},
    {"x": 1},
    {"z": 1, "a": 2, "m": 3},
    {"_parsing": "user", "_building": "user", "_sizing": "user"},
    {"_params": "user", "q": None},
    {"self": 1},
    {"context": 4, "contextkw": 5, "parsing": 6, "building": 7, "sizing": 8, "path": 9, "kw": 10, "flags": 11},
]

for i, kw in enumerate(kwsets):
    show("probe.parse %d" % i, lambda: probe.parse(b"", **kw))
    show("probe.parse_stream %d" % i, lambda: probe.parse_stream(io.BytesIO(b"abc"), **kw))
    show("probe.build %d" % i, lambda: probe.build(None, **kw))
    show("inner.parse %d" % i, lambda: inner.parse(b"\x07", **kw))
    show("inner.build %d" % i, lambda: inner.build(dict(a=9), **kw))
    show("inner.sizeof %d" % i, lambda: inner.sizeof(**kw))
    # sizeof context observed via a lambda-sized field
    seen = []
    def sz(ctx):
        seen.append(ctxdump(ctx))
        return 3
    show("Bytes(sz).sizeof %d" % i, lambda: Bytes(sz).sizeof(**kw))
    out.append("  seen %r" % (seen,))
    seen2 = []
    def bl(ctx):
        seen2.append(ctxdump(ctx))
        return 2
    s = io.BytesIO(b"..")
    s.seek(2)
    show("Bytes(bl).build_stream %d" % i, lambda: Bytes(bl).build_stream(b"ab", s, **kw))
    out.append("  seen %r stream=%r pos=%d" % (seen2, s.getvalue(), s.tell()))

# stream offsets and positions
for off in (0, 1, 3, 5):
    s = io.BytesIO(b"\x00\x01\x02\x03\x04")
    s.seek(off)
    show("Int16ub.parse_stream off=%d" % off, lambda: Int16ub.parse_stream(s))
    out.append("  pos %d" % s.tell())

# CancelParsing swallowed by parse_stream only, propagates from build/sizeof
c = Struct("a" / Byte, Computed(cancel), "b" / Byte)
s = io.BytesIO(b"\x01\x02")
show("cancel parse_stream", lambda: c.parse_stream(s))
out.append("  pos %d" % s.tell())
show("cancel parse", lambda: c.parse(b"\x01\x02"))
show("cancel build", lambda: c.build(dict(a=1, b=2)))
show("cancel sizeof", lambda: Bytes(cancel).sizeof())

# failing
show("short parse", lambda: Int32ub.parse(b"\x00"))
show("bad build", lambda: Int8ub.build(300))
show("VarInt sizeof", lambda: VarInt.sizeof())
show("missing key sizeof", lambda: Bytes(this.n).sizeof())
show("given key sizeof", lambda: Bytes(this.n).sizeof(n=4))
show("base parse", lambda: Construct().parse(b""))
show("base build", lambda: Construct().build(None))
show("base sizeof", lambda: Construct().sizeof())

# repeated calls give fresh contexts (mutation by one call invisible to the next)
def mutate(ctx):
    had = "leak" in ctx
    ctx["leak"] = 1
    ctx._params["leak2"] = 2
    return had
m = Computed(mutate)
for k in range(3):
    show("mutate parse %d" % k, lambda: m.parse(b""))
    show("mutate build %d" % k, lambda: m.build(None))
    show("mutate sizeof %d" % k, lambda: Bytes(lambda ctx: int(mutate(ctx))).sizeof())

# file entry points
d = tempfile.mkdtemp()
fn = os.path.join(d, "f.bin")
show("build_file", lambda: inner.build_file(dict(a=5), fn, x=1))
show("file bytes", lambda: open(fn, "rb").read())
show("parse_file", lambda: inner.parse_file(fn, x=1))
show("parse_file missing", lambda: inner.parse_file(os.path.join(d, "nope"), x=1))
os.remove(fn)
os.rmdir(d)

# compiled goes through the same public methods
show("compiled parse", lambda: Struct("a" / Byte, "k" / Computed(this._params.x)).compile().parse(b"\x01", x=42))
show("compiled build", lambda: Struct("a" / Byte).compile().build(dict(a=3), y=1))
show("compiled sizeof", lambda: Struct("a" / Byte).compile().sizeof(y=1))

# constructs not mutated
b = Struct("a" / Byte)
before = repr(sorted(vars(b).items(), key=lambda kv: kv[0]))
b.parse(b"\x01"); b.build(dict(a=1)); b.sizeof()
out.append("vars unchanged %r" % (before == repr(sorted(vars(b).items(), key=lambda kv: kv[0])),))

print("\n".join(out))
