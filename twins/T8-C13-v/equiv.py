import sys, io, enum
sys.path.insert(0, sys.argv[1])
import construct
from construct import *
from construct.core import BitwisableString

out = []
def p(*a):
    out.append(" ".join(str(x) for x in a))

def attempt(tag, fn):
    try:
        r = fn()
        if isinstance(r, bytes):
            r = "bytes:" + r.hex()
        p(tag, "->", "OK", repr(r))
    except BaseException as e:
        p(tag, "->", "EXC", type(e).__name__, "|", str(e).replace("\n", "\\n"))

class Boom(dict):
    def items(self):
        raise KeyError("items-boom")

class KeyErrBool:
    def __bool__(self):
        raise KeyError("bool-boom")
    def __repr__(self):
        return "KeyErrBool()"

class StopBool:
    def __bool__(self):
        raise StopIteration("stop-boom")
    def __repr__(self):
        return "StopBool()"

class StrSub(str):
    def split(self, sep=None):
        return ["one", " two "]

class F(enum.IntFlag):
    alpha = 1
    beta = 2
    gamma = 0x80

class E(enum.IntEnum):
    delta = 4
    alpha = 16

def labels(d):
    L = []
    L += list(range(0, 256, 17)) + [255, 256, -1, 2**70, True, False]
    L += ["one", "two", "four", "eight", "one|two", " one | two ", "one |two| four|eight",
          "", " ", "|", "||", "one||two", "|one", "one|", "unknown", "one|unknown", "unknown|one",
          "One", "one two", "one,two", "_x", "alpha", "alpha|beta|gamma", "delta|alpha", "\tone\n|\ntwo\t"]
    L += [BitwisableString("one"), BitwisableString("one") | BitwisableString("two"), StrSub("zzz")]
    L += [{}, {"one": True}, {"one": False}, {"one": True, "two": True}, {"one": 1, "two": 0, "four": "x", "eight": ""},
          {"_x": True}, {"_x": True, "one": True}, {"unknown": True}, {"unknown": False}, {"unknown": None, "two": [1]},
          {"one": True, "unknown": True, 5: True}, {5: True}, {5: False}, {None: True}, {"": True}, {"": False},
          {b"one": True}, {"alpha": True, "gamma": True}, {"delta": True, "alpha": True},
          Container(one=True, two=False), Container(_flagsenum=True, one=True, eight=True),
          Boom(one=True), {"one": KeyErrBool()}, {"one": StopBool()}, {"_q": KeyErrBool(), "two": True}]
    L += [None, 1.5, b"one", ["one"], ("one",), ("one", "two"), {"one"}, object, 3+0j]
    return L

def run(name, d):
    p("=== ", name)
    for lab in labels(d):
        try:
            tag = repr(lab)
        except BaseException as e:
            tag = "<repr failed>"
        attempt("build " + tag, lambda: d.build(lab))
    # stream positions on build
    for lab in ["one|two", "unknown", {"one": True}, {"unknown": True}, 7, None]:
        s = io.BytesIO(b"")
        try:
            r = d.build_stream(lab, s)
            p("build_stream", repr(lab), "OK", s.tell(), s.getvalue().hex())
        except BaseException as e:
            p("build_stream", repr(lab), "EXC", type(e).__name__, s.tell(), s.getvalue().hex())

d1 = FlagsEnum(Byte, one=1, two=2, four=4, eight=8)
run("FlagsEnum(Byte)", d1)
d2 = FlagsEnum(Int16ub, one=1, two=2, four=0x400, eight=0x8000)
run("FlagsEnum(Int16ub)", d2)
d3 = FlagsEnum(Byte, F, E, one=1, two=2)
run("FlagsEnum(Byte, F, E)", d3)
d4 = FlagsEnum(VarInt, one=1, two=2, four=2**40, eight=3)
run("FlagsEnum(VarInt) overlapping", d4)
d5 = FlagsEnum(Byte)
run("FlagsEnum(Byte) empty", d5)
d6 = FlagsEnum(Byte, one="a", two=2, four=None, eight=8)
run("FlagsEnum(Byte) nonint values", d6)
d7 = Struct("a" / Byte, "f" / FlagsEnum(Byte, one=1, two=2, four=4, eight=8))
p("=== nested in Struct")
for lab in ["one|two", "unknown", {"one": True}, {"unknown": True}, 7, None, 1.5, {"_x": 1, "two": 1}]:
    attempt("struct build " + repr(lab), lambda: d7.build(dict(a=1, f=lab)))

p("=== exhaustive roundtrip")
for i in range(256):
    obj = d1.parse(bytes([i]))
    b = d1.build(obj)
    names = "|".join(k for k, v in obj.items() if v and not k.startswith("_"))
    b2 = d1.build(names)
    p(i, sorted(k for k, v in obj.items() if v is True), b.hex(), b2.hex(), b == bytes([i] if i < 16 else [i & 15]))

p("=== attributes")
attempt("d1.one", lambda: d1.one)
attempt("d1.one|d1.two", lambda: d1.one | d1.two)
attempt("d1.missing", lambda: d1.missing)
attempt("build d1.one|d1.eight", lambda: d1.build(d1.one | d1.eight))
attempt("d3.alpha", lambda: d3.alpha)

p("=== compiled")
dc = d1.compile()
for lab in [0, 5, "one|two", "unknown", {"one": True, "four": True}, {"unknown": True}, None, 1.5, "", {"_x": True}]:
    attempt("compiled build " + repr(lab), lambda: dc.build(lab))
for i in (0, 1, 6, 15, 255):
    attempt("compiled parse %d" % i, lambda: dc.parse(bytes([i])))

p("=== sizeof")
attempt("sizeof d1", lambda: d1.sizeof())
attempt("sizeof d2", lambda: d2.sizeof())

sys.stdout.write("\n".join(out) + "\n")
