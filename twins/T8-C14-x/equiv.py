#!/usr/bin/env python
"""Equivalence transcript for the stream helpers, RawCopy and Checksum.

usage: python equiv.py <path-to-checkout>
Prints a deterministic transcript (results, exception class names and
messages, stream positions).
"""
import sys
sys.path.insert(0, sys.argv[1])

import binascii
import hashlib
import io
import os
import tempfile
import zlib

import construct
from construct import *
from construct import core

assert os.path.abspath(construct.__file__).startswith(os.path.abspath(sys.argv[1])), construct.__file__


TMPDIR = None


def show(x):
    if isinstance(x, dict):
        items = [(k, x[k]) for k in x.keys() if not (isinstance(k, str) and k.startswith("_io"))]
        return "{" + ", ".join("%s=%s" % (k, show(v)) for k, v in items) + "}"
    if isinstance(x, (list, tuple)):
        return "[" + ", ".join(show(v) for v in x) + "]"
    return repr(x)


def run(label, fn):
    try:
        r = fn()
    except BaseException as e:
        ctx = e.__context__
        msg = str(e).replace("\n", " / ")
        if TMPDIR is not None:
            msg = msg.replace(TMPDIR, "<tmp>")
        print("%s -> EXC %s: %s | context=%s" % (label, type(e).__name__, msg, type(ctx).__name__ if ctx is not None else None))
    else:
        print("%s -> %s" % (label, show(r)))


# ---------------------------------------------------------------- streams
class BadStream(io.BytesIO):
    """BytesIO whose chosen methods fail with a chosen exception."""
    def __init__(self, data=b"", fail=(), exc=OSError, after=0):
        super().__init__(data)
        self.fail = set(fail)
        self.exc = exc
        self.after = after
        self.calls = []

    def _maybe(self, name):
        self.calls.append(name)
        if name in self.fail:
            if self.after > 0:
                self.after -= 1
                return
            raise self.exc("boom " + name)

    def tell(self):
        self._maybe("tell")
        return super().tell()

    def seek(self, *a):
        self._maybe("seek")
        return super().seek(*a)

    def read(self, *a):
        self._maybe("read")
        return super().read(*a)

    def write(self, b):
        self._maybe("write")
        return super().write(b)


class ShortWriter(io.BytesIO):
    def write(self, b):
        super().write(b[:-1])
        return len(b) - 1


class NoneSeek(io.BytesIO):
    """seek returns a custom value; tell returns a custom int subclass"""
    def seek(self, *a):
        super().seek(*a)
        return "seek-result"


print("== stream helpers")
for exc in (OSError, ValueError, KeyError, KeyboardInterrupt, SystemExit, StopIteration):
    run("tell fail %s" % exc.__name__, lambda: core.stream_tell(BadStream(b"abc", fail=["tell"], exc=exc), "p"))
    run("seek fail %s" % exc.__name__, lambda: core.stream_seek(BadStream(b"abc", fail=["seek"], exc=exc), 1, 0, "p"))
    run("read_entire fail %s" % exc.__name__, lambda: core.stream_read_entire(BadStream(b"abc", fail=["read"], exc=exc), "p"))
    run("read fail %s" % exc.__name__, lambda: core.stream_read(BadStream(b"abc", fail=["read"], exc=exc), 2, "p"))
    run("write fail %s" % exc.__name__, lambda: core.stream_write(BadStream(b"abc", fail=["write"], exc=exc), b"xy", 2, "p"))

s = io.BytesIO(b"0123456789")
run("tell 0", lambda: core.stream_tell(s, "p"))
for off, wh in [(3, 0), (2, 1), (-1, 2), (0, 2), (100, 0), (-1, 0), (0, 7), (None, 0), ("x", 0), (1.5, 0)]:
    run("seek %r %r" % (off, wh), lambda: core.stream_seek(s, off, wh, "path"))
    run("  tell", lambda: core.stream_tell(s, "path"))
run("seek custom return", lambda: core.stream_seek(NoneSeek(b"abc"), 2, 0, "p"))
s.seek(4)
run("read_entire mid", lambda: core.stream_read_entire(s, "p"))
run("read_entire eof", lambda: core.stream_read_entire(s, "p"))
run("tell eof", lambda: core.stream_tell(s, "p"))
run("tell on non-stream", lambda: core.stream_tell(object(), "p"))
run("seek on non-stream", lambda: core.stream_seek(object(), 0, 0, "p"))
run("read_entire on non-stream", lambda: core.stream_read_entire(object(), "p"))
run("tell on None", lambda: core.stream_tell(None, None))
closed = io.BytesIO(b"abc"); closed.close()
run("tell closed", lambda: core.stream_tell(closed, "p"))
run("seek closed", lambda: core.stream_seek(closed, 0, 0, "p"))
run("read_entire closed", lambda: core.stream_read_entire(closed, "p"))
s = io.BytesIO(b"0123456789")
for n in (0, 1, 9, 10, 11, -1):
    s.seek(1)
    run("read %d" % n, lambda: core.stream_read(s, n, "p"))
    run("  tell", lambda: s.tell())
run("write short", lambda: core.stream_write(ShortWriter(), b"abc", 3, "p"))
run("write str", lambda: core.stream_write(io.BytesIO(), "abc", 3, "p"))
run("write wronglen", lambda: core.stream_write(io.BytesIO(), b"abc", 2, "p"))
run("write neg", lambda: core.stream_write(io.BytesIO(), b"abc", -1, "p"))
run("Tell parse", lambda: Struct(Bytes(3), "t" / Tell).parse(b"abcd"))
run("Seek parse", lambda: Struct(Seek(2), "b" / Byte, "r" / Seek(-1, 2), "c" / Byte).parse(b"abcd"))
run("Seek bad", lambda: Seek(-5).parse(b"abcd"))
run("GreedyBytes", lambda: Struct(Byte, "g" / GreedyBytes).parse(b"abcd"))
run("Pointer", lambda: Struct("p" / Pointer(2, Byte), "t" / Tell).parse(b"abcd"))
run("Peek", lambda: Struct("p" / Peek(Int16ub), "t" / Tell, "b" / Byte).parse(b"abcd"))

# ---------------------------------------------------------------- RawCopy
print("== RawCopy parse")
inners = [
    ("Byte", Byte),
    ("Int32ub", Int32ub),
    ("Bytes0", Bytes(0)),
    ("Bytes3", Bytes(3)),
    ("VarInt", VarInt),
    ("CString", CString("utf8")),
    ("PascalString", PascalString(Byte, "utf8")),
    ("GreedyBytes", GreedyBytes),
    ("GreedyRange", GreedyRange(Byte)),
    ("Prefixed", Prefixed(Byte, GreedyBytes)),
    ("PrefixedArray", PrefixedArray(Byte, Int16ub)),
    ("Struct", Struct("a" / Byte, "b" / Int16ul)),
    ("Nested", RawCopy(Struct("a" / Byte, "b" / RawCopy(Int16ul)))),
    ("Pass", Pass),
    ("Const", Const(b"\x01\x02")),
    ("Bitwise", Bitwise(Struct("x" / BitsInteger(4), "y" / BitsInteger(12)))),
    ("Pointer", Pointer(1, Byte)),
    ("Peek", Peek(Byte)),
    ("Padded", Padded(4, Byte)),
    ("Seek", Seek(2)),
    ("Terminated", Terminated),
    ("Computed", Computed(7)),
]
payloads = [b"", b"\x01", b"\x01\x02", b"\x02ab", b"\x01\x02\x03\x04", b"\x03abc\x00def", b"\x85\x01zz", b"hello\x00world\x00"]
for name, inner in inners:
    d = RawCopy(inner)
    for p in payloads:
        run("parse %s %r" % (name, p), lambda: d.parse(p))
    for pre in (0, 1, 5):
        for p in payloads[2:6]:
            full = Struct("pre" / Bytes(pre), "r" / d, "post" / Tell)
            run("offset %d %s %r" % (pre, name, p), lambda: full.parse(b"\xee" * pre + p))
    # inside substreams
    run("FixedSized %s" % name, lambda: Struct(Byte, "f" / FixedSized(6, d), "t" / Tell).parse(b"\x09\x02abcdefgh"))
    run("Prefixed %s" % name, lambda: Struct(Byte, "f" / Prefixed(Byte, d), "t" / Tell).parse(b"\x09\x04\x02abcdefgh"))
    run("sizeof %s" % name, lambda: d.sizeof())

print("== RawCopy parse on bad streams")
for name, inner in inners[:4]:
    d = RawCopy(inner)
    for fail in (["tell"], ["seek"], ["read"]):
        for after in (0, 1, 2):
            for exc in (OSError, KeyboardInterrupt):
                st = BadStream(b"\x01\x02\x03\x04\x05", fail=fail, exc=exc, after=after)
                run("bad %s fail=%s after=%d %s" % (name, fail, after, exc.__name__), lambda: d.parse_stream(st))
                print("   calls=%s pos=%d" % (st.calls, io.BytesIO.tell(st)))


def hook(obj, ctx):
    print("   parsed hook:", show(obj))


run("parsed hook", lambda: RawCopy(Byte * hook).parse(b"\x07"))
run("parsed hook outer", lambda: (RawCopy(Byte) * hook).parse(b"\x07"))

print("== RawCopy build")
buildcases = [
    ("Byte", Byte, [dict(value=5), dict(data=b"\x05"), dict(value=5, data=b"\x09"), dict(data=b""), dict(data=b"toolong"),
                    dict(), None, dict(value=300), dict(value=None), dict(data="str"), dict(data=None), dict(data=bytearray(b"x")), 5, [], "data",
                    dict(value=5, extra=1), dict(data=b"\x05", offset1=99, offset2=100, length=77)]),
    ("Int32ub", Int32ub, [dict(value=1), dict(data=b"abcd"), dict(value=-1)]),
    ("VarInt", VarInt, [dict(value=0), dict(value=300), dict(value=2 ** 70)]),
    ("CString", CString("utf8"), [dict(value=""), dict(value="héllo"), dict(value=b"x")]),
    ("GreedyBytes", GreedyBytes, [dict(value=b""), dict(value=b"abc")]),
    ("Prefixed", Prefixed(Byte, GreedyBytes), [dict(value=b""), dict(value=b"abc"), dict(value=b"x" * 300)]),
    ("Struct", Struct("a" / Byte, "b" / Int16ul), [dict(value=dict(a=1, b=2)), dict(value=dict(a=1)), dict(data=b"\x01\x02\x00")]),
    ("Nested", RawCopy(Struct("a" / Byte, "b" / RawCopy(Int16ul))),
        [dict(value=dict(value=dict(a=1, b=dict(value=2)))), dict(value=dict(value=dict(a=1, b=dict(data=b"zz")))), dict(value=dict(data=b"qqq"))]),
    ("Pass", Pass, [None, dict(value=None), dict(value=3), dict()]),
    ("Const", Const(b"\x01\x02"), [None, dict(value=None), dict(value=b"\x01\x02"), dict(value=b"no")]),
    ("Default", Default(Byte, 7), [None, dict(value=None), dict(value=9)]),
    ("Computed", Computed(7), [None, dict(value=None)]),
    ("Padded", Padded(4, Byte), [dict(value=1)]),
    ("Bitwise", Bitwise(Struct("x" / BitsInteger(4), "y" / BitsInteger(12))), [dict(value=dict(x=1, y=2))]),
    ("Pointer", Pointer(3, Byte), [dict(value=1)]),
    ("Rebuild", Rebuild(Byte, lambda ctx: 42), [dict(value=None), None]),
]
for name, inner, objs in buildcases:
    d = RawCopy(inner)
    for obj in objs:
        run("build %s %s" % (name, show(obj)), lambda: d.build(obj))
        for pre in (0, 3):
            st = io.BytesIO()
            st.write(b"\xee" * pre)
            run("  _build pre=%d" % pre, lambda: d._build(obj, st, Container(), "bp"))
            print("   pos=%d value=%r" % (st.tell(), st.getvalue()))
        full = Struct("pre" / Bytes(2), "r" / d, "post" / Tell)
        run("  in struct", lambda: full.build(dict(pre=b"ab", r=obj)))
        run("  in Prefixed", lambda: Prefixed(Byte, Struct("r" / d)).build(dict(r=obj)))

print("== RawCopy build on bad streams")
for obj in (dict(value=5), dict(data=b"\x05")):
    for fail in (["tell"], ["seek"], ["read"], ["write"]):
        for after in (0, 1, 2):
            for exc in (OSError, KeyboardInterrupt):
                st = BadStream(b"", fail=fail, exc=exc, after=after)
                run("badbuild %s fail=%s after=%d %s" % (show(obj), fail, after, exc.__name__), lambda: RawCopy(Byte)._build(obj, st, Container(), "bp"))
                print("   calls=%s value=%r" % (st.calls, st.getvalue()))

print("== RawCopy roundtrip")
for name, inner, objs in buildcases:
    d = RawCopy(inner)
    for obj in objs:
        try:
            b = d.build(obj)
        except Exception as e:
            continue
        run("rt %s %r" % (name, b), lambda: d.parse(b))
        try:
            p = d.parse(b)
        except Exception:
            continue
        run("  rebuild from data", lambda: d.build(dict(data=p.data)))
        run("  rebuild from value", lambda: d.build(dict(value=p.value)))
        run("  rebuild from parsed", lambda: d.build(p))

print("== files")
tmpdir = TMPDIR = tempfile.mkdtemp()
fn = os.path.join(tmpdir, "f.bin")
d = Struct("pre" / Byte, "r" / RawCopy(Struct("a" / Int16ub, "s" / CString("utf8"))), "c" / Checksum(Bytes(4), lambda data: zlib.crc32(data).to_bytes(4, "big"), this.r.data))
run("build_file", lambda: d.build_file(dict(pre=1, r=dict(value=dict(a=2, s="xyz"))), fn))
run("file content", lambda: open(fn, "rb").read())
run("parse_file", lambda: d.parse_file(fn))
run("build_file bad", lambda: d.build_file(dict(pre=1, r=dict()), fn))
run("file content", lambda: open(fn, "rb").read())
run("build_file nodir", lambda: d.build_file(dict(pre=1, r=dict(data=b"q")), os.path.join(tmpdir, "nodir", "f.bin")).__class__)
with open(fn, "wb") as f:
    run("write-only file value", lambda: RawCopy(Byte).build_stream(dict(value=1), f))
with open(fn, "wb") as f:
    run("write-only file data", lambda: RawCopy(Byte).build_stream(dict(data=b"\x01"), f))
os.remove(fn)
os.rmdir(tmpdir)

# ---------------------------------------------------------------- Checksum
print("== Checksum")
hashes = [
    ("sha512", Bytes(64), lambda data: hashlib.sha512(data).digest()),
    ("md5", Bytes(16), lambda data: hashlib.md5(data).digest()),
    ("crc32-int", Int32ub, lambda data: zlib.crc32(data) & 0xffffffff),
    ("crc32-bytes", Bytes(4), lambda data: zlib.crc32(data).to_bytes(4, "big")),
    ("adler-le", Int32ul, lambda data: zlib.adler32(data)),
    ("sum8", Byte, lambda data: sum(data) & 0xff),
    ("hex-str", PaddedString(8, "ascii"), lambda data: "%08x" % zlib.crc32(data)),
    ("len-varint", VarInt, lambda data: len(data)),
]
bodies = [
    ("Bytes0", Bytes(0), b""),
    ("Bytes5", Bytes(5), b"hello"),
    ("Prefixed", Prefixed(Byte, GreedyBytes), b"variable"),
    ("Struct", Struct("a" / Int16ub, "s" / CString("utf8")), dict(a=513, s="zz")),
]
for hname, field, fn_ in hashes:
    for bname, body, val in bodies:
        for pre in (0, 2):
            d = Struct("pre" / Bytes(pre), "r" / RawCopy(body), "c" / Checksum(field, fn_, this.r.data), "end" / Tell)
            label = "%s/%s/pre%d" % (hname, bname, pre)
            try:
                built = d.build(dict(pre=b"P" * pre, r=dict(value=val)))
            except Exception as e:
                print(label, "build EXC", type(e).__name__, e)
                continue
            print(label, "built", binascii.hexlify(built).decode())
            run(label + " parse", lambda: d.parse(built))
            bad = 0
            msgs = set()
            for bit in range(pre * 8, len(built) * 8):
                corrupted = bytearray(built)
                corrupted[bit // 8] ^= 1 << (bit % 8)
                try:
                    d.parse(bytes(corrupted))
                    print(label, "bit", bit, "NOT DETECTED")
                except Exception as e:
                    bad += 1
                    if bit % 13 == 0:
                        print(label, "bit", bit, type(e).__name__, str(e).replace("\n", " / "))
            print(label, "detected", bad, "of", len(built) * 8 - pre * 8)

print("== Checksum odd cases")


class Weird:
    """hash value whose != is always True / repr is custom"""
    def __init__(self, v, ne):
        self.v = v
        self.ne = ne

    def __ne__(self, other):
        print("   __ne__ called with", repr(other))
        return self.ne

    def __eq__(self, other):
        print("   __eq__ called with", repr(other))
        return not self.ne

    __hash__ = None

    def __repr__(self):
        print("   __repr__ called on", self.v)
        return "Weird(%r)" % (self.v,)


class BytesSub(bytes):
    def __repr__(self):
        return "BytesSub(...)"


class BadRepr:
    def __repr__(self):
        raise RuntimeError("repr failed")


class FmtStr(str):
    def __format__(self, spec):
        return "FORMATTED(%s)" % spec


class ReprSub:
    def __repr__(self):
        return FmtStr("reprsub")


odd = [
    ("repr returns str subclass", Byte, lambda data: ReprSub()),
    ("bytes vs long bytes", Bytes(1), lambda data: bytes(range(256))),
    ("int vs bytes", Byte, lambda data: b"\x01"),
    ("bytes vs int", Bytes(1), lambda data: 1),
    ("bytes vs None", Bytes(1), lambda data: None),
    ("bytes vs str", Bytes(1), lambda data: "\x01"),
    ("bytes vs bytearray eq", Bytes(1), lambda data: bytearray(b"\x01")),
    ("bytes vs bytearray ne", Bytes(1), lambda data: bytearray(b"\x02")),
    ("bytes vs bytessub eq", Bytes(1), lambda data: BytesSub(b"\x01")),
    ("bytes vs bytessub ne", Bytes(1), lambda data: BytesSub(b"\x02")),
    ("bytes vs tuple", Bytes(1), lambda data: (1, 2)),
    ("bytes vs 1-tuple", Bytes(1), lambda data: (b"\x01",)),
    ("bytes vs dict", Bytes(1), lambda data: {"a": 1}),
    ("bytes vs percent", Bytes(1), lambda data: "%r %s %d"),
    ("bytes vs braces", Bytes(1), lambda data: "{hash1!r} {0}"),
    ("int vs float eq", Byte, lambda data: 1.0),
    ("int vs nan", Byte, lambda data: float("nan")),
    ("weird ne true", Byte, lambda data: Weird("w1", True)),
    ("weird ne false", Byte, lambda data: Weird("w2", False)),
    ("badrepr", Byte, lambda data: BadRepr()),
    ("hashfunc raises", Byte, lambda data: 1 // 0),
    ("empty bytes", Bytes(0), lambda data: b"x"),
]
for label, field, fn_ in odd:
    c = Checksum(field, fn_, this.payload)
    run("odd parse %s" % label, lambda: c.parse(b"\x01\x02", payload=b"zz"))
    st = io.BytesIO(b"\x01\x02")
    run("odd parse_stream %s" % label, lambda: c.parse_stream(st, payload=b"zz"))
    print("   pos=%d" % st.tell())
    run("odd build %s" % label, lambda: c.build(None, payload=b"zz"))
run("adapter field read", lambda: Checksum(Hex(Bytes(2)), lambda d: b"zz", this.payload).parse(b"\x01\x02", payload=b""))
run("adapter field ok", lambda: Checksum(Hex(Bytes(2)), lambda d: b"\x01\x02", this.payload).parse(b"\x01\x02", payload=b""))
run("short read", lambda: Checksum(Bytes(4), lambda d: b"zzzz", this.payload).parse(b"\x01", payload=b""))
run("missing ctx", lambda: Checksum(Bytes(1), lambda d: b"z", this.nothere).parse(b"\x01"))
run("missing ctx build", lambda: Checksum(Bytes(1), lambda d: b"z", this.nothere).build(None))
run("nested path", lambda: Struct("outer" / Struct("r" / RawCopy(Byte), "c" / Checksum(Bytes(1), lambda d: b"z", this.r.data))).parse(b"\x01\x02"))
run("sizeof", lambda: Checksum(Bytes(4), lambda d: d, this.data).sizeof())
run("parsed hook on field", lambda: Checksum(Bytes(1) * hook, lambda d: b"\x02", this.payload).parse(b"\x01", payload=b""))
run("pointer checksum", lambda: Struct(
    "offset" / Tell, "checksum" / Padding(4),
    "fields" / RawCopy(Struct("a" / Bytes(3))),
    "checksum" / Pointer(this.offset, Checksum(Bytes(4), lambda data: zlib.crc32(data).to_bytes(4, "big"), this.fields.data)),
).build(dict(fields=dict(value=dict(a=b"abc")))))

print("== compiled")
for name, d in [
    ("rawcopy", Struct("r" / RawCopy(Int16ub), "t" / Tell)),
    ("checksum", Struct("r" / RawCopy(Bytes(2)), "c" / Checksum(Bytes(4), lambda data: zlib.crc32(data).to_bytes(4, "big"), this.r.data))),
    ("tellseek", Struct("a" / Byte, "t" / Tell, Seek(0), "b" / Byte)),
]:
    try:
        dc = d.compile()
    except Exception as e:
        print("compile", name, "EXC", type(e).__name__, e)
        continue
    for p in (b"", b"\x01\x02", b"\x01\x02\xb6\xcc\x42\x82", b"\x01\x02\x00\x00\x00\x00"):
        run("compiled %s %r" % (name, p), lambda: dc.parse(p))
print("done")
