import sys, io
sys.path.insert(0, sys.argv[1])
from construct import *
from construct.lib import *

def clean(e):
    return (type(e).__name__, str(e).replace("\n", " | "))

def build_pos(d, obj, **kw):
    s = io.BytesIO()
    try:
        r = d._build(obj, s, Container(_params=Container(kw), _parsing=False, _building=True, _sizing=False, **kw), "(b)")
        return (type(r).__name__, r, s.getvalue(), s.tell())
    except Exception as e:
        return ("EXC",) + clean(e) + (s.getvalue(), s.tell())

def pub_build(d, obj):
    try:
        return d.build(obj)
    except Exception as e:
        return ("EXC",) + clean(e)

def parse_pos(d, data):
    s = io.BytesIO(data)
    try:
        return (d.parse_stream(s), s.tell())
    except Exception as e:
        return ("EXC",) + clean(e) + (s.tell(),)

class BadIter:
    def __init__(self, exc): self.exc = exc
    def __iter__(self): return self
    def __next__(self): raise self.exc

def gen_then_raise(exc):
    yield 1
    yield 2
    raise exc

subcons = [
    ("Byte", Byte),
    ("Int16ub", Int16ub),
    ("StopSeq", FocusedSeq("x", "x" / Byte, StopIf(this.x == 0))),
    ("StopStruct", Struct("x" / Byte, StopIf(this.x == 0), "y" / Byte)),
    ("BareStop", StopIf(this._index == 2)),
    ("BareStopFirst", StopIf(True)),
    ("Check", FocusedSeq("x", "x" / Byte, Check(this.x < 5))),
    ("ErrorAt3", FocusedSeq("x", "x" / Byte, If(this.x == 3, Error))),
    ("IndexPlus", "e" / Struct("i" / Index, "v" / Rebuild(Byte, this.i + 10))),
]
objs = [
    ("empty", []),
    ("123", [1, 2, 3]),
    ("with0", [4, 0, 6]),
    ("0first", [0, 1]),
    ("big", [1, 300]),
    ("tuple", (7, 3, 9)),
    ("range", range(4)),
    ("none-elts", [None, None, None]),
    ("dicts", [dict(x=1, y=2), dict(x=0, y=9), dict(x=5, y=6)]),
    ("str", "ab"),
]
for sname, sc in subcons:
    for discard in (False, True):
        d = GreedyRange(sc, discard=discard)
        for oname, o in objs:
            print("build", sname, discard, oname, "->", build_pos(d, o))

for discard in (False, True):
    d = GreedyRange(Byte, discard=discard)
    print("noniterable", discard, build_pos(d, 5), build_pos(d, None))
    for exc in (StopFieldError(), StopFieldError("msg", path="p"), ValueError("v"), StreamError("s"), KeyError("k"), StopIteration()):
        print("baditer", discard, type(exc).__name__, build_pos(d, BadIter(exc)))
        print("genraise", discard, type(exc).__name__, build_pos(d, gen_then_raise(exc)))

# public API, nesting, return values propagated into contexts
d = Struct("n" / Byte, "items" / GreedyRange(FocusedSeq("x", "x" / Byte, StopIf(this.x == 0))), "after" / Computed(lambda ctx: ctx["items"]))
for o in ([1, 2, 3], [1, 0, 3], [], [0]):
    s = io.BytesIO()
    try:
        r = d._build(dict(n=9, items=o), s, Container(_params=Container(), _parsing=False, _building=True, _sizing=False), "(b)")
        print("struct", o, "->", {k: v for k, v in r.items() if not k.startswith("_")}, s.getvalue())
    except Exception as e:
        print("struct", o, "!!", clean(e), s.getvalue())
d = Sequence(GreedyRange(StopIf(True)), GreedyRange(Byte), Byte)
print("seq", build_pos(d, [[1, 2], [3, 4], 5]), pub_build(d, [[1], [], 2]))
d = Prefixed(Byte, GreedyRange(FocusedSeq("x", "x" / Int16ub, StopIf(this.x == 0))))
print("prefixed", pub_build(d, [1, 2]), pub_build(d, [1, 0, 2]), pub_build(d, []), pub_build(d, [70000]))
d = GreedyRange(GreedyRange(FocusedSeq("x", "x" / Byte, StopIf(this.x == 0))))
print("nested", build_pos(d, [[1, 2], [3, 0, 4], [0]]), build_pos(d, [[1], 5]))
d = NamedTuple("T", "a b", GreedyRange(Byte))
print("namedtuple", pub_build(d, (1, 2)))

# parsing and sizeof unaffected
for sname, sc in subcons[:5]:
    d = GreedyRange(sc)
    print("parse", sname, parse_pos(d, b"\x01\x02\x00\x03\x04"))
    try:
        print("sizeof", sname, d.sizeof())
    except Exception as e:
        print("sizeof", sname, clean(e))
try:
    print(GreedyRange(Byte).compile())
except Exception as e:
    print("compile", clean(e))
from construct.core import KsyGen
g = KsyGen()
print("ksy", Struct("a" / GreedyRange(Byte), "b" / GreedyRange(Struct("x" / Byte)))._compileseq(g), g.types)
