#!/usr/bin/env python
"""Observations over GreedyRange / RepeatUntil (parse, build, sizeof, stream positions,
exception types, build return values, _index bookkeeping, compiled form).

usage: equiv.py <repo root>

Output is deterministic; it must be byte-identical on the reference tree and on the
refactored tree.
"""
import sys, io, random

root = sys.argv[1]
sys.path.insert(0, root)

from construct import *
from construct.lib import *

N = [0]


def out(s):
    N[0] += 1
    print("%04d %s" % (N[0], s))


def desc_exc(e):
    return "%s" % (type(e).__name__,)


def show(v):
    if type(v).__name__.endswith("iterator") or type(v).__name__ == "generator":
        return "<%s>" % (type(v).__name__,)
    r = repr(v)
    return r if len(r) < 300 else r[:300] + "..."


def mkctx(**kw):
    ctx = Container(**kw)
    ctx._parsing = False
    ctx._building = True
    ctx._sizing = False
    ctx._params = ctx
    return ctx


def obs_parse(label, d, data, **kw):
    stream = io.BytesIO(data)
    try:
        v = d.parse_stream(stream, **kw)
        out("parse  %-26s %-24s -> %s pos=%d" % (label, data.hex(), show(v), stream.tell()))
        return v
    except Exception as e:
        out("parse  %-26s %-24s !! %s pos=%d" % (label, data.hex(), desc_exc(e), stream.tell()))
        return None


def obs_build(label, d, obj, **kw):
    stream = io.BytesIO()
    try:
        d.build_stream(obj, stream, **kw)
        out("build  %-26s %-24s -> %s pos=%d" % (label, show(obj), stream.getvalue().hex(), stream.tell()))
        return stream.getvalue()
    except Exception as e:
        out("build  %-26s %-24s !! %s written=%s" % (label, show(obj), desc_exc(e), stream.getvalue().hex()))
        return None


def obs_rawbuild(label, d, obj):
    """calls _build directly to observe its return value and the context afterwards"""
    stream = io.BytesIO()
    ctx = mkctx()
    try:
        ret = d._build(obj, stream, ctx, "(raw)")
        out("_build %-26s %-24s -> ret=%s type=%s bytes=%s _index=%r" % (
            label, show(obj), show(ret), type(ret).__name__, stream.getvalue().hex(), ctx.get("_index", "unset")))
    except Exception as e:
        out("_build %-26s %-24s !! %s bytes=%s _index=%r" % (
            label, show(obj), desc_exc(e), stream.getvalue().hex(), ctx.get("_index", "unset")))


def obs_rawparse(label, d, data):
    stream = io.BytesIO(data)
    ctx = mkctx()
    ctx._parsing, ctx._building = True, False
    try:
        ret = d._parsereport(stream, ctx, "(raw)")
        out("_parse %-26s %-24s -> ret=%s type=%s pos=%d _index=%r" % (
            label, data.hex(), show(ret), type(ret).__name__, stream.tell(), ctx.get("_index", "unset")))
    except Exception as e:
        out("_parse %-26s %-24s !! %s pos=%d _index=%r" % (
            label, data.hex(), desc_exc(e), stream.tell(), ctx.get("_index", "unset")))


def cycle(label, d, data, **kw):
    v = obs_parse(label, d, data, **kw)
    if v is None:
        return
    b1 = obs_build(label, d, v, **kw)
    if b1 is None:
        return
    v2 = obs_parse(label, d, b1, **kw)
    if v2 is not None:
        b2 = obs_build(label, d, v2, **kw)
        out("cycle  %-26s equal=%s stable=%s canonical_in=%s" % (label, v2 == v, b2 == b1, b1 == data))


def obs_sizeof(label, d):
    try:
        out("sizeof %-26s -> %r" % (label, d.sizeof()))
    except Exception as e:
        out("sizeof %-26s !! %s" % (label, desc_exc(e)))


rnd = random.Random(20240202)

# ---------------------------------------------------------------- GreedyRange
cases = [
    ("GR(Byte)", GreedyRange(Byte)),
    ("GR(Int16ub)", GreedyRange(Int16ub)),
    ("GR(Byte,discard)", GreedyRange(Byte, discard=True)),
    ("GR(VarInt)", GreedyRange(VarInt)),
    ("GR(Flag)", GreedyRange(Flag)),
    ("GR(Const ab)", GreedyRange(Const(b"ab"))),
    ("GR(OneOf<5)", GreedyRange(OneOf(Byte, [0, 1, 2, 3, 4]))),
    ("GR(Struct k,v)", GreedyRange(Struct("k" / Byte, "v" / Bytes(this.k)))),
    ("GR(Seq idx)", GreedyRange(Sequence(Index, Byte))),
    ("GR(stop at 0)", GreedyRange(FocusedSeq("v", "v" / Byte, StopIf(this.v == 0)))),
    ("GR(Struct stopif)", GreedyRange(Struct("v" / Byte, StopIf(this.v == 255), "w" / Byte))),
    ("GR(error on 7)", GreedyRange(FocusedSeq("v", "v" / Byte, If(this.v == 7, Error)))),
    ("GR(check<9)", GreedyRange(FocusedSeq("v", "v" / Byte, Check(this.v < 9)))),
    ("GR(CString)", GreedyRange(CString("ascii"))),
    ("GR(Pascal)", GreedyRange(PascalString(Byte, "utf8"))),
    ("GR(idxlen)", GreedyRange(Bytes(this._index + 1))),
    ("GR(GR pfx)", GreedyRange(Prefixed(Byte, GreedyRange(Int16ub)))),
]
inputs = [
    b"", b"\x00", b"\x01", b"\x01\x02\x03", b"abab", b"ababa", b"\x01\x02\x03\x09\x04",
    b"\x80", b"\x80\x80\x01\x05", b"\x02ab\x01c\x00", b"\x02ab\x05c", b"\x03\x04\x00\x05\x06",
    b"\x01\x07\x02", b"\x01\x02\xff\x03\x04", b"abc\x00de\x00f", b"\x03\x00\x01\x00\x02\x02\x00\x03\x01",
    b"\x05\xff\xff", b"\x02\xc3\xa9\x01\xff",
]
for label, d in cases:
    obs_sizeof(label, d)
    for data in inputs:
        cycle(label, d, data)
    for _ in range(3):
        data = bytes(rnd.choice([0, 1, 2, 3, 7, 9, 97, 98, 128, 255]) for _ in range(rnd.randrange(0, 9)))
        cycle(label, d, data)

# raw return values / _index bookkeeping
for label, d in cases[:4] + cases[8:13]:
    for data in [b"", b"\x01\x02\x03", b"\x03\x04\x00\x05", b"\x01\x07\x02", b"\x01\x0a\x02"]:
        obs_rawparse(label, d, data)

obs_rawbuild("GR(Byte)", GreedyRange(Byte), [1, 2, 3])
obs_rawbuild("GR(Byte)", GreedyRange(Byte), [])
obs_rawbuild("GR(Byte)", GreedyRange(Byte), [1, 256, 3])
obs_rawbuild("GR(Byte)", GreedyRange(Byte), iter([4, 5]))
obs_rawbuild("GR(Byte)", GreedyRange(Byte), None)
obs_rawbuild("GR(Byte,discard)", GreedyRange(Byte, discard=True), [1, 2, 3])
obs_rawbuild("GR(stop at 0)", cases[9][1], [3, 4, 0, 5])
obs_rawbuild("GR(stop at 0)", cases[9][1], [3, 4, 5])
obs_rawbuild("GR(Struct stopif)", cases[10][1], [dict(v=1, w=2), dict(v=255, w=9), dict(v=3, w=4)])
obs_rawbuild("GR(error on 7)", cases[11][1], [1, 7, 2])
obs_rawbuild("GR(check<9)", cases[12][1], [1, 10, 2])
obs_rawbuild("GR(Seq idx)", cases[8][1], [[0, 9], [1, 8], [5, 7]])
obs_rawbuild("GR(idxlen)", cases[15][1], [b"a", b"bc", b"def"])
obs_rawbuild("GR(idxlen)", cases[15][1], [b"a", b"b", b"def"])


class Boom(Exception):
    pass


def raiser(exc):
    def f(obj, ctx):
        raise exc
    return f


for exc in [Boom("x"), KeyError("k"), StopFieldError(), ExplicitError(), CancelParsing(), StreamError("s")]:
    d = GreedyRange(Byte * raiser(exc))
    obs_rawparse("GR(parsed raises %s)" % type(exc).__name__, d, b"\x01\x02")
    d = GreedyRange(ExprAdapter(Byte, raiser(exc), raiser(exc)))
    obs_rawparse("GR(adapter raises %s)" % type(exc).__name__, d, b"\x01\x02")
    obs_rawbuild("GR(adapter raises %s)" % type(exc).__name__, d, [1, 2])

# nested in containers, following fields see the stream position left by GreedyRange
d = Struct("items" / GreedyRange(OneOf(Byte, [1, 2, 3])), "rest" / GreedyBytes)
for data in [b"", b"\x01\x02\x03", b"\x01\x02\x09\x03", b"\x09"]:
    cycle("Struct(GR(OneOf),rest)", d, data)
d = Struct("n" / Byte, "p" / Prefixed(Byte, GreedyRange(Int16ub)), "t" / Byte)
for data in [b"\x01\x04\x00\x01\x00\x02\x09", b"\x01\x05\x00\x01\x00\x02\xee\x09", b"\x01\x00\x09", b"\x01\x03\x00"]:
    cycle("Prefixed(GR(Int16ub))", d, data)
d = Bitwise(GreedyRange(Bit))
for data in [b"", b"\xa5", b"\x00\xff"]:
    cycle("Bitwise(GR(Bit))", d, data)
d = Bitwise(GreedyRange(Nibble))
for data in [b"", b"\xa5", b"\x12\x34"]:
    cycle("Bitwise(GR(Nibble))", d, data)
obs_build("Bitwise(GR(Bit))", Bitwise(GreedyRange(Bit)), [1, 0, 1])
d = NullTerminated(GreedyRange(Int16ub))
for data in [b"\x01\x02\x03\x04\x00", b"\x01\x02\x03\x00", b"\x00"]:
    cycle("NullTerm(GR(Int16ub))", d, data)

# ---------------------------------------------------------------- RepeatUntil
rcases = [
    ("RU(==9)", RepeatUntil(obj_ == 9, Byte)),
    ("RU(==9,discard)", RepeatUntil(obj_ == 9, Byte, discard=True)),
    ("RU(True)", RepeatUntil(True, Byte)),
    ("RU(False)", RepeatUntil(False, Byte)),
    ("RU(len 3)", RepeatUntil(lambda x, lst, ctx: len(lst) == 3, Int16ub)),
    ("RU(last two 0)", RepeatUntil(lambda x, lst, ctx: lst[-2:] == [0, 0], Byte)),
    ("RU(idx>=2)", RepeatUntil(lambda x, lst, ctx: ctx._index >= 2, Byte)),
    ("RU(struct end)", RepeatUntil(lambda x, lst, ctx: x.k == 0, Struct("k" / Byte, "v" / Bytes(this.k)))),
    ("RU(varint>100)", RepeatUntil(obj_ > 100, VarInt)),
    ("RU(list_ sum)", RepeatUntil(lambda x, lst, ctx: sum(lst) > 10, Byte)),
]
rinputs = [
    b"", b"\x09", b"\x01\x02\x09", b"\x01\x02\x09\x03", b"\x01\x02\x03", b"\x00\x00", b"\x01\x00\x00\x05",
    b"\x00\x01\x00\x02\x00\x03\x00\x04", b"\x02ab\x01c\x00\x07", b"\x02ab\x01", b"\x05\x80\x01\x7f\xe5\x00\x01",
    b"\x04\x04\x04\x04",
]
for label, d in rcases:
    obs_sizeof(label, d)
    for data in rinputs:
        cycle(label, d, data)
    try:
        dc = d.compile()
    except Exception as e:
        out("compile %-25s !! %s" % (label, desc_exc(e)))
    else:
        for data in rinputs[:6]:
            cycle("compiled " + label, dc, data)

for label, d in rcases:
    for data in [b"\x01\x02\x09\x03", b"\x00\x00\x00", b"\x01"]:
        obs_rawparse(label, d, data)

obs_rawbuild("RU(==9)", rcases[0][1], [1, 2, 9])
obs_rawbuild("RU(==9)", rcases[0][1], [1, 2, 9, 3, 9])
obs_rawbuild("RU(==9)", rcases[0][1], [1, 2, 3])
obs_rawbuild("RU(==9)", rcases[0][1], [])
obs_rawbuild("RU(==9)", rcases[0][1], [1, 300, 9])
obs_rawbuild("RU(==9)", rcases[0][1], iter([9]))
obs_rawbuild("RU(==9)", rcases[0][1], None)
obs_rawbuild("RU(==9,discard)", rcases[1][1], [1, 2, 9])
obs_rawbuild("RU(==9,discard)", rcases[1][1], [1, 2])
obs_rawbuild("RU(True)", rcases[2][1], [5, 6])
obs_rawbuild("RU(False)", rcases[3][1], [5, 6])
obs_rawbuild("RU(len 3)", rcases[4][1], [1, 2, 3, 4])
obs_rawbuild("RU(len 3)", rcases[4][1], [1, 2])
obs_rawbuild("RU(last two 0)", rcases[5][1], [1, 0, 0, 7])
obs_rawbuild("RU(idx>=2)", rcases[6][1], [7, 7, 7, 7])
obs_rawbuild("RU(struct end)", rcases[7][1], [dict(k=1, v=b"x"), dict(k=0, v=b""), dict(k=1, v=b"y")])
obs_rawbuild("RU(list_ sum)", rcases[9][1], [4, 4, 4, 4])

calls = []


def spy(x, lst, ctx):
    calls.append((x, list(lst), ctx._index))
    return x == 0


d = RepeatUntil(spy, Byte)
obs_rawparse("RU(spy)", d, b"\x03\x02\x00\x01")
out("spy calls after parse: %r" % (calls,))
del calls[:]
obs_rawbuild("RU(spy)", d, [3, 2, 0, 1])
out("spy calls after build: %r" % (calls,))
del calls[:]
obs_rawbuild("RU(spy)", d, [3, 2])
out("spy calls after failed build: %r" % (calls,))

for exc in [Boom("x"), StopFieldError(), ExplicitError(), StopIteration()]:
    d = RepeatUntil(lambda x, lst, ctx, exc=exc: (_ for _ in ()).throw(exc), Byte)
    obs_rawparse("RU(pred raises %s)" % type(exc).__name__, d, b"\x01\x02")
    obs_rawbuild("RU(pred raises %s)" % type(exc).__name__, d, [1, 2])

d = Struct("items" / RepeatUntil(obj_ == 0, Byte), "after" / Int16ub)
for data in [b"\x01\x02\x00\xab\xcd", b"\x00\xab\xcd\xef", b"\x01\x02\x03"]:
    cycle("Struct(RU,Int16ub)", d, data)
d = GreedyRange(RepeatUntil(obj_ == 0, Byte))
for data in [b"\x01\x00\x02\x03\x00", b"\x01\x00\x02\x03", b"\x00\x00\x00"]:
    cycle("GR(RU(==0))", d, data)

out("total observations: %d" % (N[0],))
