import sys, io
sys.path.insert(0, sys.argv[1])
from construct import *
from construct.core import Construct, Container, SizeofError

def show(label, fn):
    try:
        r = fn()
        print(label, "->", repr(r))
    except BaseException as e:
        print(label, "!!", type(e).__name__, "|", str(e).replace("\n", " / "))

def raising(exc):
    def f(ctx):
        raise exc
    return f

SEEN = []
class CallableObj:
    """callable instance; records what it is called with"""
    def __init__(self, ret): self.ret = ret
    def __call__(self, ctx):
        SEEN.append(sorted(k for k in ctx.keys()))
        return self.ret
    def __repr__(self): return "CallableObj(%r)" % (self.ret,)

class NotCallable:
    def __repr__(self): return "NotCallable()"

def two_args(a, b):
    return 1

def advance(d, obj, ctx={}):
    s = io.BytesIO(b"HEAD")
    s.seek(4)
    r = d.build_stream(obj, s, **ctx)
    n = s.tell() - 4
    s2 = io.BytesIO(s.getvalue()[4:] + b"TRAILING")
    p = d.parse_stream(s2, **ctx)
    return (n, s2.tell(), p)

print("===== Bytes.sizeof")
lengths = [
    ("0", 0), ("1", 1), ("5", 5), ("-1", -1), ("True", True), ("2.0", 2.0), ("None", None), ("'3'", "3"),
    ("this.n", this.n), ("this.n+1", this.n + 1), ("this._.n", this._.n), ("this.a.b", this.a.b),
    ("lambda 4", lambda ctx: 4), ("lambda ctx.n", lambda ctx: ctx.n), ("lambda ctx['n']", lambda ctx: ctx["n"]),
    ("lambda -> None", lambda ctx: None), ("lambda -> callable obj", lambda ctx: CallableObj(3)),
    ("CallableObj(3)", CallableObj(3)), ("NotCallable", NotCallable()),
    ("type int", int), ("type bytes", bytes), ("two_args", two_args), ("len builtin", len),
    ("raise KeyError", raising(KeyError("k"))), ("raise AttributeError", raising(AttributeError("a"))),
    ("raise ValueError", raising(ValueError("v"))), ("raise TypeError", raising(TypeError("t"))),
    ("raise IndexError", raising(IndexError("i"))), ("raise SizeofError", raising(SizeofError("s"))),
    ("raise StopIteration", raising(StopIteration("si"))), ("raise ZeroDivisionError", raising(ZeroDivisionError("z"))),
]
ctxs = [("no ctx", {}), ("n=3", dict(n=3)), ("n=0", dict(n=0)), ("m=3", dict(m=3)), ("a={b:2}", dict(a=Container(b=2))), ("n=-2", dict(n=-2))]
for ll, length in lengths:
    for cl, ctx in ctxs:
        show("Bytes(%s).sizeof(%s)" % (ll, cl), lambda: Bytes(length).sizeof(**ctx))
    show("Bytes(%s) in Struct sizeof(n=3)" % ll, lambda: Struct("x"/Byte, "d"/Bytes(length)).sizeof(n=3))
    show("Bytes(%s) direct _sizeof" % ll, lambda: Bytes(length)._sizeof(Container(n=2), "(p) -> q"))
    show("Bytes(%s) direct _sizeof dict ctx" % ll, lambda: Bytes(length)._sizeof({"n": 2}, "(p)"))
print("   SEEN", SEEN)
del SEEN[:]

print("===== Bytes.parse / build")
for ll, length in lengths:
    show("Bytes(%s).parse 6 bytes (n=3)" % ll, lambda: Bytes(length).parse(b"abcdef", n=3))
    show("Bytes(%s).parse empty (n=3)" % ll, lambda: Bytes(length).parse(b"", n=3))
    show("Bytes(%s).parse no ctx" % ll, lambda: Bytes(length).parse(b"abcdef"))
    show("Bytes(%s).build b'abc' (n=3)" % ll, lambda: Bytes(length).build(b"abc", n=3))
    show("Bytes(%s).build b'' (n=0)" % ll, lambda: Bytes(length).build(b"", n=0))
    show("Bytes(%s).build int 1 (n=3)" % ll, lambda: Bytes(length).build(1, n=3))
    show("Bytes(%s).build int -1 (n=3)" % ll, lambda: Bytes(length).build(-1, n=3))
    show("Bytes(%s).build bytearray (n=3)" % ll, lambda: Bytes(length).build(bytearray(b"xyz"), n=3))
    show("Bytes(%s).build too long (n=3)" % ll, lambda: Bytes(length).build(b"abcdefgh", n=3))
    show("Bytes(%s).build str (n=3)" % ll, lambda: Bytes(length).build("abc", n=3))
    show("Bytes(%s).build no ctx" % ll, lambda: Bytes(length).build(b"abc"))
print("   SEEN", SEEN)
del SEEN[:]

print("===== Bytes sizeof vs stream advance")
for n in (0, 1, 2, 7, 300):
    d = Bytes(this.n)
    show("Bytes(this.n) n=%d" % n, lambda: (d.sizeof(n=n), advance(d, b"z" * n, dict(n=n))))
    d2 = Bytes(n)
    show("Bytes(%d)" % n, lambda: (d2.sizeof(), advance(d2, b"z" * n)))
    d3 = Bytes(lambda ctx: ctx.n * 2)
    show("Bytes(lambda n*2) n=%d" % n, lambda: (d3.sizeof(n=n), advance(d3, b"z" * (2 * n), dict(n=n))))
    d4 = Struct("n"/Byte, "d"/Bytes(this.n))
    show("Struct(n, Bytes(this.n)) n=%d" % n, lambda: advance(d4, dict(n=n, d=b"q" * n)))
show("Struct(n, Bytes(this.n)).sizeof()", lambda: Struct("n"/Byte, "d"/Bytes(this.n)).sizeof())
show("int build via ctx length", lambda: advance(Bytes(this.n), 258, dict(n=4)))
show("Array of Bytes(this._index+1)", lambda: Array(3, Bytes(this._index + 1)).parse(b"abbcccTRAIL"))
show("Array of Bytes(this._index+1) sizeof", lambda: Array(3, Bytes(this._index + 1)).sizeof())

print("===== Bytes subclasses / users")
show("Padding(3).sizeof", lambda: Padding(3).sizeof())
show("Padding(this.n).sizeof ok", lambda: Padding(this.n).sizeof(n=2))
show("Padding(this.n).sizeof missing", lambda: Padding(this.n).sizeof())
show("Padding(this.n) build/parse", lambda: advance(Padding(this.n), None, dict(n=3)))
show("Const bytes sizeof", lambda: Const(b"abc").sizeof())
show("PaddedString sizeof", lambda: PaddedString(6, "utf8").sizeof())
show("PaddedString ctx sizeof missing", lambda: PaddedString(this.n, "utf8").sizeof())
show("PaddedString ctx sizeof", lambda: PaddedString(this.n, "utf8").sizeof(n=4))
show("Bitwise(Bytes(this.n)) sizeof", lambda: Bitwise(Bytes(this.n)).sizeof(n=16))
show("compiled Bytes(4)", lambda: Bytes(4).compile().parse(b"abcdefg"))
show("compiled Struct(n,Bytes(this.n))", lambda: Struct("n"/Byte, "d"/Bytes(this.n)).compile().parse(b"\x02abcdefg"))
show("compiled Bytes sizeof", lambda: Bytes(4).compile().sizeof())
show("Bytes length attr untouched", lambda: (Bytes(4).length, repr(Bytes(this.n).length)))

print("===== Computed")
funcs = [
    ("7", 7), ("None", None), ("b'x'", b"x"), ("[1,2]", [1, 2]),
    ("this.n", this.n), ("this.n*2", this.n * 2), ("lambda 9", lambda ctx: 9), ("lambda ctx.n", lambda ctx: ctx.n),
    ("CallableObj('r')", CallableObj("r")), ("NotCallable", NotCallable()),
    ("type int", int), ("type list", list), ("two_args", two_args),
    ("raise KeyError", raising(KeyError("k"))), ("raise AttributeError", raising(AttributeError("a"))),
    ("raise ValueError", raising(ValueError("v"))), ("raise StopIteration", raising(StopIteration("si"))),
]
for fl, func in funcs:
    show("Computed(%s).parse n=3" % fl, lambda: Computed(func).parse(b"abc", n=3))
    show("Computed(%s).parse no ctx" % fl, lambda: Computed(func).parse(b""))
    show("Computed(%s).build None n=3" % fl, lambda: Computed(func).build(None, n=3))
    show("Computed(%s).build 5 no ctx" % fl, lambda: Computed(func).build(5))
    show("Computed(%s).sizeof" % fl, lambda: Computed(func).sizeof())
    show("Computed(%s) in Struct parse" % fl, lambda: Struct("n"/Byte, "c"/Computed(func)).parse(b"\x04rest"))
    show("Computed(%s) in Struct build" % fl, lambda: Struct("n"/Byte, "c"/Computed(func)).build(dict(n=4)))
    show("Computed(%s) in Struct sizeof" % fl, lambda: Struct("n"/Byte, "c"/Computed(func)).sizeof())
    show("Computed(%s) advance" % fl, lambda: advance(Computed(func), None, dict(n=1)))
print("   SEEN", SEEN)
show("Computed list identity (not copied)", lambda: (lambda l: Computed(l).parse(b"") is l)([1]))
show("Computed feeding Bytes", lambda: Struct("k"/Computed(this._.n + 1), "d"/Bytes(this.k)).parse(b"abcdef", n=2))
show("Computed feeding Bytes sizeof", lambda: Struct("k"/Computed(this._.n + 1), "d"/Bytes(this.k)).sizeof(n=2))
show("compiled Computed", lambda: Struct("n"/Byte, "c"/Computed(this.n + 1)).compile().parse(b"\x04"))
