#!/usr/bin/env python
"""
Observation script for the z1 twin (Select._parse, GreedyRange._parse,
GreedyRange._build). Prints deterministic observations: parse results, built
bytes, stream positions, exception type names, order of user callbacks.

usage: equiv.py <repo root>
"""
import sys, io

root = sys.argv[1] if len(sys.argv) > 1 else "."
sys.path.insert(0, root)

from construct import *
from construct.core import StopFieldError, ExplicitError, ConstructError

N = [0]


def show(label, value):
    N[0] += 1
    print("%03d %s: %s" % (N[0], label, value))


def desc(e):
    chain = []
    c = e.__context__
    while c is not None and len(chain) < 4:
        chain.append(type(c).__name__)
        c = c.__context__
    return "raised %s%s" % (type(e).__name__, (" <- " + ",".join(chain)) if chain else "")


def parse_pos(d, data, **kw):
    """parse from a stream, report (result or exception, stream position afterwards)"""
    stream = io.BytesIO(data)
    try:
        res = repr(d.parse_stream(stream, **kw))
    except BaseException as e:
        res = desc(e)
    return "%s @%d" % (res, stream.tell())


def build_out(d, obj, **kw):
    stream = io.BytesIO()
    try:
        d.build_stream(obj, stream, **kw)
        res = "ok"
    except BaseException as e:
        res = desc(e)
    return "%s wrote %r" % (res, stream.getvalue())


class BothStopAndExplicit(StopFieldError, ExplicitError):
    pass


class ExplicitThenStop(ExplicitError, StopFieldError):
    pass


class Raiser(Construct):
    """raises a given exception instance factory on parse and build"""
    def __init__(self, factory, consume=0):
        super().__init__()
        self.factory = factory
        self.consume = consume
        self.flagbuildnone = True
    def _parse(self, stream, context, path):
        stream.read(self.consume)
        raise self.factory()
    def _build(self, obj, stream, context, path):
        stream.write(b"!" * self.consume)
        raise self.factory()


class FlakyTell(io.BytesIO):
    """tell() fails on the n-th call"""
    def __init__(self, data, failat):
        super().__init__(data)
        self.calls = 0
        self.failat = failat
    def tell(self):
        self.calls += 1
        if self.calls == self.failat:
            raise OSError("tell failed")
        return super().tell()


class FlakySeek(io.BytesIO):
    def seek(self, *a):
        raise OSError("seek failed")


log = []


def logged(tag, value=True):
    def f(ctx):
        log.append("%s[%s]" % (tag, ctx.get("_index", "-")))
        return value(ctx) if callable(value) else value
    return f


def takelog():
    s = ",".join(log)
    del log[:]
    return s


# ----------------------------------------------------------------------------
# Select._parse
# ----------------------------------------------------------------------------
sel = Select(Const(b"AB"), OneOf(Byte, [1, 2, 3]), Enum(Int16ub, big=0x4142, other=7), Mapping(Byte, {"x": 0x40}))
for data in [b"ABCD", b"\x01zz", b"\x03", b"AC", b"\x40\x40", b"\x00\x07", b"\x09\x09", b"\x09", b"", b"A"]:
    show("Select parse %r" % data, parse_pos(sel, data))

show("Select() empty parse", parse_pos(Select(), b"abc"))
show("Optional(Const) hit", parse_pos(Optional(Const(b"\x01")), b"\x01\x02"))
show("Optional(Const) miss", parse_pos(Optional(Const(b"\x01")), b"\x02\x02"))
show("Optional(Const) empty", parse_pos(Optional(Const(b"\x01")), b""))
show("Optional(NoneOf) rejected value", parse_pos(Optional(NoneOf(Byte, [5])), b"\x05"))
show("Optional(NoneOf) accepted value", parse_pos(Optional(NoneOf(Byte, [5])), b"\x06"))

# Error aborts, wherever it sits
show("Select(Error, Byte)", parse_pos(Select(Error, Byte), b"\x01"))
show("Select(Byte, Error) first ok", parse_pos(Select(Byte, Error), b"\x01"))
show("Select(Const, Error)", parse_pos(Select(Const(b"Z"), Error), b"\x01"))
show("Select(Struct(Byte, Error), Byte)", parse_pos(Select(Struct("a" / Byte, Error), Byte), b"\x01\x02"))
show("Optional(Error)", parse_pos(Optional(Error), b"\x01"))
show("Optional(IfThenElse(.., Error))", parse_pos(Struct("k" / Byte, "v" / Optional(IfThenElse(this.k > 3, Byte, Error))), b"\x01\x02"))
show("Optional(IfThenElse(.., Byte))", parse_pos(Struct("k" / Byte, "v" / Optional(IfThenElse(this.k > 3, Byte, Error))), b"\x05\x02"))
show("Select(Select(Error), Byte)", parse_pos(Select(Select(Const(b"q"), Error), Byte), b"\x01"))
show("Select in Peek with Error", parse_pos(Peek(Select(Const(b"q"), Error)), b"\x01"))

# arbitrary exceptions from sub-constructs and lambdas
show("Select(lambda ZeroDivision, Byte)", parse_pos(Select(Computed(lambda ctx: 1 // 0), Byte), b"\x07"))
show("Select(Raiser KeyError consuming 2, Byte)", parse_pos(Select(Raiser(lambda: KeyError("k"), 2), Byte), b"\x07\x08\x09"))
show("Select(Raiser StopFieldError, Byte)", parse_pos(Select(Raiser(StopFieldError, 1), Byte), b"\x07\x08"))
show("Select(Raiser Both, Byte)", parse_pos(Select(Raiser(BothStopAndExplicit, 1), Byte), b"\x07\x08"))
show("Select(Raiser ExplicitThenStop, Byte)", parse_pos(Select(Raiser(ExplicitThenStop, 1), Byte), b"\x07\x08"))
show("Select(Raiser KeyboardInterrupt, Byte)", parse_pos(Select(Raiser(KeyboardInterrupt, 1), Byte), b"\x07\x08"))
show("Select(Raiser SystemExit, Byte)", parse_pos(Select(Raiser(lambda: SystemExit(3), 1), Byte), b"\x07\x08"))
show("Select(Raiser CancelParsing, Byte)", parse_pos(Select(Raiser(CancelParsing, 1), Byte), b"\x07\x08"))

# stream trouble
for failat in (1, 2, 3):
    st = FlakyTell(b"\x09\x01", failat)
    try:
        r = repr(Select(Const(b"A"), Byte).parse_stream(st))
    except Exception as e:
        r = desc(e)
    show("Select on stream whose tell fails at call %d" % failat, r)
st = FlakySeek(b"\x09\x01")
try:
    r = repr(Select(Const(b"A"), Byte).parse_stream(st))
except Exception as e:
    r = desc(e)
show("Select on stream whose seek fails", r)
st = FlakySeek(b"A\x01")
try:
    r = repr(Select(Const(b"A"), Byte).parse_stream(st))
except Exception as e:
    r = desc(e)
show("Select first matches on stream whose seek fails", r)

# callback order
d = Select(Check(logged("c1", False)), Struct(Check(logged("c2")), "v" / OneOf(Byte, [9])), "w" / Computed(logged("c3", 5)))
show("Select callback order, second wins", parse_pos(d, b"\x09"))
show("  log", takelog())
show("Select callback order, third wins", parse_pos(d, b"\x08"))
show("  log", takelog())
show("Select parsed hook", parse_pos(Select(Const(b"A"), Byte * (lambda obj, ctx: log.append("hook %r" % (obj,)))), b"\x05"))
show("  log", takelog())

# compiled (Select is linked into generated code)
selc = Struct("s" / sel, "t" / Byte).compile()
for data in [b"AB\x01", b"\x02\x01", b"\x40\x01", b"\x09\x01", b"\x01"]:
    show("compiled Struct(Select) parse %r" % data, parse_pos(selc, data))

# ----------------------------------------------------------------------------
# GreedyRange._parse
# ----------------------------------------------------------------------------
gr = GreedyRange(OneOf(Byte, [1, 2, 3]))
for data in [b"", b"\x01", b"\x01\x02\x03", b"\x01\x02\x09\x01", b"\x09", b"\x03\x03\x03\x03\x04"]:
    show("GreedyRange(OneOf) parse %r" % data, parse_pos(gr, data))
    show("GreedyRange(OneOf, discard) parse %r" % data, parse_pos(GreedyRange(OneOf(Byte, [1, 2, 3]), discard=True), data))

show("GreedyRange(Const)", parse_pos(GreedyRange(Const(b"ab")), b"ababaXab"))
show("GreedyRange(Int16ub) odd tail", parse_pos(GreedyRange(Int16ub), b"\x00\x01\x00\x02\x00"))
show("GreedyRange(Enum)", parse_pos(GreedyRange(Enum(Byte, a=1, b=2)), b"\x01\x02\x03"))
show("GreedyRange(Mapping)", parse_pos(GreedyRange(Mapping(Byte, {"a": 1, "b": 2})), b"\x01\x02\x03\x01"))
show("GreedyRange(FlagsEnum)", parse_pos(GreedyRange(FlagsEnum(Byte, a=1, b=2)), b"\x01\x03"))

# Error aborts
show("GreedyRange(Error)", parse_pos(GreedyRange(Error), b"\x01\x02"))
show("GreedyRange(Error) empty", parse_pos(GreedyRange(Error), b""))
item = Struct("k" / Byte, "v" / IfThenElse(this.k < 0x10, Byte, Error))
show("GreedyRange(Struct with late Error)", parse_pos(GreedyRange(item), b"\x01\x02\x03\x04\x20\x05\x06\x07"))
show("GreedyRange(Struct no Error reached)", parse_pos(GreedyRange(item), b"\x01\x02\x03\x04\x05"))
show("GreedyRange(Select(Const, Error))", parse_pos(GreedyRange(Select(Const(b"a"), Error)), b"aab"))
show("GreedyRange(Optional(Error))", parse_pos(GreedyRange(Optional(Error)), b"aab"))
show("GreedyRange(Peek(Error))", parse_pos(GreedyRange(Peek(Error)), b"aab"))
show("Optional(GreedyRange(Error))", parse_pos(Optional(GreedyRange(Error)), b"aab"))

# StopIf / StopFieldError
stopitem = Struct("v" / Byte, StopIf(this.v == 0), "w" / Byte)
show("GreedyRange(Struct StopIf) no stop", parse_pos(GreedyRange(stopitem), b"\x01\x02\x03\x04"))
show("GreedyRange(StopIf) direct", parse_pos(GreedyRange(FocusedSeq("v", "v" / Byte, StopIf(this._index >= 2))), b"\x01\x02\x03\x04"))
show("GreedyRange(Sequence(Byte, StopIf))", parse_pos(GreedyRange(Sequence(Byte, StopIf(this._index == 1))), b"\x01\x02\x03\x04"))
show("GreedyRange(StopIf True)", parse_pos(GreedyRange(StopIf(True)), b"\x01\x02"))
show("GreedyRange(Raiser StopFieldError consuming 1)", parse_pos(GreedyRange(Raiser(StopFieldError, 1)), b"\x01\x02"))
show("GreedyRange(Raiser Both consuming 1)", parse_pos(GreedyRange(Raiser(BothStopAndExplicit, 1)), b"\x01\x02"))
show("GreedyRange(Raiser ExplicitThenStop consuming 1)", parse_pos(GreedyRange(Raiser(ExplicitThenStop, 1)), b"\x01\x02"))
show("GreedyRange(Raiser KeyError consuming 1)", parse_pos(GreedyRange(Raiser(lambda: KeyError(1), 1)), b"\x01\x02"))
show("GreedyRange(Raiser KeyboardInterrupt consuming 1)", parse_pos(GreedyRange(Raiser(KeyboardInterrupt, 1)), b"\x01\x02"))
show("GreedyRange(Raiser CancelParsing consuming 1)", parse_pos(GreedyRange(Raiser(CancelParsing, 1)), b"\x01\x02"))
show("GreedyRange(lambda ZeroDivision after 2)", parse_pos(GreedyRange(FocusedSeq("v", "v" / Byte, Computed(lambda ctx: 1 // (2 - ctx._index)))), b"\x01\x02\x03\x04"))

# _index and callback order
d = GreedyRange(Struct("i" / Computed(this._._index), Check(logged("chk")), "v" / OneOf(Byte, [1, 2, 3])))
show("GreedyRange _index", parse_pos(d, b"\x01\x02\x03\x07\x01"))
show("  log", takelog())
d = Struct("n" / Byte, "items" / GreedyRange(ExprValidator(Byte, lambda obj, ctx: (log.append("val %d@%d" % (obj, ctx._index)), obj < ctx.n)[1])), "after" / Tell)
show("GreedyRange ExprValidator with context", parse_pos(d, b"\x05\x01\x04\x05\x01"))
show("  log", takelog())
ctxprobe = Struct("r" / GreedyRange(Byte), "last" / Computed(lambda ctx: ctx.get("_index", "none")))
show("_index left in enclosing context", parse_pos(ctxprobe, b"\x01\x02\x03"))
show("_index after empty GreedyRange", parse_pos(ctxprobe, b""))
show("parsed hook on elements", parse_pos(GreedyRange(Byte * (lambda obj, ctx: log.append("e%d" % obj))), b"\x01\x02"))
show("  log", takelog())

# stream trouble
for failat in (1, 2, 3, 4):
    st = FlakyTell(b"\x01\x02\x09", failat)
    try:
        r = repr(gr.parse_stream(st))
    except Exception as e:
        r = desc(e)
    show("GreedyRange on stream whose tell fails at call %d" % failat, r)
st = FlakySeek(b"\x01\x02\x09")
try:
    r = repr(gr.parse_stream(st))
except Exception as e:
    r = desc(e)
show("GreedyRange on stream whose seek fails", r)

# nesting / composition
show("GreedyRange(Struct(GreedyRange(OneOf), Const))", parse_pos(GreedyRange(Struct("r" / GreedyRange(OneOf(Byte, [1])), Const(b";"))), b"\x01\x01;;\x01;\x02;"))
show("Prefixed(Byte, GreedyRange(OneOf))", parse_pos(Prefixed(Byte, GreedyRange(OneOf(Byte, [1, 2]))), b"\x03\x01\x02\x09\x01"))
show("Sequence(GreedyRange(Const), GreedyBytes)", parse_pos(Sequence(GreedyRange(Const(b"\x00")), GreedyBytes), b"\x00\x00\x01\x02"))
show("Filter over GreedyRange", parse_pos(Filter(obj_ != 0, GreedyRange(OneOf(Byte, [0, 7]))), b"\x07\x00\x07\x08"))
grc = Struct("r" / gr, "rest" / GreedyBytes).compile()
for data in [b"", b"\x01\x02\x09\x01", b"\x03"]:
    show("compiled Struct(GreedyRange) parse %r" % data, parse_pos(grc, data))
show("compiled GreedyRange(Error)", parse_pos(Struct("r" / GreedyRange(Error)).compile(), b"\x01"))

# ----------------------------------------------------------------------------
# GreedyRange._build
# ----------------------------------------------------------------------------
for obj in [[], [1], [1, 2, 3], [1, 9, 2], (3, 2, 1), range(1, 4), iter([2, 2]), None, 5, "ab", [None]]:
    label = "iterator" if hasattr(obj, "__next__") else repr(obj)
    show("GreedyRange(OneOf) build %s" % label, build_out(gr, obj))
show("GreedyRange(Const) build [None, b'ab', None]", build_out(GreedyRange(Const(b"ab")), [None, b"ab", None]))
show("GreedyRange(Const) build wrong", build_out(GreedyRange(Const(b"ab")), [None, b"zz", None]))
show("GreedyRange(Enum) build", build_out(GreedyRange(Enum(Byte, a=1, b=2)), ["a", 2, "b", 200]))
show("GreedyRange(Enum) build unknown", build_out(GreedyRange(Enum(Byte, a=1, b=2)), ["a", "zz", "b"]))
show("GreedyRange(Mapping) build unknown", build_out(GreedyRange(Mapping(Byte, {"a": 1})), ["a", "zz"]))
show("GreedyRange(Error) build []", build_out(GreedyRange(Error), []))
show("GreedyRange(Error) build [1]", build_out(GreedyRange(Error), [1]))
show("GreedyRange(Struct late Error) build", build_out(GreedyRange(item), [dict(k=1, v=2), dict(k=0x20, v=3), dict(k=2, v=2)]))
show("GreedyRange(Struct StopIf) build", build_out(GreedyRange(stopitem), [dict(v=1, w=2), dict(v=0, w=3), dict(v=4, w=5)]))
show("GreedyRange(Raiser StopFieldError writes 1) build", build_out(GreedyRange(Raiser(StopFieldError, 1)), [1, 2]))
show("GreedyRange(Raiser Both writes 1) build", build_out(GreedyRange(Raiser(BothStopAndExplicit, 1)), [1, 2]))
show("GreedyRange(Raiser KeyError writes 1) build", build_out(GreedyRange(Raiser(lambda: KeyError(1), 1)), [1, 2]))


class Ret(Construct):
    """reports what the inner build returned"""
    def __init__(self, subcon):
        super().__init__()
        self.subcon = subcon
    def _build(self, obj, stream, context, path):
        r = self.subcon._build(obj, stream, context, path)
        log.append("ret=%r type=%s" % (r, type(r).__name__))
        return r
    def _parse(self, stream, context, path):
        return self.subcon._parse(stream, context, path)


show("build return value", build_out(Ret(gr), [1, 2]))
show("  log", takelog())
show("build return value, discard", build_out(Ret(GreedyRange(OneOf(Byte, [1, 2, 3]), discard=True)), [1, 2]))
show("  log", takelog())
show("build return value, stopped", build_out(Ret(GreedyRange(stopitem)), [dict(v=1, w=2), dict(v=0, w=3)]))
show("  log", takelog())
show("build return value, StopFieldError from element", build_out(Ret(GreedyRange(Raiser(StopFieldError, 1))), [1, 2]))
show("  log", takelog())
show("build return value, StopIf element directly", build_out(Ret(GreedyRange(FocusedSeq("v", "v" / Byte, StopIf(this._index >= 1)))), [4, 5, 6]))
show("  log", takelog())
show("build return value, empty input", build_out(Ret(GreedyRange(Raiser(StopFieldError, 1))), []))
show("  log", takelog())
show("build return value, Default elements", build_out(Ret(GreedyRange(Default(Byte, 7))), [None, 1]))
show("  log", takelog())
d = GreedyRange(Struct("v" / Byte, Check(logged("b"))))
show("build callback order and _index", build_out(d, [dict(v=1), dict(v=2)]))
show("  log", takelog())
bctx = Struct("r" / GreedyRange(Byte), "last" / Rebuild(Byte, lambda ctx: ctx.get("_index", 99)))
show("_index left in enclosing build context", build_out(bctx, dict(r=[5, 6, 7])))
show("_index after empty build", build_out(bctx, dict(r=[])))
show("compiled build", build_out(grc, dict(r=[1, 2], rest=b"zz")))
show("compiled build invalid", build_out(grc, dict(r=[1, 8], rest=b"zz")))
for d in (gr, sel, Optional(Byte)):
    try:
        r = d.sizeof()
    except Exception as e:
        r = desc(e)
    show("sizeof %s" % type(d).__name__, r)
