#!/usr/bin/env python
"""Observations over ProcessXor (parse, build, sizeof, stream positions, exception types,
order of user callbacks, nesting, compiled form).

usage: equiv.py <repo root>

Output is deterministic; it must be byte-identical on the reference tree and on the
refactored tree.
"""
import sys, io, random

root = sys.argv[1]
sys.path.insert(0, root)

from construct import *
from construct.lib import *

N = [0]


def out(s):
    N[0] += 1
    print("%04d %s" % (N[0], s))


def show(v):
    r = repr(v)
    return r if len(r) < 200 else r[:200] + "..."


def obs_parse(label, d, data, **kw):
    stream = io.BytesIO(data)
    try:
        v = d.parse_stream(stream, **kw)
        out("parse  %-30s %-26s -> %s pos=%d" % (label, data.hex(), show(v), stream.tell()))
        return v
    except Exception as e:
        out("parse  %-30s %-26s !! %s pos=%d" % (label, data.hex(), type(e).__name__, stream.tell()))
        return None


def obs_build(label, d, obj, **kw):
    stream = io.BytesIO()
    try:
        d.build_stream(obj, stream, **kw)
        out("build  %-30s %-26s -> %s pos=%d" % (label, show(obj), stream.getvalue().hex(), stream.tell()))
        return stream.getvalue()
    except Exception as e:
        out("build  %-30s %-26s !! %s written=%s" % (label, show(obj), type(e).__name__, stream.getvalue().hex()))
        return None


def cycle(label, d, data, **kw):
    v = obs_parse(label, d, data, **kw)
    if v is None:
        return
    b1 = obs_build(label, d, v, **kw)
    if b1 is None:
        return
    v2 = obs_parse(label, d, b1, **kw)
    if v2 is not None:
        b2 = obs_build(label, d, v2, **kw)
        out("cycle  %-30s equal=%s stable=%s canonical_in=%s" % (label, v2 == v, b2 == b1, b1 == data))


def obs_sizeof(label, d, **kw):
    try:
        out("sizeof %-30s -> %r" % (label, d.sizeof(**kw)))
    except Exception as e:
        out("sizeof %-30s !! %s" % (label, type(e).__name__))


rnd = random.Random(7041776)


class IntKey(int):
    pass


class BytesKey(bytes):
    pass


keys = [
    ("0", 0), ("1", 1), ("0x5a", 0x5A), ("255", 255), ("256", 256), ("-1", -1), ("True", True), ("False", False),
    ("IntKey(3)", IntKey(3)), ("b''", b""), ("b'\\x00'", b"\x00"), ("b'\\xff'", b"\xff"), ("b'\\x0f\\xf0'", b"\x0f\xf0"),
    ("b'\\x00\\x00\\x00'", bytes(3)), ("bytes(64)", bytes(64)), ("bytes(65)", bytes(65)), ("b'key'", b"key"),
    ("BytesKey(ab)", BytesKey(b"ab")), ("BytesKey(q)", BytesKey(b"q")), ("long key", bytes(range(1, 80))),
    ("str", "k"), ("None", None), ("float", 1.5), ("bytearray", bytearray(b"\x01")), ("list", [1]),
]
datas = [b"", b"\x00", b"\xff", b"abc", b"\x00\x01\x02\x03\x04\x05\x06\x07", bytes(range(250, 256)) + bytes(range(6))]

for kname, key in keys:
    label = "Xor(%s, GreedyBytes)" % kname
    d = ProcessXor(key, GreedyBytes)
    obs_sizeof(label, d)
    for data in datas:
        cycle(label, d, data)
    label = "Xor(%s, Int16ub)" % kname
    d = ProcessXor(key, Int16ub)
    obs_sizeof(label, d)
    for data in [b"", b"\x00", b"\x00\xff", b"\x12\x34\x56"]:
        cycle(label, d, data)
    obs_build(label, d, 70000)
    obs_build(label, d, "x")

# context driven keys, callback order
log = []


def keyfunc(ctx):
    log.append(("keyfunc", ctx.get("k", "nokey"), bool(ctx._parsing), bool(ctx._building), bool(ctx._sizing)))
    return ctx.k


def spy_parsed(obj, ctx):
    log.append(("parsed", obj))


d = Struct("k" / Byte, "body" / ProcessXor(keyfunc, Struct("a" / (Byte * spy_parsed), "rest" / (GreedyBytes * spy_parsed))))
for data in [b"\x00\x01\x02\x03", b"\x01\x01\x02\x03", b"\xff\x00", b"\x07", b""]:
    del log[:]
    cycle("Struct(k, Xor(this.k))", d, data)
    out("callback log: %r" % (log,))
del log[:]
obs_sizeof("Struct(k, Xor(this.k))", d)
out("callback log after sizeof: %r" % (log,))

d = ProcessXor(this.key, GreedyBytes)
for key in [0, 5, b"\x05", b"ab", b"\x00\x00", None, "s"]:
    cycle("Xor(this.key=%r)" % (key,), d, b"hello", key=key)
    obs_sizeof("Xor(this.key=%r)" % (key,), d, key=key)
cycle("Xor(this.key) missing", d, b"hello")
obs_build("Xor(this.key) missing", d, b"hello")


class Boom(Exception):
    pass


def boom(ctx):
    raise Boom("key")


d = ProcessXor(boom, GreedyBytes)
obs_parse("Xor(raising key)", d, b"abc")
obs_build("Xor(raising key)", d, b"abc")
d = Struct("x" / Byte, "y" / ProcessXor(boom, GreedyBytes))
obs_parse("Struct(x, Xor(raising key))", d, b"\x01abc")
obs_build("Struct(x, Xor(raising key))", d, dict(x=1, y=b"abc"))

# nesting: positions, prefixed/fixed regions, offsets reported through Tell
d = Struct("n" / Byte, "p" / Prefixed(Byte, ProcessXor(0x20, Struct("t1" / Tell, "s" / CString("ascii"), "t2" / Tell))), "z" / Byte)
for data in [b"\x09\x04ABC\x20\x07", b"\x09\x06ABC\x20\x55\x55\x07", b"\x09\x00\x07", b"\x09\x03ABC\x07"]:
    cycle("Prefixed(Xor(CString))", d, data)
d = FixedSized(6, ProcessXor(b"\x01\x02", NullStripped(GreedyBytes)))
for data in [b"\x01\x02\x01\x02\x01\x02", b"ab\x01\x02\x01\x02", b"abcdef", b"abcde", b"\x00" * 6]:
    cycle("FixedSized(Xor(NullStripped))", d, data)
d = ProcessXor(0xFF, ProcessXor(b"\x0f\xf0\x55", GreedyRange(Int16ub)))
for data in [b"", b"\x01", b"\x01\x02\x03\x04", b"\x01\x02\x03\x04\x05"]:
    cycle("Xor(Xor(GR(Int16ub)))", d, data)
d = ProcessXor(3, PascalString(VarInt, "utf8"))
for data in [b"\x00", b"\x03", b"\x01\x62", b"\x00abc", b"\x80\x03", b"\x83\x03ab"]:
    cycle("Xor(3, PascalString)", d, data)
d = Bitwise(ProcessXor(1, GreedyRange(Bit)))
for data in [b"", b"\xa5", b"\x00\xff"]:
    cycle("Bitwise(Xor(1, GR(Bit)))", d, data)
d = Bitwise(ProcessXor(b"\x01\x00", Array(8, Bit)))
for data in [b"\xa5", b"\x00"]:
    cycle("Bitwise(Xor(b01 00, Bit[8]))", d, data)
d = Array(2, Prefixed(Byte, ProcessXor(this._index + 1, GreedyBytes)))
for data in [b"\x02ab\x02ab", b"\x00\x00", b"\x01a"]:
    cycle("Array(Prefixed(Xor(_index+1)))", d, data)
d = Select(ProcessXor(0x80, Const(b"\x01\x02")), ProcessXor(b"\x80\x81", GreedyBytes))
for data in [b"\x81\x82", b"\x81\x83", b""]:
    cycle("Select(Xor Const, Xor Greedy)", d, data)

# a subcon that looks at stream offsets (tell/seek inside the xored substream)
d = Struct("h" / Bytes(2), "x" / ProcessXor(0x11, Struct("at" / Tell, "b" / Byte, "peek" / Peek(Byte), "c" / Bytes(2), "end" / Tell)))
for data in [b"hh\x11\x12\x13\x14", b"hh\x11\x12\x13", b"hh"]:
    obs_parse("Xor(Struct tell/peek)", d, data)

# compiled form (ProcessXor has no emitters, it is linked from the compiled module)
for kname, key in [("0x5a", 0x5A), ("b'key'", b"key"), ("0", 0)]:
    d = Struct("a" / Byte, "x" / ProcessXor(key, GreedyBytes))
    try:
        dc = d.compile()
    except Exception as e:
        out("compile Struct(a, Xor(%s)) !! %s" % (kname, type(e).__name__))
        continue
    for data in [b"\x01abc", b"\x01", b""]:
        cycle("compiled Struct(a, Xor(%s))" % kname, dc, data)

# random inputs
for i in range(40):
    key = rnd.choice([rnd.randrange(0, 256), bytes(rnd.randrange(0, 256) for _ in range(rnd.randrange(1, 5))), 0, b"\x00\x00"])
    data = bytes(rnd.randrange(0, 256) for _ in range(rnd.randrange(0, 12)))
    d = Struct("n" / Byte, "v" / ProcessXor(key, Struct("m" / VarInt, "tail" / GreedyBytes)))
    cycle("rand Xor(%r)" % (key,), d, data)

# private attribute surface stays as before for users
d = ProcessXor(1, Byte)
out("public attrs: padfunc=%r subcon=%s flagbuildnone=%r" % (d.padfunc, type(d.subcon).__name__, d.flagbuildnone))
out("repr: %r" % (d,))

out("total observations: %d" % (N[0],))
