import sys, io
sys.path.insert(0, sys.argv[1])
from construct import *

class Tr(io.BytesIO):
    """BytesIO logging every positional call."""
    def __init__(self, data=b"", failtell=None, failseek=None):
        super().__init__(data)
        self.log = []
        self.ntell = 0
        self.nseek = 0
        self.failtell = failtell
        self.failseek = failseek
    def tell(self):
        self.ntell += 1
        if self.failtell == self.ntell:
            self.log.append("tell!")
            raise OSError("tell")
        r = super().tell()
        self.log.append("t%d" % r)
        return r
    def seek(self, off, whence=0):
        self.nseek += 1
        if self.failseek == self.nseek:
            self.log.append("seek!")
            raise OSError("seek")
        r = super().seek(off, whence)
        self.log.append("s%r,%r>%d" % (off, whence, r))
        return r
    def read(self, n=-1):
        r = super().read(n)
        self.log.append("r%r=%d" % (n, len(r)))
        return r
    def write(self, b):
        r = super().write(b)
        self.log.append("w%d" % len(b))
        return r

def pos(s):
    return io.BytesIO.tell(s)

def run(label, f):
    try:
        r = f()
        print(label, "->", repr(r))
    except Exception as e:
        print(label, "!!", type(e).__name__, getattr(e, "path", None))

DATA = bytes(range(16))
other = Tr(b"ABCDEFGH")

def evaloff(ctx):
    EVLOG.append("off")
    return ctx._params.get("off", 3)
def evalstream(ctx):
    EVLOG.append("stream")
    return ctx._params.get("alt", None)
def badoff(ctx):
    raise KeyError("nope")
EVLOG = []

subs = [
    ("Byte", Byte),
    ("Int32ub", Int32ub),
    ("Bytes3", Bytes(3)),
    ("Const", Const(b"\x05")),
    ("Greedy", GreedyBytes),
    ("GRange", GreedyRange(Int16ub)),
    ("SelConstByte", Select(Const(b"\x09\x0a\xff"), Int16ub)),
    ("Struct", Struct("a" / Byte, "b" / Pointer(1, Byte), "c" / Int16ub)),
    ("Check", Struct("a" / Byte, Check(this.a < 8))),
    ("Error", Error),
    ("Tell", Tell),
]
offsets = [0, 1, 5, 13, 15, 16, 17, 40, -1, -2, -4, -16, -17, -40, None, "x", 2.0, True, evaloff, badoff]

for sname, sub in subs:
    for off in offsets:
        oname = off.__name__ if callable(off) else repr(off)
        for start in (0, 1, 7, 16, 20):
            d = Pointer(off, sub)
            s = Tr(DATA)
            io.BytesIO.seek(s, start)
            EVLOG.clear()
            run("parse %s off=%s start=%d" % (sname, oname, start), lambda: d.parse_stream(s, off=4))
            print("   pos", pos(s), "log", " ".join(s.log), "ev", EVLOG)

# parse with an alternative stream (constant, lambda, falsy)
for streamarg, nm in ((other, "const"), (evalstream, "lambda"), (None, "none"), (0, "zero"), (b"", "emptybytes")):
    for off in (0, 2, 7, 8, 9, -1, -9, evaloff):
        oname = off.__name__ if callable(off) else repr(off)
        d = Struct("x" / Byte, "p" / Pointer(off, Bytes(2), stream=streamarg), "y" / Byte)
        s = Tr(DATA)
        io.BytesIO.seek(other, 5)
        other.log.clear()
        EVLOG.clear()
        run("altstream %s off=%s" % (nm, oname), lambda: d.parse_stream(s, alt=other, off=1))
        print("   pos", pos(s), "log", " ".join(s.log), "| other pos", pos(other), "log", " ".join(other.log), "ev", EVLOG)

# failures of tell / seek at every call index
for sname, sub in (("Byte", Byte), ("Const", Const(b"\xee")), ("Struct", Struct("a" / Byte, "b" / Pointer(1, Byte)))):
    for ft in (None, 1, 2, 3):
        for fs in (None, 1, 2, 3, 4):
            d = Pointer(6, sub)
            s = Tr(DATA, failtell=ft, failseek=fs)
            run("failing parse %s ft=%s fs=%s" % (sname, ft, fs), lambda: d.parse_stream(s))
            print("   pos", pos(s), "log", " ".join(s.log))
            s = Tr(DATA, failtell=ft, failseek=fs)
            run("failing build %s ft=%s fs=%s" % (sname, ft, fs), lambda: d.build_stream(dict(a=1, b=2) if sname == "Struct" else (1 if sname == "Byte" else None), s))
            print("   pos", pos(s), "log", " ".join(s.log), "data", s.getvalue())

# building
bsubs = [
    ("Byte", Byte, [0, 255, 256, -1, None, "s"]),
    ("Int32ub", Int32ub, [1, 2**32]),
    ("Bytes3", Bytes(3), [b"abc", b"ab", b"abcd"]),
    ("Const", Const(b"\x05"), [None, b"\x05", b"\x06"]),
    ("Greedy", GreedyBytes, [b"", b"xyz"]),
    ("GRange", GreedyRange(Int16ub), [[], [1, 2, 3], [1, 70000]]),
    ("Struct", Struct("a" / Byte, "b" / Pointer(1, Byte), "c" / Int16ub), [dict(a=1, b=2, c=3), dict(a=1)]),
    ("Error", Error, [None]),
    ("Rebuild", Rebuild(Byte, lambda ctx: 7), [None]),
]
for sname, sub, objs in bsubs:
    for off in (0, 1, 4, 8, 12, -1, -3, -8, -9, None, evaloff, badoff):
        oname = off.__name__ if callable(off) else repr(off)
        for start in (0, 3, 8):
            for obj in objs:
                d = Pointer(off, sub)
                s = Tr(b"\xaa" * 8)
                io.BytesIO.seek(s, start)
                EVLOG.clear()
                run("build %s off=%s start=%d obj=%r" % (sname, oname, start, obj), lambda: d.build_stream(obj, s, off=2))
                print("   pos", pos(s), "data", s.getvalue(), "log", " ".join(s.log), "ev", EVLOG)

# build with alternative stream
for streamarg, nm in ((other, "const"), (evalstream, "lambda"), (None, "none")):
    for off in (0, 3, 8, 12, -2, evaloff):
        oname = off.__name__ if callable(off) else repr(off)
        alt = Tr(b"ABCDEFGH")
        d = Struct("x" / Byte, "p" / Pointer(off, Bytes(2), stream=(alt if nm == "const" else streamarg)), "y" / Byte)
        s = Tr()
        io.BytesIO.seek(alt, 5)
        EVLOG.clear()
        run("altbuild %s off=%s" % (nm, oname), lambda: d.build_stream(dict(x=1, p=b"zz", y=2), s, alt=alt, off=1))
        print("   pos", pos(s), "data", s.getvalue(), "log", " ".join(s.log), "| alt pos", pos(alt), "data", alt.getvalue(), "log", " ".join(alt.log), "ev", EVLOG)

# top-level helpers, sizeof, non seekable
d = Pointer(8, Bytes(1))
run("doc parse", lambda: d.parse(b"abcdefghijkl"))
run("doc build", lambda: d.build(b"Z"))
run("sizeof", lambda: d.sizeof())
run("short", lambda: d.parse(b"abc"))
class NoSeek:
    def read(self, n): return b"\x00" * n
    def write(self, b): return len(b)
run("noseek parse", lambda: d.parse_stream(NoSeek()))
run("noseek build", lambda: d.build_stream(b"Z", NoSeek()))
run("nested", lambda: Struct("o" / Byte, "v" / Pointer(this.o, Pointer(-1, Byte)), "t" / Tell).parse(b"\x02abc"))
run("nested neg", lambda: Struct("o" / Int8sb, "v" / Pointer(this.o, Bytes(2)), "t" / Tell).parse(b"\xfeabc"))
run("compiled parse", lambda: Struct("o" / Byte, "v" / Pointer(2, Byte), "t" / Tell).compile().parse(b"\x02abc"))
run("compiled build", lambda: Struct("o" / Byte, "v" / Pointer(2, Byte)).compile().build(dict(o=1, v=9)))
