#!/usr/bin/env python
"""C03 twin z1: observations on Struct / Sequence (declaration-order concatenation).

usage: equiv.py <repo root>
Deterministic; output must be byte-identical on the clean and the refactored tree.
"""
import sys, io

root = sys.argv[1] if len(sys.argv) > 1 else "."
sys.path.insert(0, root)

from construct import *
from construct.lib import *

LINE = [0]


def show(tag, value):
    LINE[0] += 1
    print("%03d %s -> %s" % (LINE[0], tag, value))


def plain(x):
    """Render containers without private keys, lists recursively, deterministic."""
    if isinstance(x, dict):
        return "{" + ", ".join("%s=%s" % (k, plain(v)) for k, v in x.items() if not (isinstance(k, str) and k.startswith("_"))) + "}"
    if isinstance(x, (list, tuple)):
        return "[" + ", ".join(plain(v) for v in x) + "]"
    return "%s:%r" % (type(x).__name__, x)


def do_parse(name, con, data, **kw):
    stream = io.BytesIO(data)
    try:
        obj = con.parse_stream(stream, **kw)
        show("parse %s %s" % (name, data.hex()), "%s pos=%d" % (plain(obj), stream.tell()))
    except Exception as e:
        show("parse %s %s" % (name, data.hex()), "EXC %s pos=%d" % (type(e).__name__, stream.tell()))


def do_build(name, con, obj, **kw):
    stream = io.BytesIO()
    try:
        con.build_stream(obj, stream, **kw)
        show("build %s %r" % (name, obj), "%s pos=%d" % (stream.getvalue().hex(), stream.tell()))
    except Exception as e:
        show("build %s %r" % (name, obj), "EXC %s written=%s" % (type(e).__name__, stream.getvalue().hex()))


def do_sizeof(name, con, **kw):
    try:
        show("sizeof %s" % name, con.sizeof(**kw))
    except Exception as e:
        show("sizeof %s" % name, "EXC %s" % type(e).__name__)


class Boom(Construct):
    """Raises the given exception class from parse and build."""
    def __init__(self, exc):
        super().__init__()
        self.exc = exc
        self.flagbuildnone = True
    def _parse(self, stream, context, path):
        raise self.exc("boom")
    def _build(self, obj, stream, context, path):
        raise self.exc("boom")
    def _sizeof(self, context, path):
        return 0


calls = []
def note(tag):
    def f(ctx):
        calls.append(tag)
        return len(calls)
    return f


CONS = [
    ("S0", Struct()),
    ("S1", Struct("a" / Int16ub, "b" / Int8ub)),
    ("S2", Struct("a" / Byte, Padding(1), "b" / Int16ul, Const(b"\x7f"))),
    ("S3", Struct("n" / Byte, "d" / Bytes(this.n), "t" / Int8sb)),
    ("S4", Struct("n" / Rebuild(Byte, len_(this.d)), "d" / Bytes(this.n))),
    ("S5", Struct("a" / Byte, StopIf(this.a == 0), "b" / Byte, "c" / Byte)),
    ("S6", Struct("a" / Byte, "in" / Struct("x" / Byte, StopIf(this.x == 9), "y" / Byte), "z" / Byte)),
    ("S7", Struct("a" / Byte, "k" / Computed(this.a + 1), "v" / Default(Byte, 7))),
    ("S8", Struct("a" / Byte, Boom(StopFieldError), "b" / Byte)),
    ("S9", Struct("a" / Byte, "x" / Boom(StopIteration), "b" / Byte)),
    ("S10", Struct("a" / Byte, "x" / Boom(KeyError), "b" / Byte)),
    ("S11", Struct("v" / VarInt, "z" / ZigZag, "s" / CString("utf8"))),
    ("S12", AlignedStruct(4, "a" / Int8ub, "b" / Int16ub)),
    ("S13", BitStruct("a" / BitsInteger(3), "b" / Flag, Padding(3), "c" / Nibble, "d" / BitsInteger(5))),
    ("S14", Struct("c1" / Computed(note("c1")), "a" / Byte, "c2" / Computed(note("c2")))),
    ("Q0", Sequence()),
    ("Q1", Sequence(Int8ub, Int16ub)),
    ("Q2", Sequence("n" / Byte, Bytes(this.n), Int8sb)),
    ("Q3", Sequence("a" / Byte, StopIf(this.a == 0), Byte, Byte)),
    ("Q4", Sequence(Byte, Sequence(Byte, StopIf(this._index == None), Byte), Byte)),
    ("Q5", Sequence(Byte, Boom(StopFieldError), Byte)),
    ("Q6", Sequence(Byte, Boom(StopIteration), Byte)),
    ("Q7", Sequence(Byte, Boom(KeyError), Byte)),
    ("Q8", Sequence("v" / VarInt, Padded(3, Byte), Aligned(2, Byte), PascalString(Byte, "ascii"))),
    ("Q9", Sequence("c1" / Computed(note("q1")), Byte, "c2" / Computed(note("q2")))),
    ("Q10", Int8ub >> Int16ul >> Flag),
    ("F1", FocusedSeq("d", "n" / Byte, "d" / Bytes(this.n))),
    ("P1", PrefixedArray(Byte, Struct("k" / Byte, "v" / Int16ub))),
]

DATA = [
    b"", b"\x00", b"\x01", b"\x02\x00", b"\x00\x01\x02", b"\x01\x00\x02\x03\x7f",
    b"\x02\xaa\xbb\xff", b"\x01\x09\x05\x06", b"\x05\x06\x07\x08\x09",
    b"\xac\x02\x05ab\x00rest", b"\x01\x00\x00\x00\x00\x05\x00\x00", b"\xe1\x1f",
    b"\x03\x01\x00\x00\x02\x00\x03abcXYZ", b"\x02\x01\x00\x02\x03\x00\x04",
]

OBJS = [
    None, {}, [], dict(a=1, b=2), dict(a=0, b=2, c=3), dict(a=5, b=6, c=7), dict(a=1),
    dict(n=2, d=b"\xaa\xbb", t=-1), dict(d=b"xyz"), dict(a=1, **{"in": dict(x=9, y=1)}, z=4),
    dict(a=1, **{"in": dict(x=2, y=1)}, z=4), dict(a=3, v=9), dict(v=300, z=-3, s=u"hi"),
    dict(a=7, b=False, c=8, d=31), [1, 2], [2, b"\xaa\xbb", -1], [0, None, 5, 6], [1, None, 5, 6],
    [1, [2, None, 3], 4], [1, None, 3], [300, 1, 2, u"ok"], [None, 4, None], [1, 2, True], [1],
    b"ab", [dict(k=1, v=2), dict(k=3, v=4)],
]

for name, con in CONS:
    do_sizeof(name, con)
    for data in DATA:
        del calls[:]
        do_parse(name, con, data)
        if calls:
            show("callbacks %s" % name, ",".join(calls))
    for obj in OBJS:
        del calls[:]
        do_build(name, con, obj)
        if calls:
            show("callbacks %s" % name, ",".join(calls))

# context visibility after build (Struct._build returns the context)
d = Struct("n" / Rebuild(Byte, len_(this.d)), "d" / Bytes(this.n), Pass, "e" / Default(Byte, 3))
stream = io.BytesIO()
ret = d._build(Container(d=b"abc"), stream, Container(_params=Container(), _parsing=False, _building=True, _sizing=False), "(x)")
show("Struct._build return", plain(ret) + " bytes=" + stream.getvalue().hex())
d = Sequence("n" / Byte, Bytes(this.n), "m" / Computed(this.n * 2))
stream = io.BytesIO(b"\x02abZ")
ret = d._parse(stream, Container(_params=Container(), _parsing=True, _building=False, _sizing=False), "(x)")
show("Sequence._parse return", plain(ret) + " pos=%d" % stream.tell())

# compiled code for the same composites
for name, con in CONS:
    try:
        c = con.compile()
    except Exception as e:
        show("compile %s" % name, "EXC %s" % type(e).__name__)
        continue
    for data in DATA[:8]:
        do_parse("compiled " + name, c, data)
    for obj in OBJS[:8]:
        do_build("compiled " + name, c, obj)

print("total observations: %d" % LINE[0])
