import sys, io
sys.path.insert(0, sys.argv[1])
from construct import *

N = [0]
def out(*a):
    N[0] += 1
    print("%03d" % N[0], *a)

def attempt(label, f):
    try:
        r = f()
    except Exception as e:
        out(label, "EXC", type(e).__name__, str(e).replace("\n", " | "))
    else:
        out(label, "OK", r)

SEEN = []
def describe(ctx, depth=0):
    """Deterministic description of a context: key order, flags, identities expressed as relations."""
    d = []
    for k in ctx.keys():
        v = ctx[k]
        if k == "_":
            d.append(("_", describe(v, depth + 1) if depth < 4 and hasattr(v, "keys") else type(v).__name__))
        elif k == "_root":
            rel = "self" if v is ctx else ("parent" if v is ctx.get("_") else ("parent_root" if hasattr(ctx.get("_"), "get") and v is ctx["_"].get("_root") else type(v).__name__))
            d.append(("_root", rel))
        elif k == "_io":
            d.append(("_io", type(v).__name__, v.tell() if v is not None else None))
        elif k == "_subcons":
            d.append(("_subcons", type(v).__name__, list(v.keys())))
        elif k == "_params":
            d.append(("_params", "same_as_parent" if hasattr(ctx.get("_"), "get") and v is ctx["_"].get("_params") else "other", list(v.keys())))
        else:
            d.append((k, repr(v)))
    return d

def spy(tag):
    def f(ctx):
        SEEN.append((tag, describe(ctx)))
        return len(SEEN)
    return f

def flush(label):
    for item in SEEN:
        out(label, *item)
    del SEEN[:]

inner = LazyStruct(
    "a" / VarInt,
    "s1" / Computed(spy("s1")),
    "v" / VarInt,
    "s2" / Computed(spy("s2")),
    "b" / Bytes(this.a),
    Padding(1),
    "z" / Int16ub,
)
blob = b"\x02" + b"\x81\x01" + b"xy" + b"\x00" + b"\x01\x02" + b"REST"

# ---- top-level parse: container behaviour and stream positions
def p():
    s = io.BytesIO(blob)
    r = inner.parse_stream(s, k=1)
    first = (repr(r), s.tell(), len(r), list(r.keys()))
    vals = (r.a, r.v, r["z"], r[0], s.tell(), repr(r))
    rest = (r.b, r.s1, r.s2, dict(r.items()) == dict(a=2, s1=r.s1, v=129, s2=r.s2, b=b"xy", z=258), repr(r), s.tell())
    return first + vals + rest
attempt("parse top", p)
flush("seen parse top")
attempt("parse bytes", lambda: sorted((k, repr(v)) for k, v in inner.parse(blob).items()))
flush("seen parse bytes")
attempt("parse short", lambda: repr(inner.parse(b"\x02")))
attempt("parse empty", lambda: repr(inner.parse(b"")))
flush("seen parse short")
attempt("missing attr", lambda: inner.parse(blob).nothere)
attempt("missing key", lambda: inner.parse(blob)["nothere"])
attempt("eq", lambda: inner.parse(blob) == inner.parse(blob))
flush("seen eq")

# ---- top-level build: returned context, bytes, None handling
def b(obj, **kw):
    def f():
        s = io.BytesIO()
        r = inner.build_stream(obj, s, **kw)
        return (s.getvalue(), s.tell(), r)
    return f
attempt("build ok", b(dict(a=2, v=300, b=b"xy", z=7)))
flush("seen build ok")
attempt("build extra keys", b(dict(a=1, v=1, b=b"q", z=1, extra=5, _index=9), k=2))
flush("seen build extra")
attempt("build missing", b(dict(a=2, v=300)))
flush("seen build missing")
attempt("build none", b(None))
flush("seen build none")
attempt("build none ok", lambda: LazyStruct("c" / Const(b"AB"), "t" / Tell, "p" / Pass, "s" / Computed(spy("bn"))).build(None))
flush("seen build none ok")
attempt("build wrong type", b([1, 2]))
attempt("build int", b(5))
flush("seen build wrong")

# ---- what _build returns / direct calls with hand-made contexts
def direct(ctx, obj=None, parse=False):
    def f():
        s = io.BytesIO(blob if parse else b"")
        if parse:
            r = inner._parse(s, ctx, "(direct)")
            return (repr(r), s.tell(), describe(r._context))
        r = inner._build(obj, s, ctx, "(direct)")
        return (type(r).__name__, describe(r), s.getvalue())
    return f
full = lambda **kw: Container(_parsing=False, _building=True, _sizing=False, _params=Container(pp=1), **kw)
good = dict(a=1, v=5, b=b"w", z=3)
attempt("direct build full", direct(full(), good))
attempt("direct build with index", direct(full(_index=4, other="o"), good))
attempt("direct build with root", direct(full(_root="ROOT", _io="IO", _subcons="SC"), good))
attempt("direct build no params", direct(Container(_parsing=False, _building=True, _sizing=False), good))
attempt("direct build no parsing", direct(Container(_params=Container(), _building=True, _sizing=False), good))
attempt("direct build no building", direct(Container(_params=Container(), _parsing=True, _sizing=False), good))
attempt("direct build no sizing", direct(Container(_params=Container(), _parsing=True, _building=False), good))
attempt("direct build empty ctx", direct(Container(), good))
attempt("direct build dict ctx", direct(dict(_params=1), good))
attempt("direct build None ctx", direct(None, good))
attempt("direct build None obj, empty ctx", direct(Container(), None))
attempt("direct parse full", direct(full(_index=2), parse=True))
attempt("direct parse with root", direct(full(_root="ROOT"), parse=True))
attempt("direct parse no params", direct(Container(_parsing=True), parse=True))
attempt("direct parse empty ctx", direct(Container(), parse=True))
attempt("direct parse None ctx", direct(None, parse=True))
flush("seen direct")

# ---- nesting: inside Struct, Array (index), LazyStruct inside LazyStruct, params
outer = Struct(
    "n" / Byte,
    "items" / Array(2, LazyStruct("x" / Byte, "i" / Index, "sp" / Computed(spy("arr")), "up" / Computed(this._.n))),
    "deep" / LazyStruct("m" / VarInt, "inner" / LazyStruct("q" / VarInt, "sp" / Computed(spy("deep")), "r" / Computed(this._root.n))),
    "end" / Tell,
)
oblob = b"\x09" + b"\x01\x02" + b"\x05\x06"
def p():
    r = outer.parse(oblob, extra=1)
    return (r.n, [(it.x, it.i, it.up, it.sp) for it in r["items"]], r.deep.inner.sp, r.deep.m, r.deep.inner.q, r.deep.inner.r, r.end, repr(r.deep), repr(r.deep.inner))
attempt("nested parse", p)
flush("seen nested parse")
attempt("nested build", lambda: outer.build(dict(n=9, items=[dict(x=1), dict(x=2)], deep=dict(m=5, inner=dict(q=6))), extra=1))
flush("seen nested build")
attempt("nested build missing inner", lambda: outer.build(dict(n=9, items=[dict(x=1), dict(x=2)], deep=dict(m=5))))
flush("seen nested build missing")
attempt("nested sizeof", lambda: outer.sizeof())
attempt("lazystruct sizeof", lambda: LazyStruct("a" / Byte, "b" / Int32ub).sizeof())
attempt("lazystruct sizeof ctx", lambda: LazyStruct("a" / Byte, "b" / Bytes(this._.n)).sizeof(n=4))
attempt("lazystruct sizeof missing", lambda: LazyStruct("a" / Byte, "b" / Bytes(this.a)).sizeof())

# ---- StopIf / callbacks / Rebuild inside LazyStruct see the nested context
st = LazyStruct("l" / Rebuild(VarInt, len_(this.d)), "d" / Bytes(this.l), StopIf(this.l == 1), "t" / Byte * (lambda obj, ctx: SEEN.append(("hook", obj, describe(ctx)))))
attempt("rebuild build", lambda: st.build(dict(d=b"abc", t=7)))
attempt("rebuild build stop", lambda: st.build(dict(d=b"a", t=7)))
flush("seen hooks build")
attempt("rebuild parse", lambda: (lambda r: (r.l, r.d, r.t))(st.parse(b"\x03abc\x07")))
flush("seen hooks parse")
attempt("compile", lambda: type(LazyStruct("a" / Byte).compile()).__name__)
attempt("compiled parse", lambda: repr(LazyStruct("a" / Byte, "v" / VarInt).compile().parse(b"\x01\x02")))
attempt("compiled build", lambda: LazyStruct("a" / Byte, "v" / VarInt).compile().build(dict(a=1, v=2)))
attempt("kw subcons", lambda: (lambda r: (list(r.keys()), r.a, r.b))(LazyStruct(a=Byte, b=VarInt).parse(b"\x01\x02")))
attempt("anonymous", lambda: (lambda r: (repr(r), r[2], r[0], r.n, repr(r)))(LazyStruct(Byte, "n" / Byte, Computed(spy("anon"))).parse(b"\x01\x02")))
flush("seen anon")
attempt("embedded getattr", lambda: (inner.a is inner.subcons[0], inner.z.name))
attempt("getattr missing", lambda: inner.nothere)
