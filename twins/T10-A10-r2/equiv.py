import sys
sys.path.insert(0, sys.argv[1])

import enum
from construct import *
from construct.core import KsyGen


def attempt(label, func):
    try:
        print(label, "->", repr(func()))
    except Exception as e:
        print(label, "raised", type(e).__name__, str(e)[:80])


class E(enum.IntEnum):
    one = 1
    four = 4


class F(enum.IntFlag):
    a = 1
    b = 2
    c = 128


cases = [
    ("byte none", FlagsEnum(Byte)),
    ("byte abc", FlagsEnum(Byte, a=1, b=2, c=4)),
    ("byte high", FlagsEnum(Byte, top=128, low=1)),
    ("byte multi-bit", FlagsEnum(Byte, both=3, one=1)),
    ("byte zero", FlagsEnum(Byte, zero=0, x=16)),
    ("byte too large", FlagsEnum(Byte, big=256, a=8)),
    ("byte dup value", FlagsEnum(Byte, first=2, second=2)),
    ("byte intenum", FlagsEnum(Byte, E)),
    ("byte intflag", FlagsEnum(Byte, F, extra=64)),
    ("short", FlagsEnum(Int16ub, a=1, b=0x100, c=0x8000)),
    ("short le", FlagsEnum(Int16ul, a=1, b=0x100)),
    ("int24", FlagsEnum(Int24ub, a=1, z=0x800000)),
    ("int32", FlagsEnum(Int32ub, a=1, b=0x80000000)),
    ("bytes0", FlagsEnum(Bytes(0), a=1)),
    ("varint", FlagsEnum(VarInt, a=1)),
    ("greedybytes", FlagsEnum(GreedyBytes, a=1)),
    ("ctx sized", FlagsEnum(BytesInteger(this.n), a=1)),
    ("renamed sub", FlagsEnum("n" / Byte, a=1, b=32)),
    ("trailing underscore", FlagsEnum(Byte, class_=1, if_=2)),
]

for label, d in cases:
    attempt("emitseq %s" % label, lambda: d._emitseq(KsyGen(), False))
    attempt("emitseq bitwise %s" % label, lambda: d._emitseq(KsyGen(), True))

    def ladder():
        ksy = KsyGen()
        r = d._compileseq(ksy)
        return r, ksy.types, ksy.enums, ksy.instances, ksy.nextid
    attempt("compileseq %s" % label, ladder)

    def ladder2():
        ksy = KsyGen()
        r = (d._compileprimitivetype(ksy), d._compilefulltype(ksy))
        return r, ksy.types, ksy.enums, ksy.instances, ksy.nextid
    attempt("ladder %s" % label, ladder2)

# the list is fresh every time and its elements are independent dicts
d = FlagsEnum(Byte, a=1, b=2)
r1 = d._emitseq(KsyGen(), False)
r2 = d._emitseq(KsyGen(), False)
print("type", type(r1).__name__, [type(x).__name__ for x in r1])
print("fresh", r1 is r2, r1 == r2, any(x is y for x in r1 for y in r2))
print("key order", [list(x) for x in r1[:2]])
print("len", len(r1))

# inside containers
def ksyof(d):
    ksy = KsyGen()
    return d._compileseq(ksy), ksy.types, ksy.enums, ksy.instances

attempt("in struct", lambda: ksyof(Struct("f" / FlagsEnum(Byte, a=1, b=64), "n" / Int16ub)))
attempt("in sequence", lambda: ksyof(Sequence(FlagsEnum(Byte, a=1), FlagsEnum(Byte, b=2))))
attempt("in array", lambda: ksyof(Struct("arr" / Array(2, FlagsEnum(Byte, a=1)))))

# parse/build/compile paths unaffected
d = FlagsEnum(Byte, a=1, b=2, c=128)
attempt("parse", lambda: d.parse(b"\x83"))
attempt("build", lambda: d.build(dict(a=True, c=True)))
attempt("build str", lambda: d.build("a|b"))
attempt("build bad", lambda: d.build("zzz"))
attempt("sizeof", lambda: d.sizeof())
attempt("compiled parse", lambda: d.compile().parse(b"\x83"))
attempt("compiled source", lambda: [l for l in d.compile().source.splitlines() if "Container(" in l])
