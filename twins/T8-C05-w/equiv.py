import sys, io
sys.path.insert(0, sys.argv[1])
from construct import *
from construct.core import Construct, Container, SizeofError

def show(label, fn):
    try:
        r = fn()
        print(label, "->", repr(r))
    except BaseException as e:
        print(label, "!!", type(e).__name__, "|", str(e).replace("\n", " / "))

EV = []

class Amount(int):
    """int subclass logging comparisons, with configurable __eq__ result"""
    def __new__(cls, v, tag, eqresult="default"):
        o = int.__new__(cls, v)
        o.tag = tag
        o.eqresult = eqresult
        return o
    def __eq__(self, other):
        EV.append(("eq", self.tag, getattr(other, "tag", other if not isinstance(other, Amount) else int(other))))
        if self.eqresult == "default":
            return int(self) == int(other)
        if isinstance(self.eqresult, BaseException):
            raise self.eqresult
        return self.eqresult
    def __ne__(self, other):
        EV.append(("ne", self.tag))
        return not self.__eq__(other)
    __hash__ = int.__hash__
    def __repr__(self):
        return "Amount(%d,%s)" % (int(self), self.tag)

class Truthy:
    def __init__(self, val): self.val = val
    def __bool__(self):
        EV.append(("bool", self.val))
        if isinstance(self.val, BaseException):
            raise self.val
        return self.val

ident = lambda b: b

def tr(da, ea, subcon=GreedyBytes):
    return Transformed(subcon, ident, da, ident, ea)

print("===== Transformed._sizeof")
cases = [
    ("None,None", None, None),
    ("None,4", None, 4),
    ("4,None", 4, None),
    ("4,4", 4, 4),
    ("4,5", 4, 5),
    ("5,4", 5, 4),
    ("0,0", 0, 0),
    ("0,None", 0, None),
    ("None,0", None, 0),
    ("0,1", 0, 1),
    ("True,1", True, 1),
    ("1,True", 1, True),
    ("False,0", False, 0),
    ("1.0,1", 1.0, 1),
    ("1,1.0", 1, 1.0),
    ("-2,-2", -2, -2),
    ("'4',4", "4", 4),
    ("big", 10**30, 10**30),
]
for label, da, ea in cases:
    show(label, lambda: tr(da, ea).sizeof())
    show(label + " ctx", lambda: tr(da, ea).sizeof(n=3))
    show(label + " direct", lambda: tr(da, ea)._sizeof(Container(), "(p) -> q"))
    show(label + " in Struct", lambda: Struct("a"/Byte, "t"/tr(da, ea)).sizeof())

print("===== Transformed._sizeof with logging amounts")
def logged(label, da, ea):
    del EV[:]
    show(label, lambda: tr(da, ea).sizeof())
    print("   EV", EV)
logged("A4 vs 4", Amount(4, "d"), 4)
logged("4 vs A4", 4, Amount(4, "e"))
logged("A4 vs A4", Amount(4, "d"), Amount(4, "e"))
logged("A4 vs A5", Amount(4, "d"), Amount(5, "e"))
logged("A4 vs None", Amount(4, "d"), None)
logged("None vs A4", None, Amount(4, "e"))
logged("A0 vs A0", Amount(0, "d"), Amount(0, "e"))
logged("A4 eq->True vs 9", Amount(4, "d", True), 9)
logged("A4 eq->False vs 4", Amount(4, "d", False), 4)
logged("A4 eq->NotImplemented vs 4", Amount(4, "d", NotImplemented), 4)
logged("A4 eq->NotImplemented vs A7", Amount(4, "d", NotImplemented), Amount(7, "e", True))
logged("A4 eq->[] vs 4", Amount(4, "d", []), 4)
logged("A4 eq->[0] vs 9", Amount(4, "d", [0]), 9)
logged("A4 eq->Truthy(True) vs 9", Amount(4, "d", Truthy(True)), 9)
logged("A4 eq->Truthy(False) vs 4", Amount(4, "d", Truthy(False)), 4)
logged("A4 eq->Truthy(raises) vs 4", Amount(4, "d", Truthy(KeyError("kb"))), 4)
logged("A4 eq raises KeyError", Amount(4, "d", KeyError("k")), 4)
logged("A4 eq raises AttributeError", Amount(4, "d", AttributeError("a")), 4)
logged("A4 eq raises ValueError", Amount(4, "d", ValueError("v")), 4)
del EV[:]
show("A4 eq raises KeyError in Struct", lambda: Struct("t"/tr(Amount(4, "d", KeyError("k")), 4)).sizeof())
show("A4 eq raises ValueError in Struct", lambda: Struct("t"/tr(Amount(4, "d", ValueError("v")), 4)).sizeof())
print("   EV", EV)

print("===== Transformed build/parse advance vs sizeof")
def advance(d, obj, ctx={}):
    s = io.BytesIO()
    d.build_stream(obj, s, **ctx)
    n = s.tell()
    s2 = io.BytesIO(s.getvalue() + b"TRAILING")
    r = d.parse_stream(s2, **ctx)
    return (n, s2.tell(), r)
show("4,4 Bytes(4)", lambda: (tr(4, 4, Bytes(4)).sizeof(), advance(tr(4, 4, Bytes(4)), b"abcd")))
show("4,4 wrong build", lambda: tr(4, 4, Bytes(3)).build(b"abc"))
show("4,4 short parse", lambda: tr(4, 4, Bytes(4)).parse(b"ab"))
show("None,None greedy", lambda: advance(tr(None, None), b"abc"))
show("4,None", lambda: advance(tr(4, None, Bytes(4)), b"abcd"))
show("None,4", lambda: advance(tr(None, 4, GreedyBytes), b"abcd"))
show("0,0", lambda: (tr(0, 0, Bytes(0)).sizeof(), advance(tr(0, 0, Bytes(0)), b"")))

print("===== Restreamed._sizeof")
def rs(subcon, sizecomputer):
    return Restreamed(subcon, ident, 1, ident, 1, sizecomputer)
def raising(exc):
    def f(n):
        raise exc
    return f
CALLS = []
def logging_sc(n):
    CALLS.append(n)
    return n * 2
show("None + sized", lambda: rs(Bytes(4), None).sizeof())
show("None + unsized", lambda: rs(VarInt, None).sizeof())
show("None + missing key", lambda: rs(Bytes(this.n), None).sizeof())
show("None direct path", lambda: rs(Bytes(4), None)._sizeof(Container(), "(p) -> r"))
show("lambda + sized", lambda: rs(Bytes(4), lambda n: n // 2).sizeof())
show("lambda + zero", lambda: rs(Bytes(0), lambda n: n // 2).sizeof())
show("lambda + unsized", lambda: rs(VarInt, lambda n: n // 2).sizeof())
show("lambda + ctx ok", lambda: rs(Bytes(this.n), lambda n: n * 8).sizeof(n=3))
show("lambda + ctx missing", lambda: rs(Bytes(this.n), lambda n: n * 8).sizeof())
show("lambda + ctx missing in Struct", lambda: Struct("r"/rs(Bytes(this._.n), lambda n: n * 8)).sizeof())
show("logging", lambda: (rs(Bytes(5), logging_sc).sizeof(), list(CALLS)))
show("logging unsized never called", lambda: rs(VarInt, logging_sc).sizeof())
print("   CALLS", CALLS)
for exc in (KeyError("k"), AttributeError("a"), ValueError("v"), SizeofError("s"), ZeroDivisionError("z")):
    show("sizecomputer raising %s" % type(exc).__name__, lambda: rs(Bytes(4), raising(exc)).sizeof())
    show("sizecomputer raising %s in Struct" % type(exc).__name__, lambda: Struct("r"/rs(Bytes(4), raising(exc))).sizeof())
show("sizecomputer = 0 (falsy, not None)", lambda: rs(Bytes(4), 0).sizeof())
show("sizecomputer = False", lambda: rs(Bytes(4), False).sizeof())
show("sizecomputer = '' ", lambda: rs(Bytes(4), "").sizeof())
show("sizecomputer = int (type)", lambda: rs(Bytes(4), int).sizeof())
show("sizecomputer = str (type)", lambda: rs(Bytes(4), str).sizeof())
show("sizecomputer returns None", lambda: rs(Bytes(4), lambda n: None).sizeof())
show("sizecomputer = 0 + unsized", lambda: rs(VarInt, 0).sizeof())

print("===== Restreamed users: Bitwise / Bytewise / ByteSwapped / BitsSwapped")
show("Bitwise(Bytes(16))", lambda: Bitwise(Bytes(16)).sizeof())
show("Bitwise(Bytes(12))", lambda: Bitwise(Bytes(12)).sizeof())
show("Bitwise(Bytes(0))", lambda: Bitwise(Bytes(0)).sizeof())
show("Bitwise(GreedyBytes)", lambda: Bitwise(GreedyBytes).sizeof())
show("Bitwise(Bytes(this.n)) ok", lambda: Bitwise(Bytes(this.n)).sizeof(n=24))
show("Bitwise(Bytes(this.n)) missing", lambda: Bitwise(Bytes(this.n)).sizeof())
show("Bitwise(VarInt)", lambda: Bitwise(VarInt).sizeof())
show("Bitwise(Bytewise(Bytes(2)))", lambda: Bitwise(Bytewise(Bytes(2))).sizeof())
show("Bitwise(Struct)", lambda: Bitwise(Struct("a"/BitsInteger(3), "b"/BitsInteger(13))).sizeof())
show("BitStruct", lambda: BitStruct("a"/Nibble, "b"/Nibble, "c"/Bytewise(Int16ub)).sizeof())
show("BitStruct ctx missing", lambda: BitStruct("a"/BitsInteger(this._.n)).sizeof())
show("BitStruct ctx ok", lambda: BitStruct("a"/BitsInteger(this._.n)).sizeof(n=16))
show("ByteSwapped(Bytes(5))", lambda: ByteSwapped(Bytes(5)).sizeof())
show("ByteSwapped(VarInt)", lambda: ByteSwapped(VarInt).sizeof())
show("BitsSwapped(Bytes(5))", lambda: BitsSwapped(Bytes(5)).sizeof())
show("BitsSwapped(GreedyBytes)", lambda: BitsSwapped(GreedyBytes).sizeof())
show("advance Bitwise", lambda: (Bitwise(Bytes(16)).sizeof(), advance(Bitwise(Bytes(16)), b"\x01\x00" * 8)))
show("advance BitStruct", lambda: (BitStruct("a"/Nibble, "b"/Nibble).sizeof(), advance(BitStruct("a"/Nibble, "b"/Nibble), dict(a=1, b=2))))
show("advance ByteSwapped", lambda: (ByteSwapped(Bytes(3)).sizeof(), advance(ByteSwapped(Bytes(3)), b"abc")))
show("advance BitsSwapped", lambda: (BitsSwapped(Bytes(3)).sizeof(), advance(BitsSwapped(Bytes(3)), b"abc")))
show("advance Restreamed no sizecomputer", lambda: advance(rs(Bytes(3), None), b"abc"))
