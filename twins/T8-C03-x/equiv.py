import sys, io, random, hashlib
sys.path.insert(0, sys.argv[1])
import construct
from construct import *

assert construct.__file__.startswith(sys.argv[1]), construct.__file__


def parse_pos(d, data, **kw):
    s = io.BytesIO(data)
    try:
        r = d.parse_stream(s, **kw)
        return (type(r).__name__, r, s.tell())
    except Exception as e:
        return ("EXC", type(e).__name__, s.tell())


def build_pos(d, obj):
    s = io.BytesIO()
    try:
        r = d._build(obj, s, Container(), "(b)")
        return (type(r).__name__, r, s.getvalue().hex(), s.tell())
    except Exception as e:
        return ("EXC", type(e).__name__, s.getvalue().hex(), s.tell())


def show(label, fn):
    try:
        r = fn()
        print(label, "->", repr(r))
    except Exception as e:
        print(label, "!!", type(e).__name__)


# exhaustive small domain: all 16-bit signed and beyond, digest + printed boundary values
h = hashlib.sha256()
for x in range(-70000, 70001):
    r = build_pos(ZigZag, x)
    h.update(repr(r).encode())
    b = bytes.fromhex(r[2])
    h.update(repr(parse_pos(ZigZag, b)).encode())
print("exhaustive build/parse -70000..70000 digest", h.hexdigest())

# exhaustive parse of all byte strings of length <= 2
h = hashlib.sha256()
for n in range(0, 3):
    for v in range(256 ** n):
        data = v.to_bytes(n, "big") if n else b""
        h.update(repr((data, parse_pos(ZigZag, data))).encode())
print("exhaustive parse len<=2 digest", h.hexdigest())

for x in list(range(-70, 71)) + [-128, -129, 127, 128, -8192, -8193, 8191, 8192, -2 ** 20, 2 ** 20 - 1, 2 ** 20]:
    print("build", x, build_pos(ZigZag, x))

rng = random.Random(99)
vals = []
for k in (6, 7, 13, 14, 20, 21, 31, 32, 63, 64, 65, 127, 128, 129, 200):
    for base in (2 ** k,):
        vals += [base - 1, base, base + 1, -base - 1, -base, -base + 1]
vals += [rng.getrandbits(rng.randrange(1, 260)) * rng.choice([1, -1]) for _ in range(400)]
for x in vals:
    r = build_pos(ZigZag, x)
    b = bytes.fromhex(r[2])
    print("wide", x, r, parse_pos(ZigZag, b + b"\x55"), parse_pos(VarInt, b))
    if len(b) > 1:
        print("   cut", parse_pos(ZigZag, b[:-1]))

# non-integers and int subclasses
class MyInt(int):
    pass

import enum
class E(enum.IntEnum):
    a = -3
    b = 3

for obj in (True, False, MyInt(-5), MyInt(5), E.a, E.b, 1.0, -1.5, None, "3", b"\x01", [1], 3 + 0j, float("nan")):
    print("odd", repr(obj), build_pos(ZigZag, obj))
    show("odd build() " + repr(obj), lambda: ZigZag.build(obj))

# random byte strings
for _ in range(1500):
    n = rng.randrange(0, 12)
    data = bytes(rng.choice([rng.randrange(256), rng.randrange(128, 256)]) for _ in range(n))
    print("rnd", data.hex(), parse_pos(ZigZag, data))

# inside composites
d = Struct("a" / ZigZag, "b" / Byte, "c" / ZigZag)
for data in (b"\x01\x02\x03", b"\x80\x01\x02\x04zz", b"\x80", b"\x05\x01", b"\xff\xff\x03\x09\xfe\x01"):
    print("struct", data.hex(), parse_pos(d, data))
for obj in (dict(a=-1, b=2, c=-2), dict(a=64, b=0, c=-65), dict(a=-1, b=2, c="x"), dict(a=None, b=2, c=1)):
    show("struct build " + repr(obj), lambda: d.build(obj))
d = Array(3, ZigZag)
show("array build", lambda: d.build([-1, 0, 1]))
show("array build long", lambda: d.build([-2 ** 70, 2 ** 70, -64]))
print("array parse", parse_pos(d, b"\x01\x00\x02rest"))
d = Prefixed(ZigZag, GreedyBytes)
show("prefixed build", lambda: d.build(b"abc"))
print("prefixed parse", parse_pos(d, b"\x06abcdef"))
print("prefixed parse neg", parse_pos(d, b"\x05abcdef"))
d = PascalString(ZigZag, "utf8")
show("pascal build", lambda: d.build("abc"))
print("pascal parse", parse_pos(d, b"\x06abcdef"))
print("pascal parse neg", parse_pos(d, b"\x01abcdef"))
show("sizeof", lambda: ZigZag.sizeof())
