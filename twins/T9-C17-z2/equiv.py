#!/usr/bin/env python
"""
Observation script for the z2 twin (context level opened by Sequence and FocusedSeq
for _parse/_build/_sizeof). Prints one deterministic line per observation; output must
be byte-identical on the reference tree and on the refactored tree.

usage: equiv.py <repo root>
"""
import io
import os
import sys
import tempfile
import threading

root = sys.argv[1] if len(sys.argv) > 1 else "."
sys.path.insert(0, root)

from construct import *

counter = [0]


def show(label, value):
    counter[0] += 1
    print("%03d %s :: %s" % (counter[0], label, value))


def outcome(func, *args, **kw):
    try:
        return "ok %r" % (func(*args, **kw),)
    except Exception as e:
        return "raised %s: %s" % (type(e).__name__, " ".join(str(e).split()))


def parse_at(con, data, offset, **kw):
    stream = io.BytesIO(bytes(offset) + data)
    stream.seek(offset)
    try:
        res = "ok %r" % (con.parse_stream(stream, **kw),)
    except Exception as e:
        res = "raised %s" % (type(e).__name__,)
    return "%s pos=%d" % (res, stream.tell() - offset)


def build_at(con, obj, offset, **kw):
    stream = io.BytesIO()
    stream.write(b"\xee" * offset)
    try:
        res = "ok %r" % (con.build_stream(obj, stream, **kw),)
    except Exception as e:
        res = "raised %s" % (type(e).__name__,)
    return "%s written=%r" % (res, stream.getvalue()[offset:])


def describe(ctx):
    """everything a user callback can see of a context level, without object addresses"""
    def short(k, v):
        if k in ("_", "_params", "_root") and isinstance(v, dict):
            return "<ctx %s>" % ",".join(str(x) for x in v.keys())
        if k == "_io":
            return type(v).__name__ if v is not None else None
        if k == "_subcons":
            return "<subcons %s>" % ",".join(v.keys())
        return repr(v)
    return "{" + "; ".join("%s=%s" % (k, short(k, v)) for k, v in ctx.items()) + "}"


def links(ctx):
    """identity relations between the levels"""
    up = ctx["_"]
    if not isinstance(ctx["_root"], dict):
        return "root=%r depth=%d" % (ctx["_root"], depth(ctx))
    return "root_is_self=%s root_is_parent=%s root_is_parents_root=%s params_is_parents=%s params_is_top=%s depth=%d" % (
        ctx["_root"] is ctx, ctx["_root"] is up, ctx["_root"] is up.get("_root", None),
        ctx["_params"] is up["_params"], ctx["_params"]["_params"] is ctx["_params"], depth(ctx))


def depth(ctx):
    n = 0
    while "_" in ctx:
        ctx = ctx["_"]
        n += 1
    return n


seen = []
def spy(tag):
    def f(ctx):
        seen.append("%s %s | %s" % (tag, describe(ctx), links(ctx)))
        return len(seen)
    return f


def flush(label):
    for line in seen:
        show(label, line)
    del seen[:]


# ---------------------------------------------------------------- Sequence
seq = Sequence("a" / Byte, "s1" / Computed(spy("seq.mid")), "b" / Int16ub, Computed(spy("seq.end")))
for data in (b"\x01\x00\x02", b"\x01\x00", b""):
    show("seq.parse(%r)" % (data,), outcome(seq.parse, data))
    flush("  ctx")
show("seq.parse kw", outcome(seq.parse, b"\x09\x00\x08", mode="x", n=3))
flush("  ctx")
for obj in ([1, None, 2, None], [1, None, 2], None, [300, None, 2, None], (5, 6, 7, 8)):
    show("seq.build(%r)" % (obj,), outcome(seq.build, obj))
    flush("  ctx")
show("seq.build kw", outcome(seq.build, [1, None, 2, None], mode="y"))
flush("  ctx")
show("seq.sizeof", outcome(seq.sizeof))
flush("  ctx")
show("seq.sizeof kw", outcome(seq.sizeof, n=4))
flush("  ctx")
for offset in (0, 4):
    show("seq.parse_stream(+%d)" % offset, parse_at(seq, b"\x01\x00\x02\xff", offset))
    show("seq.build_stream(+%d)" % offset, build_at(seq, [1, None, 2, None], offset))
del seen[:]

# nesting: Sequence in Sequence in Struct, context navigation from the inside
nested = Struct(
    "hdr" / Byte,
    "body" / Sequence(
        "x" / Byte,
        "inner" / Sequence(
            "y" / Byte,
            "up1" / Computed(this._.x),
            "up2" / Computed(this._._.hdr),
            "viaroot" / Computed(this._root.hdr),
            "viaparams" / Computed(this._params.scale),
            "flags" / Computed(lambda ctx: (ctx._parsing, ctx._building, ctx._sizing)),
            "spy" / Computed(spy("inner")),
            "data" / Bytes(this._.x),
        ),
        "after" / Computed(lambda ctx: ctx.inner[1:4]),
        "spy" / Computed(spy("body")),
    ),
)
for data in (b"\x07\x02\x05ab", b"\x07\x00\x05", b"\x07\x03\x05a", b"\x07"):
    show("nested.parse(%r)" % (data,), outcome(nested.parse, data, scale=10))
    flush("  ctx")
show("nested.parse without scale", outcome(nested.parse, b"\x07\x02\x05ab"))
del seen[:]
bobj = dict(hdr=7, body=[2, [5, None, None, None, None, None, None, b"ab"], None, None])
show("nested.build", outcome(nested.build, bobj, scale=10))
flush("  ctx")
show("nested.build short data", outcome(nested.build, dict(hdr=7, body=[3, [5, None, None, None, None, None, None, b"ab"], None, None]), scale=10))
del seen[:]
show("nested.sizeof", outcome(nested.sizeof, scale=1))
flush("  ctx")
show("nested.body.sizeof x given", outcome(nested.body.sizeof, x=2))
del seen[:]
show("nested.body.inner.sizeof", outcome(nested.body.inner.sizeof))
del seen[:]

# _index handed down from arrays, _subcons, _io
arr = Array(3, Sequence("i" / Index, "v" / Byte, "dbl" / Computed(this.v * 2), "sp" / Computed(spy("arr"))))
show("arr.parse", outcome(arr.parse, b"\x01\x02\x03"))
flush("  ctx")
show("arr.build", outcome(arr.build, [[None, 4, None, None], [None, 5, None, None], [None, 6, None, None]]))
flush("  ctx")
show("arr.sizeof", outcome(arr.sizeof))
flush("  ctx")
gr = GreedyRange(FocusedSeq("v", "i" / Index, "v" / Byte, "sp" / Computed(spy("gr"))))
show("gr.parse", outcome(gr.parse, b"\x0a\x0b"))
flush("  ctx")
subs = Sequence("p" / Byte, "q" / Computed(lambda ctx: (sorted(ctx._subcons.keys()), ctx._subcons.p.sizeof(), ctx._io.tell() if ctx._io is not None else None)))
show("subs.parse", outcome(subs.parse, b"\x01"))
show("subs.parse_stream(+6)", parse_at(subs, b"\x01", 6))
show("subs.build", outcome(subs.build, [1, None]))
show("subs.sizeof", outcome(subs.sizeof))

# stop, errors, missing keys, wrong parents
stops = Sequence("a" / Byte, StopIf(this.a == 0), "b" / Byte, "c" / Computed(this.a + this.b))
for data in (b"\x00\x05", b"\x01\x05", b"\x01"):
    show("stops.parse(%r)" % (data,), outcome(stops.parse, data))
for obj in ([0, None, 5, None], [1, None, 5, None], [1], []):
    show("stops.build(%r)" % (obj,), outcome(stops.build, obj))
show("stops.sizeof", outcome(stops.sizeof))
missing = Sequence("a" / Byte, "z" / Bytes(this.nothere))
show("missing.parse", outcome(missing.parse, b"\x01\x02"))
show("missing.build", outcome(missing.build, [1, b""]))
show("missing.sizeof", outcome(missing.sizeof))
show("missing.sizeof kw", outcome(missing.sizeof, nothere=5))
plain = Sequence(Byte, Byte)
show("plain._parse with dict context", outcome(plain._parse, io.BytesIO(b"\x01\x02"), {}, "p"))
show("plain._parse with bare Container", outcome(plain._parse, io.BytesIO(b"\x01\x02"), Container(), "p"))
show("plain._parse with minimal Container", outcome(plain._parse, io.BytesIO(b"\x01\x02"), Container(_params=None, _parsing=1, _building=2, _sizing=3), "p"))
show("plain._sizeof with minimal Container", outcome(plain._sizeof, Container(_params=None, _parsing=1, _building=2, _sizing=3), "p"))
show("plain._build with minimal Container", outcome(plain._build, [1, 2], io.BytesIO(), Container(_params=None, _parsing=1, _building=2, _sizing=3), "p"))
odd = Sequence("k" / Computed(spy("odd")))
show("odd.parse with odd kw", outcome(odd.parse, b"", get=1, _root="fake", _index=7, _=None))
flush("  ctx")
show("odd.parse with _root kw", outcome(odd.parse, b"", _root="fake", _index=7))
flush("  ctx")
show("odd.build with _index kw", outcome(odd.build, [None], _index=9))
flush("  ctx")
show("odd.sizeof with _root kw", outcome(odd.sizeof, _root=Container(q=1)))
flush("  ctx")

# the context level seen while sizing (Bytes evaluates its length callback in _sizeof)
def spylen(tag):
    f = spy(tag)
    def g(ctx):
        f(ctx)
        return 2
    return g
szseq = Struct("h" / Byte, "s" / Sequence("a" / Byte, "p" / Bytes(spylen("szseq"))), "f" / FocusedSeq("q", "b" / Byte, "q" / Bytes(spylen("szfoc"))))
show("szseq.sizeof", outcome(szseq.sizeof, unit=3))
flush("  ctx")
show("szseq.s.sizeof", outcome(szseq.s.sizeof, _index=4))
flush("  ctx")
show("szseq.f.sizeof", outcome(szseq.f.sizeof))
flush("  ctx")
show("szseq.parse", outcome(szseq.parse, b"\x01\x02ab\x03cd"))
flush("  ctx")
show("szseq.build", outcome(szseq.build, dict(h=1, s=[2, b"ab"], f=b"cd")))
flush("  ctx")

# ---------------------------------------------------------------- FocusedSeq
foc = FocusedSeq("num", Const(b"SIG"), "num" / Byte, "sp" / Computed(spy("foc")), Terminated)
for data in (b"SIG\xff", b"SIG\xff\x00", b"SIX\xff", b"SIG", b""):
    show("foc.parse(%r)" % (data,), outcome(foc.parse, data))
    flush("  ctx")
for obj in (255, 0, 256, None, "x"):
    show("foc.build(%r)" % (obj,), outcome(foc.build, obj))
    flush("  ctx")
show("foc.sizeof", outcome(foc.sizeof))
del seen[:]
for offset in (0, 3):
    show("foc.parse_stream(+%d)" % offset, parse_at(foc, b"SIG\x05", offset))
    show("foc.build_stream(+%d)" % offset, build_at(foc, 5, offset))
del seen[:]
dyn = FocusedSeq(this._.which, "a" / Byte, "b" / Byte)
wrap = Struct("which" / Computed(lambda ctx: ctx._params.which), "val" / dyn)
for which in ("a", "b", "c"):
    show("dyn.parse which=%s" % which, outcome(wrap.parse, b"\x01\x02", which=which))
    show("dyn.build which=%s" % which, outcome(wrap.build, dict(val=9), which=which))
show("dyn.parse no kw", outcome(wrap.parse, b"\x01\x02"))
show("dyn.sizeof", outcome(wrap.sizeof, which="a"))
selfref = FocusedSeq("data", "len" / Rebuild(Byte, len_(this.data)), "data" / Bytes(this.len), "chk" / Check(this._root is not None))
for data in (b"\x03abc", b"\x00", b"\x03ab"):
    show("selfref.parse(%r)" % (data,), outcome(selfref.parse, data))
for obj in (b"", b"hello", bytes(300)):
    show("selfref.build(len %d)" % len(obj), outcome(selfref.build, obj)[:60])
show("selfref.sizeof", outcome(selfref.sizeof))
show("selfref.sizeof kw", outcome(selfref.sizeof, len=4))
pa = PrefixedArray(Byte, Sequence("t" / Byte, "d" / Computed(lambda ctx: (ctx._index, ctx._.count, depth(ctx)))))
show("pa.parse", outcome(pa.parse, b"\x02\x07\x08"))
show("pa.build", outcome(pa.build, [[7, None], [8, None], [9, None]]))
show("pa.sizeof", outcome(pa.sizeof))
focnest = FocusedSeq("inner", "k" / Byte, "inner" / FocusedSeq("v", "v" / Computed(lambda ctx: (ctx._.k, ctx._root.k, ctx._params.mul * ctx._.k)), "sp" / Computed(spy("focnest"))))
show("focnest.parse", outcome(focnest.parse, b"\x04", mul=3))
flush("  ctx")
show("focnest.build", outcome(focnest.build, None, mul=5))
flush("  ctx")
show("focnest.sizeof", outcome(focnest.sizeof, mul=5))
flush("  ctx")

# ---------------------------------------------------------------- repetition, entry points, compile, threads
mix = Struct(
    "n" / Byte,
    "pairs" / Array(this.n, Sequence("k" / Byte, "v" / Byte, "sum" / Computed(this.k + this.v + this._.n + this._params.bias))),
    "tail" / FocusedSeq("t", Const(b"<"), "t" / Bytes(this._.n), Const(b">")),
)
inputs = [b"\x01\x02\x03<a>", b"\x02\x01\x01\x02\x02<ab>", b"\x00<>", b"\x01\x02\x03<a", b"\x03"]
for rnd in range(2):
    for data in inputs:
        show("mix.parse round %d %r" % (rnd, data), outcome(mix.parse, data, bias=rnd))
        show("mix.parse bytearray round %d" % rnd, outcome(mix.parse, bytearray(data), bias=rnd))
        show("mix.parse memoryview round %d" % rnd, outcome(mix.parse, memoryview(data), bias=rnd))
        show("mix.parse_stream(+5) round %d" % rnd, parse_at(mix, data, 5, bias=rnd))
bm = dict(n=2, pairs=[[1, 1, None], [2, 2, None]], tail=b"ab")
show("mix.build", outcome(mix.build, bm, bias=1))
show("mix.build_stream(+2)", build_at(mix, bm, 2, bias=1))
show("mix.build bad", outcome(mix.build, dict(n=2, pairs=[[1, 1, None]], tail=b"ab"), bias=1))
show("mix.build again", outcome(mix.build, bm, bias=1))
show("mix.sizeof", outcome(mix.sizeof, bias=0))
show("mix.sizeof n", outcome(mix.sizeof, n=2, bias=0))

tmp = tempfile.mkdtemp()
fn = os.path.join(tmp, "blob.bin")
mix.build_file(bm, fn, bias=1)
with open(fn, "rb") as f:
    show("mix.build_file", f.read())
show("mix.parse_file", outcome(mix.parse_file, fn, bias=1))
os.remove(fn)
os.rmdir(tmp)

cseq = Struct("n" / Byte, "s" / Sequence("a" / Byte, "b" / Computed(this.a + this._.n)), "f" / FocusedSeq("x", "x" / Byte, "y" / Computed(this.x + this._.n)))
comp = cseq.compile()
for data in (b"\x01\x02\x03", b"\x05\x05\x05", b"\x01\x02"):
    show("cseq.parse %r" % (data,), outcome(cseq.parse, data))
    show("compiled cseq.parse %r" % (data,), outcome(comp.parse, data))
cobj = dict(n=1, s=[2, None], f=3)
show("cseq.build", outcome(cseq.build, cobj))
show("compiled cseq.build", outcome(comp.build, cobj))
show("compiled cseq.sizeof", outcome(comp.sizeof))
show("compiled source stable", cseq.compile().source == comp.source)
show("compiled source mentions helper", "_nestedcontext" in comp.source)

results = {}
def worker(k):
    out = []
    for rnd in range(40):
        for data in inputs:
            out.append(outcome(mix.parse, data, bias=k))
        out.append(outcome(mix.build, bm, bias=k))
        out.append(outcome(mix.sizeof, n=k, bias=k))
    results[k] = out
threads = [threading.Thread(target=worker, args=(k,)) for k in range(4)]
for t in threads:
    t.start()
for t in threads:
    t.join()
for k in sorted(results):
    show("thread %d outcomes" % k, "%d calls, %d distinct" % (len(results[k]), len(set(results[k]))))
    show("thread %d first round" % k, results[k][:7])
    show("thread %d all rounds equal" % k, all(results[k][i * 7:(i + 1) * 7] == results[k][:7] for i in range(40)))

# construct objects are not touched by use
show("seq attrs", sorted(k for k in vars(seq)))
show("foc attrs", sorted(k for k in vars(foc)))
show("seq subcons", [repr(sc) for sc in seq.subcons])
show("foc subcons", [repr(sc) for sc in foc.subcons])
