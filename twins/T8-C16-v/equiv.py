#!/usr/bin/env python
# usage: equiv.py <path-to-checkout>
# Exercises LazyListContainer.__getitem__ / LazyContainer.__getitem__ (on-demand parse and cache)
# under many access orders, with a stream that logs every tell/seek/read call.
import sys, io, itertools
sys.path.insert(0, sys.argv[1])
from construct import *
from construct.core import LazyContainer, LazyListContainer


class LogStream(io.BytesIO):
    """BytesIO that records every operation; can be told to fail the n-th seek or tell."""
    def __init__(self, data, failseek=None, failtell=None):
        super().__init__(data)
        self.log = []
        self.nseek = 0
        self.ntell = 0
        self.failseek = failseek
        self.failtell = failtell
    def tell(self):
        self.ntell += 1
        if self.failtell is not None and self.ntell >= self.failtell:
            self.log.append("tell!")
            raise OSError("tell fails")
        r = super().tell()
        self.log.append("t%d" % r)
        return r
    def seek(self, offset, whence=0):
        self.nseek += 1
        if self.failseek is not None and self.nseek >= self.failseek:
            self.log.append("seek!(%r,%r)" % (offset, whence))
            raise OSError("seek fails")
        r = super().seek(offset, whence)
        self.log.append("s(%r,%r)" % (offset, whence))
        return r
    def read(self, n=-1):
        r = super().read(n)
        self.log.append("r(%r)->%d" % (n, len(r)))
        return r
    def pos(self):
        return io.BytesIO.tell(self)
    def take(self):
        out = " ".join(self.log)
        self.log = []
        return out


def attempt(fn):
    try:
        return "ok %r" % (fn(),)
    except Exception as e:
        return "EXC %s" % (type(e).__name__,)


import re
def out(*a):
    # scrub memory addresses from function reprs so the transcript is deterministic
    print(re.sub(r" at 0x[0-9a-fA-F]+", " at 0x?", " ".join(str(x) for x in a)))


def state(obj, stream):
    return "pos=%d cached=%r %r log=[%s]" % (stream.pos(), sorted(obj._values), obj, stream.take())


# ---------------------------------------------------------------- LazyArray
ELEMS = [
    ("Int8ub", Int8ub),
    ("Int16ub", Int16ub),
    ("VarInt", VarInt),
    ("PrefixedBytes", Prefixed(Byte, GreedyBytes)),
    ("PrefixedIncl", Prefixed(Byte, GreedyBytes, includelength=True)),
    ("PrefixedVarInt", Prefixed(VarInt, GreedyBytes)),
    ("PrefixedArray", PrefixedArray(Byte, Int16ub)),
    ("Pascal", PascalString(Byte, "utf8")),
    ("CString", CString("utf8")),
    ("StructBB", Struct("a" / Byte, "b" / Byte)),
]
DATA = bytes([3, 1, 2, 3, 2, 4, 5, 1, 6, 2, 7, 8, 0x83, 1, 0, 1, 9, 4, 1, 2, 3, 4]) + b"ab\x00c\x00\x00" + bytes(range(10, 30))

def array_case(name, sc, count, data, accesses, start=0, presk=None):
    out("## LazyArray(%r, %s) len(data)=%d start=%d accesses=%r presk=%r" % (count, name, len(data), start, accesses, presk))
    d = LazyArray(count, sc)
    stream = LogStream(data)
    io.BytesIO.seek(stream, start)
    try:
        obj = d.parse_stream(stream)
    except Exception as e:
        out("   parse EXC %s pos=%d log=[%s]" % (type(e).__name__, stream.pos(), stream.take()))
        return
    out("   parsed", state(obj, stream))
    for a in accesses:
        if presk is not None:
            io.BytesIO.seek(stream, presk)
        r = attempt(lambda: obj[a])
        out("   [%r] -> %s | %s" % (a, r, state(obj, stream)))
    out("   len", attempt(lambda: len(obj)), "iter", attempt(lambda: list(obj)), state(obj, stream))
    try:
        eager = Array(count, sc).parse(data[start:])
        out("   eq eager", attempt(lambda: obj == eager), attempt(lambda: obj[:] == list(eager)))
    except Exception as e:
        out("   eager EXC", type(e).__name__)
    out("   build", attempt(lambda: d.build(obj)), "pos=%d" % stream.pos())

for name, sc in ELEMS:
    array_case(name, sc, 3, DATA, [0, 1, 2])
    array_case(name, sc, 3, DATA, [2, 0, 2, 1, 1, 0])
    array_case(name, sc, 3, DATA, [3, -1, 4, "x", None, 1.0, True, slice(None), slice(1, None), slice(None, None, -1), slice(0, 10), slice(-2, None), 1], presk=1)
    array_case(name, sc, 0, DATA, [0, -1, slice(None)])
    array_case(name, sc, 3, DATA[:4], [2, 1, 0, 2, slice(None)])
    array_case(name, sc, 2, DATA, [1, 0, 1], start=5, presk=0)

# exhaustive permutations (with one repetition appended) for 4 elements
for name, sc in [("Int8ub", Int8ub), ("VarInt", VarInt), ("PrefixedBytes", Prefixed(Byte, GreedyBytes)), ("Pascal", PascalString(Byte, "utf8"))]:
    for perm in itertools.permutations(range(4)):
        array_case(name, sc, 4, DATA, list(perm) + [perm[0]])

array_case("Int8ub", Int8ub, lambda ctx: 2, DATA, [1, 0])
array_case("Int8ub", Int8ub, -1, DATA, [])
array_case("Int8ub", Int8ub, 30, DATA[:10], [29, 10, 9, 0])

# failing stream operations during access: n-th tell / n-th seek fails
for name, sc in [("Int8ub", Int8ub), ("PrefixedBytes", Prefixed(Byte, GreedyBytes))]:
    for failseek in [None, 1, 2, 3, 4]:
        for failtell in [None, 1, 2, 3]:
            for idx in [0, 2, 3, -1]:
                d = LazyArray(3, sc)
                stream = LogStream(DATA)
                obj = d.parse_stream(stream)
                stream.take()
                stream.nseek = stream.ntell = 0
                stream.failseek = failseek
                stream.failtell = failtell
                r = attempt(lambda: obj[idx])
                stream.failseek = stream.failtell = None
                out("## flaky %s failseek=%r failtell=%r idx=%r -> %s | %s" % (name, failseek, failtell, idx, r, state(obj, stream)))
                r = attempt(lambda: obj[idx])
                out("   again -> %s | %s" % (r, state(obj, stream)))

# closed stream
d = LazyArray(3, Int8ub)
stream = LogStream(DATA)
obj = d.parse_stream(stream)
out("## closed: before", attempt(lambda: obj[1]))
stream.close()
for idx in [1, 0, 5, -1, slice(None)]:
    out("   closed [%r] -> %s cached=%r" % (idx, attempt(lambda: obj[idx]), sorted(obj._values)))

# ---------------------------------------------------------------- LazyStruct
def struct_case(label, d, data, accesses, start=0, presk=None):
    out("## LazyStruct %s len(data)=%d start=%d accesses=%r presk=%r" % (label, len(data), start, accesses, presk))
    stream = LogStream(data)
    io.BytesIO.seek(stream, start)
    try:
        obj = d.parse_stream(stream)
    except Exception as e:
        out("   parse EXC %s pos=%d log=[%s]" % (type(e).__name__, stream.pos(), stream.take()))
        return
    out("   parsed", state(obj, stream))
    for a in accesses:
        if presk is not None:
            io.BytesIO.seek(stream, presk)
        if isinstance(a, tuple):
            r = attempt(lambda: getattr(obj, a[1]))
        else:
            r = attempt(lambda: obj[a])
        out("   [%r] -> %s | %s" % (a, r, state(obj, stream)))
    out("   len", attempt(lambda: len(obj)), "keys", attempt(lambda: list(obj.keys())), "values", attempt(lambda: list(obj.values())),
        "items", attempt(lambda: list(obj.items())), "iter", attempt(lambda: list(obj)), state(obj, stream))
    out("   build", attempt(lambda: d.build(obj)), "pos=%d" % stream.pos())

def mk():
    return LazyStruct(
        "n" / Int8ub,
        "v" / VarInt,
        "p" / Prefixed(Byte, GreedyBytes),
        Int16ub,
        "q" / PrefixedArray(Byte, Byte),
        "s" / CString("utf8"),
        "t" / Bytes(2),
    )
SDATA = bytes([2, 0x81, 1, 3, 65, 66, 67, 0, 9, 2, 5, 6]) + b"hi\x00" + b"zz" + b"tail"
names = ["n", "v", "p", "q", "s", "t"]
struct_case("mixed", mk(), SDATA, [0, 1, 2, 3, 4, 5, 6])
struct_case("mixed", mk(), SDATA, ["t", "s", "q", "p", "v", "n", "t", 3, 3])
struct_case("mixed", mk(), SDATA, [("attr", "q"), ("attr", "n"), ("attr", "nosuch"), ("attr", "_nosuch"), "nosuch", 7, 8, -1, None, 2.0, True], presk=3)
struct_case("mixed-trunc", mk(), SDATA[:9], [6, 5, 4, 3, 2, 1, 0])
struct_case("mixed-offset", mk(), b"\xff\xff" + SDATA, [5, 0, 6, 2], start=2, presk=0)
struct_case("empty", LazyStruct(), SDATA, [0, -1, "x"])
for perm in itertools.permutations(range(4)):
    d = LazyStruct("a" / Int8ub, "b" / Prefixed(Byte, GreedyBytes), "c" / VarInt, "d" / Bytes(this.a))
    struct_case("perm", d, bytes([2, 2, 7, 8, 0x85, 1, 9, 9, 9]), [("a", "b", "c", "d")[i] for i in perm] + [perm[0]])

for failseek in [None, 1, 2, 3]:
    for failtell in [None, 1, 2]:
        for idx in [0, "p", 6, 7, -1]:
            d = mk()
            stream = LogStream(SDATA)
            obj = d.parse_stream(stream)
            stream.take()
            stream.nseek = stream.ntell = 0
            stream.failseek = failseek
            stream.failtell = failtell
            r = attempt(lambda: obj[idx])
            stream.failseek = stream.failtell = None
            out("## flaky struct failseek=%r failtell=%r idx=%r -> %s | %s" % (failseek, failtell, idx, r, state(obj, stream)))
            out("   again -> %s | %s" % (attempt(lambda: obj[idx]), state(obj, stream)))

# ---------------------------------------------------------------- embedded in an eager parse
d = Struct("h" / Byte, "l" / LazyArray(3, Prefixed(Byte, GreedyBytes)), "m" / LazyStruct("x" / Int16ub, "y" / VarInt), "z" / Byte)
stream = LogStream(bytes([7, 1, 65, 0, 2, 66, 67, 1, 2, 0x80, 1, 99, 100]))
obj = d.parse_stream(stream)
out("## embedded parsed pos=%d log=[%s]" % (stream.pos(), stream.take()))
for acc in [lambda: obj.l[2], lambda: obj.m.y, lambda: obj.l[0], lambda: obj.m["x"], lambda: obj.l[1], lambda: obj.m[1], lambda: obj.z, lambda: obj.h]:
    out("   ", attempt(acc), "pos=%d log=[%s]" % (stream.pos(), stream.take()))
out("   build", attempt(lambda: d.build(obj)))

# the helper methods must not leak into the mapping/sequence protocol
out("## dict/list views", [k for k in ("keys", "values", "items") if k in vars(LazyContainer)],
    [k for k in ("__getitem__", "__len__", "__iter__", "__eq__") if k in vars(LazyListContainer)])
