import sys, io, random, hashlib
sys.path.insert(0, sys.argv[1])
import construct
from construct import *

assert construct.__file__.startswith(sys.argv[1]), construct.__file__


def parse_pos(d, data, **kw):
    s = io.BytesIO(data)
    try:
        r = d.parse_stream(s, **kw)
        return (type(r).__name__, r, s.tell())
    except Exception as e:
        return ("EXC", type(e).__name__, s.tell())


def show(label, fn):
    try:
        r = fn()
        print(label, "->", repr(r))
    except Exception as e:
        print(label, "!!", type(e).__name__)


# exhaustive: every byte string of length 0..2, each followed by nothing / by trailing data
h = hashlib.sha256()
for n in range(0, 3):
    for v in range(256 ** n):
        data = v.to_bytes(n, "big") if n else b""
        for d in (VarInt, ZigZag):
            h.update(repr((data, parse_pos(d, data))).encode())
print("exhaustive len<=2 digest", h.hexdigest())

# every length-3 byte string (VarInt only, digest) -- covers every VarInt < 2^21
h = hashlib.sha256()
for v in range(256 ** 3):
    data = v.to_bytes(3, "big")
    s = io.BytesIO(data)
    try:
        r = VarInt._parse(s, None, "(p)")
        h.update(b"%d,%d;" % (r, s.tell()))
    except Exception as e:
        h.update(type(e).__name__.encode() + b"%d;" % s.tell())
print("exhaustive len=3 digest", h.hexdigest())

# printed samples
samples = [b"", b"\x00", b"\x01", b"\x7f", b"\x80", b"\x80\x00", b"\x80\x01", b"\xff\x00", b"\xff\x01", b"\xff\x7f",
           b"\xff\xff", b"\xff\xff\xff", b"\x80\x80\x80\x80\x00", b"\x80\x80\x80\x80\x80\x80\x80\x80\x80\x80\x80\x80\x80\x80\x04",
           b"\xff" * 9 + b"\x01", b"\xff" * 10 + b"\x7f" + b"tail", b"\x81\x80\x80\x00\x05", b"\xac\x02rest",
           b"\x80" * 50 + b"\x00", b"\x80" * 50 + b"\x01", b"\x80" * 50]
for data in samples:
    for name, d in (("VarInt", VarInt), ("ZigZag", ZigZag)):
        print(name, data.hex(), parse_pos(d, data))

# build -> parse round trips across boundaries incl. beyond 2^64 and 2^128
rng = random.Random(1234)
vals = []
for k in range(0, 200, 7):
    vals += [2 ** k - 1, 2 ** k, 2 ** k + 1]
vals += [rng.getrandbits(rng.randrange(1, 300)) for _ in range(300)]
for x in vals:
    b = VarInt.build(x)
    print("rt", x, b.hex(), parse_pos(VarInt, b + b"\xaa"), parse_pos(ZigZag, b))
    for cut in range(len(b)):
        r = parse_pos(VarInt, b[:cut])
        if r[0] != "EXC" or r[1] != "StreamError" or r[2] != cut:
            print("  cut", cut, r)

# random byte strings
for _ in range(2000):
    n = rng.randrange(0, 12)
    data = bytes(rng.choice([rng.randrange(256), rng.randrange(128, 256)]) for _ in range(n))
    print("rnd", data.hex(), parse_pos(VarInt, data), parse_pos(ZigZag, data))

# inside composites: stream positions and following fields
d = Struct("n" / VarInt, "rest" / Bytes(2), "z" / ZigZag)
for data in (b"\x01ab\x03", b"\x80\x01ab\x04xx", b"\x80", b"\x80\x80", b"\xffab", b"\x05ab", b"\x05ab\x80"):
    print("struct", data.hex(), parse_pos(d, data))
d = PrefixedArray(VarInt, VarInt)
for data in (b"\x00", b"\x02\x01\x80\x01", b"\x02\x01\x80", b"\x80\x00", b"\x03\xff\xff\x03\x00\x7f"):
    print("parray", data.hex(), parse_pos(d, data))
d = PascalString(VarInt, "utf8")
for data in (b"\x00", b"\x03abc", b"\x03ab", b"\x80\x00", b"\x83\x00abcd", b"\x80"):
    print("pascal", data.hex(), parse_pos(d, data))
d = Prefixed(VarInt, GreedyRange(VarInt))
for data in (b"\x04\x01\x80\x01\x7f", b"\x03\x01\x80\x01\x7f", b"\x02\x80\x80"):
    print("prefixed", data.hex(), parse_pos(d, data))


# odd streams: read returns str / short / raises
class StrStream:
    def __init__(self, s): self.s = s; self.i = 0
    def read(self, n=-1):
        r = self.s[self.i:self.i + n]; self.i += n; return r
    def tell(self): return self.i

class Raising:
    def __init__(self, data, failat): self.b = io.BytesIO(data); self.failat = failat
    def read(self, n=-1):
        if self.b.tell() >= self.failat:
            raise OSError("boom")
        return self.b.read(n)
    def tell(self): return self.b.tell()

show("strstream", lambda: VarInt._parse(StrStream("\x01\x02"), None, "(p)"))
show("strstream2", lambda: VarInt._parse(StrStream("ab"), None, "(p)"))
for failat in range(0, 4):
    r = Raising(b"\x80\x80\x80\x01", failat)
    show(f"raising {failat}", lambda: VarInt._parse(r, None, "(p)"))
    print("  pos", r.tell())
