import sys, io
sys.path.insert(0, sys.argv[1])
from construct import *

out = []
def show(label, fn):
    try:
        r = fn()
        out.append("%s -> %r (%s)" % (label, r, type(r).__name__))
    except Exception as e:
        out.append("%s !! %s" % (label, type(e).__name__))

def pstream(con, data, off=0):
    s = io.BytesIO(data)
    s.seek(off)
    try:
        r = con.parse_stream(s)
        return (r, type(r).__name__, s.tell())
    except Exception as e:
        return ("!!", type(e).__name__, s.tell())

# exhaustive one- and two-byte inputs
for a in range(256):
    out.append("V1 %02x %r" % (a, pstream(VarInt, bytes([a]))))
    out.append("Z1 %02x %r" % (a, pstream(ZigZag, bytes([a]))))
for a in range(0, 256, 3):
    for b in range(0, 256, 5):
        out.append("V2 %02x%02x %r" % (a, b, pstream(VarInt, bytes([a, b]))))
for a in (0x80, 0x81, 0xff, 0xaa):
    for b in (0x80, 0xff, 0x00, 0x01, 0x7f):
        for c in (0x00, 0x01, 0x7f, 0x80):
            out.append("V3 %r" % (pstream(VarInt, bytes([a, b, c, 0x05])),))
            out.append("Z3 %r" % (pstream(ZigZag, bytes([a, b, c, 0x05])),))

# value round trips, boundaries around 7-bit groups and large numbers
vals = [0, 1, 2, 126, 127, 128, 129, 255, 256, 16383, 16384, 16385, 2**21 - 1, 2**21, 2**28, 2**31 - 1, 2**31,
        2**32, 2**35 - 1, 2**35, 2**56, 2**63 - 1, 2**63, 2**64 - 1, 2**64, 2**100, 2**100 + 12345, 3**200, 10**300]
for v in vals:
    b = VarInt.build(v)
    out.append("Vrt %d %r %r" % (v, b, pstream(VarInt, b + b"\xee")))
    for z in (v, -v, -v - 1):
        bz = ZigZag.build(z)
        out.append("Zrt %d %r %r" % (z, bz, pstream(ZigZag, bz + b"\xee")))

# non-canonical encodings (redundant trailing zero groups) and long runs
for n in (1, 2, 5, 9, 10, 11, 40, 200):
    out.append("pad0 %d %r" % (n, pstream(VarInt, b"\x80" * n + b"\x00")))
    out.append("pad1 %d %r" % (n, pstream(VarInt, b"\x80" * n + b"\x01")))
    out.append("padf %d %r" % (n, pstream(VarInt, b"\xff" * n + b"\x7f")))
    out.append("padz %d %r" % (n, pstream(ZigZag, b"\xff" * n + b"\x7f")))

# truncated / empty inputs, stream positions after failure
for data in (b"", b"\x80", b"\xff\xff", b"\x80\x80\x80", b"\xff" * 50):
    out.append("trunc %r %r" % (data, pstream(VarInt, data)))
    out.append("truncZ %r %r" % (data, pstream(ZigZag, data)))

# offsets
blob = b"\x05\x96\x01\xff\xff\x03\x80"
for off in range(len(blob) + 2):
    out.append("off %d %r" % (off, pstream(VarInt, blob, off)))

# entry points agree, repeated calls after failures
for data in (b"\xac\x02", bytearray(b"\xac\x02"), memoryview(b"\xac\x02")):
    show("entry %s" % type(data).__name__, lambda: VarInt.parse(data))
for k in range(3):
    show("rep fail %d" % k, lambda: VarInt.parse(b"\x80"))
    show("rep ok %d" % k, lambda: VarInt.parse(b"\xac\x02"))

# embedded in other constructs and compiled (VarInt is linked, not emitted)
d = Struct("n" / VarInt, "items" / Array(this.n, VarInt), "z" / ZigZag)
blob = b"\x03\x01\x80\x01\xff\xff\x03\x05tail"
show("struct parse", lambda: d.parse(blob))
show("struct compiled parse", lambda: d.compile().parse(blob))
show("struct parse short", lambda: d.parse(blob[:4]))
show("prefixed", lambda: PrefixedArray(VarInt, Byte).parse(b"\x82\x00\x01\x02\x03"))
show("greedy", lambda: GreedyRange(VarInt).parse(b"\x01\x80\x01\xff\x7f\x80"))
show("sizeof", lambda: VarInt.sizeof())
out.append("vars %r" % (sorted(vars(VarInt).items()),))

# failing stream
class Bad(io.RawIOBase):
    def read(self, n=-1):
        raise OSError("boom")
show("bad stream", lambda: VarInt.parse_stream(Bad()))
class Shorty:
    def __init__(self): self.n = 0
    def read(self, n=-1):
        self.n += 1
        return b"\x81" if self.n < 4 else b""
sh = Shorty()
show("shorty", lambda: VarInt.parse_stream(sh))
out.append("shorty reads %d" % sh.n)

print("\n".join(out))
