import sys, io
sys.path.insert(0, sys.argv[1])
from construct import *


class Tracker(io.BytesIO):
    pass


def show(label, fn):
    try:
        r = fn()
        print(label, "->", repr(r))
    except Exception as e:
        print(label, "!!", type(e).__name__, getattr(e, "path", None))


def parse_pos(d, data, **ctx):
    s = io.BytesIO(data)
    try:
        r = d.parse_stream(s, **ctx)
        return ("ok", r, s.tell())
    except Exception as e:
        return ("exc", type(e).__name__, getattr(e, "path", None), s.tell())


def build_pos(d, obj, **ctx):
    s = io.BytesIO()
    try:
        r = d.build_stream(obj, s, **ctx)
        return ("ok", r, s.getvalue(), s.tell())
    except Exception as e:
        return ("exc", type(e).__name__, getattr(e, "path", None), s.getvalue(), s.tell())


calls = []


def lam(ctx):
    calls.append("len")
    return ctx.n


constructs = [
    ("P4Byte", Padded(4, Byte)),
    ("P0Byte", Padded(0, Byte)),
    ("P1Byte", Padded(1, Byte)),
    ("P-1Byte", Padded(-1, Byte)),
    ("P4VarInt", Padded(4, VarInt)),
    ("P3VarIntFF", Padded(3, VarInt, pattern=b"\xff")),
    ("Pthis", Padded(this.n, Byte)),
    ("Plam", Padded(lam, Int16ub)),
    ("Pattr", Padded(lambda ctx: ctx._missing_.x, Byte)),
    ("Padding3", Padding(3)),
    ("Padding-2", Padding(-2)),
    ("Padding0", Padding(0)),
    ("PPass0", Padded(0, Pass)),
    ("Pfloat", Padded(2.5, Byte)),
    ("Pstr", Padded("ab", Byte)),
    ("Pnested", Padded(6, Padded(3, VarInt, pattern=b"\x11"), pattern=b"\x22")),
    ("Struct", Struct("n" / Byte, "v" / Padded(this.n, VarInt), "t" / Byte)),
    ("StructNeg", Struct("n" / Int8sb, "v" / Padded(this.n, Byte))),
    ("Arr", Array(2, Padded(2, Byte))),
    ("PGreedy", Padded(4, GreedyBytes)),
    ("PCStr", Padded(5, CString("utf8"))),
]

datas = [
    b"", b"\x00", b"\x01", b"\xff", b"\x01\x02", b"\x80\x01\x00", b"\xff\xff\xff\x7f",
    b"\xff\xff\xff\xff\x01zz", b"\x03\x81\x01\x07\x09", b"\x02\xff\xff\x7f\x01",
    b"\xfe\x01\x02", b"\x00\x00\x00\x00\x00\x00\x00", b"abc\x00def", b"\x04\x05\x06\x07\x08\x09",
]

objs = [0, 1, 255, 256, 70000, 2**21, 2**40, -1, None, b"ab", b"abcdef", "hi", "hello!", [1, 2], [1], [300, 1],
        dict(n=0, v=1, t=2), dict(n=1, v=1, t=2), dict(n=2, v=300, t=9), dict(n=1, v=300, t=9), dict(n=-3, v=1), dict(v=1)]

ctxs = [{}, {"n": 0}, {"n": 1}, {"n": 3}, {"n": -1}, {"n": None}]

for name, d in constructs:
    for ctx in ctxs:
        if ctx and name not in ("Pthis", "Plam"):
            continue
        for data in datas:
            print("PARSE", name, ctx, data, parse_pos(d, data, **ctx))
        for obj in objs:
            print("BUILD", name, ctx, repr(obj), build_pos(d, obj, **ctx))
        show("SIZEOF %s %r" % (name, ctx), lambda: d.sizeof(**ctx))
    # canonicalisation round trip
    for data in datas:
        try:
            o = d.parse(data, n=2)
            b1 = d.build(o, n=2)
            o2 = d.parse(b1, n=2)
            b2 = d.build(o2, n=2)
            print("RT", name, data, repr(o), b1, o == o2, b1 == b2)
        except Exception as e:
            print("RT", name, data, "!!", type(e).__name__)

print("lam calls", len(calls))

# direct _parse/_build/_sizeof with explicit path and stream errors
class NoTell(io.RawIOBase):
    def read(self, n=-1):
        return b"\x00" * n
    def write(self, b):
        return len(b)
    def tell(self):
        raise OSError("no tell")

for name, d in constructs[:8]:
    show("NOTELL parse " + name, lambda: d.parse_stream(NoTell(), n=2))
    show("NOTELL build " + name, lambda: d.build_stream(1, NoTell(), n=2))
    show("_sizeof " + name, lambda: d._sizeof(Container(n=5), "(here)"))
    show("_sizeof-nokey " + name, lambda: d._sizeof(Container(), "(here)"))
    show("_parse " + name, lambda: d._parse(io.BytesIO(b"\x01\x02\x03\x04\x05\x06"), Container(n=-7), "(p)"))
    show("_build " + name, lambda: d._build(1, io.BytesIO(), Container(n=-7), "(p)"))

# compiled variants still work identically
for name, d in [("P4Byte", Padded(4, Byte)), ("Struct", Struct("n" / Byte, "v" / Padded(this.n, Byte)))]:
    try:
        c = d.compile()
    except Exception as e:
        print("COMPILE", name, "!!", type(e).__name__)
        continue
    for data in datas:
        show("CPARSE %s %r" % (name, data), lambda: c.parse(data))
    for obj in [1, 255, dict(n=2, v=3), dict(n=0, v=3)]:
        show("CBUILD %s %r" % (name, obj), lambda: c.build(obj))

print("has _evallength-like public names:", sorted(n for n in dir(Padded(1, Byte)) if not n.startswith("_")))
