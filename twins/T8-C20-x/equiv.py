import sys, hashlib
sys.path.insert(0, sys.argv[1])
import random
from construct.lib.hex import hexdump, hexundump
import construct

def show(label, fn):
    try:
        r = fn()
    except BaseException as e:
        print(label, "EXC", type(e).__name__)
    else:
        if isinstance(r, (bytes, str)) and len(r) > 300:
            h = hashlib.sha256(r if isinstance(r, bytes) else r.encode()).hexdigest()
            print(label, "LONG", type(r).__name__, len(r), h)
        else:
            print(label, "OK", type(r).__name__, repr(r))

rnd = random.Random(8020)
datas = [b"", b"\x00", b" ", b"   ", b"a b c", bytes(range(256)), b"0" * 100, b"\n\n\n", b'"""\n"""', b"abcdef 0123456789 ABCDEF",
         bytes(rnd.randrange(256) for _ in range(1000)), bytes(rnd.choice(b" \n0aF") for _ in range(300)), b"\xff" * 65536, b"q" * 65537]
for di, d in enumerate(datas):
    for ls in [1, 2, 3, 5, 8, 16, 17, 31, 64, 1000]:
        dump = hexdump(d, ls)
        show("rt d%d ls%d" % (di, ls), lambda: hexundump(dump, ls))
        show("rt-eq d%d ls%d" % (di, ls), lambda: hexundump(dump, ls) == d)
        # undump with a different line size than the one dumped with
        for ls2 in [1, 4, 16, 100]:
            show("mismatch d%d ls%d->%d" % (di, ls, ls2), lambda: hexundump(dump, ls2))

# hand-written / malformed texts
texts = [
    "", "\n", "\n\n", "\n\n\n", "x", "a\nb", "a\nb\nc", "a\nb\nc\nd",
    'hexundump("""\n0000   41 42 43   ABC\n""")\n',
    'hexundump("""\n0000   41 42 43   ABC\n""")',
    'hexundump("""\n0000   41 42 43   ABC\n',
    'junk\n0000   41 42 43   ABC\nend\n',
    'junk\n   0000   41 42   AB\nend\n',
    'junk\n0000 41 42 43 ABC\nend\n',
    'junk\nnospace\nend\n',
    'junk\n\nend\n',
    'junk\n     \nend\n',
    'junk\n0000   41 zz 43   ABC\nend\n',
    'junk\n0000   41 42 43   ABC\n0003   GG\nend\n',
    'junk\n0000   100 42   AB\nend\n',
    'junk\n0000   -1 42   AB\nend\n',
    'junk\n0000   0x41 +42 4_3 \t 7   AB\nend\n',
    'junk\n0000   ff FF fF 0 00 000   AB\nend\n',
    'junk\n0000   41 42\n0002   43 44\n0004   45\nend\n',
    'junk\r\n0000   41 42   AB\r\nend\r\n',
    'junk\n0000 41 42   AB\nend\n',
    'junk\n0000   ١٢   AB\nend\n',
    'junk\n0000   41 42 43 44 45 46 47 48 49 4A   ABCDEFGHIJ\nend\n',
    'junk\n0000   100 41\n0002   zz\nend\n',
    'junk\n0000   zz\n0002   100\nend\n',
]
for ti, t in enumerate(texts):
    for ls in [0, 1, 2, 3, 4, 16, -1, -2, 10**20]:
        show("text t%d ls%r" % (ti, ls), lambda: hexundump(t, ls))

# wrong argument types: which exception, and whether linesize is even looked at
for t in [None, 5, b"junk\n0000   41\nend\n", ["a", "b"], texts[8], "a\nb\nc", ""]:
    for ls in [None, "4", 2.0, 2.5, [1], True, False]:
        show("types %r %r" % (t if not isinstance(t, str) else t[:12], ls), lambda: hexundump(t, ls))

# observe the order of operations with instrumented str subclasses
LOG = []
class Line(str):
    def find(self, *a):
        LOG.append(("find", str(self)[:8])); return str.find(self, *a)
    def __getitem__(self, i):
        LOG.append(("getitem", str(self)[:8], repr(i))); return Line(str.__getitem__(self, i))
    def lstrip(self, *a):
        LOG.append(("lstrip", str(self)[:8])); return Line(str.lstrip(self, *a))
    def split(self, *a):
        LOG.append(("split", str(self)[:8])); return [Tok(x) for x in str.split(self, *a)]
class Tok(str):
    pass
class Text(str):
    def split(self, *a):
        LOG.append(("text.split", a)); return [Line(x) for x in str.split(self, *a)]
class LS(int):
    def __rmul__(self, other):
        LOG.append(("rmul", other)); return 3 * int(self)
for t in [texts[8], texts[18], texts[23], texts[28], texts[29], "a\nb", ""]:
    del LOG[:]
    show("instrumented %r" % t[:20], lambda: hexundump(Text(t), LS(4)))
    print("   log", LOG)

# through the public API
show("HexDump parse", lambda: str(construct.HexDump(construct.Bytes(5)).parse(b"hello")))
show("HexDump rt", lambda: hexundump(str(construct.HexDump(construct.GreedyBytes).parse(bytes(range(40)))), 16))
