import sys, io
sys.path.insert(0, sys.argv[1])
import construct
from construct import *

assert construct.__file__.startswith(sys.argv[1].rstrip("/")), construct.__file__


class FaultyStream(object):
    """BytesIO wrapper whose k-th operation fails in a chosen way."""
    def __init__(self, data, failat, mode):
        self.inner = io.BytesIO(data)
        self.failat = failat
        self.mode = mode
        self.count = 0
    def _tick(self):
        self.count += 1
        return self.count == self.failat
    def read(self, n=-1):
        if self._tick():
            if self.mode == "raise":
                raise IOError("injected")
            if self.mode == "short":
                return self.inner.read(n)[:-1]
        return self.inner.read(n)
    def write(self, data):
        if self._tick():
            if self.mode == "raise":
                raise IOError("injected")
            if self.mode == "short":
                return self.inner.write(data) - 1
        return self.inner.write(data)
    def seek(self, off, whence=0):
        if self._tick() and self.mode == "raise":
            raise IOError("injected")
        return self.inner.seek(off, whence)
    def tell(self):
        if self._tick() and self.mode == "raise":
            raise IOError("injected")
        return self.inner.tell()


def show(label, fn):
    try:
        r = fn()
        print(label, "->", "OK", repr(r))
    except Exception as e:
        print(label, "->", "EXC", type(e).__name__, type(e).__mro__[1].__name__, repr(str(e)))


def parse_pos(d, data, **kw):
    s = io.BytesIO(data)
    try:
        r = d.parse_stream(s, **kw)
        return ("OK", r, s.tell())
    except Exception as e:
        return ("EXC", type(e).__name__, str(e), s.tell())


def build_pos(d, obj, **kw):
    s = io.BytesIO()
    try:
        r = d.build_stream(obj, s, **kw)
        return ("OK", r, s.getvalue(), s.tell())
    except Exception as e:
        return ("EXC", type(e).__name__, str(e), s.getvalue(), s.tell())


class Weird(object):
    """length-like object with odd comparison behaviour"""
    def __init__(self, le):
        self.le = le
    def __le__(self, other):
        if self.le == "raise":
            raise RuntimeError("cmp")
        return self.le
    def __repr__(self):
        return "Weird(%r)" % (self.le,)
    def __index__(self):
        return 2


lengths = [1, 2, 3, 4, 8, 16, 0, -1, -5, True, False, 1.0, 2.5, 0.0, -0.5, None, "2", b"2",
           this.n, this.missing, lambda ctx: ctx.n + 1, lambda ctx: 1 // ctx.n,
           Weird(True), Weird(False), Weird("raise")]
contexts = [{}, {"n": 0}, {"n": 1}, {"n": 2}, {"n": -3}, {"n": 300}]
datas = [b"", b"\x00", b"\x01", b"\xff", b"\x01\x00", b"\x80\x00", b"\x00\x01\x01", b"\xff\xff\xff\xff",
         b"\x01\x00\x01\x00\x01\x00\x01\x00", b"\x01" * 16, b"\x02\x03", bytes(range(20))]
values = [0, 1, -1, 127, 128, 255, 256, -128, -129, 65535, 2 ** 64, True, None, 1.0, "1", b"1"]

for cls in (BytesInteger, BitsInteger):
    for li, length in enumerate(lengths):
        for signed in (False, True):
            for wi, swapped in enumerate((False, True, this.sw, this.nosuch)):
                d = cls(length, signed=signed, swapped=swapped)
                tag = "%s L%d s%d w%d" % (cls.__name__, li, signed, wi)
                for ci, ctx in enumerate(contexts):
                    if not callable(length) and not callable(swapped) and ci > 0:
                        continue
                    ctx2 = dict(ctx, sw=bool(ci % 2))
                    for data in datas:
                        print(tag, "c%d" % ci, "parse", data.hex(), parse_pos(d, data, **ctx2))
                    for v in values:
                        print(tag, "c%d" % ci, "build", repr(v), build_pos(d, v, **ctx2))
                    show(tag + " c%d sizeof" % ci, lambda: d.sizeof(**ctx2))

# derived fields and nesting
fields = dict(Int24ub=Int24ub, Int24sl=Int24sl, Int24ul=Int24ul, Bit=Bit, Nibble=Nibble, Octet=Octet,
              bw3=Bitwise(BitsInteger(3)), bw12=Bitwise(Struct("a" / BitsInteger(4), "b" / BitsInteger(12, swapped=False))),
              bw16sw=Bitwise(BitsInteger(16, swapped=True)), bw12sw=Bitwise(BitsInteger(12, swapped=True)),
              bw0=Bitwise(BitsInteger(0)), bwneg=Bitwise(BitsInteger(-8)),
              bytew=Bitwise(Bytewise(BytesInteger(2))), bytew0=Bitwise(Bytewise(BytesInteger(0))),
              st=Struct("n" / Byte, "v" / BytesInteger(this.n)), stb=Struct("n" / Byte, "v" / Bitwise(BitsInteger(this._.n * 8))),
              stb2=Struct("n" / Byte, "v" / Bitwise(BitsInteger(this.n * 8))),
              arr=Array(3, BytesInteger(3, signed=True)), gr=GreedyRange(BytesInteger(2)), grb=Bitwise(GreedyRange(BitsInteger(8))),
              sel=Select(BytesInteger(4), BytesInteger(0), BytesInteger(1)), opt=Optional(BytesInteger(-1)),
              pk=Sequence(Peek(BytesInteger(2)), BytesInteger(1)), var=VarInt, bsw=ByteSwapped(BytesInteger(3)),
              bitsw=BitsSwapped(Bitwise(BitsInteger(8))))
for name in sorted(fields):
    d = fields[name]
    for data in datas:
        print(name, "parse", data.hex(), parse_pos(d, data))
    for v in values + [dict(n=2, v=258), dict(n=0, v=0), dict(a=1, b=2), [1, 2, 3], [1, -2, 3], [1, 2], [None, 5]]:
        print(name, "build", repr(v), build_pos(d, v))

# every truncation of canonical encodings
for name, d, obj in [("Int24ub", Int24ub, 0x010203), ("B8", BytesInteger(8, signed=True, swapped=True), -2),
                     ("bw", Bitwise(Struct("a" / BitsInteger(4), "b" / BitsInteger(12), "c" / BitsInteger(16, swapped=True))), dict(a=1, b=2, c=3)),
                     ("st", Struct("n" / Byte, "v" / BytesInteger(this.n)), dict(n=5, v=12345))]:
    enc = d.build(obj)
    print(name, "canon", enc.hex())
    for k in range(len(enc) + 1):
        print(name, "trunc", k, parse_pos(d, enc[:k]))

# stream faults at every operation index
for name, d, data, obj in [("B3", BytesInteger(3), b"\x01\x02\x03", 66051), ("B0", BytesInteger(0), b"\x01", 1),
                           ("b8", Bitwise(BitsInteger(8)), b"\x7f", 127), ("bits8", BitsInteger(8), b"\x01" * 8, 255),
                           ("bitsneg", BitsInteger(-1), b"\x01" * 8, 1),
                           ("gr", GreedyRange(BytesInteger(2)), b"\x00\x01\x00\x02\x03", [1, 2])]:
    for mode in ("raise", "short"):
        for k in range(1, 9):
            s = FaultyStream(data, k, mode)
            try:
                r = ("OK", d.parse_stream(s))
            except Exception as e:
                r = ("EXC", type(e).__name__, str(e))
            print(name, mode, k, "parse", r, s.inner.tell(), s.count)
            s = FaultyStream(b"", k, mode)
            try:
                r = ("OK", d.build_stream(obj, s))
            except Exception as e:
                r = ("EXC", type(e).__name__, str(e))
            print(name, mode, k, "build", r, s.inner.getvalue().hex(), s.inner.tell(), s.count)
