import sys
sys.path.insert(0, sys.argv[1])

from construct import *
from construct.expr import Path2, Path, BinExpr, UniExpr
from construct.lib import Container, ListContainer

n = [0]
def show(label, thunk):
    n[0] += 1
    try:
        r = thunk()
        print("%03d %s -> %s %r" % (n[0], label, type(r).__name__, r))
    except Exception as e:
        print("%03d %s !! %s: %s" % (n[0], label, type(e).__name__, e))

# --- Path2.__repr__ / str ---
show("repr list_", lambda: repr(list_))
show("str list_", lambda: str(list_))
show("repr list_[0]", lambda: repr(list_[0]))
show("str list_[0]", lambda: str(list_[0]))
show("repr list_[-1]", lambda: repr(list_[-1]))
show("repr list_[0][1]", lambda: repr(list_[0][1]))
show("repr list_['k']", lambda: repr(list_["k"]))
show("repr list_[b'k']", lambda: repr(list_[b"k"]))
show("repr list_[None]", lambda: repr(list_[None]))
show("repr list_[1:2]", lambda: repr(list_[1:2]))
show("repr list_[(1,2)]", lambda: repr(list_[(1, 2)]))
show("repr list_[this.a]", lambda: repr(list_[this.a]))
show("repr list_[list_[0]]", lambda: repr(list_[list_[0]]))
show("repr Path2('x')", lambda: repr(Path2("x")))
show("repr Path2('x')[3]", lambda: repr(Path2("x")[3]))
show("repr Path2('x', 3)", lambda: repr(Path2("x", 3)))
show("repr Path2('x', 3, Path2('y'))", lambda: repr(Path2("x", 3, Path2("y"))))
show("repr Path2('x', None, Path2('y'))", lambda: repr(Path2("x", None, Path2("y"))))
show("repr Path2(5)", lambda: repr(Path2(5)))
show("repr Path2('x', 1, 'strparent')", lambda: repr(Path2("x", 1, "strparent")))
show("repr Path2('x', 1, 0)", lambda: repr(Path2("x", 1, 0)))
show("repr Path2('x', 1, False)", lambda: repr(Path2("x", 1, False)))
show("repr list_[0]+1", lambda: repr(list_[0] + 1))
show("str list_[0]+1", lambda: str(list_[0] + 1))
show("repr list_[-1]==0", lambda: repr(list_[-1] == 0))
show("repr -list_[2]", lambda: repr(-list_[2]))
show("repr ~list_[2]", lambda: repr(~list_[2]))
show("repr len_(list_)", lambda: repr(len_(list_)))
show("str sum_(list_[0])", lambda: str(sum_(list_[0])))
show("repr list_[0] ** -list_[1]", lambda: repr(list_[0] ** -list_[1]))
show("'%s' list_[7]", lambda: "%s" % (list_[7],))
show("format list_[7]", lambda: "{}".format(list_[7]))

# --- Path2.__call__ ---
L = [10, 20, [30, 40], {"k": 50}]
ctx = Container(a=1)
show("list_(obj, L, ctx)", lambda: list_(1, L, ctx))
show("list_[0](obj, L, ctx)", lambda: list_[0](1, L, ctx))
show("list_[-1](...)", lambda: list_[-1](1, L, ctx))
show("list_[2][1](...)", lambda: list_[2][1](1, L, ctx))
show("list_[3]['k'](...)", lambda: list_[3]["k"](1, L, ctx))
show("list_[1:3](...)", lambda: list_[1:3](1, L, ctx))
show("list_[9](...) IndexError", lambda: list_[9](1, L, ctx))
show("list_[3]['z'](...) KeyError", lambda: list_[3]["z"](1, L, ctx))
show("list_[0][0](...) TypeError", lambda: list_[0][0](1, L, ctx))
show("list_() no args", lambda: list_())
show("list_(1) one arg", lambda: list_(1))
show("list_[0]() no args", lambda: list_[0]())
show("list_[0](1) one arg", lambda: list_[0](1))
show("list_(1,2) two args", lambda: list_(1, 2))
show("list_[0](1,'xyz')", lambda: list_[0](1, "xyz"))
show("list_(1,2,3,4,5) many", lambda: list_(1, 2, 3, 4, 5))
show("Path2 parent=0 call", lambda: Path2("x", 1, 0)(1, L, ctx))
show("Path2 parent=False call", lambda: Path2("x", 1, False)(1, L, ctx))
show("Path2 parent=lambda call", lambda: Path2("x", 1, lambda *a: a)(7, 8, 9))
show("Path2 index None parent set", lambda: Path2("x", None, Path2("y"))(1, {None: "nn"}, ctx))
show("(list_[0]+list_[1])(...)", lambda: (list_[0] + list_[1])(1, L, ctx))
show("(list_[-1]==0)(...)", lambda: (list_[-1] == 0)(1, [3, 0], ctx))
show("(-list_[1])(...)", lambda: (-list_[1])(1, L, ctx))
show("len_(list_)(...)", lambda: len_(list_))
show("type len_(list_)", lambda: type(len_(list_)).__name__)

# order of parent call vs index lookup
events = []
class Rec(list):
    def __getitem__(self, i):
        events.append(("getitem", i))
        return list.__getitem__(self, i)
R = Rec([Rec([1, 2]), Rec([3, 4])])
show("nested rec", lambda: list_[1][0](None, R, None))
show("events", lambda: list(events))

# --- inside constructs ---
d = RepeatUntil(list_[-1] == 0, Byte)
show("RepeatUntil parse", lambda: d.parse(b"\x05\x04\x00\x09"))
show("RepeatUntil build", lambda: d.build([1, 2, 0]))
show("RepeatUntil build no stop", lambda: d.build([1, 2, 3]))
d2 = RepeatUntil(list_[0] + list_[-1] > 10, Byte)
show("RepeatUntil sum parse", lambda: d2.parse(b"\x03\x04\x08\x01"))
d3 = RepeatUntil(len_(list_) == 3, Int16ub)
show("RepeatUntil len parse", lambda: d3.parse(b"\x00\x01\x00\x02\x00\x03\x00\x04"))
show("RepeatUntil len build", lambda: d3.build([7, 8, 9]))
d4 = RepeatUntil(list_[5] == 0, Byte)
show("RepeatUntil IndexError", lambda: d4.parse(b"\x01\x02"))
import io
d5 = RepeatUntil(list_[-1], Byte)
show("RepeatUntil direct parse", lambda: d5.parse(b"\x00\x00\x07\x09"))
show("RepeatUntil direct build", lambda: d5.build([0, 0, 3, 4]))
show("RepeatUntil direct build nostop", lambda: d5.build([0, 0]))
show("RepeatUntil direct parse short", lambda: d5.parse(b"\x00\x00"))
d6 = RepeatUntil(list_[2], Byte)
show("RepeatUntil idx2 parse", lambda: d6.parse(b"\x00\x00\x07\x09"))
d7 = Struct("n" / Byte, "items" / RepeatUntil(list_[0], Int16ul))
show("Struct RepeatUntil parse", lambda: d7.parse(b"\x01\x02\x00\x03\x00"))
show("Struct RepeatUntil build", lambda: d7.build(dict(n=1, items=[5, 6])))
def stream_case2():
    s = io.BytesIO(b"\x00\x04\x00\x09\x09")
    r = d5.parse_stream(s)
    return (list(r), s.tell())
def stream_case():
    s = io.BytesIO(b"\x05\x04\x00\x09\x09")
    r = d.parse_stream(s)
    return (list(r), s.tell())
show("RepeatUntil stream pos", stream_case)
show("RepeatUntil direct stream pos", stream_case2)
show("RepeatUntil sizeof", lambda: d.sizeof())
try:
    dc = d.compile()
    show("compiled parse", lambda: dc.parse(b"\x05\x04\x00\x09"))
    show("compiled build", lambda: dc.build([1, 2, 0]))
    src = dc.source
    for line in src.splitlines():
        if "list_" in line or "repeat" in line.lower():
            n[0] += 1
            print("%03d src %s" % (n[0], line.strip()))
except Exception as e:
    print("compile !! %s: %s" % (type(e).__name__, e))
