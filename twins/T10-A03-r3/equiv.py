import sys, io, collections
sys.path.insert(0, sys.argv[1])
from construct import *
from construct.lib import *

def clean(e):
    return (type(e).__name__, str(e).replace("\n", " | "))

def vis(ctx):
    return {k: v for k, v in dict.items(ctx) if not (isinstance(k, str) and k.startswith("_"))}

def build_pos(d, obj, **kw):
    s = io.BytesIO()
    try:
        r = d._build(obj, s, Container(_params=Container(kw), _parsing=False, _building=True, _sizing=False, **kw), "(b)")
        return (type(r).__name__, vis(r), s.getvalue(), s.tell())
    except Exception as e:
        return ("EXC",) + clean(e) + (s.getvalue(), s.tell())

def pub_build(d, obj, **kw):
    try:
        return d.build(obj, **kw)
    except Exception as e:
        return ("EXC",) + clean(e)

class LoggingDict(dict):
    log = []
    def get(self, k, default=None):
        LoggingDict.log.append(("get", k, default))
        return dict.get(self, k, default)
    def __getitem__(self, k):
        LoggingDict.log.append(("getitem", k))
        return dict.__getitem__(self, k)

class MissingDict(dict):
    def __missing__(self, k):
        return 65

class OnlyGetitem:
    """mapping without .get"""
    def __init__(self, d): self.d = d
    def __getitem__(self, k): return self.d[k]
    def keys(self): return self.d.keys()

structs = [
    ("plain", Struct("a" / Byte, "b" / Int16ub)),
    ("anon", Struct("a" / Byte, Const(b"MZ"), Padding(2), "b" / Byte)),
    ("anon-nonnone", Struct("a" / Byte, Byte)),
    ("allnone", Struct(Const(b"AB"), Pass, Padding(1))),
    ("default", Struct("a" / Default(Byte, 7), "b" / Byte)),
    ("rebuild", Struct("n" / Rebuild(Byte, len_(this.items)), "items" / Byte[this.n])),
    ("computed", Struct("a" / Byte, "c" / Computed(this.a * 2), "d" / Bytes(this.c))),
    ("stop", Struct("a" / Byte, StopIf(this.a == 0), "b" / Byte)),
    ("check", Struct("a" / Byte, Check(this.a > 1), "b" / Byte)),
    ("error", Struct("a" / Byte, Error)),
    ("nested", Struct("h" / Struct("x" / Byte, "y" / Default(Byte, 3)), "t" / Const(1, Byte))),
    ("optional", Struct("a" / Optional(Byte), "b" / Byte)),
    ("tell", Struct("a" / Byte, "p" / Tell, "b" / Default(Int16ul, this.p))),
    ("dupnames", Struct("a" / Byte, "a" / Default(Byte, 9))),
    ("kw", Struct(a=Byte, b=Default(Byte, 2))),
    ("empty", Struct()),
]
objs = [
    ("full", dict(a=1, b=2, c=3, d=b"xx", n=2, items=[5, 6], h=dict(x=1, y=2), t=1)),
    ("a0", dict(a=0, b=2, items=[], h=dict(x=9))),
    ("a2", dict(a=2, b=5, d=b"abcd", items=[1], h=dict(x=9), t=None)),
    ("onlyb", dict(b=4)),
    ("empty", {}),
    ("None", None),
    ("nonekey", {None: 65, "a": 3, "b": 4}),
    ("container", Container(a=3, b=4, items=[1, 2, 3], h=Container(x=1))),
    ("aNone", dict(a=None, b=1)),
    ("wrongtype", dict(a="s", b=1)),
    ("ordered", collections.OrderedDict([("b", 1), ("a", 2)])),
    ("missingdict", MissingDict(b=1)),
    ("list", [1, 2]),
    ("int", 5),
]
for sname, d in structs:
    for oname, o in objs:
        print("build", sname, oname, "->", build_pos(d, o))

# order and kind of lookups made on the given mapping
for sname, d in structs[:8]:
    LoggingDict.log = []
    o = LoggingDict(a=1, b=2, d=b"xx", items=[5, 6])
    r = pub_build(d, o)
    print("lookups", sname, r, LoggingDict.log)

for sname, d in structs[:6]:
    print("nogetattr", sname, build_pos(d, OnlyGetitem(dict(a=1, b=2, items=[1]))))

# flagbuildnone toggled after construction is read at build time
d = Struct("a" / Byte, "b" / Byte)
d.subcons[1].flagbuildnone = True
print("toggled", build_pos(d, dict(a=1)), build_pos(d, dict(a=1, b=2)))
d = Struct("a" / Default(Byte, 1))
d.subcons[0].flagbuildnone = False
print("toggled2", build_pos(d, dict()), build_pos(d, dict(a=None)), build_pos(d, dict(a=4)))

# path in error messages, public api, sizeof and parse unaffected
d = Struct("outer" / Struct("inner" / Struct("v" / Byte)))
print("path", pub_build(d, dict(outer=dict(inner=dict()))), pub_build(d, dict(outer=dict())), pub_build(d, dict(outer=dict(inner=dict(v=300)))))
for sname, d in structs:
    try:
        sz = d.sizeof()
    except Exception as e:
        sz = clean(e)
    try:
        p = d.parse(b"\x02\x01\x00\x03\x04\x05\x06\x07\x08")
    except Exception as e:
        p = clean(e)
    print("sizeof/parse", sname, sz, p)
d = Struct("a" / Byte, "b" / Default(Byte, 7), Const(b"Z"))
print("compiled", d.compile().build(dict(a=1)), d.compile().build(dict(a=1, b=2)))
print("compiled src", [l for l in d.compile().source.split("\n") if "objdict" in l])
