import sys
sys.path.insert(0, sys.argv[1])

from construct import *
from construct.core import KsyGen, FormatField


def attempt(label, func):
    try:
        print(label, "->", repr(func()))
    except Exception as e:
        print(label, "raised", type(e).__name__, str(e)[:80])


# every format/endianity combination, both bitwise flags, direct call
for endianity in "=<>":
    for format in "fdBHLQbhlqe?":
        d = FormatField(endianity, format)
        for bitwise in (False, True):
            attempt("emitprimitive %s%s bitwise=%s" % (endianity, format, bitwise),
                    lambda: d._emitprimitivetype(KsyGen(), bitwise))

# through the fallback ladder
for endianity in "=<>":
    for format in "fdBHLQbhlqe?":
        d = FormatField(endianity, format)
        for bitwise in (False, True):
            def ladder():
                ksy = KsyGen()
                r = (d._compileprimitivetype(ksy, bitwise), d._compilefulltype(ksy, bitwise), d._compileseq(ksy, bitwise))
                return r, ksy.types, ksy.enums, ksy.instances, ksy.nextid
            attempt("ladder %s%s bitwise=%s" % (endianity, format, bitwise), ladder)

# named singletons
names = ["Int8ub", "Int16ub", "Int32ub", "Int64ub", "Int8sb", "Int16sb", "Int32sb", "Int64sb",
         "Int8ul", "Int16ul", "Int32ul", "Int64ul", "Int8sl", "Int16sl", "Int32sl", "Int64sl",
         "Int8un", "Int16un", "Int32un", "Int64un", "Int8sn", "Int16sn", "Int32sn", "Int64sn",
         "Float16b", "Float16l", "Float16n", "Float32b", "Float32l", "Float32n", "Float64b", "Float64l", "Float64n",
         "Byte", "Short", "Int", "Long", "Half", "Single", "Double", "Flag"]
import construct
for n in names:
    d = getattr(construct, n)
    attempt("singleton %s" % n, lambda: d._compileprimitivetype(KsyGen()))
    attempt("singleton %s bitwise" % n, lambda: d._compileprimitivetype(KsyGen(), True))

# containers using the fields
def ksyof(d, bitwise=False):
    ksy = KsyGen()
    return d._compileseq(ksy, bitwise), ksy.types, ksy.enums, ksy.instances

attempt("struct", lambda: ksyof(Struct("a" / Int16ul, "b" / Int32sb, "c" / Float32l, "d" / Float64b, "e" / Int8sb)))
attempt("struct half", lambda: ksyof(Struct("a" / Float16b, "b" / Byte)))
attempt("sequence", lambda: ksyof(Sequence(Int16ub, Int64sl, Float32b)))
attempt("array", lambda: ksyof(Struct("arr" / Array(3, Int32ul))))
attempt("greedy", lambda: ksyof(Struct("arr" / GreedyRange(Int16sb))))
attempt("enum", lambda: ksyof(Struct("e" / Enum(Int16ul, a=1, b=2))))
attempt("prefixed", lambda: ksyof(Struct("p" / Prefixed(Int32ub, GreedyBytes))))
attempt("prefixedarray", lambda: ksyof(Struct("p" / PrefixedArray(Int8ub, Float32l))))
attempt("bitstruct ub", lambda: ksyof(BitStruct("a" / Int8ub)))
attempt("bitwise struct bitwise=True", lambda: ksyof(Struct("a" / Int8ub, "b" / Int16ub), True))
attempt("bitwise struct signed", lambda: ksyof(Struct("a" / Int8sb), True))
attempt("bitwise struct little", lambda: ksyof(Struct("a" / Int16ul), True))
attempt("bitwise struct float", lambda: ksyof(Struct("a" / Float32b), True))
attempt("flag in struct", lambda: ksyof(Struct("f" / Flag)))

# parse/build/sizeof/compile unaffected
for n in ["Int16ul", "Int32sb", "Float32l", "Float64b", "Int8sb"]:
    d = getattr(construct, n)
    data = bytes(range(1, d.sizeof() + 1))
    attempt("parse %s" % n, lambda: d.parse(data))
    attempt("build %s" % n, lambda: d.build(d.parse(data)))
    attempt("sizeof %s" % n, lambda: d.sizeof())
    attempt("compiled parse %s" % n, lambda: d.compile().parse(data))
