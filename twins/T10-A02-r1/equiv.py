import sys, io
sys.path.insert(0, sys.argv[1])
from construct import *
from construct.core import ZigZag, VarInt


def show(label, fn):
    try:
        r = fn()
        print(label, "->", type(r).__name__, repr(r))
    except Exception as e:
        print(label, "!!", type(e).__name__, str(e).replace("\n", " | "))


class MyInt(int):
    pass


values = [0, 1, -1, 2, -2, 3, -3, 63, -63, 64, -64, 65, -65, 127, -128, 128, 255, -255, 256,
          16383, -16384, 16384, 2**31 - 1, -2**31, 2**32, -2**32, 2**63, -2**63, 2**100, -2**100,
          True, False, MyInt(5), MyInt(-5)]
for v in values:
    show("build %r" % (v,), lambda: ZigZag.build(v))
    try:
        data = ZigZag.build(v)
    except Exception:
        continue
    show("roundtrip %r" % (v,), lambda: ZigZag.parse(data))
    s = io.BytesIO()
    show("_build ret %r" % (v,), lambda: ZigZag._build(v, s, Container(), "(p)"))
    print("  stream after build", s.tell(), s.getvalue().hex())

raws = [b"\x00", b"\x01", b"\x02", b"\x03", b"\x04", b"\x05", b"\x06", b"\x7f", b"\x7e",
        b"\x80\x01", b"\x81\x01", b"\xff\x01", b"\xfe\x01", b"\xff\xff\x03", b"\xfe\xff\x03",
        b"\x80\x80\x80\x80\x10", b"\x81\x80\x80\x80\x10", b"\xff\xff\xff\xff\xff\xff\xff\xff\xff\x01",
        b"\x80\x00", b"\x81\x00", b"\x05trailing", b"\x80", b"", b"\xff\xff"]
for raw in raws:
    s = io.BytesIO(raw)
    show("parse %s" % raw.hex(), lambda: ZigZag._parse(s, Container(), "(p)"))
    print("  stream pos", s.tell())
    show("parse() %s" % raw.hex(), lambda: ZigZag.parse(raw))

for bad in ["1", 1.0, 2.5, None, b"\x01", [1], (1,), {}, 1j]:
    show("build bad %r" % (bad,), lambda: ZigZag.build(bad))

show("sizeof", lambda: ZigZag.sizeof())

# nested use
d = Struct("a" / ZigZag, "b" / ZigZag, "c" / Byte)
show("struct build", lambda: d.build(dict(a=-300, b=300, c=7)))
show("struct parse", lambda: d.parse(d.build(dict(a=-300, b=300, c=7))))
show("struct parse short", lambda: d.parse(b"\x80"))
show("struct build bad", lambda: d.build(dict(a="x", b=1, c=1)))
d = Array(4, ZigZag)
show("array build", lambda: d.build([-1, 1, -2**40, 2**40]))
show("array parse", lambda: d.parse(d.build([-1, 1, -2**40, 2**40])))
d = Prefixed(VarInt, GreedyRange(ZigZag))
show("prefixed build", lambda: d.build([0, -1, 1, -100, 100]))
show("prefixed parse", lambda: d.parse(d.build([0, -1, 1, -100, 100])))

# exhaustive small range
acc = []
for v in range(-300, 301):
    b = ZigZag.build(v)
    assert ZigZag.parse(b) == v
    acc.append(b.hex())
print("range -300..300:", ",".join(acc))
acc = []
for n in range(0, 600):
    acc.append(str(ZigZag.parse(VarInt.build(n))))
print("varint 0..599 as zigzag:", ",".join(acc))
