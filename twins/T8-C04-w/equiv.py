import sys, re, io
sys.path.insert(0, sys.argv[1])
import construct
from construct import *
from construct.core import CodeGen

assert construct.__file__.startswith(sys.argv[1]), construct.__file__

def make_norm():
    seen = {}
    def norm(s):
        def sub(m):
            return seen.setdefault(m.group(0), "ID%d" % len(seen))
        return re.sub(r"\b\d{9,}\b", sub, s)
    return norm

norm = make_norm()

def show(label, f):
    try:
        r = f()
        print(label, "->", type(r).__name__, norm(repr(r)))
    except Exception as e:
        print(label, "!!", type(e).__name__)

class EmitFails(Subconstruct):
    """emits the subcon first (side effects on the CodeGen), then gives up"""
    def _parse(self, stream, context, path):
        return self.subcon._parsereport(stream, context, path)
    def _build(self, obj, stream, context, path):
        return self.subcon._build(obj, stream, context, path)
    def _sizeof(self, context, path):
        return self.subcon._sizeof(context, path)
    def _emitparse(self, code):
        self.subcon._compileparse(code)
        raise NotImplementedError
    def _emitbuild(self, code):
        self.subcon._compilebuild(code)
        raise NotImplementedError("x")

class EmitBroken(EmitFails):
    def _emitparse(self, code):
        raise ValueError("broken")
    def _emitbuild(self, code):
        raise KeyError("broken")

class EmitCounts(EmitFails):
    calls = []
    def _emitparse(self, code):
        EmitCounts.calls.append("P")
        return "(%s)" % self.subcon._compileparse(code)
    def _emitbuild(self, code):
        EmitCounts.calls.append("B")
        return "(%s)" % self.subcon._compilebuild(code)

shared = Struct("x" / Byte, "y" / Bytes(this.x))
sharedlinked = Pointer(1, Byte, stream=lambda ctx: None)
counted = EmitCounts(Int16ub)

cons = {
    "byte": Byte,
    "struct": Struct("n" / Byte, "d" / Bytes(this.n), "p" / Byte),
    "shared_twice": Struct("a" / shared, "b" / shared, "c" / Sequence(shared, Byte), "p" / Bytes(this.b.x)),
    "linked_twice": Struct("a" / sharedlinked, "b" / sharedlinked, "n" / Byte, "p" / Bytes(this.a & 1)),
    "counted_twice": Struct("a" / counted, "b" / counted, "c" / Array(2, counted), "p" / Bytes(this.a & 3)),
    "lambda_len": Struct("n" / Byte, "d" / Bytes(lambda ctx: ctx.n), "p" / Byte),
    "union_callable": Struct("u" / Union(lambda ctx: 0, "a" / Byte, "b" / Int16ub), "p" / Byte),
    "union_const": Struct("u" / Union(0, "a" / Byte, "b" / Int16ub), "p" / Bytes(this.u.a & 3)),
    "select": Struct("s" / Select(Const(b"ab"), Byte), "p" / Byte),
    "greedyrange": Struct("n" / Byte, "g" / GreedyRange(Const(b"\x01")), "p" / Byte),
    "emitfails": Struct("n" / Byte, "e" / EmitFails(Struct("m" / Byte, "d" / Bytes(this.m))), "p" / Bytes(this.e.m)),
    "emitfails_shared": Struct("a" / shared, "e" / EmitFails(shared), "p" / Bytes(this.e.x)),
    "emitbroken": Struct("n" / Byte, "e" / EmitBroken(Byte)),
    "renamed_linked": Struct("q" / ("inner" / Pointer(0, Byte, stream=lambda ctx: None)), "p" / Byte),
    "array_linked": Struct("n" / Byte, "a" / Array(this.n, EmitFails(Byte)), "p" / Bytes(len_(this.a))),
    "switch_mixed": Struct("k" / Byte, "v" / Switch(this.k, {0: Byte, 1: EmitFails(Int16ub), 2: shared}, default=Pass), "p" / Byte),
    "focused": FocusedSeq("v", "n" / Byte, "v" / Bytes(this.n), Terminated),
    "prefixed": Struct("d" / Prefixed(Byte, GreedyBytes), "a" / PrefixedArray(Byte, Byte), "p" / Bytes(len_(this.a))),
    "nullterm": Struct("s" / NullTerminated(GreedyBytes), "p" / Byte),
    "enum": Struct("e" / Enum(Byte, a=1, b=2), "p" / If(this.e == "a", Byte)),
}
datas = [b"", b"\x00", b"\x01", b"\x00\x00\x00\x00\x00\x00", b"\x01\x02\x03\x04\x05\x06\x07\x08", b"\x02ab\x02cd\x01e\x07\x08\x09\x0a",
         b"ab\x01\x01\x01\x02\x00\x03\x04", b"\x03" * 40, b"\x01\x00\x07" * 5, b"\xff" * 4]
objs = [None, {}, 5, b"ab", dict(n=0, d=b"", p=1), dict(n=2, d=b"ab", p=3),
        dict(a=dict(x=1, y=b"q"), b=dict(x=2, y=b"rs"), c=[dict(x=0, y=b""), 9], p=b"zz"),
        dict(a=1, b=2, n=3, p=b"z"), dict(a=1, b=2, c=[3, 4], p=b"z"), dict(u=dict(a=1), p=b"z"), dict(u=dict(b=258), p=1),
        dict(s=7, p=1), dict(s=b"ab", p=1), dict(n=1, g=[b"\x01", b"\x01"], p=2),
        dict(n=1, e=dict(m=2, d=b"xy"), p=b"12"), dict(a=dict(x=0, y=b""), e=dict(x=1, y=b"k"), p=b"1"),
        dict(q=3, p=4), dict(n=2, a=[5, 6], p=b"12"), dict(n=2, a=[5], p=b"1"), dict(k=1, v=300, p=0), dict(k=2, v=dict(x=1, y=b"!"), p=0), dict(k=9, v=None, p=0),
        dict(d=b"abc", a=[1, 2], p=b"xy"), dict(s=b"abc", p=1), dict(e="a", p=1), dict(e="b", p=None), dict(e=7, p=None), dict(e="zz", p=None)]

for name, d in cons.items():
    EmitCounts.calls = []
    try:
        dc = d.compile()
    except Exception as e:
        print("compile", name, "!!", type(e).__name__, "calls", EmitCounts.calls)
        continue
    print("source", name, "calls", EmitCounts.calls)
    print(norm(dc.source))
    m = dc.module
    print("linked", name, sorted(norm(str(k)) for k in m.linkedinstances), sorted(norm(str(k)) for k in m.linkedparsers), sorted(norm(str(k)) for k in m.linkedbuilders),
          [type(v).__name__ for k, v in m.linkedinstances.items()])
    show("recompile same", lambda: dc.compile() is dc)
    for kind, c in (("interp", d), ("compiled", dc)):
        show("sizeof %s %s" % (name, kind), lambda: c.sizeof())
        for i, data in enumerate(datas):
            def p():
                s = io.BytesIO(data)
                try:
                    r = c.parse_stream(s)
                finally:
                    print("    pos", s.tell())
                return r
            show("parse %s %s #%d" % (name, kind, i), p)
        for i, o in enumerate(objs):
            show("build %s %s #%d" % (name, kind, i), lambda: c.build(o))

# direct use of the memo: call history on one CodeGen
def cache_view(code):
    return (sorted((norm(str(k)), norm(v)) for k, v in code.parsercache.items()),
            sorted((norm(str(k)), norm(v)) for k, v in code.buildercache.items()),
            sorted(norm(str(k)) for k in code.linkedinstances), code.nextid, len(code.blocks))

code = CodeGen()
ef = EmitFails(shared)
eb = EmitBroken(Byte)
steps = [
    ("shared parse", lambda: shared._compileparse(code)),
    ("shared parse again", lambda: shared._compileparse(code)),
    ("shared build", lambda: shared._compilebuild(code)),
    ("shared build again", lambda: shared._compilebuild(code)),
    ("emitfails parse", lambda: ef._compileparse(code)),
    ("emitfails parse again", lambda: ef._compileparse(code)),
    ("emitfails build", lambda: ef._compilebuild(code)),
    ("emitfails build again", lambda: ef._compilebuild(code)),
    ("broken parse", lambda: eb._compileparse(code)),
    ("broken build", lambda: eb._compilebuild(code)),
    ("linked parse", lambda: sharedlinked._compileparse(code)),
    ("linked build", lambda: sharedlinked._compilebuild(code)),
    ("counted parse", lambda: counted._compileparse(code)),
    ("counted parse again", lambda: counted._compileparse(code)),
    ("counted build", lambda: counted._compilebuild(code)),
    ("counted build again", lambda: counted._compilebuild(code)),
]
EmitCounts.calls = []
for label, f in steps:
    show("step " + label, f)
    print("   state", cache_view(code), EmitCounts.calls)

# a pre-seeded cache entry wins over emission, also for constructs that cannot emit
code = CodeGen()
code.parsercache[id(ef)] = "SEEDED_P"
code.buildercache[id(eb)] = "SEEDED_B"
code.parsercache[id(Byte)] = ""
show("seeded parse", lambda: ef._compileparse(code))
show("seeded build", lambda: eb._compilebuild(code))
show("seeded empty string", lambda: Byte._compileparse(code))
show("unseeded build of seeded-parse", lambda: ef._compilebuild(code))
print("   state", cache_view(code))

# a code object without caches
class NoCaches:
    pass
show("no caches parse", lambda: Byte._compileparse(NoCaches()))
show("no caches build", lambda: ef._compilebuild(NoCaches()))
