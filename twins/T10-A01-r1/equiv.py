import sys, re, io
sys.path.insert(0, sys.argv[1])
from construct import *
from construct.core import CodeGen

_ids = {}
def norm(text):
    # object ids vary between runs: replace every long integer by a stable ordinal
    def sub(m):
        k = m.group(0)
        if k not in _ids:
            _ids[k] = "ID%d" % len(_ids)
        return _ids[k]
    text = re.sub(r"\b\d{8,}\b", sub, text)
    text = re.sub(r"0x[0-9a-fA-F]{6,}", "0xADDR", text)
    return text

def show(label, fn):
    try:
        r = fn()
        print(label, "->", norm(repr(r)))
    except Exception as e:
        print(label, "raised", type(e).__name__, norm(str(e)))

class NoEmit(Construct):
    """A construct that has no _emitparse/_emitbuild: goes through the linked path."""
    def _parse(self, stream, context, path):
        return stream_read(stream, 2, path)
    def _build(self, obj, stream, context, path):
        stream_write(stream, obj, 2, path)
        return obj
    def _sizeof(self, context, path):
        return 2

class Boom(Construct):
    def _emitparse(self, code):
        raise KeyError("emitparse-boom")
    def _emitbuild(self, code):
        raise ValueError("emitbuild-boom")

class Counting(Construct):
    def __init__(self):
        super().__init__()
        self.np = 0
        self.nb = 0
    def _emitparse(self, code):
        self.np += 1
        return "('P%d')" % self.np
    def _emitbuild(self, code):
        self.nb += 1
        return "('B%d')" % self.nb

# 1. direct calls of _compileparse / _compilebuild, cache behaviour
code = CodeGen()
c = Counting()
show("counting parse 1", lambda: c._compileparse(code))
show("counting parse 2", lambda: c._compileparse(code))
show("counting build 1", lambda: c._compilebuild(code))
show("counting build 2", lambda: c._compilebuild(code))
print("counts", c.np, c.nb)
print("parsercache", norm(repr(sorted(code.parsercache.items()))))
print("buildercache", norm(repr(sorted(code.buildercache.items()))))
code2 = CodeGen()
show("counting parse other codegen", lambda: c._compileparse(code2))
print("counts", c.np, c.nb)

# 2. NotImplementedError path: not cached, instance is linked
code = CodeGen()
n = NoEmit()
show("noemit parse 1", lambda: n._compileparse(code))
show("noemit parse 2", lambda: n._compileparse(code))
show("noemit build 1", lambda: n._compilebuild(code))
print("parsercache", norm(repr(code.parsercache)), "buildercache", norm(repr(code.buildercache)))
print("linkedinstances keys", norm(repr(sorted(code.linkedinstances))))
print("linked is same", code.linkedinstances[id(n)] is n, code.linkedparsers[id(n)] == n._parse, code.linkedbuilders[id(n)] == n._build)
print("blocks", norm(code.toString()))

# 3. other exceptions propagate and nothing is cached
code = CodeGen()
b = Boom()
show("boom parse", lambda: b._compileparse(code))
show("boom build", lambda: b._compilebuild(code))
print("caches", code.parsercache, code.buildercache, code.linkedinstances)

# 4. a pre-populated cache wins over the emitter
code = CodeGen()
code.parsercache[id(b)] = "cachedP"
code.buildercache[id(b)] = "cachedB"
show("boom parse cached", lambda: b._compileparse(code))
show("boom build cached", lambda: b._compilebuild(code))
code.parsercache[id(n)] = "cachedNP"
show("noemit parse cached", lambda: n._compileparse(code))
print("linked", code.linkedinstances)

# 5. whole compile() of various constructs, source and behaviour
inner = Struct("a" / Byte, "b" / Int16ub)
cases = [
    ("struct", Struct("x" / Byte, "y" / Int16ul, "z" / Bytes(2)), b"\x01\x02\x03ab"),
    ("shared", Struct("p" / inner, "q" / inner), b"\x01\x00\x02\x03\x00\x04"),
    ("array", Array(3, Int16ub), b"\x00\x01\x00\x02\x00\x03"),
    ("noemit", Struct("h" / Byte, "n" / NoEmit(), "n2" / NoEmit()), b"\x07abcd"),
    ("seq", Sequence(Byte, NoEmit(), Byte), b"\x01xy\x02"),
    ("prefixed", Prefixed(Byte, GreedyBytes), b"\x03abc"),
    ("switch", Struct("t" / Byte, "v" / Switch(this.t, {1: Byte, 2: Int16ub}, default=Pass)), b"\x02\x01\x00"),
    ("const", Struct(Const(b"MZ"), "v" / Byte), b"MZ\x05"),
]
for name, con, data in cases:
    try:
        comp = con.compile()
    except Exception as e:
        print(name, "compile raised", type(e).__name__, norm(str(e)))
        continue
    print("==", name, "source")
    print(norm(comp.source))
    show(name + " parse", lambda: con.parse(data))
    show(name + " cparse", lambda: comp.parse(data))
    obj = con.parse(data)
    show(name + " build", lambda: con.build(obj))
    show(name + " cbuild", lambda: comp.build(obj))
    show(name + " csizeof", lambda: comp.sizeof())
    show(name + " cparse short", lambda: comp.parse(data[:-1]))
    s = io.BytesIO(data + b"tail")
    show(name + " cparse_stream", lambda: comp.parse_stream(s))
    print(name, "pos", s.tell())
    print(name, "linked", len(comp.module.linkedinstances), len(comp.module.linkedparsers), len(comp.module.linkedbuilders))
    print(name, "recompile is self", comp.compile() is comp)

show("boom compile", lambda: Struct("b" / Boom()).compile())
