import sys, io, re
sys.path.insert(0, sys.argv[1])
from construct import *
from construct.core import CodeGen

out = []

def norm(text, table):
    # replace id()-derived numbers (7+ digits) by ordinals of first appearance
    def sub(m):
        k = m.group(0)
        if k not in table:
            table[k] = "ID%d" % len(table)
        return table[k]
    return re.sub(r"\d{7,}", sub, text)

def show(label, fn):
    try:
        r = fn()
        out.append("%s -> %r" % (label, r))
    except Exception as e:
        out.append("%s !! %s" % (label, type(e).__name__))

class NoEmit(Construct):
    """neither emitter implemented: linked in both directions"""
    def _parse(self, stream, context, path):
        return stream.read(1)
    def _build(self, obj, stream, context, path):
        stream.write(obj)
        return obj

class ParseOnlyEmit(NoEmit):
    def _emitparse(self, code):
        return "io.read(1)"

class BuildOnlyEmit(NoEmit):
    def _emitbuild(self, code):
        return "(io.write(obj), obj)[1]"

class Exploding(NoEmit):
    def _emitparse(self, code):
        raise ValueError("not NotImplementedError")
    def _emitbuild(self, code):
        raise KeyError("not NotImplementedError")

class CountingEmit(NoEmit):
    def __init__(self):
        super().__init__()
        self.calls = []
    def _emitparse(self, code):
        self.calls.append("p")
        return "io.read(1)"
    def _emitbuild(self, code):
        self.calls.append("b")
        return "(io.write(obj), obj)[1]"

class LateFail(NoEmit):
    """appends a block, allocates an id, then gives up"""
    def _emitparse(self, code):
        code.append("# latefail parse block %d" % code.allocateId())
        raise NotImplementedError
    def _emitbuild(self, code):
        code.append("# latefail build block %d" % code.allocateId())
        raise NotImplementedError

def cachedump(code, objs, table):
    names = {id(o): n for n, o in objs.items()}
    def keys(d):
        return [names.get(k, "?") for k in d]
    return dict(parsercache=[(names.get(k, "?"), norm(v, table)) for k, v in code.parsercache.items()],
                buildercache=[(names.get(k, "?"), norm(v, table)) for k, v in code.buildercache.items()],
                linkedinstances=keys(code.linkedinstances), linkedparsers=keys(code.linkedparsers),
                linkedbuilders=keys(code.linkedbuilders), nextid=code.nextid,
                blocks=[norm(b, table) for b in code.blocks])

# direct calls on a shared CodeGen, in several orders, repeated
objs = dict(byte=Byte, varint=VarInt, noemit=NoEmit(), ponly=ParseOnlyEmit(), bonly=BuildOnlyEmit(),
            counting=CountingEmit(), late=LateFail(), boom=Exploding(), named="nm" / NoEmit(),
            struct=Struct("a" / Byte, "v" / VarInt), passs=Pass, flag=Flag)
for order in (sorted(objs), sorted(objs, reverse=True)):
    code = CodeGen()
    table = {}
    for rnd in range(3):
        for n in order:
            o = objs[n]
            for which in ("_compileparse", "_compilebuild") if rnd != 1 else ("_compilebuild", "_compileparse"):
                try:
                    r = getattr(o, which)(code)
                    out.append("%s.%s r%d -> %s" % (n, which, rnd, norm(r, table)))
                except Exception as e:
                    out.append("%s.%s r%d !! %s" % (n, which, rnd, type(e).__name__))
        out.append("state r%d %r" % (rnd, cachedump(code, objs, table)))
    out.append("counting calls %r" % (objs["counting"].calls,))
    objs["counting"].calls.clear()

# full compile: shared members, linked members, caches
shared = CountingEmit()
linked = NoEmit()
designs = dict(
    shared_twice=Struct("a" / shared, "b" / shared, "c" / Byte, "d" / Byte),
    linked_twice=Struct("a" / linked, "b" / linked, "v" / VarInt, "w" / VarInt),
    mixed=Struct("p" / ParseOnlyEmit(), "q" / BuildOnlyEmit(), "r" / LateFail(), "n" / Int16ub),
    seq=Sequence(Byte, VarInt, shared, linked),
    arr=Array(3, VarInt),
    arr2=Array(2, Struct("x" / Byte, "y" / linked)),
    top_linked=VarInt,
    top_noemit=linked,
    focused=FocusedSeq("b", "a" / Byte, "b" / VarInt),
    sw=Struct("t" / Byte, "v" / Switch(this.t, {1: VarInt, 2: Int16ub}, default=Pass)),
    ifte=Struct("t" / Flag, "v" / IfThenElse(this.t, VarInt, linked)),
)
samples = [b"", b"\x01", b"\x01\x02", b"\x01\x02\x03\x04\x05\x06\x07\x08", b"\x00\xff\x80\x01\x02\x03\x04\x05", b"\x02\x00\x07\x09\x0a\x0b\x0c"]
for name in sorted(designs):
    d = designs[name]
    table = {}
    shared.calls.clear()
    try:
        c = d.compile()
    except Exception as e:
        out.append("compile %s !! %s" % (name, type(e).__name__))
        continue
    out.append("compile %s source:\n%s" % (name, norm(c.source, table)))
    out.append("  shared emit calls %r" % (shared.calls,))
    out.append("  module linked: %r %r %r" % (len(c.module.linkedinstances), len(c.module.linkedparsers), len(c.module.linkedbuilders)))
    for data in samples:
        s1 = io.BytesIO(data); s2 = io.BytesIO(data)
        try:
            r1 = ("ok", repr(d.parse_stream(s1)))
        except Exception as e:
            r1 = ("!!", type(e).__name__)
        try:
            r2 = ("ok", repr(c.parse_stream(s2)))
        except Exception as e:
            r2 = ("!!", type(e).__name__)
        out.append("  parse %r interp=%r@%d compiled=%r@%d" % (data, r1, s1.tell(), r2, s2.tell()))
        if r2[0] == "ok":
            obj = c.parse(data)
            show("  rebuild interp", lambda: d.build(obj))
            show("  rebuild compiled", lambda: c.build(obj))
    show("  sizeof compiled", lambda: c.sizeof())
    show("  recompile is self", lambda: c.compile() is c)

# compile twice gives independent modules with equal behaviour
d = designs["linked_twice"]
c1 = d.compile(); c2 = d.compile()
out.append("two compiles: same source %r, distinct %r" % (norm(c1.source, {}) == norm(c2.source, {}), c1 is not c2))
show("exploding compile", lambda: Struct("a" / Exploding()).compile())
show("exploding top compile", lambda: Exploding().compile())

print("\n".join(out))
