import sys
sys.path.insert(0, sys.argv[1])

import hashlib
from fractions import Fraction

from construct import *
from construct.lib import *
from construct.lib import binary


def obs(label, fn):
    try:
        r = fn()
        print("%s -> %r" % (label, r))
    except Exception as e:
        print("%s !! %s: %s" % (label, type(e).__name__, e))


# plain results, unsigned and signed, boundaries of every small width
for width in (1, 2, 3, 7, 8, 9, 16):
    for signed in (False, True):
        lo = -(2 ** (width - 1)) if signed else 0
        hi = 2 ** (width - 1) - 1 if signed else 2 ** width - 1
        for number in sorted({lo - 1, lo, lo + 1, -1, 0, 1, hi - 1, hi, hi + 1}):
            obs("integer2bits(%d, %d, signed=%r)" % (number, width, signed),
                lambda: integer2bits(number, width, signed))

# exhaustive digest for widths 1..10
for signed in (False, True):
    h = hashlib.sha256()
    errors = 0
    for width in range(1, 11):
        for number in range(-(2 ** width) - 2, 2 ** width + 3):
            try:
                h.update(integer2bits(number, width, signed))
                h.update(b"|")
            except ValueError as e:
                errors += 1
                h.update(str(e).encode())
    print("exhaustive signed=%r errors=%d digest=%s" % (signed, errors, h.hexdigest()))

# big widths
obs("big unsigned", lambda: hashlib.sha256(integer2bits(2 ** 200 - 12345, 200)).hexdigest())
obs("big signed", lambda: hashlib.sha256(integer2bits(-(2 ** 199), 200, True)).hexdigest())
obs("big overflow", lambda: integer2bits(2 ** 64, 64))
obs("big signed overflow", lambda: integer2bits(2 ** 63, 64, True))
obs("big signed underflow", lambda: integer2bits(-(2 ** 63) - 1, 64, True))

# bad widths
for width in (0, -1, -8):
    for signed in (False, True):
        obs("width %r signed=%r" % (width, signed), lambda: integer2bits(0, width, signed))

# unusual argument types
obs("bool number", lambda: integer2bits(True, 4))
obs("bool width", lambda: integer2bits(1, True))
obs("bool width signed", lambda: integer2bits(-1, True, True))
obs("float width in range", lambda: integer2bits(1, 4.0))
obs("float width out of range", lambda: integer2bits(99, 4.0))
obs("float width signed out of range", lambda: integer2bits(-99, 4.5, True))
obs("float number", lambda: integer2bits(3.0, 4))
obs("float number out of range", lambda: integer2bits(16.5, 4))
obs("fraction width", lambda: integer2bits(100, Fraction(4), True))
obs("str width", lambda: integer2bits(1, "8"))
obs("None width", lambda: integer2bits(1, None))
obs("str number", lambda: integer2bits("1", 8))
obs("None number", lambda: integer2bits(None, 8, True))
obs("truthy signed", lambda: integer2bits(-3, 5, "yes"))
obs("falsy signed", lambda: integer2bits(-3, 5, ""))

# round trips
for signed in (False, True):
    ok = all(bits2integer(integer2bits(n, 9, signed), signed) == n
             for n in (range(-256, 256) if signed else range(0, 512)))
    print("roundtrip width 9 signed=%r ok=%r" % (signed, ok))

# module level caches that are built from integer2bits
print("BYTES2BITS_CACHE", hashlib.sha256(repr(sorted(binary.BYTES2BITS_CACHE.items())).encode()).hexdigest())
print("BITS2BYTES_CACHE", hashlib.sha256(repr(sorted(binary.BITS2BYTES_CACHE.items())).encode()).hexdigest())
print("SWAPBITSINBYTES_CACHE", hashlib.sha256(repr(sorted(binary.SWAPBITSINBYTES_CACHE.items())).encode()).hexdigest())

# through the public constructs
obs("BitsInteger(5) build 19", lambda: BitsInteger(5).build(19))
obs("BitsInteger(5) build 32", lambda: BitsInteger(5).build(32))
obs("BitsInteger(5,signed) build -16", lambda: BitsInteger(5, signed=True).build(-16))
obs("BitsInteger(5,signed) build -17", lambda: BitsInteger(5, signed=True).build(-17))
obs("BitsInteger(16,swapped) build", lambda: BitsInteger(16, swapped=True).build(0x1234))
obs("BitsInteger(this.w) build", lambda: BitsInteger(this.w).build(5, w=3))
obs("BitsInteger(this.w) build w=0", lambda: BitsInteger(this.w).build(5, w=0))
d = BitStruct("a" / BitsInteger(3), "b" / BitsInteger(5, signed=True), "c" / Nibble, "d" / Flag, "e" / BitsInteger(3))
obs("BitStruct build", lambda: d.build(dict(a=5, b=-7, c=9, d=True, e=2)))
obs("BitStruct build overflow", lambda: d.build(dict(a=8, b=-7, c=9, d=True, e=2)))
obs("BitStruct build underflow", lambda: d.build(dict(a=1, b=-17, c=9, d=True, e=2)))
obs("BitStruct sizeof", lambda: d.sizeof())
obs("BitStruct roundtrip", lambda: dict((k, v) for k, v in d.parse(d.build(dict(a=5, b=-7, c=9, d=True, e=2))).items() if k != "_io"))
obs("Bitwise Int24ub build", lambda: Bitwise(Int24ub).build(0xabcdef))
obs("Bitwise Int16sl build", lambda: Bitwise(Int16sl).build(-2))
obs("Bitwise Int8ub build 256", lambda: Bitwise(Int8ub).build(256))
obs("compiled BitStruct build", lambda: d.compile().build(dict(a=5, b=-7, c=9, d=True, e=2)))
obs("bytes2bits", lambda: bytes2bits(b"ab\x00\xff"))
obs("swapbitsinbytes", lambda: swapbitsinbytes(b"\xf0\x01\x80"))
