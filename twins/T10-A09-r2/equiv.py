#!/usr/bin/env python
"""equiv.py <repo root> -- observations about construct.lib.hex.hexundump (and hexdump,
HexDump adapter, which round-trip through it)."""
import sys

sys.path.insert(0, sys.argv[1])

import io
import construct
from construct import *
from construct.lib import hexdump, hexundump
from construct.lib import hex as H

n = [0]


def show(label, fn):
    n[0] += 1
    try:
        out = fn()
        print("%03d %s -> %s %r" % (n[0], label, type(out).__name__, out))
    except Exception as e:
        print("%03d %s !! %s: %s" % (n[0], label, type(e).__name__, e))


# round trips over sizes and line sizes
samples = [
    b"",
    b"a",
    b"0123456789abcde",
    b"0123456789abcdef",
    b"0123456789abcdefg",
    bytes(range(256)),
    b"\x00\xff" * 50,
    b"  spaces  and 20 30 40 digits  ",
    b'""") quote',
    b"\n\n\n",
]
for i, s in enumerate(samples):
    for linesize in (1, 3, 8, 16, 32):
        show("roundtrip sample%d linesize=%d" % (i, linesize),
             lambda s=s, linesize=linesize: hexundump(hexdump(s, linesize), linesize))

# mismatching line sizes (the 3*linesize cut-off)
d16 = hexdump(bytes(range(40)), 16)
d4 = hexdump(b"ABCDEFGHIJ", 4)
for linesize in (0, 1, 2, 4, 5, 8, 15, 16, 17, 100, -1, -3):
    show("dump16 undump linesize=%d" % linesize, lambda linesize=linesize: hexundump(d16, linesize))
    show("dump4 undump linesize=%d" % linesize, lambda linesize=linesize: hexundump(d4, linesize))

# hand-written inputs
texts = [
    ("empty", ""),
    ("one line", "only"),
    ("two lines", "a\nb"),
    ("three lines", "a\nb\nc"),
    ("four lines", "hexundump(\n0000   41 42\n)\n"),
    ("no offset", 'x\n41 42 43\n""")\n'),
    ("leading spaces", 'x\n   41 42 43\n""")\n'),
    ("no space in line", 'x\n414243\n""")\n'),
    ("blank line", 'x\n\n""")\n'),
    ("space only line", 'x\n   \n""")\n'),
    ("lowercase", 'x\n0000   de ad be ef\n""")\n'),
    ("0x prefixes", 'x\n0000   0x41 0X42\n""")\n'),
    ("single digits", 'x\n0000   1 2 3\n""")\n'),
    ("underscore digits", 'x\n0000   4_1 42\n""")\n'),
    ("tabs", 'x\n0000\t41\t42\n""")\n'),
    ("bad hex", 'x\n0000   41 zz 43\n""")\n'),
    ("bad hex second line", 'x\n0000   41 42\n0002   4g\n""")\n'),
    ("too large", 'x\n0000   41 100 43\n""")\n'),
    ("negative", 'x\n0000   41 -1 43\n""")\n'),
    ("256", 'x\n0000   FF 256\n""")\n'),
    ("ascii column hex-like", 'x\n0000   41 42   AB\n""")\n'),
    ("many lines", "x\n" + "".join("%04X   %02X %02X   ..\n" % (i, i, 255 - i) for i in range(0, 64, 2)) + '""")\n'),
    ("crlf", 'x\r\n0000   41 42   AB\r\n""")\r\n'),
    ("unicode digits", 'x\n0000   ٤١ 42\n""")\n'),
]
for label, t in texts:
    for linesize in (2, 16):
        show("hexundump(%s, %d)" % (label, linesize), lambda t=t, linesize=linesize: hexundump(t, linesize))

# wrong argument types
show("bytes input", lambda: hexundump(b"x\n0000   41\n\n", 16))
show("None input", lambda: hexundump(None, 16))
show("int input", lambda: hexundump(5, 16))
show("linesize None", lambda: hexundump(d16, None))
show("linesize str", lambda: hexundump(d16, "16"))
show("linesize float", lambda: hexundump(d16, 16.0))
show("linesize None, no body lines", lambda: hexundump("a\nb", None))
show("linesize str, empty text", lambda: hexundump("", "x"))


# an object that records the calls made on it
class Text:
    def __init__(self, s, log):
        self.s = s
        self.log = log

    def split(self, *a):
        self.log.append("split%r" % (a,))
        return [Line(x, self.log) for x in self.s.split(*a)]


class Line(str):
    def __new__(cls, s, log):
        o = str.__new__(cls, s)
        o.log = log
        return o

    def find(self, *a):
        self.log.append("find%r on %r" % (a, str(self)))
        return str.find(self, *a)


log = []
show("recording text", lambda: hexundump(Text('h\n0000   41 42\n0002   zz\n0004   43\n""")\n', log), 16))
show("recording text log", lambda: list(log))
log = []
show("recording text ok", lambda: hexundump(Text('h\n0000   41 42\n0002   44\n""")\n', log), 16))
show("recording text ok log", lambda: list(log))

# through the HexDump adapter
d = HexDump(Bytes(20))
obj = d.parse(bytes(range(20)))
show("HexDump parse str", lambda: str(obj))
show("HexDump build", lambda: d.build(bytes(range(20))))
show("HexDump sizeof", lambda: d.sizeof())
st = Struct("a" / HexDump(Bytes(5)), "b" / HexDump(GreedyBytes))
stream = io.BytesIO(b"hello world")
show("struct parse_stream", lambda: str(st.parse_stream(stream)))
show("stream position", lambda: stream.tell())
show("undump of str(parsed)", lambda: hexundump(str(obj), 16))
show("result type", lambda: type(hexundump(d16, 16)).__name__)
show("eval of the dump text", lambda: eval(d16, {"hexundump": lambda t: hexundump(t, 16)}))
