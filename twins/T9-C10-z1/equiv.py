#!/usr/bin/env python
"""C10 equivalence probe (z1). Prints a deterministic log of observations about bit regions:
built bytes, parse results, sizeof, stream positions, exception type names and messages,
callback order. Run on the clean and on the changed tree; the two outputs must be identical.

usage: equiv.py <repo root>
"""
import sys, io, random
sys.path.insert(0, sys.argv[1])
from construct import *
from construct.lib import *
import construct.core as core

LINES = [0]

def out(*parts):
    LINES[0] += 1
    print(" | ".join(str(p) for p in parts))

def show(x):
    if isinstance(x, Container):
        return "{" + ", ".join("%s=%s" % (k, show(v)) for k, v in x.items() if not str(k).startswith("_")) + "}"
    if isinstance(x, (list, tuple)):
        return type(x).__name__ + "[" + ", ".join(show(v) for v in x) + "]"
    return repr(x)

def attempt(fn, *a, **k):
    try:
        return show(fn(*a, **k))
    except Exception as e:
        return "EXC %s: %s" % (type(e).__name__, str(e).replace("\n", " / ")[:160])

def streamed(sub):
    return Restreamed(sub, bytes2bits, 1, bits2bytes, 8, lambda n: n // 8)

def both(label, make, obj, data, **kw):
    """make() returns a fresh bit-level subcon; observe it on the pre-read and streaming paths"""
    for kind, d in (("bitwise", Bitwise(make())), ("restreamed", streamed(make()))):
        out(label, kind, type(d).__name__, "build", attempt(d.build, obj, **kw))
        out(label, kind, "parse", attempt(d.parse, data, **kw))
        out(label, kind, "sizeof", attempt(d.sizeof, **kw))
        s = io.BytesIO(data + b"\xAA\xBB")
        out(label, kind, "parse_stream", attempt(d.parse_stream, s, **kw), "pos", s.tell())
        s = io.BytesIO()
        s.write(b"\x11")
        out(label, kind, "build_stream", attempt(d.build_stream, obj, s, **kw), "pos", s.tell(), "value", s.getvalue())

rnd = random.Random(1010)

# ---- arrays of bit fields ----------------------------------------------------
both("arr 8xBit", lambda: Array(8, Bit), [1, 0, 1, 1, 0, 0, 1, 0], b"\xb2")
both("arr 2xNibble", lambda: Array(2, Nibble), [10, 5], b"\xa5")
both("arr 4x6", lambda: Array(4, BitsInteger(6)), [1, 33, 63, 0], b"\x06\x1f\xc0")
both("arr 3x5+1", lambda: Struct("a" / Array(3, BitsInteger(5, signed=True)), "f" / Flag), dict(a=[-16, 15, -1], f=True), b"\x83\xff")
both("arr discard", lambda: Array(4, BitsInteger(4), discard=True), [1, 2, 3, 4], b"\x12\x34")
both("arr discard in struct", lambda: Struct("a" / Array(2, Nibble, discard=True), "b" / Octet), dict(a=[9, 8], b=7), b"\x98\x07")
both("arr wrong count", lambda: Array(4, Nibble), [1, 2, 3], b"\x12")
both("arr too many", lambda: Array(2, Nibble), [1, 2, 3], b"\x12\x34")
both("arr zero", lambda: Struct("a" / Array(0, Nibble), "b" / Octet), dict(a=[], b=200), b"\xc8")
both("arr negative", lambda: Array(-1, Nibble), [], b"")
both("arr ctx count", lambda: Struct("n" / Nibble, "a" / Array(this.n, Bit), "p" / Padding(4 - this.n)), dict(n=3, a=[1, 0, 1]), b"\x3a")
both("arr ctx count missing", lambda: Array(this.n, Bit), [1] * 8, b"\xff")
both("arr ctx count kw", lambda: Array(this.n, Bit), [1, 0, 0, 0, 0, 0, 0, 1], b"\x81", n=8)
both("arr of struct", lambda: Array(2, Struct("x" / BitsInteger(3), "y" / Flag)), [dict(x=5, y=True), dict(x=2, y=False)], b"\xb4")
both("arr nested", lambda: Array(2, Array(2, BitsInteger(2))), [[1, 2], [3, 0]], b"\x6c")
both("arr bytewise island", lambda: Struct("h" / Nibble, "b" / Bytewise(Array(2, Byte)), "t" / Nibble), dict(h=15, b=[1, 2], t=3), b"\xf0\x10\x23")
both("arr index", lambda: Array(4, Struct("i" / Computed(this._._index), "v" / BitsInteger(2))), [dict(v=i) for i in (3, 2, 1, 0)], b"\xe4")
both("arr elem error", lambda: Array(2, Nibble), [1, 99], b"\x12")
both("arr elem type", lambda: Array(2, Nibble), [1, "x"], b"\x12")
both("arr short data", lambda: Array(4, Nibble), [1, 2, 3, 4], b"\x12")
both("arr build non-sequence", lambda: Array(2, Nibble), 5, b"\x12")

# ---- callback order inside arrays ------------------------------------------
trace = []
def width(ctx):
    trace.append(("w", ctx._index))
    return 4
def swp(ctx):
    trace.append(("s", ctx._index))
    return False
for discard in (False, True):
    for kind in ("bitwise", "restreamed"):
        sub = Array(3, BitsInteger(width, swapped=swp), discard=discard)
        d = Bitwise(Sequence(sub, Nibble)) if kind == "bitwise" else streamed(Sequence(sub, Nibble))
        del trace[:]
        out("order", kind, discard, "parse", attempt(d.parse, b"\x12\x34"), trace)
        del trace[:]
        out("order", kind, discard, "build", attempt(d.build, [[1, 2, 3], 4]), trace)
        del trace[:]
        out("order", kind, discard, "build bad", attempt(d.build, [[1, 77, 3], 4]), trace)

# ---- flags -------------------------------------------------------------------
for v in (True, False, 1, 0, 2, -1, None, "", "x", [], [0], 0.0, 0.5):
    both("flag %r" % (v,), lambda: Struct("f" / Flag, "r" / BitsInteger(7)), dict(f=v, r=85), b"\xd5")
out("flag plain", attempt(Flag.build, True), attempt(Flag.build, 0), attempt(Flag.build, "yes"), attempt(Flag.parse, b"\x02"), attempt(Flag.parse, b""))
both("flags x8", lambda: Array(8, Flag), [True, False] * 4, b"\xaa")

# ---- random layouts ----------------------------------------------------------
for n in range(12):
    widths = []
    total = rnd.choice((8, 16, 24, 32))
    left = total
    while left:
        w = min(left, rnd.randint(1, 9))
        widths.append(w)
        left -= w
    vals = [rnd.randrange(1 << w) for w in widths]
    acc = 0
    for w, v in zip(widths, vals):
        acc = (acc << w) | v
    data = acc.to_bytes(total // 8, "big")
    def make(widths=widths):
        return Struct(*[("f%d" % i) / (Flag if w == 1 and i % 2 else BitsInteger(w)) for i, w in enumerate(widths)])
    both("rand%d %r" % (n, widths), make, {"f%d" % i: v for i, v in enumerate(vals)}, data)

# ---- stream helpers ----------------------------------------------------------
class Odd(object):
    def __init__(self, mode):
        self.mode = mode
    def read(self, n=None):
        if self.mode == "raise":
            raise IOError("boom")
        if self.mode == "short":
            return b"\x00" * max(0, (n or 0) - 1)
        if self.mode == "none":
            return None
        return b"\x01" * n
    def write(self, data):
        if self.mode == "raise":
            raise IOError("boom")
        if self.mode == "short":
            return len(data) - 1
        if self.mode == "none":
            return None
        return len(data)
    def tell(self):
        return 0

for mode in ("ok", "raise", "short", "none"):
    out("stream_read", mode, attempt(core.stream_read, Odd(mode), 3, "p"))
    out("stream_read0", mode, attempt(core.stream_read, Odd(mode), 0, "p"))
    out("stream_write", mode, attempt(core.stream_write, Odd(mode), b"abc", 3, "p"))
    out("stream_write0", mode, attempt(core.stream_write, Odd(mode), b"", 0, "p"))
    for d in (Bitwise(Array(8, Bit)), streamed(Array(8, Bit)), BitsInteger(4), Flag):
        out("odd stream", mode, type(d).__name__, "parse", attempt(d.parse_stream, Odd(mode)))
        out("odd stream", mode, type(d).__name__, "build", attempt(d.build_stream, [1] * 8 if isinstance(d, core.Subconstruct) else 1, Odd(mode)))
out("stream_read neg", attempt(core.stream_read, io.BytesIO(b"abc"), -1, "p"))
out("stream_write neg", attempt(core.stream_write, io.BytesIO(), b"", -1, "p"))
out("stream_write str", attempt(core.stream_write, io.BytesIO(), u"ab", 2, "p"))
out("stream_write len", attempt(core.stream_write, io.BytesIO(), b"ab", 3, "p"))
out("stream_write ret", repr(core.stream_write(io.BytesIO(), b"ab", 2, "p")))
out("stream_read ret", repr(core.stream_read(io.BytesIO(b"abc"), 2, "p")))

# ---- RestreamedBytesIO.seek / tell ---------------------------------------
r = RestreamedBytesIO(io.BytesIO(b"\xf0\x0f"), bytes2bits, 1, bits2bytes, 8)
out("rs seek 0", attempt(r.seek, 0), attempt(r.seek, 0, 0), attempt(r.seek, 0, 1), attempt(r.seek, 1), attempt(r.seek, 0, 2))
out("rs read", r.read(5), r.tell(), attempt(r.seek, 5), attempt(r.seek, 5, 0), attempt(r.seek, 4), attempt(r.seek, 5, 1), attempt(r.seek, "5"), attempt(r.seek, 5.0))
out("rs close", attempt(r.close), r.read(3), attempt(r.close), r.tell())
w = RestreamedBytesIO(io.BytesIO(), bytes2bits, 1, bits2bytes, 8)
out("ws", w.write(b"\x01" * 5), w.tell(), attempt(w.seek, 5), attempt(w.seek, 0), attempt(w.close), w.write(b"\x00" * 3), attempt(w.close), w.substream.getvalue())

# ---- constructs that seek inside a streamed bit region ---------------------
both("greedyrange nibbles", lambda: GreedyRange(Nibble), [1, 2, 3, 4], b"\x12\x34")
both("greedyrange 3bit", lambda: Sequence(GreedyRange(BitsInteger(3)), Bit, Bit), [[1, 2], 1, 0], b"\x2a")
both("padded in region", lambda: Struct("a" / Padded(6, BitsInteger(3)), "b" / BitsInteger(2)), dict(a=5, b=2), b"\xa2")
both("peek", lambda: Struct("p" / Peek(Nibble), "a" / Octet), dict(a=0x9c), b"\x9c")
both("bytewise greedy", lambda: Struct("h" / Octet, "rest" / Bytewise(GreedyBytes)), dict(h=1, rest=b"xyz"), b"\x01xyz")
both("array of bytewise", lambda: Array(2, Bytewise(Int16ul)), [0x1234, 0xabcd], b"\x34\x12\xcd\xab")

out("lines", LINES[0] + 1)
