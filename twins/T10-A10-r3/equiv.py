import sys, io, re
sys.path.insert(0, sys.argv[1])

from construct import *
from construct.core import CodeGen


def norm(text):
    # object ids appear in linked* references; make them deterministic
    text = re.sub(r"0x[0-9a-fA-F]{6,}", "<addr>", text)
    return re.sub(r"\b\d{9,}\b", "<id>", text)


def attempt(label, func):
    try:
        print(label, "->", norm(repr(func())))
    except Exception as e:
        print(label, "raised", type(e).__name__, norm(str(e))[:120])


def emitted(d):
    code = CodeGen()
    expr = d._emitbuild(code)
    return expr, code.blocks, code.nextid, sorted(code.buildercache.values()), len(code.linkedinstances)


def showsource(label, d):
    try:
        expr, blocks, nextid, cache, nlinked = emitted(d)
    except Exception as e:
        print(label, "emitbuild raised", type(e).__name__, norm(str(e))[:120])
        return
    print(label, "expr", norm(expr), "nextid", nextid, "linked", nlinked)
    for b in blocks:
        for line in b.splitlines():
            print(label, "|", norm(line))
    for c in cache:
        print(label, "cache", norm(c))


def buildpos(d, obj, **kw):
    stream = io.BytesIO()
    ret = d.build_stream(obj, stream, **kw)
    return ret, stream.getvalue(), stream.tell()


cases = [
    ("first", FocusedSeq("a", "a" / Byte, "b" / Const(b"\x07"), Padding(2)), 5),
    ("last", FocusedSeq("c", Const(b"AB"), "b" / Computed(7), "c" / Int16ub), 513),
    ("middle", FocusedSeq("m", "x" / Const(b"\x01"), "m" / Int32ul, "y" / Const(b"\x02")), 70000),
    ("only", FocusedSeq("z", "z" / Bytes(3)), b"abc"),
    ("unnamed others", FocusedSeq("v", Const(b"\xff"), "v" / Byte, Terminated), 9),
    ("duplicate name", FocusedSeq("d", "d" / Byte, "d" / Byte), 4),
    ("missing name", FocusedSeq("nope", "a" / Byte, "b" / Byte), 1),
    ("index int", FocusedSeq(1, "a" / Const(b"\x00"), "b" / Byte), 3),
    ("nested", FocusedSeq("in", "n" / Const(b"N"), "in" / FocusedSeq("q", "p" / Const(b"P"), "q" / Int16ub)), 300),
    ("uses context", FocusedSeq("data", "data" / Byte, "copy" / Computed(this.data)), 8),
    ("rebuild", FocusedSeq("items", "count" / Rebuild(Byte, len_(this.items)), "items" / Array(this.count, Byte)), [1, 2, 3]),
    ("struct inside", FocusedSeq("s", "s" / Struct("k" / Byte, "l" / Byte), Const(b"!")), dict(k=1, l=2)),
    ("quote in name", FocusedSeq("it's", "it's" / Byte, 'say"x' / Const(b"\x00")), 2),
    ("callable focus", FocusedSeq(lambda ctx: "a", "a" / Byte, "b" / Const(b"\x01")), 6),
    ("no subcons named", FocusedSeq("a", Byte, Byte), 1),
]

for label, d, obj in cases:
    showsource(label, d)
    attempt(label + " interp build", lambda: buildpos(d, obj))

    def compiledbuild():
        c = d.compile()
        return buildpos(c, obj)
    attempt(label + " compiled build", compiledbuild)

    def compiledmeta():
        c = d.compile()
        stable = "linked" not in c.source.split("abs_ = abs")[1] and "0x" not in c.source
        return (c.modulename if stable else "<unstable>"), (len(c.source) if stable else None), c.source.count("\n")
    attempt(label + " compiled module", compiledmeta)

    def roundtrip():
        c = d.compile()
        data = d.build(obj)
        return c.parse(data), d.parse(data), c.sizeof() if label not in ("rebuild",) else None
    attempt(label + " roundtrip", roundtrip)

# inside bigger constructs: whole generated module text
big = Struct(
    "hdr" / FocusedSeq("len", Const(b"\x7f"), "len" / Byte),
    "body" / FocusedSeq("b", "b" / Bytes(this._.hdr), Const(b"\x00")),
    "arr" / Array(2, FocusedSeq("e", "e" / Int16ul, Padding(1))),
)
c = big.compile()
for line in c.source.splitlines():
    print("big |", norm(line))
print("big modulename", c.modulename if "0x" not in c.source and "linked" not in c.source.split("abs_ = abs")[1] else "<unstable>")
obj = dict(hdr=2, body=b"xy", arr=[1, 2])
attempt("big build", lambda: buildpos(big, obj))
attempt("big compiled build", lambda: buildpos(c, obj))
attempt("big compiled parse", lambda: c.parse(big.build(obj)))
attempt("big bad build", lambda: buildpos(c, dict(hdr=2, body=b"xyz", arr=[1, 2])))
attempt("big missing key", lambda: buildpos(c, dict(hdr=2, body=b"xy")))
