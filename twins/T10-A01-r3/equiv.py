import sys, io
sys.path.insert(0, sys.argv[1])
from construct import *

SEEN = []

def dump(context):
    items = []
    for k in context.keys():          # Container keeps insertion order: observable
        v = context[k]
        if v is context:
            v = "<self>"
        elif isinstance(v, io.IOBase):
            v = "<stream %s at %d>" % (type(v).__name__, v.tell())   # repr has an address
        items.append((k, v))
    return items

def show(label, fn):
    del SEEN[:]
    try:
        r = fn()
        print(label, "->", repr(r))
    except Exception as e:
        print(label, "raised", type(e).__name__, str(e).replace("\n", " / "))
    for s in SEEN:
        print("    ctx", s)

class Spy(Construct):
    def _parse(self, stream, context, path):
        SEEN.append(("parse", path, type(context).__name__, dump(context), context._params is context))
        return stream.read(1)
    def _build(self, obj, stream, context, path):
        SEEN.append(("build", path, type(context).__name__, dump(context), context._params is context))
        stream.write(obj)
        return "ignored"
    def _sizeof(self, context, path):
        SEEN.append(("sizeof", path, type(context).__name__, dump(context), context._params is context))
        return 1

class Cancel(Construct):
    def _parse(self, stream, context, path):
        raise CancelParsing
    def _build(self, obj, stream, context, path):
        raise CancelParsing
    def _sizeof(self, context, path):
        raise CancelParsing

spy = Spy()
kws = [
    {},
    {"a": 1},
    {"a": 1, "b": b"x", "c": None},
    {"_parsing": "user", "_building": "user", "_sizing": "user"},
    {"_params": "user-params", "z": 0},
    {"parsing": 1, "building": 2, "sizing": 3, "contextkw": 4, "context": 5},
    {"self": 1} if False else {"stream": 1, "obj": 2, "data": 3},
    {"_": 7, "_root": 8, "_index": 9, "_io": 10},
]
for kw in kws:
    show("parse %r" % (kw,), lambda: spy.parse(b"Q", **kw))
    show("parse_stream %r" % (kw,), lambda: spy.parse_stream(io.BytesIO(b"RS"), **kw))
    show("build %r" % (kw,), lambda: spy.build(b"W", **kw))
    s = io.BytesIO(b"....")
    s.seek(1)
    show("build_stream %r" % (kw,), lambda: spy.build_stream(b"V", s, **kw))
    print("    stream", s.getvalue(), s.tell())
    show("sizeof %r" % (kw,), lambda: spy.sizeof(**kw))

# hooks, Cancel, and context use by ordinary constructs
hooked = Spy() * (lambda obj, ctx: SEEN.append(("hook", obj, dump(ctx))))
show("hooked parse", lambda: hooked.parse(b"H", k=1))
show("cancel parse", lambda: Cancel().parse(b"x", k=1))
show("cancel build", lambda: Cancel().build(b"x", k=1))
show("cancel sizeof", lambda: Cancel().sizeof(k=1))
show("struct parse", lambda: Struct("n" / Byte, "d" / Bytes(this._params.extra), "s" / Spy()).parse(b"\x01abcZ", extra=3))
show("struct build", lambda: Struct("n" / Byte, "d" / Bytes(this._.extra)).build(dict(n=1, d=b"ab"), extra=2))
show("struct sizeof", lambda: Struct("n" / Byte, "d" / Bytes(this._.extra)).sizeof(extra=5))
show("struct sizeof missing", lambda: Struct("n" / Byte, "d" / Bytes(this._.extra)).sizeof())
show("flags parse", lambda: Computed(lambda c: (c._parsing, c._building, c._sizing)).parse(b""))
show("flags build", lambda: Struct("f" / Computed(lambda c: (c._parsing, c._building, c._sizing)), "b" / Bytes(lambda c: 1 if c._building else 2)).build(dict(b=b"x")))
show("flags sizeof", lambda: Bytes(lambda c: 10 * c._sizing + c._parsing + c._building).sizeof())
show("array sizeof", lambda: Array(this.n, Int16ub).sizeof(n=4))
show("bad kw type", lambda: spy.parse(b"Q", **{"a b": 1}))
try:
    spy.parse(b"Q", **{1: 2})
except TypeError as e:
    print("non-string key raised TypeError")
# compiled entry points share the same glue
comp = Struct("n" / Byte, "d" / Bytes(this._params.extra)).compile()
show("compiled parse", lambda: comp.parse(b"\x01abc", extra=3))
show("compiled build", lambda: comp.build(dict(n=1, d=b"ab"), extra=2))
show("compiled sizeof", lambda: comp.sizeof(extra=4))
