#!/usr/bin/env python
"""
Observation script for the z1 twin (GreedyRange._parse, Select._parse, Select._build).
Prints one deterministic line per observation; output must be byte-identical
on the reference tree and on the refactored tree.

usage: equiv.py <repo root>
"""
import io
import sys
import os
import tempfile
import threading

root = sys.argv[1] if len(sys.argv) > 1 else "."
sys.path.insert(0, root)

from construct import *

counter = [0]


def show(label, value):
    counter[0] += 1
    print("%03d %s :: %s" % (counter[0], label, value))


def outcome(func, *args, **kw):
    try:
        return "ok %r" % (func(*args, **kw),)
    except Exception as e:
        ctx = e.__context__
        return "raised %s / context %s" % (type(e).__name__, type(ctx).__name__ if ctx is not None else None)


def parse_at(con, data, offset, **kw):
    """parse_stream at a starting offset, reporting result and final position"""
    stream = io.BytesIO(bytes(offset) + data)
    stream.seek(offset)
    try:
        res = "ok %r" % (con.parse_stream(stream, **kw),)
    except Exception as e:
        res = "raised %s" % (type(e).__name__,)
    return "%s pos=%d" % (res, stream.tell() - offset)


def build_at(con, obj, offset, **kw):
    stream = io.BytesIO()
    stream.write(b"\xee" * offset)
    try:
        res = "ok %r" % (con.build_stream(obj, stream, **kw),)
    except Exception as e:
        res = "raised %s" % (type(e).__name__,)
    return "%s written=%r" % (res, stream.getvalue()[offset:])


class NoTell(io.RawIOBase):
    """readable stream that can neither tell nor seek"""
    def __init__(self, data):
        self.inner = io.BytesIO(data)
    def read(self, n=-1):
        return self.inner.read(n)
    def readable(self):
        return True
    def tell(self):
        raise OSError("no tell")
    def seek(self, *a):
        raise OSError("no seek")


class SeekFails(io.BytesIO):
    """tell works, seeking backwards fails"""
    def seek(self, offset, whence=0):
        if whence == 0 and offset < self.tell():
            raise OSError("cannot rewind")
        return super().seek(offset, whence)


calls = []
def trace(tag):
    def hook(ctx):
        calls.append((tag, ctx.get("_index")))
        return True
    return hook


# ---------------------------------------------------------------- GreedyRange
pool = {
    "gr_byte": GreedyRange(Byte),
    "gr_short": GreedyRange(Int16ub),
    "gr_discard": GreedyRange(Int16ub, discard=True),
    "gr_const": GreedyRange(Const(b"ab")),
    "gr_stop": GreedyRange(Struct("v" / Byte, StopIf(this.v == 0))),
    "gr_stop_bare": GreedyRange(StopIf(True)),
    "gr_stop_focused": GreedyRange(FocusedSeq("v", "v" / Byte, StopIf(this.v == 0))),
    "gr_stop_late": GreedyRange(FocusedSeq("v", "v" / Byte, StopIf(this._index == 2))),
    "gr_error": GreedyRange(Struct("v" / Byte, If(this.v == 9, Error))),
    "gr_index": GreedyRange(Struct("i" / Index, "v" / Byte, Check(this.v != 255))),
    "gr_varint": GreedyRange(VarInt),
    "gr_prefixed": GreedyRange(Prefixed(Byte, GreedyBytes)),
    "gr_nested": GreedyRange(Struct("n" / Byte, "items" / GreedyRange(Const(b"x")))),
    "gr_keyerr": GreedyRange(Struct("v" / Byte, "w" / Computed(this.missing))),
    "gr_tell": GreedyRange(Struct("at" / Tell, "v" / Int16ub)),
    "gr_select": GreedyRange(Select(Const(b"\x01\x02"), Const(b"\x01"))),
    "gr_hook": GreedyRange(Struct(Check(trace("gr")), "v" / Byte)),
}
datas = [b"", b"\x01", b"\x01\x02", b"\x01\x02\x03", b"ababa", b"\x05\x00\x07", b"\x01\x09\x02", b"\x03\xff\x04",
         b"\x80\x80", b"\x02xy\x05z", b"\x01xx\x02x", b"\x01\x02\x01\x01\x03"]

for name in sorted(pool):
    con = pool[name]
    for data in datas:
        show("%s.parse(%r)" % (name, data), outcome(con.parse, data))
for name in sorted(pool):
    con = pool[name]
    for offset in (0, 3):
        show("%s.parse_stream(+%d) %r" % (name, offset, datas[3]), parse_at(con, datas[3], offset))
        show("%s.parse_stream(+%d) %r" % (name, offset, datas[6]), parse_at(con, datas[6], offset))
show("hook calls", calls)

show("gr_short on NoTell", outcome(pool["gr_short"].parse_stream, NoTell(b"\x00\x01\x02")))
show("gr_short on SeekFails", outcome(pool["gr_short"].parse_stream, SeekFails(b"\x00\x01\x02")))
show("gr_byte on SeekFails", outcome(pool["gr_byte"].parse_stream, SeekFails(b"\x00\x01\x02")))
show("gr_short bytearray", outcome(pool["gr_short"].parse, bytearray(b"\x00\x01\x02\x03\x04")))
show("gr_short memoryview", outcome(pool["gr_short"].parse, memoryview(b"\x00\x01\x02\x03\x04")))
show("gr_short sizeof", outcome(pool["gr_short"].sizeof))
show("gr_short build", outcome(pool["gr_short"].build, [1, 2, 3]))
show("gr_stop build", outcome(pool["gr_stop"].build, [dict(v=1), dict(v=0), dict(v=2)]))
show("gr_discard build", outcome(pool["gr_discard"].build, [1, 2]))

# context left behind (_index) after the loop ended in each of the three ways
probe = Struct("items" / GreedyRange(Struct("v" / Byte, StopIf(this.v == 0))), "idx" / Computed(lambda ctx: ctx.get("_index")), "rest" / GreedyBytes)
for data in (b"", b"\x01\x02", b"\x01\x00\x02", b"\x00"):
    show("index after GreedyRange %r" % (data,), outcome(probe.parse, data))
probe2 = Struct("items" / GreedyRange(Const(b"a")), "idx" / Computed(lambda ctx: ctx.get("_index")), "pos" / Tell, "rest" / GreedyBytes)
for data in (b"", b"aab", b"aaa", b"baa"):
    show("index/pos after GreedyRange %r" % (data,), outcome(probe2.parse, data))

# ---------------------------------------------------------------- Select
sel = {
    "sel_ints": Select(Int32ub, Int16ub, Int8ub),
    "sel_const": Select(Const(b"ab"), Const(b"a"), Const(b"")),
    "sel_named": Select("w" / Int16ub, "b" / Byte),
    "sel_error": Select(Const(b"zz"), Error, Byte),
    "sel_error_last": Select(Const(b"zz"), Byte, Error),
    "sel_empty": Select(),
    "sel_optional": Optional(Int16ub),
    "sel_struct": Select(Struct("a" / Const(b"\x01"), "b" / Byte), Struct("c" / Byte)),
    "sel_keyerr": Select(Computed(this.missing), Byte),
    "sel_hook": Select(Struct(Check(trace("s1")), Const(b"q")), Struct(Check(trace("s2")), "v" / Byte)),
    "sel_parsed": Select(Const(b"\x01") * (lambda obj, ctx: calls.append(("parsed1", obj))), Byte * (lambda obj, ctx: calls.append(("parsed2", obj)))),
    "sel_nested": Select(Select(Const(b"\x07"), Const(b"\x08")), Select(Int16ub, Byte)),
    "sel_flag": Select(Flag, Pass),
}
sdatas = [b"", b"a", b"ab", b"abc", b"\x01", b"\x01\x02", b"\x01\x02\x03\x04\x05", b"zz", b"\x07", b"\x09\x09", b"q"]
del calls[:]
for name in sorted(sel):
    con = sel[name]
    for data in sdatas:
        show("%s.parse(%r)" % (name, data), outcome(con.parse, data))
    for offset in (0, 5):
        show("%s.parse_stream(+%d) %r" % (name, offset, sdatas[6]), parse_at(con, sdatas[6], offset))
    show("%s.sizeof()" % name, outcome(con.sizeof))
    show("%s.flagbuildnone" % name, con.flagbuildnone)
show("hook calls", calls)

objs = [None, 0, 1, 255, 256, 70000, -1, b"a", b"ab", b"", "text", True, dict(a=None, b=2), dict(c=3), [1], 1.5]
del calls[:]
for name in sorted(sel):
    con = sel[name]
    for obj in objs:
        show("%s.build(%r)" % (name, obj), outcome(con.build, obj))
    show("%s.build_stream(+4, 1)" % name, build_at(con, 1, 4))
show("hook calls", calls)

show("sel_ints on NoTell", outcome(sel["sel_ints"].parse_stream, NoTell(b"\x00\x01\x02")))
show("sel_ints on SeekFails", outcome(sel["sel_ints"].parse_stream, SeekFails(b"\x00\x01\x02")))
show("sel_empty on NoTell", outcome(sel["sel_empty"].parse_stream, NoTell(b"\x00")))

# context keywords reach the alternatives, also when building (Select builds through sc.build(obj, **context))
ctxsel = Select(Struct(Check(this._params.strict), "v" / Int16ub), Struct("v" / Byte))
for strict in (True, False):
    show("ctxsel.parse strict=%s" % strict, outcome(ctxsel.parse, b"\x00\x05", strict=strict))
    show("ctxsel.build strict=%s" % strict, outcome(ctxsel.build, dict(v=5), strict=strict))
show("ctxsel.parse no kw", outcome(ctxsel.parse, b"\x00\x05"))
show("ctxsel.build no kw", outcome(ctxsel.build, dict(v=5)))

# embedded in larger formats, interleaved repeated calls, files, compiled, threads
fmt = Struct(
    "kind" / Select(Const(b"AB"), Const(b"A")),
    "count" / Optional(Const(b"#")),
    "items" / GreedyRange(Struct("tag" / Select(Const(b"x"), Const(b"y")), "val" / Byte)),
    "pos" / Tell,
    "rest" / GreedyBytes,
)
inputs = [b"ABx\x01y\x02z", b"A#x\x01", b"A", b"B", b"ABy", b"AB#y\x05x"]
for rnd in range(2):
    for data in inputs:
        show("fmt.parse round %d %r" % (rnd, data), outcome(fmt.parse, data))
        show("fmt.parse_stream(+2) round %d %r" % (rnd, data), parse_at(fmt, data, 2))
show("fmt.build", outcome(fmt.build, dict(kind=b"A", count=None, items=[dict(tag=b"y", val=3)], rest=b"!")))
show("fmt.sizeof", outcome(fmt.sizeof))

tmp = tempfile.mkdtemp()
fn = os.path.join(tmp, "blob.bin")
with open(fn, "wb") as f:
    f.write(inputs[0])
show("fmt.parse_file", outcome(fmt.parse_file, fn))
sel["sel_ints"].build_file(300, fn)
with open(fn, "rb") as f:
    show("sel_ints.build_file", f.read())
show("sel_ints.parse_file", outcome(sel["sel_ints"].parse_file, fn))
os.remove(fn)
os.rmdir(tmp)

compiled = fmt.compile()
for data in inputs:
    show("compiled fmt.parse %r" % (data,), outcome(compiled.parse, data))
show("compiled fmt.build", outcome(compiled.build, dict(kind=b"A", count=None, items=[dict(tag=b"y", val=3)], rest=b"!")))
show("compiled source equal on recompile", fmt.compile().source == compiled.source)

results = {}
def worker(k):
    out = []
    for rnd in range(50):
        for data in inputs:
            out.append(outcome(fmt.parse, data))
        out.append(outcome(sel["sel_ints"].build, 300 + k))
    results[k] = out
threads = [threading.Thread(target=worker, args=(k,)) for k in range(4)]
for t in threads:
    t.start()
for t in threads:
    t.join()
for k in sorted(results):
    show("thread %d distinct parse outcomes" % k, sorted(set(results[k]))[:3])
    show("thread %d outcome count" % k, len(results[k]))
show("threads agree on parses", len(set(tuple(x for x in results[k] if not x.startswith("ok b'")) for k in results)) == 1)
