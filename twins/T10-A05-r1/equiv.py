import sys, io
sys.path.insert(0, sys.argv[1])
from construct import *
from construct.lib import *

N = [0]
def out(label, fn):
    N[0] += 1
    try:
        r = fn()
        print("%03d %s -> %r" % (N[0], label, r))
    except Exception as e:
        ctx = e.__context__
        print("%03d %s !! %s: %s | context=%s | path=%r" % (N[0], label, type(e).__name__, e, type(ctx).__name__, getattr(e, "path", None)))

def parse_pos(d, data, **kw):
    s = io.BytesIO(data)
    r = d.parse_stream(s, **kw)
    return r, s.tell()

def build_pos(d, obj, prefix=b"", **kw):
    s = io.BytesIO()
    s.write(prefix)
    r = d._build(obj, s, Container(**kw), "(equiv)")
    return r, s.getvalue(), s.tell()

bitw = Restreamed(Bytes(8), bytes2bits, 1, bits2bytes, 8, lambda n: n//8)
bytew = Restreamed(Bytes(1), bits2bytes, 8, bytes2bits, 1, lambda n: n*8)
nosize = Restreamed(GreedyBytes, bytes2bits, 1, bits2bytes, 8, None)
odd = Restreamed(Bytes(5), bytes2bits, 1, bits2bytes, 8, lambda n: n//8)
swap = Restreamed(GreedyBytes, swapbitsinbytes, 1, swapbitsinbytes, 1, lambda n: n)
ident3 = Restreamed(Bytes(2), lambda b: b, 3, lambda b: b, 3, lambda n: n)

# parsing
out("bitw parse 1", lambda: parse_pos(bitw, b"\xa5"))
out("bitw parse 2 extra", lambda: parse_pos(bitw, b"\xa5\xff\x01"))
out("bitw parse empty", lambda: parse_pos(bitw, b""))
out("bytew parse", lambda: parse_pos(bytew, b"\x01\x00\x01\x00\x00\x01\x00\x01"))
out("bytew parse short", lambda: parse_pos(bytew, b"\x01\x00\x01"))
out("nosize parse", lambda: parse_pos(nosize, b"\x81\x7e"))
out("nosize parse empty", lambda: parse_pos(nosize, b""))
out("odd parse (unread bits remain)", lambda: parse_pos(odd, b"\xff"))
out("odd parse 2", lambda: parse_pos(odd, b"\x0f\xf0"))
out("swap parse", lambda: parse_pos(swap, b"\x01\x02\x80"))
out("ident3 parse (1 unread)", lambda: parse_pos(ident3, b"abcdef"))
out("ident3 parse short", lambda: parse_pos(ident3, b"ab"))

# building
out("bitw build", lambda: build_pos(bitw, b"\x01\x00\x01\x00\x00\x01\x00\x01"))
out("bitw build prefix", lambda: build_pos(bitw, b"\x01" * 8, prefix=b"zz"))
out("bitw build wrong len", lambda: build_pos(bitw, b"\x01" * 7))
out("bytew build", lambda: build_pos(bytew, b"\xc3"))
out("nosize build 16", lambda: build_pos(nosize, b"\x00\x01" * 8))
out("nosize build 12 (unwritten remain)", lambda: build_pos(nosize, b"\x00\x01" * 6))
out("nosize build 3 (unwritten remain)", lambda: build_pos(nosize, b"\x01\x01\x01"))
out("nosize build empty", lambda: build_pos(nosize, b""))
out("odd build (unwritten remain)", lambda: build_pos(odd, b"\x01\x00\x01\x00\x01"))
out("swap build", lambda: build_pos(swap, b"\x01\x02\x80"))
out("ident3 build (2 unwritten)", lambda: build_pos(ident3, b"ab"))
out("bitw build str", lambda: build_pos(bitw, u"abcdefgh"))

# public API
out("bitw.parse", lambda: bitw.parse(b"\x0f"))
out("bitw.build", lambda: bitw.build(b"\x00\x00\x00\x00\x01\x01\x01\x01"))
out("odd.parse api", lambda: odd.parse(b"\xff"))
out("odd.build api", lambda: odd.build(b"\x01\x00\x01\x00\x01"))
out("nosize.build api bad", lambda: nosize.build(b"\x01"))

# sizeof
out("bitw sizeof", lambda: bitw.sizeof())
out("bytew sizeof", lambda: bytew.sizeof())
out("nosize sizeof", lambda: nosize.sizeof())
out("odd sizeof", lambda: odd.sizeof())
out("swap sizeof", lambda: swap.sizeof())

# users of Restreamed: Bitwise/Bytewise/BitsSwapped with variable subcons
bw = Bitwise(GreedyRange(Nibble))
out("Bitwise(GreedyRange) is Restreamed", lambda: type(bw).__name__)
out("Bitwise(GreedyRange) parse", lambda: parse_pos(bw, b"\x12\x34"))
out("Bitwise(GreedyRange) build", lambda: build_pos(bw, [1, 2, 3, 4]))
out("Bitwise(GreedyRange) build odd", lambda: build_pos(bw, [1, 2, 3]))
out("Bitwise(GreedyRange) sizeof", lambda: bw.sizeof())
bw2 = Bitwise(GreedyRange(BitsInteger(3)))
out("Bitwise(GreedyRange 3bit) parse", lambda: parse_pos(bw2, b"\xff"))
out("Bitwise(GreedyRange 3bit) build 8", lambda: build_pos(bw2, [7] * 8))
out("Bitwise(GreedyRange 3bit) build 2", lambda: build_pos(bw2, [7, 1]))
bs = BitsSwapped(GreedyBytes)
out("BitsSwapped(GreedyBytes) type", lambda: type(bs).__name__)
out("BitsSwapped(GreedyBytes) parse", lambda: parse_pos(bs, b"\x01\x80\xf0"))
out("BitsSwapped(GreedyBytes) build", lambda: build_pos(bs, b"\x01\x80\xf0"))
out("BitsSwapped(GreedyBytes) sizeof", lambda: bs.sizeof())
nested = Bitwise(Struct("a" / Nibble, "b" / Bytewise(GreedyBytes)))
out("nested parse", lambda: parse_pos(nested, b"\xab"))
st = Struct("x" / Byte, "bits" / Restreamed(Struct("a" / BitsInteger(3), "b" / BitsInteger(5)), bytes2bits, 1, bits2bytes, 8, lambda n: n//8), "y" / Byte)
out("struct parse", lambda: parse_pos(st, b"\x01\xe1\x02\x03"))
out("struct build", lambda: st.build(dict(x=1, bits=dict(a=7, b=1), y=2)))
out("struct sizeof", lambda: st.sizeof())
st2 = Struct("x" / Byte, "bits" / Restreamed(Struct("a" / BitsInteger(3)), bytes2bits, 1, bits2bytes, 8, lambda n: n//8))
out("struct2 parse (path in error)", lambda: parse_pos(st2, b"\x01\xe1"))
out("struct2 build (path in error)", lambda: st2.build(dict(x=1, bits=dict(a=7))))

# a custom stream whose close raises a non-ValueError, via monkeypatched RestreamedBytesIO.close
import construct.core as core
class Boom(Exception):
    pass
orig_close = core.RestreamedBytesIO.close
calls = []
def close(self):
    calls.append((len(self.rbuffer), len(self.wbuffer)))
    raise Boom("boom %d" % len(calls))
core.RestreamedBytesIO.close = close
out("patched close parse", lambda: parse_pos(bitw, b"\xa5"))
out("patched close build", lambda: build_pos(bitw, b"\x01" * 8))
out("patched close calls", lambda: list(calls))
class Exit(BaseException):
    pass
def close2(self):
    raise Exit("not an Exception subclass")
core.RestreamedBytesIO.close = close2
def base_exc(fn):
    try:
        fn()
    except BaseException as e:
        return type(e).__name__, str(e)
out("BaseException close parse", lambda: base_exc(lambda: parse_pos(bitw, b"\xa5")))
out("BaseException close build", lambda: base_exc(lambda: build_pos(bitw, b"\x01" * 8)))
core.RestreamedBytesIO.close = orig_close
out("restored close parse", lambda: parse_pos(bitw, b"\xa5"))

# order of callbacks: decoder/encoder calls relative to close
log = []
def dec(b):
    log.append(("dec", b)); return bytes2bits(b)
def enc(b):
    log.append(("enc", b)); return bits2bytes(b)
lg = Restreamed(Bytes(12), dec, 1, enc, 8, lambda n: (log.append(("size", n)), n // 8)[1])
out("logged parse", lambda: parse_pos(lg, b"\xff\x0f\x00"))
out("logged build", lambda: build_pos(lg, b"\x01" * 12))
out("logged build ok", lambda: build_pos(Restreamed(Bytes(16), dec, 1, enc, 8, None), b"\x01" * 16))
out("logged sizeof", lambda: lg.sizeof())
out("log", lambda: list(log))

# compiled
out("compile bitw parse", lambda: bitw.compile().parse(b"\xa5"))
out("compile bitw build", lambda: bitw.compile().build(b"\x01" * 8))
out("compile odd parse", lambda: odd.compile().parse(b"\xff"))
out("compile st parse", lambda: st.compile().parse(b"\x01\xe1\x02\x03"))
out("compile st source has linked", lambda: "linkedinstances" in st.compile().source)
