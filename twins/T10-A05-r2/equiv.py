import sys, io
sys.path.insert(0, sys.argv[1])
from construct import *
from construct.lib import *

N = [0]
def out(label, fn):
    N[0] += 1
    try:
        r = fn()
        print("%03d %s -> %r" % (N[0], label, r))
    except Exception as e:
        msg = str(e).replace("\n", " / ")
        print("%03d %s !! %s: %s | path=%r" % (N[0], label, type(e).__name__, msg, getattr(e, "path", None)))

def parse_pos(d, data, skip=0, **kw):
    s = io.BytesIO(data)
    s.read(skip)
    r = d._parsereport(s, Container(**kw), "(equiv)")
    return r, s.tell()

def build_pos(d, obj, prefix=b"", **kw):
    s = io.BytesIO()
    s.write(prefix)
    r = d._build(obj, s, Container(**kw), "(equiv)")
    return r, s.getvalue(), s.tell()

class MyInt(int):
    pass
class MyBytes(bytes):
    pass
class EqLog(int):
    log = []
    def __eq__(self, other):
        EqLog.log.append(("eq", int(self), other))
        return int.__eq__(self, other)
    def __ne__(self, other):
        EqLog.log.append(("ne", int(self), other))
        return int.__ne__(self, other)
    __hash__ = int.__hash__

DATA = bytes(range(0, 40, 3))
pads = [
    ("int0", 0), ("int1", 1), ("int255", 0xff), ("int0xf0", 0xf0), ("True", True), ("False", False),
    ("MyInt0", MyInt(0)), ("MyInt7", MyInt(7)),
    ("b0", b"\x00"), ("b1", b"\x5a"), ("bempty", b""), ("b00", b"\x00\x00"), ("b0102", b"\x01\x02"),
    ("b64zero", bytes(64)), ("b65zero", bytes(65)), ("b3", b"\xff\x00\x0f"), ("blong", bytes(range(1, 30))),
    ("MyBytes1", MyBytes(b"\x11")), ("MyBytes2", MyBytes(b"\x11\x22")), ("MyBytes00", MyBytes(b"\x00\x00")),
]
for name, pad in pads:
    d = ProcessXor(pad, GreedyBytes)
    out("parse pad=%s" % name, lambda: parse_pos(d, DATA))
    out("parse skip2 pad=%s" % name, lambda: parse_pos(d, DATA, skip=2))
    out("build pad=%s" % name, lambda: build_pos(d, DATA))
    out("build prefix pad=%s" % name, lambda: build_pos(d, b"\x01\x02\x03", prefix=b"ab"))

bad = [("str", u"a"), ("None", None), ("float", 1.0), ("list", [1]), ("bytearray", bytearray(b"\x01")), ("tuple", (1, 2))]
for name, pad in bad:
    d = ProcessXor(pad, GreedyBytes)
    out("parse badpad=%s" % name, lambda: parse_pos(d, DATA))
    out("build badpad=%s" % name, lambda: build_pos(d, DATA))

# out-of-range int pads
for name, pad in [("int256", 256), ("int-1", -1), ("int1<<70", 1 << 70)]:
    d = ProcessXor(pad, GreedyBytes)
    out("parse pad=%s" % name, lambda: parse_pos(d, DATA))
    out("parse empty pad=%s" % name, lambda: parse_pos(d, b""))
    out("build pad=%s" % name, lambda: build_pos(d, DATA))
    out("build empty pad=%s" % name, lambda: build_pos(d, b""))

# int subclass with logged comparisons
for v in (0, 5):
    EqLog.log = []
    d = ProcessXor(EqLog(v), GreedyBytes)
    out("parse EqLog(%d)" % v, lambda: parse_pos(d, b"\x01\x02"))
    out("build EqLog(%d)" % v, lambda: build_pos(d, b"\x01\x02"))
    out("EqLog(%d) log" % v, lambda: list(EqLog.log))

# context lambdas and ordering of evaluation vs subcon build
log = []
def padfunc(ctx):
    log.append("padfunc")
    return ctx.pad
class Sub(Construct):
    def _parse(self, stream, context, path):
        log.append(("sub parse", stream.tell()))
        return stream.read()
    def _build(self, obj, stream, context, path):
        log.append(("sub build", stream.tell()))
        stream.write(obj)
        return obj + b"!"
    def _sizeof(self, context, path):
        log.append("sub sizeof")
        return 3
d = ProcessXor(padfunc, Sub())
out("lambda parse int", lambda: parse_pos(d, b"\x00\x01\x02", skip=1, pad=3))
out("lambda parse bytes", lambda: parse_pos(d, b"\x00\x01\x02", skip=1, pad=b"\x03\x04"))
out("lambda build int", lambda: build_pos(d, b"\x00\x01\x02", prefix=b"q", pad=3))
out("lambda build bytes", lambda: build_pos(d, b"\x00\x01\x02", prefix=b"q", pad=b"\x03\x04"))
out("lambda build bad", lambda: build_pos(d, b"\x00\x01\x02", pad=u"x"))
out("lambda parse missing key", lambda: parse_pos(d, b"\x00"))
out("lambda sizeof", lambda: d.sizeof(pad=1))
out("log", lambda: list(log))

# tell() of the substream (BytesIOWithOffsets) inside parse
t = ProcessXor(0x10, Struct("a" / Tell, "b" / Byte, "c" / Tell, "rest" / GreedyBytes))
def ps(d, data, skip):
    s = io.BytesIO(data)
    s.read(skip)
    r = d.parse_stream(s)
    return r, s.tell()
out("tell inside parse", lambda: ps(t, b"\x00\x11\x12\x13", 1))
t0 = ProcessXor(0, Struct("a" / Tell, "b" / Byte, "c" / Tell))
out("tell inside parse pad0", lambda: ps(t0, b"\x00\x11\x12\x13", 2))

# typical usage
d = ProcessXor(0xf0, Int16ub)
out("doc parse", lambda: d.parse(b"\x00\xff"))
out("doc build", lambda: d.build(0xf00f))
out("doc sizeof", lambda: d.sizeof())
d = ProcessXor(b"\xf0\x0f", Int16ub)
out("doc2 parse", lambda: d.parse(b"\x00\xff"))
out("doc2 build", lambda: d.build(0xf00f))
out("doc parse short", lambda: d.parse(b"\x00"))
out("doc build str", lambda: ProcessXor(1, Bytes(2)).build(u"ab"))
st = Struct("k" / Byte, "v" / Prefixed(Byte, ProcessXor(this.k, GreedyBytes)))
out("struct parse", lambda: st.parse(b"\x05\x03abc"))
out("struct build", lambda: st.build(dict(k=5, v=b"abc")))
out("struct build k=0", lambda: st.build(dict(k=0, v=b"abc")))
out("compiled parse", lambda: st.compile().parse(b"\x05\x03abc"))
out("compiled build", lambda: st.compile().build(dict(k=5, v=b"abc")))
