import sys
sys.path.insert(0, sys.argv[1])
import enum
import construct
from construct import *
from construct.core import KsyGen

assert construct.__file__.startswith(sys.argv[1]), construct.__file__


def show(label, con, bitwise=False):
    for entry in ("_compileseq", "_compilefulltype", "_compileprimitivetype", "_emitseq"):
        gen = KsyGen()
        try:
            r = getattr(con, entry)(gen, bitwise)
            out = repr(r)
        except Exception as e:
            out = "EXC %s %s" % (type(e).__name__, e)
        print(label, entry, bitwise, out)
        print("   gen", gen.nextid, repr(gen.instances), repr(gen.enums), repr(gen.types))


class E(enum.IntFlag):
    a = 1
    c = 4
    top = 128


class Wide(enum.IntFlag):
    lo = 1
    hi = 0x8000


cases = [
    ("byte_abc", FlagsEnum(Byte, a=1, b=2, c=4)),
    ("byte_empty", FlagsEnum(Byte)),
    ("byte_full", FlagsEnum(Byte, f0=1, f1=2, f2=4, f3=8, f4=16, f5=32, f6=64, f7=128)),
    ("byte_multibit", FlagsEnum(Byte, low=3, high=0xf0, one=1)),
    ("byte_outofrange", FlagsEnum(Byte, big=256, zero=0)),
    ("byte_dup", FlagsEnum(Byte, x=2, y=2)),
    ("byte_trailing", FlagsEnum(Byte, class_=1, _hidden=2, a_b=4)),
    ("short_be", FlagsEnum(Int16ub, lo=1, hi=0x8000)),
    ("short_le", FlagsEnum(Int16ul, lo=1, hi=0x8000)),
    ("int24", FlagsEnum(Int24ub, mid=0x001000)),
    ("bytesint", FlagsEnum(BytesInteger(3), a=1, z=1 << 23)),
    ("intflag", FlagsEnum(Byte, E)),
    ("intflag_merge", FlagsEnum(Int16ub, E, Wide, extra=0x100)),
    ("varint", FlagsEnum(VarInt, a=1)),
    ("greedy", FlagsEnum(GreedyBytes, a=1)),
    ("ctxlen", FlagsEnum(BytesInteger(this.n), a=1)),
    ("bitsint", FlagsEnum(BitsInteger(5), a=1)),
    ("renamed", "flags" / FlagsEnum(Byte, a=1, b=2)),
    ("in_struct", Struct("f" / FlagsEnum(Byte, a=1), "g" / FlagsEnum(Int16ul, q=0x4000), "n" / Byte)),
    ("in_array", Array(3, FlagsEnum(Byte, a=1))),
    ("in_prefixed", Prefixed(Byte, FlagsEnum(Byte, a=128))),
    ("in_pointer", Pointer(4, FlagsEnum(Byte, a=128))),
    ("in_bitstruct_like", Struct("x" / FlagsEnum(Byte, a=1), "y" / Enum(Byte, p=1))),
]

for label, con in cases:
    show(label, con, False)
    show(label, con, True)

# zero-sized subcon: no bits at all
show("zero", FlagsEnum(Pass, a=1))

# parse/build still as before on the same objects
d = FlagsEnum(Byte, a=1, b=2, c=4)
for data in (b"\x00", b"\x05", b"\xff", b""):
    try:
        print("parse", data, d.parse(data))
    except Exception as e:
        print("parse", data, "EXC", type(e).__name__)
for obj in (dict(a=True), 7, "a|c", d.b, dict(zz=True), None):
    try:
        print("build", obj, d.build(obj))
    except Exception as e:
        print("build", obj, "EXC", type(e).__name__)

try:
    d.export_ksy()
    print("export ok")
except Exception as e:
    print("export EXC", type(e).__name__)
