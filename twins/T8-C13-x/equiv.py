import sys, io
sys.path.insert(0, sys.argv[1])
import construct
from construct import *
from construct.core import Validator

out = []
def p(*a):
    out.append(" ".join(str(x) for x in a))

def srepr(o):
    try:
        return repr(o)
    except BaseException:
        return "<repr failed>"

def attempt(tag, fn):
    try:
        r = fn()
        if isinstance(r, bytes):
            r = "bytes:" + r.hex()
        p(tag, "->", "OK", type(r).__name__, srepr(r))
    except BaseException as e:
        p(tag, "->", "EXC", type(e).__name__, "|", str(e).replace("\n", "\\n"))

def parse_pos(tag, d, data, **kw):
    s = io.BytesIO(data)
    try:
        r = d.parse_stream(s, **kw)
        p(tag, "parse", data.hex(), "OK", type(r).__name__, srepr(r), "pos", s.tell())
    except BaseException as e:
        p(tag, "parse", data.hex(), "EXC", type(e).__name__, "|", str(e).replace("\n", "\\n"), "| pos", s.tell())

def build_pos(tag, d, obj, **kw):
    s = io.BytesIO()
    try:
        r = d.build_stream(obj, s, **kw)
        p(tag, "build", srepr(obj), "OK", s.getvalue().hex(), "pos", s.tell())
    except BaseException as e:
        p(tag, "build", srepr(obj), "EXC", type(e).__name__, "|", str(e).replace("\n", "\\n"), "|", s.getvalue().hex())

class BoolBoom:
    def __bool__(self):
        raise ZeroDivisionError("bool-boom")

class Weird:
    """== returns non-bool objects"""
    def __init__(self, v): self.v = v
    def __eq__(self, other):
        return [] if other == 0 else [other]
    def __hash__(self): return 0
    def __repr__(self): return "Weird(%r)" % self.v

class EqBoom:
    def __eq__(self, other):
        raise ZeroDivisionError("eq-boom")
    def __repr__(self): return "EqBoom()"

class EqBoolBoom:
    def __eq__(self, other):
        return BoolBoom()
    def __repr__(self): return "EqBoolBoom()"

class StrFmt(int):
    def __str__(self): return "STR(%d)" % int(self)
    def __format__(self, spec): return "FORMAT"
    def __repr__(self): return "REPR(%d)" % int(self)

# ---------------- validators ----------------
p("=== OneOf / NoneOf exhaustive over Byte")
valids = {1, 2, 3, 200, 255}
d_one = OneOf(Byte, valids)
d_none = NoneOf(Byte, valids)
d_list = OneOf(Byte, [0, 7])
d_empty = OneOf(Byte, [])
d_nempty = NoneOf(Byte, ())
for i in range(256):
    row = [i]
    for d in (d_one, d_none, d_list, d_empty, d_nempty):
        for mode in ("p", "b"):
            try:
                if mode == "p":
                    r = d.parse(bytes([i]))
                else:
                    r = d.build(i).hex()
                row.append("%s:%r" % (mode, r))
            except BaseException as e:
                row.append("%s:%s" % (mode, type(e).__name__))
    p(*row)

p("=== error messages / positions")
for i in (0, 1, 4, 255):
    parse_pos("OneOf", d_one, bytes([i, 9]))
    parse_pos("NoneOf", d_none, bytes([i, 9]))
    build_pos("OneOf", d_one, i)
    build_pos("NoneOf", d_none, i)
parse_pos("OneOf", d_one, b"")
for obj in (256, -1, None, "a", 1.0, True, StrFmt(1), StrFmt(9), (1,), (1, 2)):
    build_pos("OneOf", d_one, obj)
    build_pos("NoneOf", d_none, obj)

p("=== ExprValidator with truthy / falsy non-bool returns")
rets = {
    "ret_obj": lambda obj, ctx: obj,
    "ret_none": lambda obj, ctx: None,
    "ret_list": lambda obj, ctx: [0] * obj,
    "ret_str": lambda obj, ctx: "x" * (obj % 2),
    "ret_ctx": lambda obj, ctx: ctx.get("flag", False),
    "ret_boolboom": lambda obj, ctx: BoolBoom(),
    "raises": lambda obj, ctx: 1 // (obj - 1),
    "this_expr": obj_ & 0b11111110 == 0,
    "ctx_len": lambda obj, ctx: obj == ctx._.n if "_" in ctx and "n" in ctx._ else obj < 2,
}
for name, fn in rets.items():
    d = ExprValidator(Byte, fn)
    for i in (0, 1, 2, 3, 88):
        parse_pos(name, d, bytes([i, 0xEE]))
        build_pos(name, d, i)
    parse_pos(name + " flag", d, b"\x05", flag=True)
    build_pos(name + " flag", d, 5, flag=1)

p("=== Validator subclass and other subcons")
class Even(Validator):
    def _validate(self, obj, context, path):
        return obj % 2 == 0
class Plain(Validator):
    pass
for d, nm in ((Even(Int16ub), "Even16"), (Even(VarInt), "EvenVar"), (Plain(Byte), "Plain")):
    for v in (0, 1, 2, 255, 256, 65535, 2**40, 2**40 + 1):
        build_pos(nm, d, v)
    for data in (b"\x00\x00", b"\x00\x01", b"\xff\xfe", b"\x81\x01", b"\x80\x01", b"\x01", b""):
        parse_pos(nm, d, data)
ds = OneOf(PascalString(Byte, "utf8"), ["ab", "", "é"])
for data in (b"\x02ab", b"\x00", b"\x02\xc3\xa9", b"\x02zz", b"\x05ab"):
    parse_pos("OneOfStr", ds, data)
for v in ("ab", "", "é", "zz", None, 5):
    build_pos("OneOfStr", ds, v)
db = NoneOf(Bytes(2), {b"\x00\x00", b"ab"})
for data in (b"ab", b"\x00\x00", b"zz", b"a"):
    parse_pos("NoneOfBytes", db, data)
for v in (b"ab", b"zz", b"\x00\x00", bytearray(b"ab"), bytearray(b"zz"), b"a", 5):
    build_pos("NoneOfBytes", db, v)

p("=== validators nested")
st = Struct("n" / Byte, "v" / OneOf(Byte, [1, 2]), "w" / ExprValidator(Byte, lambda obj, ctx: obj == ctx.n))
for data in (b"\x05\x01\x05", b"\x05\x03\x05", b"\x05\x01\x06", b"\x05\x01", b""):
    parse_pos("Struct", st, data)
for o in (dict(n=5, v=1, w=5), dict(n=5, v=3, w=5), dict(n=5, v=2, w=6), dict(n=5, v=2)):
    build_pos("Struct", st, o)
for wn, w in (("Optional", Optional), ("Peek", Peek), ("GreedyRange", GreedyRange)):
    for inner, iname in ((OneOf(Byte, [1, 2]), "OneOf"), (Const(b"\x01"), "Const"), (Const(2, Byte), "ConstB"), (Error, "Error")):
        d = w(inner)
        for data in (b"\x01\x02\x01\x03\x01", b"\x03", b"\x02\x02", b""):
            parse_pos(wn + "(" + iname + ")", d, data)
        for o in (None, 1, 2, 3, [1, 2], [1, 3], [], [None, None], b"\x01", [b"\x01", None]):
            build_pos(wn + "(" + iname + ")", d, o)
sel = Select(OneOf(Byte, [1]), Const(b"\x02"), NoneOf(Int16ub, [0x0303]))
for data in (b"\x01", b"\x02", b"\x03\x03", b"\x03\x04", b"\x03", b""):
    parse_pos("Select", sel, data)
for o in (1, 2, None, b"\x02", 0x0303, 0x0304, "x"):
    build_pos("Select", sel, o)
selerr = Select(Error, Byte)
parse_pos("Select(Error,Byte)", selerr, b"\x01")
build_pos("Select(Error,Byte)", selerr, 1)

# ---------------- Const ----------------
p("=== Const exhaustive parse over one byte")
c_bytes = Const(b"\x2a")
c_int = Const(42, Byte)
c_zero = Const(0, Byte)
c_true = Const(True, Flag)
c_str = Const("*", PaddedString(1, "ascii"))
for i in range(256):
    row = [i]
    for c in (c_bytes, c_int, c_zero, c_true, c_str):
        s = io.BytesIO(bytes([i, 0x55]))
        try:
            r = c.parse_stream(s)
            row.append("%s:%r@%d" % (type(r).__name__, r, s.tell()))
        except BaseException as e:
            row.append("%s@%d" % (type(e).__name__, s.tell()))
    p(*row)

p("=== Const messages, widths, builds")
consts = [
    ("bytes3", Const(b"ABC")),
    ("empty", Const(b"")),
    ("i16", Const(0x1234, Int16ub)),
    ("i16l", Const(0x1234, Int16ul)),
    ("varint", Const(2**40, VarInt)),
    ("f32", Const(1.5, Float32b)),
    ("str", Const("hi", PascalString(Byte, "utf8"))),
    ("arr", Const([1, 2], Array(2, Byte))),
    ("struct", Const(dict(a=1), Struct("a" / Byte))),
    ("enum", Const("one", Enum(Byte, one=1))),
    ("enumint", Const(1, Enum(Byte, one=1))),
    ("weird", Const(Weird(3), Byte)),
    ("eqboolboom", Const(EqBoolBoom(), Byte)),
    ("intA", Const(65, Byte)),
]
datas = [b"ABC", b"ABD", b"AB", b"", b"\x12\x34", b"\x34\x12", b"\x80\x80\x80\x80\x80\x20", b"\x3f\xc0\x00\x00", b"\x3f\xc0\x00\x01",
         b"\x02hi", b"\x02ho", b"\x01\x02", b"\x01\x03", b"\x01", b"\x02", b"\x00", b"\x03", b"A"]
for nm, c in consts:
    for data in datas:
        parse_pos("Const " + nm, c, data + b"\xEE")
        parse_pos("Const " + nm + " exact", c, data)
    for o in (None, b"ABC", b"ABD", 0x1234, 2**40, 1.5, "hi", [1, 2], dict(a=1), "one", 1, 0, 3, 65, b"", True):
        build_pos("Const " + nm, c, o)
attempt("Const eqboom parse", lambda: Const(EqBoom(), Byte).parse(b"\x01"))
attempt("Const nonbytes", lambda: Const("abc"))
attempt("Const sizeof", lambda: Const(b"ABC").sizeof())
attempt("Const varint sizeof", lambda: Const(1, VarInt).sizeof())

p("=== Const nested")
hdr = Struct("sig" / Const(b"MZ"), "ver" / Const(1, Byte), "x" / Byte)
for data in (b"MZ\x01\x09", b"MZ\x02\x09", b"MX\x01\x09", b"MZ", b"M"):
    parse_pos("hdr", hdr, data)
for o in (dict(x=9), dict(sig=b"MZ", ver=1, x=9), dict(sig=b"MX", x=9), dict(ver=2, x=9), dict(sig=None, ver=None, x=9)):
    build_pos("hdr", hdr, o)

p("=== compiled")
for nm, d in (("OneOf", d_one), ("hdr", hdr), ("Const", c_int)):
    dc = d.compile()
    for data in (b"\x01", b"\x04", b"\x2a", b"MZ\x01\x09", b"MZ\x02\x09", b""):
        parse_pos("compiled " + nm, dc, data)
    for o in (1, 4, 42, None, dict(x=9), dict(ver=2, x=9)):
        build_pos("compiled " + nm, dc, o)

sys.stdout.write("\n".join(out) + "\n")
