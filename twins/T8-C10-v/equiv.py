import sys, io
sys.path.insert(0, sys.argv[1])
from construct import *
from construct.lib import *

def show(label, fn):
    try:
        r = fn()
        print(label, "->", repr(r))
    except Exception as e:
        print(label, "!!", type(e).__name__)

def parse_pos(d, data, **kw):
    s = io.BytesIO(data)
    try:
        r = d.parse_stream(s, **kw)
        return ("ok", r, s.tell())
    except Exception as e:
        return ("exc", type(e).__name__, s.tell())

def build_pos(d, obj, prefix=b"", **kw):
    s = io.BytesIO()
    s.write(prefix)
    try:
        r = d.build_stream(obj, s, **kw)
        return ("ok", r, s.tell(), s.getvalue())
    except Exception as e:
        return ("exc", type(e).__name__, s.tell(), s.getvalue())

class IntSub(int):
    pass

amounts = [None, 0, 1, 2, 3, True, False, IntSub(2), 2.0, "2", -1, (2,)]
datas = [b"", b"\x00", b"\xa5", b"\xa5\x3c", b"\x01\x02\x03", b"\xff" * 5]

# Transformed used directly, decode/encode amounts of many types
for da in amounts:
    for ea in amounts:
        for sub, subname in [(GreedyBytes, "GreedyBytes"), (Bytes(16), "Bytes16"), (Bytes(8), "Bytes8")]:
            d = Transformed(sub, bytes2bits, da, bits2bytes, ea)
            for data in datas:
                print("T.parse", subname, repr(da), repr(ea), data.hex(), parse_pos(d, data))
            for obj in [b"", bytes(8), bytes([1,0,1,0,0,1,0,1]), bytes([1]*16), bytes([0,1]*12), bytes(7), bytes([2]*8), "str", None, 5]:
                print("T.build", subname, repr(da), repr(ea), repr(obj), build_pos(d, obj, b"zz"))
            show("T.sizeof %s %r %r" % (subname, da, ea), d.sizeof)

# identity transforms that change the length, to reach the wrong-amount branch
grow = lambda b: b + b"\x00"
for ea in amounts:
    d = Transformed(GreedyBytes, grow, None, grow, ea)
    for obj in [b"", b"a", b"ab", b"abc"]:
        print("grow.build", repr(ea), obj, build_pos(d, obj))
    print("grow.parse", repr(ea), parse_pos(d, b"xyz"))

# decode/encode functions that raise
def boom(b):
    raise KeyError("boom")
d = Transformed(GreedyBytes, boom, None, boom, None)
print("boom.parse", parse_pos(d, b"ab"))
print("boom.build", build_pos(d, b"ab"))
d = Transformed(GreedyBytes, boom, 1, boom, 1)
print("boom.parse1", parse_pos(d, b"ab"))
print("boom.build1", build_pos(d, b"a"))

# sized Bitwise / Bytewise / ByteSwapped / BitsSwapped go through Transformed
layouts = {
    "nib": Bitwise(Struct("a" / Nibble, "b" / Nibble)),
    "3_5": Bitwise(Struct("a" / BitsInteger(3), "b" / BitsInteger(5, signed=True))),
    "1_7_8": Bitwise(Struct("f" / Flag, "a" / BitsInteger(7), "b" / BitsInteger(8, swapped=True))),
    "5_11": Bitwise(Struct("a" / BitsInteger(5, signed=True), "b" / BitsInteger(11))),
    "pad": Bitwise(Struct("a" / BitsInteger(3), Padding(5), "b" / BitsInteger(16, swapped=True, signed=True))),
    "island": Bitwise(Struct("a" / Nibble, "b" / Bytewise(Int16ub), "c" / Nibble)),
    "arr": Bitwise(Array(4, BitsInteger(6))),
    "nested": Bitwise(Struct("h" / Struct("x" / BitsInteger(2), "y" / BitsInteger(6)), "t" / Array(2, BitsInteger(12)))),
    "odd": Bitwise(Struct("a" / BitsInteger(3))),
    "bswap": ByteSwapped(Int24ub),
    "bitswap": BitsSwapped(Bytes(2)),
    "bitswap_bitwise": BitsSwapped(Bitwise(Struct("a" / BitsInteger(3), "b" / BitsInteger(13)))),
}
for name, d in layouts.items():
    print("class", name, type(d).__name__)
    show("sizeof " + name, d.sizeof)
    for data in [b"", b"\xa5", b"\xa5\x3c", b"\x12\x34\x56", b"\x80\x00\x01\xff", b"\xff" * 6]:
        r = parse_pos(d, data)
        print("parse", name, data.hex(), r)
        if r[0] == "ok":
            print("rebuild", name, build_pos(d, r[1], b"p"))
for name, obj in [("nib", dict(a=15, b=1)), ("nib", dict(a=16, b=1)), ("3_5", dict(a=7, b=-16)), ("3_5", dict(a=7, b=16)),
                  ("3_5", dict(a=7)), ("1_7_8", dict(f=True, a=127, b=255)), ("5_11", dict(a=-1, b=2047)),
                  ("island", dict(a=1, b=0xbeef, c=2)), ("island", dict(a=1, b=0x1beef, c=2)),
                  ("arr", [1, 2, 3, 63]), ("arr", [1, 2, 3]), ("arr", [1, 2, 3, 64]), ("odd", dict(a=5)),
                  ("bswap", 0x010203), ("bswap", -1), ("bitswap", b"\x01\x80"), ("bitswap", b"\x01")]:
    print("build", name, repr(obj), build_pos(layouts[name], obj, b"q"))

# exhaustive 16-bit region, sized path
d = Bitwise(Struct("a" / BitsInteger(3), "b" / BitsInteger(7, signed=True), "c" / BitsInteger(6)))
acc = 0
for n in range(0, 65536, 7):
    raw = n.to_bytes(2, "big")
    o = d.parse(raw)
    assert d.build(o) == raw
    acc = (acc * 31 + o.a * 10007 + o.b * 101 + o.c) % (2**61 - 1)
print("exhaustive16 checksum", acc)
