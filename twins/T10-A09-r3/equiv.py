#!/usr/bin/env python
"""equiv.py <repo root> -- observations about Container._search / ListContainer._search
(and the public search / search_all built on them)."""
import sys

sys.path.insert(0, sys.argv[1])

import re
import construct
from construct import *
from construct.lib import Container, ListContainer

n = [0]


def show(label, fn):
    n[0] += 1
    try:
        out = fn()
        print("%03d %s -> %s %r" % (n[0], label, type(out).__name__, out))
    except Exception as e:
        print("%03d %s !! %s: %s" % (n[0], label, type(e).__name__, e))


flat = Container(a=1, b=2, ab=3, _c=4)
nested = Container(
    a=1,
    inner=Container(a=10, b=20, deeper=Container(a=100, z=None)),
    items=ListContainer([Container(a=1000, q=1), Container(b=2000), Container(a=3000, b=4000)]),
    b=2,
    empty=Container(),
    emptylist=ListContainer(),
)
nonstr = Container()
nonstr[1] = "int key"
nonstr[b"a"] = "bytes key"
nonstr["a"] = "str key"
nonstr[None] = "none key"
listof = ListContainer([
    Container(x=1),
    5,
    "str",
    None,
    ListContainer([Container(x=2), Container(y=3)]),
    Container(y=4, x=5),
])
nones = Container(first=Container(a=None), second=Container(a=7), a=8)
nonematch = Container(a=None, b=ListContainer([Container(a=None)]), c=Container(a=9))

objs = [("flat", flat), ("nested", nested), ("nonstr", nonstr), ("listof", listof),
        ("nones", nones), ("nonematch", nonematch), ("empty", Container()), ("emptylist", ListContainer())]
patterns = ["a", "b", "a.*", ".*", "z", "nothing", "_c", "^a$", "inner", "items", "x", "y", "q|z", ""]

for oname, o in objs:
    for p in patterns:
        show("%s.search(%r)" % (oname, p), lambda o=o, p=p: o.search(p))
        show("%s.search_all(%r)" % (oname, p), lambda o=o, p=p: o.search_all(p))

# bad patterns / bad arguments
show("bad regex search", lambda: nested.search("("))
show("bad regex search_all", lambda: listof.search_all("("))
show("bytes pattern search", lambda: nonstr.search(b"a"))
show("bytes pattern search_all", lambda: nonstr.search_all(b"a"))
show("None pattern", lambda: flat.search(None))
show("compiled pattern", lambda: nested.search_all(re.compile("b")))

# _search called directly, including non-bool search_all values
cp = re.compile("a")
for sa in (True, False, 0, 1, "", "yes", None, [], [0]):
    show("Container._search(sa=%r)" % (sa,), lambda sa=sa: nested._search(cp, sa))
    show("ListContainer._search(sa=%r)" % (sa,), lambda sa=sa: nested["items"]._search(cp, sa))
    show("Container._search nomatch (sa=%r)" % (sa,), lambda sa=sa: nested._search(re.compile("nomatch"), sa))
    show("ListContainer._search nomatch (sa=%r)" % (sa,), lambda sa=sa: listof._search(re.compile("nomatch"), sa))


class Flag:
    """truth value with a record of how often it is asked"""
    def __init__(self, v):
        self.v = v
        self.asked = 0

    def __bool__(self):
        self.asked += 1
        return self.v


for v in (True, False):
    f = Flag(v)
    show("Container._search(Flag(%r))" % v, lambda f=f: nested._search(cp, f))
    show("  asked", lambda f=f: f.asked)
    f = Flag(v)
    show("ListContainer._search(Flag(%r))" % v, lambda f=f: listof._search(re.compile("x"), f))
    show("  asked", lambda f=f: f.asked)


class BadFlag:
    def __bool__(self):
        raise ValueError("no truth value")


show("Container._search(BadFlag) match", lambda: flat._search(cp, BadFlag()))
show("Container._search(BadFlag) nested", lambda: nested._search(cp, BadFlag()))
show("Container._search(BadFlag) empty", lambda: Container()._search(cp, BadFlag()))
show("ListContainer._search(BadFlag)", lambda: listof._search(re.compile("x"), BadFlag()))
show("ListContainer._search(BadFlag) empty", lambda: ListContainer()._search(cp, BadFlag()))


# pattern objects that record calls / raise
class Pat:
    def __init__(self, bad=()):
        self.calls = []
        self.bad = bad

    def match(self, key):
        self.calls.append(key)
        if key in self.bad:
            raise KeyError(key)
        return key.startswith("a")


for sa in (False, True):
    p = Pat(bad=("a",))
    show("raising pattern sa=%r" % sa, lambda p=p, sa=sa: Container(a=1, ab=2, b=3, ac=4)._search(p, sa))
    show("  calls", lambda p=p: p.calls)
    p = Pat()
    show("recording pattern nested sa=%r" % sa, lambda p=p, sa=sa: nested._search(p, sa))
    show("  calls", lambda p=p: p.calls)
    p = Pat()
    show("recording pattern nonstr keys sa=%r" % sa, lambda p=p, sa=sa: nonstr._search(p, sa))
    show("  calls", lambda p=p: p.calls)


# subclasses whose _search returns unusual things
class OddContainer(Container):
    def _search(self, compiled_pattern, search_all, /):
        return 42  # not iterable: extend() raises TypeError inside the try


class RaisingContainer(Container):
    def _search(self, compiled_pattern, search_all, /):
        raise RuntimeError("boom")


class EmptyRet(Container):
    def _search(self, compiled_pattern, search_all, /):
        return []


class BaseExc(Container):
    def _search(self, compiled_pattern, search_all, /):
        raise KeyboardInterrupt("base exception passes through")


odd = Container(o=OddContainer(a=1), r=RaisingContainer(a=2), e=EmptyRet(a=3), a=4)
oddlist = ListContainer([OddContainer(a=1), RaisingContainer(a=2), EmptyRet(a=3), Container(a=4)])
for sa in (False, True):
    show("odd container sa=%r" % sa, lambda sa=sa: odd._search(cp, sa))
    show("odd list sa=%r" % sa, lambda sa=sa: oddlist._search(cp, sa))
    show("only-odd container sa=%r" % sa, lambda sa=sa: Container(o=OddContainer(a=1), a=5)._search(cp, sa))
    show("only-odd list sa=%r" % sa, lambda sa=sa: ListContainer([OddContainer(a=1)])._search(cp, sa))
    show("empty-ret first sa=%r" % sa, lambda sa=sa: Container(e=EmptyRet(a=3), a=4)._search(cp, sa))
    try:
        print("baseexc container sa=%r" % sa, Container(x=BaseExc(), a=1)._search(cp, sa))
    except BaseException as e:
        print("baseexc container sa=%r !! %s: %s" % (sa, type(e).__name__, e))
    try:
        print("baseexc list sa=%r" % sa, ListContainer([BaseExc(), Container(a=1)])._search(cp, sa))
    except BaseException as e:
        print("baseexc list sa=%r !! %s: %s" % (sa, type(e).__name__, e))

# a key that shadows a method name
shadow = Container(items=1, _search=2, search=3, keys=Container(items=4))
show("shadow get items", lambda: shadow["items"])
show("shadow search", lambda: Container.search(shadow, "items"))
show("shadow search_all", lambda: Container.search_all(shadow, "items|search"))

# self-containing structures
loop = Container(a=1)
loop["self"] = loop
show("recursive search", lambda: loop.search("a"))
show("recursive search_all", lambda: loop.search_all("zzz"))

# parse results
st = Struct(
    "hdr" / Struct("len" / Byte, "kind" / Byte),
    "recs" / Array(3, Struct("id" / Byte, "len" / Byte)),
    "len" / Byte,
)
res = st.parse(bytes(range(9)))
show("parsed search len", lambda: res.search("len"))
show("parsed search_all len", lambda: res.search_all("len"))
show("parsed search id", lambda: res.search("id"))
show("parsed search_all id|kind", lambda: res.search_all("id|kind"))
show("parsed recs search_all", lambda: res.recs.search_all("len"))
show("parsed search _io", lambda: type(res.search("_io")).__name__)
show("sizeof", lambda: st.sizeof())
show("build", lambda: st.build(res))
