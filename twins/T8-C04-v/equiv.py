import sys, re, io
sys.path.insert(0, sys.argv[1])
import construct
from construct import *
from construct.expr import UniExpr, BinExpr, Path, FuncPath
import operator

assert construct.__file__.startswith(sys.argv[1]), construct.__file__

def norm(s):
    return re.sub(r"\b\d{9,}\b", "ID", s)

def show(label, f):
    try:
        r = f()
        print(label, "->", type(r).__name__, norm(repr(r)))
    except Exception as e:
        print(label, "!!", type(e).__name__)

class Tracker:
    """callable operand recording evaluation order"""
    log = []
    def __init__(self, name, value=None, exc=None):
        self.name, self.value, self.exc = name, value, exc
    def __call__(self, obj):
        Tracker.log.append(self.name)
        if self.exc:
            raise self.exc
        return self.value

ctxs = [
    Container(a=0, b=1, c=255, d=256, s="x", bs=b"ab", l=[1, 2, 3], e=[], n=None, neg=-3, f=1.5, t=True),
    Container(a=7, b=0, c=-1, d=70000, s="", bs=b"", l=[0], e=[5], n=None, neg=0, f=0.0, t=False),
    Container(),
    {},
]

exprs = {
    "add": this.a + this.b,
    "radd": 3 + this.a,
    "sub": this.c - this.d,
    "rsub": 1 - this.c,
    "mul": this.a * 2,
    "div": this.c / this.b,
    "floordiv": this.d // this.b,
    "rfloordiv": 10 // this.a,
    "mod": this.d % 7,
    "rmod": 7 % this.b,
    "pow": this.b ** 2,
    "rpow": 2 ** this.a,
    "xor": this.c ^ 15,
    "shl": this.b << 4,
    "shr": this.d >> 4,
    "and": this.c & 15,
    "or": this.a | 8,
    "neg": -this.c,
    "pos": +this.neg,
    "not": ~this.t,
    "negneg": -(-this.f),
    "notnot": ~~this.a,
    "gt": this.c > this.d,
    "ge": this.c >= 255,
    "lt": this.a < 1,
    "le": this.neg <= 0,
    "eq": this.s == "x",
    "ne": this.bs != b"ab",
    "eqnone": this.n == None,
    "nested": (this.a + this.b) * (this.c - 1) // (this.b + 1),
    "len": len_(this.l),
    "lenarith": len_(this.l) + len_(this.e) * 2,
    "sum": sum_(this.l),
    "min": min_(this.l),
    "max": max_(this.e),
    "abs": abs_(this.neg),
    "abs_of_expr": abs_(this.c - this.d),
    "len_of_const": len_(this.bs),
    "missing": this.zz + 1,
    "deep": this.l[0] + this.l[-1],
    "uni_const": UniExpr(operator.neg, 5),
    "uni_none": UniExpr(operator.not_, None),
    "bin_const": BinExpr(operator.add, 2, 3),
    "bin_str": BinExpr(operator.add, "a", this.s),
    "bin_typeerr": BinExpr(operator.add, 1, this.s),
    "contains": BinExpr(operator.contains, this.l, 1),
}

for name, e in exprs.items():
    print("expr", name, "repr", norm(repr(e)), "str", norm(str(e)))
    for i, c in enumerate(ctxs):
        show("  eval %s ctx%d" % (name, i), lambda: e(c))
        show("  eval2 %s ctx%d" % (name, i), lambda: e(c, 1, 2))

# FuncPath on a non-callable and on a callable, and with constant operand
show("len_ const", lambda: len_([1, 2, 3]))
show("len_ bytes", lambda: len_(b""))
show("len_ path", lambda: len_(this.x))
show("len_ path eval", lambda: len_(this.x)(Container(x=b"abcd")))
show("len_ lambda", lambda: len_(lambda ctx: ctx["q"])({"q": (1, 2)}))
show("abs_ none-ctx", lambda: abs_(this.x)(None))
show("FuncPath const operand", lambda: FuncPath(len, [1, 2])(Container()))
show("FuncPath zero operand", lambda: FuncPath(abs, 0)(Container()))
show("FuncPath int operand", lambda: FuncPath(abs, -4)(Container()))

# evaluation order and exception propagation
for lhs, rhs in [
    (Tracker("L", 1), Tracker("R", 2)),
    (Tracker("L", exc=KeyError("k")), Tracker("R", 2)),
    (Tracker("L", 1), Tracker("R", exc=ValueError("v"))),
    (Tracker("L", exc=KeyError("k")), Tracker("R", exc=ValueError("v"))),
    (5, Tracker("R", 2)),
    (Tracker("L", "s"), 5),
]:
    Tracker.log = []
    show("order bin", lambda: BinExpr(operator.add, lhs, rhs)({}))
    print("   log", Tracker.log)
for op in [Tracker("U", 3), Tracker("U", exc=IndexError()), Tracker("U", "str")]:
    Tracker.log = []
    show("order uni", lambda: UniExpr(operator.neg, op)({}))
    print("   log", Tracker.log)
    Tracker.log = []
    show("order func", lambda: FuncPath(abs, op)({}))
    print("   log", Tracker.log)

# broken op: operand must still be evaluated first
class NoOp(UniExpr):
    def __init__(self, operand):
        self.operand = operand
Tracker.log = []
show("uni without op", lambda: NoOp(Tracker("U", 1))({}))
print("   log", Tracker.log)

# interpreter vs compiled using expressions
cons = {
    "bytes_len": Struct("n" / Byte, "d" / Bytes(this.n), "p" / Byte),
    "arith": Struct("n" / Int16ub, "d" / Bytes(this.n * 2 - 1), "p" / Byte),
    "array": Struct("n" / Byte, "a" / Array(this.n + 1, Byte), "p" / Bytes(len_(this.a))),
    "ifte": Struct("k" / Byte, "v" / IfThenElse(this.k > 127, Int16ub, Byte), "p" / Bytes(this.v & 3)),
    "ifnot": Struct("k" / Byte, "v" / If(~(this.k == 0), Byte), "p" / Byte),
    "switch": Struct("k" / Byte, "v" / Switch(this.k % 3, {0: Byte, 1: Int16ub}, default=Pass), "p" / Byte),
    "neg": Struct("k" / Int8sb, "v" / Bytes(-this.k), "p" / Byte),
    "repeat": Struct("a" / RepeatUntil(obj_ == 0, Byte), "p" / Bytes(len_(this.a) - 1)),
    "nested": Struct("n" / Byte, "s" / Struct("m" / Byte, "d" / Bytes(this._.n + this.m)), "p" / Bytes(this.s.m)),
    "check": Struct("n" / Byte, Check(this.n != 5), "p" / Byte),
    "rebuild": Struct("n" / Rebuild(Byte, len_(this.d)), "d" / Bytes(this.n)),
    "padded": Struct("n" / Byte, "d" / Padded(this.n + 2, Byte), "p" / Byte),
    "strconst": Struct("s" / PascalString(Byte, "ascii"), "v" / If(this.s == "ab", Byte), "p" / Byte),
}
datas = [b"", b"\x00", b"\x00\x00\x00\x00", b"\x01\x02\x03\x04\x05\x06", b"\x02ab\x07\x08\x09", b"\x05\x01\x00\x02\x03\x04\x05\x06\x07\x08\x09",
         b"\x80\x01\x02\x03\x04\x05", b"\xff" * 8, b"\x03" * 300, b"\x01\x01" + b"\x07" * 600, b"\xfe\x01\x02\x03"]
objs = [None, {}, dict(n=0, d=b"", p=1), dict(n=2, d=b"ab", p=3), dict(n=1, d=b"abc", p=b"\x01"), dict(n=1, a=[1, 2], p=b"ab"),
        dict(k=200, v=300, p=b""), dict(k=0, v=None, p=1), dict(k=1, v=513, p=2), dict(k=-2, v=b"zz", p=0), dict(a=[3, 2, 0], p=b"xy"),
        dict(n=1, s=dict(m=1, d=b"qq"), p=b"z"), dict(n=5, p=1), dict(n=4, p=1), dict(d=b"x" * 300), dict(d=b"x" * 3), dict(n=0, d=1, p=2),
        dict(s="ab", v=1, p=2), dict(s="", v=None, p=0)]

for name, d in cons.items():
    try:
        dc = d.compile()
    except Exception as e:
        print("compile", name, "!!", type(e).__name__)
        continue
    print("source", name)
    print(norm(dc.source))
    for kind, c in (("interp", d), ("compiled", dc)):
        show("sizeof %s %s" % (name, kind), lambda: c.sizeof())
        show("sizeof-ctx %s %s" % (name, kind), lambda: c.sizeof(n=3, k=1, m=2))
        for i, data in enumerate(datas):
            def p():
                s = io.BytesIO(data)
                try:
                    r = c.parse_stream(s)
                finally:
                    print("    pos", s.tell())
                return r
            show("parse %s %s #%d" % (name, kind, i), p)
        for i, o in enumerate(objs):
            show("build %s %s #%d" % (name, kind, i), lambda: c.build(o))
