import sys, io
sys.path.insert(0, sys.argv[1])
from construct import *
from construct.core import Tunnel, Adapter

LOG = []

def show(label, fn):
    del LOG[:]
    try:
        r = fn()
        print(label, "->", repr(r), "| log", LOG)
    except Exception as e:
        print(label, "raised", type(e).__name__, str(e).replace("\n", " / "), "| log", LOG)

class Rev(Tunnel):
    """Reverses the bytes; logs the order of callbacks."""
    def _decode(self, data, context, path):
        LOG.append(("decode", data, path))
        return data[::-1]
    def _encode(self, data, context, path):
        LOG.append(("encode", data, path))
        return data[::-1]

class BadEnc(Tunnel):
    def _decode(self, data, context, path):
        LOG.append(("decode", data))
        return "text"          # not bytes: BytesIO() of it fails in parse
    def _encode(self, data, context, path):
        LOG.append(("encode", data))
        return "text"          # not bytes: stream_write complains

class RaisingDec(Tunnel):
    def _decode(self, data, context, path):
        LOG.append(("decode", data))
        raise ValueError("decode failed")
    def _encode(self, data, context, path):
        LOG.append(("encode", data))
        raise KeyError("encode failed")

class Abstract(Tunnel):
    pass

class Logger(Construct):
    def _parse(self, stream, context, path):
        d = stream.read()
        LOG.append(("inner parse", d, context.get("extra"), context._parsing, path))
        return d
    def _build(self, obj, stream, context, path):
        LOG.append(("inner build", obj, context.get("extra"), context._building, path))
        stream.write(obj)
        return b"inner-return-value"
    def _sizeof(self, context, path):
        return 3

class BadStream(object):
    """A stream whose read() fails / write() writes short."""
    def __init__(self, mode):
        self.mode = mode
        self.calls = []
    def read(self, n=-1):
        self.calls.append(("read", n))
        if self.mode == "readfail":
            raise OSError("nope")
        return b"abc"
    def write(self, data):
        self.calls.append(("write", data))
        if self.mode == "writefail":
            raise OSError("nope")
        if self.mode == "short":
            return len(data) - 1
        return len(data)
    def tell(self):
        return 0
    def seek(self, *a):
        return 0

# 1. parse side
for name, con in [("rev/greedy", Rev(GreedyBytes)), ("rev/logger", Rev(Logger())),
                  ("rev/int16", Rev(Int16ub)), ("rev/struct", Rev(Struct("a" / Byte, "b" / Byte))),
                  ("badenc", BadEnc(GreedyBytes)), ("raising", RaisingDec(GreedyBytes)),
                  ("abstract", Abstract(GreedyBytes))]:
    for data in [b"", b"\x01\x02", b"abcdef"]:
        show("parse %s %r" % (name, data), lambda: con.parse(data))
    show("parse %s extra" % name, lambda: con.parse(b"xyz", extra=5))
    s = io.BytesIO(b"0123456789")
    s.seek(4)
    show("parse_stream %s" % name, lambda: con.parse_stream(s))
    print("   pos", s.tell())
    bs = BadStream("readfail")
    show("parse_stream %s readfail" % name, lambda: con.parse_stream(bs))
    print("   calls", bs.calls)

# 2. build side
for name, con in [("rev/greedy", Rev(GreedyBytes)), ("rev/logger", Rev(Logger())),
                  ("rev/int16", Rev(Int16ub)), ("rev/struct", Rev(Struct("a" / Byte, "b" / Byte))),
                  ("badenc", BadEnc(GreedyBytes)), ("raising", RaisingDec(GreedyBytes)),
                  ("abstract", Abstract(GreedyBytes))]:
    for obj in [b"", b"abc", 258, dict(a=1, b=2), None]:
        show("build %s %r" % (name, obj), lambda: con.build(obj))
    show("build %s extra" % name, lambda: con.build(b"xyz", extra=6))
    s = io.BytesIO(b"0123456789")
    s.seek(4)
    show("build_stream %s" % name, lambda: con.build_stream(b"AB", s))
    print("   pos", s.tell(), s.getvalue())
    for mode in ["writefail", "short", "ok"]:
        bs = BadStream(mode)
        show("build_stream %s %s" % (name, mode), lambda: con.build_stream(b"AB", bs))
        print("   calls", bs.calls)
    # _build return value (the obj, not the inner return)
    s = io.BytesIO()
    ctx = Container(_building=True, _parsing=False, _sizing=False)
    ctx._params = ctx
    show("_build %s" % name, lambda: con._build(b"QR", s, ctx, "(p)"))
    print("   wrote", s.getvalue())
    show("sizeof %s" % name, lambda: con.sizeof())

# 3. the library's own Tunnel subclasses
comp = Compressed(GreedyBytes, "zlib")
show("compressed build", lambda: comp.build(b"a" * 40))
show("compressed parse", lambda: comp.parse(comp.build(b"a" * 40)))
show("compressed parse junk", lambda: comp.parse(b"junk"))
show("compressed sizeof", lambda: comp.sizeof())
pc = Prefixed(Byte, Compressed(GreedyBytes, "zlib"))
show("prefixed compressed roundtrip", lambda: pc.parse(pc.build(b"hello hello hello")))
st = Struct("n" / Byte, "t" / Rev(GreedyBytes))
show("struct build", lambda: st.build(dict(n=1, t=b"abc")))
show("struct parse", lambda: st.parse(b"\x01abc"))
show("struct build bad", lambda: st.build(dict(n=1, t=5)))
