import sys
sys.path.insert(0, sys.argv[1])

import itertools
import operator

from construct import expr as E
from construct.expr import this, obj_, list_, len_, sum_, min_, max_, abs_, UniExpr, BinExpr


def show(label, fn):
    try:
        print(label, "->", repr(fn()))
    except BaseException as e:
        print(label, "-> EXC", type(e).__name__, str(e)[:80])


class BadRepr(object):
    def __repr__(self):
        raise KeyError("badrepr")
    def __str__(self):
        raise IndexError("badstr")


class IntSub(int):
    def __repr__(self):
        return "IntSub(%d)" % int(self)
    __str__ = __repr__


class FloatSub(float):
    pass


class LtBomb(object):
    def __lt__(self, other):
        raise ZeroDivisionError("lt")
    def __repr__(self):
        return "LtBomb()"


leaves = [
    this.a, this["b"], this._.c, obj_, list_[0], len_(this.x), abs_,
    0, 1, -1, -0, 5, -5, 10**30, -10**30,
    0.0, -0.0, 1.5, -1.5, float("inf"), float("-inf"), float("nan"),
    True, False, None, "s", "-1", b"b", b"-1", 1j, -1j, complex(-1, -1),
    IntSub(-3), IntSub(3), FloatSub(-2.5), FloatSub(2.5),
    (1, -2), [-1], LtBomb(),
]

# direct calls of the module helper
for i, v in enumerate(leaves):
    show("operand repr %d" % i, lambda: E._operand(v, repr))
    show("operand str %d" % i, lambda: E._operand(v, str))
show("operand badrepr repr", lambda: E._operand(BadRepr(), repr))
show("operand badrepr str", lambda: E._operand(BadRepr(), str))
show("operand custom render", lambda: E._operand(-7, lambda x: "<%s>" % x))
show("operand uni custom render", lambda: E._operand(-this.a, lambda x: "R"))

unops = [operator.neg, operator.pos, operator.not_]
binops = [operator.add, operator.sub, operator.mul, operator.div, operator.floordiv,
          operator.mod, operator.pow, operator.xor, operator.lshift, operator.rshift,
          operator.and_, operator.or_, operator.contains, operator.gt, operator.ge,
          operator.lt, operator.le, operator.eq, operator.ne]

# unary over every leaf, and nested unary
for ui, u in enumerate(unops):
    for i, v in enumerate(leaves):
        e = UniExpr(u, v)
        show("uni %d %d repr" % (ui, i), lambda: repr(e))
        show("uni %d %d str" % (ui, i), lambda: str(e))
        for u2i, u2 in enumerate(unops):
            e2 = UniExpr(u2, e)
            show("uni2 %d %d %d repr" % (u2i, ui, i), lambda: repr(e2))
            show("uni2 %d %d %d str" % (u2i, ui, i), lambda: str(e2))

# binary over leaf pairs (subset of ops for all pairs, all ops for a subset of pairs)
small = [this.a, -this.a, ~this["b"], +obj_, -1, 1, -1.5, True, "s", b"-1", IntSub(-3), this.a + 1, -(this.a * -2)]
for bi, b in enumerate(binops):
    for (i, l), (j, r) in itertools.product(enumerate(small), repeat=2):
        e = BinExpr(b, l, r)
        show("bin %d %d %d repr" % (bi, i, j), lambda: repr(e))
        show("bin %d %d %d str" % (bi, i, j), lambda: str(e))
for (i, l), (j, r) in itertools.product(enumerate(leaves), repeat=2):
    e = BinExpr(operator.pow, l, r)
    show("pow %d %d repr" % (i, j), lambda: repr(e))
    e = BinExpr(operator.sub, l, r)
    show("sub %d %d str" % (i, j), lambda: str(e))

# failing renders inside expressions
show("uni badrepr repr", lambda: repr(UniExpr(operator.neg, BadRepr())))
show("uni badrepr str", lambda: str(UniExpr(operator.neg, BadRepr())))
show("bin badrepr lhs", lambda: repr(BinExpr(operator.add, BadRepr(), -1)))
show("bin badrepr rhs", lambda: str(BinExpr(operator.add, -1, BadRepr())))
show("bin unknown op", lambda: repr(BinExpr(operator.matmul, this.a, -1)))
show("uni unknown op", lambda: repr(UniExpr(operator.invert, -1)))

# expressions built through the operator overloads, repr round trip and evaluation
ns = {"this": this, "obj_": obj_, "list_": list_, "len_": len_, "sum_": sum_, "min_": min_, "max_": max_, "abs_": abs_}
built = [
    -this.a ** 2, (-this.a) ** 2, 2 ** -this.a, -2 ** this.a, (-2) ** this.a, this.a - -3, this.a - (-this["b"]),
    -(-this.a), ~-this.a, -~this.a, +-+this.a, this.a * -1.5, -1 - this.a, 1 - -this.a, this.a << -this._.c,
    (this.a + 1) * -(this["b"] - 2), -(this.a == 1), ~(this.a < -1), this.a // -2, -7 % this.a, this.a % -7,
    abs_(this.a) - -1, -len_(this.x), this.a & -1 | this["b"] ^ -2,
]
ctxs = [dict(a=a, b=b, x=[1] * (a % 3), _=dict(c=c)) for a in (-2, -1, 1, 2, 3) for b in (-1, 0, 2) for c in (0, 1)]
for i, e in enumerate(built):
    show("built %d repr" % i, lambda: repr(e))
    show("built %d str" % i, lambda: str(e))
    try:
        back = eval(repr(e), dict(ns))
    except BaseException as ex:
        print("built %d eval EXC" % i, type(ex).__name__)
        continue
    for k, ctx in enumerate(ctxs):
        show("built %d ctx %d direct" % (i, k), lambda: e(ctx))
        show("built %d ctx %d via repr" % (i, k), lambda: back(ctx))
