#!/usr/bin/env python
"""
usage: equiv.py <repo root>

Prints deterministic observations of everything that goes through
construct.core.Transformed (ByteSwapped, BitsSwapped on fixed-size subcons,
Bitwise/Bytewise on fixed-size subcons, direct use with all kinds of amounts).
The output must be byte-identical before and after the refactoring.
"""
import sys, io

sys.path.insert(0, sys.argv[1])
from construct import *
from construct.lib import *

N = [0]

def show(label, value):
    N[0] += 1
    print("%03d %s: %s" % (N[0], label, value))

def obs(label, func, *a, **kw):
    try:
        r = func(*a, **kw)
        show(label, "-> %r" % (r,))
    except Exception as e:
        show(label, "raised %s: %s" % (type(e).__name__, e))

def obs_stream_parse(label, d, data, **kw):
    s = io.BytesIO(data)
    try:
        r = d.parse_stream(s, **kw)
        show(label, "-> %r, stream at %d of %d" % (r, s.tell(), len(data)))
    except Exception as e:
        show(label, "raised %s: %s, stream at %d of %d" % (type(e).__name__, e, s.tell(), len(data)))

def obs_stream_build(label, d, obj, prefix=b"", **kw):
    s = io.BytesIO()
    s.write(prefix)
    try:
        d.build_stream(obj, s, **kw)
        show(label, "-> %r, stream at %d" % (s.getvalue(), s.tell()))
    except Exception as e:
        show(label, "raised %s: %s, stream holds %r at %d" % (type(e).__name__, e, s.getvalue(), s.tell()))

SAMPLE = bytes((53 * i + 7) & 0xff for i in range(40))

# --- ByteSwapped / BitsSwapped over sizes 1..16 -------------------------------
for n in range(1, 17):
    data = SAMPLE[:n]
    d = ByteSwapped(Bytes(n))
    obs("ByteSwapped(Bytes(%d)).parse" % n, d.parse, data)
    obs("ByteSwapped(Bytes(%d)).build" % n, d.build, data)
    obs("ByteSwapped(Bytes(%d)).sizeof" % n, d.sizeof)
    d = BitsSwapped(Bytes(n))
    obs("BitsSwapped(Bytes(%d)).parse" % n, d.parse, data)
    obs("BitsSwapped(Bytes(%d)).build" % n, d.build, data)
    obs("BitsSwapped(Bytes(%d)).sizeof" % n, d.sizeof)

# zero-sized and nested
obs("ByteSwapped(Bytes(0)).parse", ByteSwapped(Bytes(0)).parse, b"xyz")
obs("ByteSwapped(Bytes(0)).build", ByteSwapped(Bytes(0)).build, b"")
obs("ByteSwapped(ByteSwapped(Bytes(5))).parse", ByteSwapped(ByteSwapped(Bytes(5))).parse, b"12345")
obs("BitsSwapped(ByteSwapped(Int32ub)).parse", BitsSwapped(ByteSwapped(Int32ub)).parse, b"\x01\x02\x03\x04")
obs("BitsSwapped(ByteSwapped(Int32ub)).build", BitsSwapped(ByteSwapped(Int32ub)).build, 0x01020304)
obs("BitsSwapped(ByteSwapped(Int32ub)).sizeof", BitsSwapped(ByteSwapped(Int32ub)).sizeof)

# integers, structs, bit structs
for name, d, data in [
    ("ByteSwapped(Int16ub)", ByteSwapped(Int16ub), b"\x01\x02"),
    ("ByteSwapped(Int24ub)", ByteSwapped(Int24ub), b"\x01\x02\x03"),
    ("ByteSwapped(Int64sb)", ByteSwapped(Int64sb), b"\xff\x02\x03\x04\x05\x06\x07\x08"),
    ("ByteSwapped(BytesInteger(11))", ByteSwapped(BytesInteger(11)), SAMPLE[:11]),
    ("BitsSwapped(BytesInteger(8))", BitsSwapped(BytesInteger(8)), SAMPLE[:8]),
    ("ByteSwapped(Struct(a/Byte,b/Int16ub))", ByteSwapped(Struct("a" / Byte, "b" / Int16ub)), b"\x01\x02\x03"),
    ("ByteSwapped(Array(3,Int16ub))", ByteSwapped(Array(3, Int16ub)), b"\x01\x02\x03\x04\x05\x06"),
    ("ByteSwapped(BitStruct)", ByteSwapped(BitStruct("f1" / Bit, "f2" / Bit, Padding(2), "n" / BitsInteger(16), Padding(4))), b"\xd0\xbc\xfa"),
    ("BitsSwapped(BitStruct(a/Nibble,b/Nibble))", BitsSwapped(BitStruct("a" / Nibble, "b" / Nibble)), b"\xf1"),
    ("BitsSwapped(Bitwise(Bytes(8)))", BitsSwapped(Bitwise(Bytes(8))), b"\xf2"),
    ("Bitwise(Bytes(16))", Bitwise(Bytes(16)), b"\xa5\x3c"),
    ("Bitwise(Bytewise(Bytes(2)))", Bitwise(Bytewise(Bytes(2))), b"\xa5\x3c"),
]:
    obs(name + ".parse", d.parse, data)
    try:
        obj = d.parse(data)
        obs(name + ".build(parse(data))", d.build, obj)
    except Exception as e:
        show(name + ".build(parse(data))", "skipped, parse raised %s" % type(e).__name__)
    obs(name + ".sizeof", d.sizeof)
    obs(name + ".parse truncated", d.parse, data[:-1])
    obs_stream_parse(name + ".parse_stream with trailing bytes", d, data + b"TRAIL")

# --- stream positions inside a Struct ------------------------------------------
st = Struct("h" / Byte, "x" / ByteSwapped(Bytes(3)), "p" / Tell, "y" / BitsSwapped(Int16ub), "q" / Tell, "rest" / GreedyBytes)
obs_stream_parse("Struct with swapped members parse", st, b"\x09abc\x80\x01tail")
obs_stream_build("Struct with swapped members build", st, dict(h=9, x=b"abc", y=0x0180, rest=b"tail"), prefix=b"##")
obs("Struct with swapped members sizeof", st.sizeof)
c = st.compile()
obs("compiled Struct parse", c.parse, b"\x09abc\x80\x01tail")
obs("compiled Struct build", c.build, dict(h=9, x=b"abc", y=0x0180, rest=b"tail"))
c2 = ByteSwapped(Int32ub).compile()
obs("compiled ByteSwapped(Int32ub) parse", c2.parse, b"\x01\x02\x03\x04")
obs("compiled ByteSwapped(Int32ub) build", c2.build, 0x04030201)

# --- Transformed used directly, all kinds of amounts ---------------------------
calls = []
def dec(data):
    calls.append(("dec", data))
    return data[::-1]
def enc(data):
    calls.append(("enc", data))
    return data[::-1]

AMOUNTS = [None, 0, 1, 3, 4, True, False, -1, 2.0, "3", (3,), b"\x03"]
for da in AMOUNTS:
    for ea in (None, 3, 4, True, 2.0, "3"):
        d = Transformed(Bytes(3) if da is not None else GreedyBytes, dec, da, enc, ea)
        tag = "Transformed(dec=%r, enc=%r)" % (da, ea)
        del calls[:]
        obs_stream_parse(tag + ".parse_stream(b'abcdef')", d, b"abcdef")
        obs_stream_build(tag + ".build_stream(b'xyz')", d, b"xyz", prefix=b">")
        obs(tag + ".sizeof", d.sizeof)
        show(tag + " callbacks", calls[:])

# encoder producing a different amount than declared, and non-bytes results
d = Transformed(Bytes(2), lambda b: b + b, 1, lambda b: b[:1], 1)
obs("doubling Transformed parse", d.parse, b"ab")
obs("doubling Transformed build", d.build, b"aa")
obs("doubling Transformed build wrong inner size", d.build, b"a")
d = Transformed(Bytes(2), lambda b: b, 2, lambda b: b + b"!", 2)
obs_stream_build("encoder yields 3 instead of 2", d, b"ab", prefix=b">")
d = Transformed(Bytes(2), lambda b: b, 2, lambda b: b + b"!", None)
obs_stream_build("encoder yields 3, amount None", d, b"ab", prefix=b">")
d = Transformed(Bytes(2), lambda b: "st", 2, lambda b: "st", 2)
obs("decoder returns str", d.parse, b"ab")
obs("encoder returns str", d.build, b"ab")
d = Transformed(Bytes(2), lambda b: None, 2, lambda b: None, 2)
obs("decoder returns None", d.parse, b"ab")
obs("encoder returns None, int amount", d.build, b"ab")
d = Transformed(Bytes(2), lambda b: None, None, lambda b: None, None)
obs("encoder returns None, amount None", d.build, b"ab")
d = Transformed(Bytes(2), lambda b: bytearray(b), 2, lambda b: bytearray(b), 2)
obs("decoder returns bytearray", d.parse, b"ab")
obs("encoder returns bytearray", d.build, b"ab")
def boom(data):
    raise KeyError("boom %r" % (data,))
d = Transformed(Bytes(2), boom, 2, boom, 2)
obs("decoder raises", d.parse, b"ab")
obs("encoder raises", d.build, b"ab")
d = Transformed(Bytes(2), dec, 2, enc, 2)
obs("inner build fails before encoder", d.build, b"abc")

# Transformed with GreedyBytes / GreedyString and no amounts
d = Transformed(GreedyBytes, bytes2bits, None, bits2bytes, None)
obs("Transformed(GreedyBytes, bits) parse", d.parse, b"\x81")
obs("Transformed(GreedyBytes, bits) build", d.build, b"\x01\x00\x00\x00\x00\x00\x00\x01")
obs("Transformed(GreedyBytes, bits) build bad length", d.build, b"\x01\x00\x00")
obs("Transformed(GreedyBytes, bits) sizeof", d.sizeof)
d = Transformed(Bytes(16), bytes2bits, 2, bits2bytes, 2)
obs("Transformed(Bytes(16), bits, 2) parse", d.parse, b"\xa5\x3c")
obs("Transformed(Bytes(16), bits, 2) sizeof", d.sizeof)
d = Transformed(Bytes(16), bytes2bits, 2, bits2bytes, 3)
obs("mismatched amounts sizeof", d.sizeof)
obs("mismatched amounts build", d.build, bytes(16))

# parsed hook and build return value pass through
seen = []
d = ByteSwapped(Bytes(2) * (lambda obj, ctx: seen.append(obj)))
obs("parsed hook under ByteSwapped", d.parse, b"ab")
show("hook saw", seen)
d = ByteSwapped(Struct("n" / Rebuild(Byte, 7), "m" / Byte))
obs("Rebuild under ByteSwapped build", d.build, dict(m=1))
d = Struct("v" / ByteSwapped(Default(Int16ub, 0x0102)), "c" / Computed(this.v))
obs("Default under ByteSwapped, build result visible in context", d.build, dict())
obs("Default under ByteSwapped parse", d.parse, b"\x02\x01")

show("total observations", N[0])
