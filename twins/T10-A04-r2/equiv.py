import sys, io
sys.path.insert(0, sys.argv[1])
from construct import *
from construct.core import *

class LogStream(io.BytesIO):
    """BytesIO that logs every tell/seek/read/write."""
    def __init__(self, data=b""):
        super().__init__(data)
        self.log = []
    def tell(self):
        r = super().tell(); self.log.append(("tell", r)); return r
    def seek(self, *a):
        r = super().seek(*a); self.log.append(("seek", a, r)); return r
    def read(self, *a):
        r = super().read(*a); self.log.append(("read", a, r)); return r
    def write(self, b):
        r = super().write(b); self.log.append(("write", bytes(b), r)); return r

def exc(e):
    return ("EXC", type(e).__name__, getattr(e, "path", None), str(e))

def parse_logged(d, data, skip=0, **ctx):
    s = LogStream(data)
    io.BytesIO.seek(s, skip)
    try:
        r = d.parse_stream(s, **ctx)
    except BaseException as e:
        r = exc(e)
    return r, io.BytesIO.tell(s), s.log

def build_logged(d, obj, prefix=b"", **ctx):
    s = LogStream()
    io.BytesIO.write(s, prefix)
    try:
        r = d.build_stream(obj, s, **ctx)
    except BaseException as e:
        r = exc(e)
    return r, io.BytesIO.tell(s), s.getvalue(), s.log

def show(label, fn):
    try:
        r = fn()
    except BaseException as e:
        r = exc(e)
    print(label, "->", repr(r))

calls = []
def hook(tag):
    def f(obj, ctx):
        calls.append((tag, obj))
    return f

# fixed-size subcon
d = Padded(4, Byte)
for data in [b"\xff\x00\x00\x00", b"\x01\x02\x03\x04\x05", b"\x01\x02\x03", b"\x01", b""]:
    print("parse Padded(4,Byte) %r" % data, parse_logged(d, data))
print("parse Padded(4,Byte) skip=2", parse_logged(d, b"zz\x09abcXX", skip=2))
for obj in [255, 0, 256, None, "x"]:
    print("build Padded(4,Byte) %r" % (obj,), build_logged(d, obj, prefix=b"PP"))
show("sizeof Padded(4,Byte)", lambda: d.sizeof())

# variable-size subcon
d = Padded(4, VarInt)
for v in [1, 70000, 2**21, 2**28 - 1, 2**28, 2**40]:
    print("build Padded(4,VarInt) %d" % v, build_logged(d, v))
for data in [b"\x01\x00\x00\x00", b"\xf0\xa2\x04\x00", b"\x80\x80\x80\x01", b"\x80\x80\x80\x80\x01", b"\x80\x80\x80\x80\x80\x01zz", b"\x80\x80"]:
    print("parse Padded(4,VarInt) %r" % data, parse_logged(d, data))

# pad exactly zero / subcon overrun
d = Padded(2, Int16ub)
print("parse exact", parse_logged(d, b"\x01\x02\x03"))
print("build exact", build_logged(d, 258))
d = Padded(1, Int16ub)
print("parse overrun", parse_logged(d, b"\x01\x02\x03"))
print("build overrun", build_logged(d, 258, prefix=b"Q"))
d = Padded(0, Pass)
print("parse zero", parse_logged(d, b"abc"))
print("build zero", build_logged(d, None))
d = Padded(0, Byte)
print("parse zero overrun", parse_logged(d, b"abc"))
print("build zero overrun", build_logged(d, 1))

# negative and contextual length
d = Padded(this.n, Byte, pattern=b"*")
for n in [-1, 0, 1, 2, 5]:
    print("parse n=%d" % n, parse_logged(d, b"\x07abcdef", n=n))
    print("build n=%d" % n, build_logged(d, 7, n=n))
    show("sizeof n=%d" % n, lambda: d.sizeof(n=n))
show("sizeof missing ctx", lambda: d.sizeof())
show("parse missing ctx", lambda: d.parse(b"\x01\x02"))
show("build missing ctx", lambda: d.build(1))
show("parse length str", lambda: Padded("4", Byte).parse(b"\x01\x02\x03\x04"))
show("parse length float", lambda: Padded(2.5, Byte).parse(b"\x01\x02\x03\x04"))
show("build length float", lambda: Padded(2.5, Byte).build(1))

# pattern
show("pattern bad type", lambda: Padded(4, Byte, pattern="x"))
show("pattern bad len", lambda: Padded(4, Byte, pattern=b"xy"))
show("pattern empty", lambda: Padded(4, Byte, pattern=b""))
print("build pattern", build_logged(Padded(5, Bytes(2), pattern=b"\xaa"), b"hi"))
print("Padding build", build_logged(Padding(3, pattern=b"-"), None))
print("Padding parse", parse_logged(Padding(3), b"abcd"))
print("Padding parse short", parse_logged(Padding(3), b"ab"))
show("Padding sizeof", lambda: Padding(3).sizeof())

# build return value and hooks order
calls.clear()
d = Padded(4, Byte * hook("byte")) * hook("padded")
print("hooks parse", parse_logged(d, b"\x05\x00\x00\x00"), calls); calls.clear()
print("hooks parse fail", parse_logged(Padded(0, Byte * hook("byte")) * hook("padded"), b"\x05"), calls); calls.clear()
d = Padded(6, Struct("a" / Byte, "b" / Rebuild(Byte, this.a + 1)))
print("struct build", build_logged(d, dict(a=1)))
print("struct parse", parse_logged(d, b"\x01\x02\x00\x00\x00\x00\x09"))

# subcon that seeks backwards: negative consumed amount
back = Padded(3, Seek(0))
print("seek-back parse", parse_logged(back, b"abcdefgh", skip=2))
print("seek-back build", build_logged(back, None, prefix=b"ab"))
fwd = Padded(3, Seek(10))
print("seek-fwd parse", parse_logged(fwd, b"abcdefghijklmnop", skip=2))
print("seek-fwd build", build_logged(fwd, None, prefix=b"ab"))

# nested in Struct: path in errors
st = Struct("h" / Byte, "p" / Padded(this.h, Int16ub), "t" / Tell)
for data in [b"\x04\x00\x01\x00\x00Z", b"\x02\x00\x01Z", b"\x01\x00\x01Z", b"\x04\x00\x01", b"\x04\x00"]:
    print("struct2 parse %r" % data, parse_logged(st, data))
for h in [4, 2, 1, 0]:
    print("struct2 build h=%d" % h, build_logged(st, dict(h=h, p=513)))

# non-tellable stream
class NoTell(io.BytesIO):
    def tell(self): raise OSError("no tell")
show("notell parse", lambda: Padded(4, Byte).parse_stream(NoTell(b"\x01\x02\x03\x04")))
show("notell build", lambda: Padded(4, Byte).build_stream(1, NoTell()))

# compiled
dc = Struct("a" / Padded(4, Byte), "b" / Padded(3, Int16ub, pattern=b"."))
c = dc.compile()
print("compiled parse", c.parse(b"\x01\x00\x00\x00\x00\x02\x00"))
print("compiled build", c.build(dict(a=1, b=2)))
print("compiled src has padded read", "io.read((4)-(1) )" in c.source, "io.read((3)-(2) )" in c.source)
