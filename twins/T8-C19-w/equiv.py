import sys
sys.path.insert(0, sys.argv[1])
import construct
from construct import *
from construct.core import KsyGen

assert construct.__file__.startswith(sys.argv[1]), construct.__file__

ENTRIES = ("_compileseq", "_compilefulltype", "_compileprimitivetype")


def call(label, con, entry, *args, **kw):
    gen = KsyGen()
    try:
        r = getattr(con, entry)(gen, *args, **kw)
        out = repr(r)
    except Exception as e:
        out = "EXC %s %s" % (type(e).__name__, e)
    print(label, entry, args, sorted(kw.items()), out)
    print("   gen", gen.nextid, repr(gen.instances), repr(gen.enums), repr(gen.types))


class Bare(Construct):
    pass


class OnlySeq(Construct):
    def _emitseq(self, ksy, bitwise):
        return [dict(id="a_b_", type="u1", size_eos=True)]


class OnlyPrim(Construct):
    def _emitprimitivetype(self, ksy, bitwise):
        return "u%s" % ksy.allocateId()


class OnlyFull(Construct):
    def _emitfulltype(self, ksy, bitwise):
        return dict(repeat_expr=3, type_="u1", _x_y="q")


class Boom(Construct):
    def _emitseq(self, ksy, bitwise):
        raise KeyError("seq")

    def _emitprimitivetype(self, ksy, bitwise):
        raise ValueError("prim")

    def _emitfulltype(self, ksy, bitwise):
        raise ConstructError("full")


class BadReturn(Construct):
    def _emitseq(self, ksy, bitwise):
        return None

    def _emitfulltype(self, ksy, bitwise):
        return [1, 2]


class Counting(Construct):
    """records the order in which the ladder visits the emitters"""
    def __init__(self):
        super().__init__()
        self.log = []

    def _emitseq(self, ksy, bitwise):
        self.log.append("seq")
        raise NotImplementedError

    def _emitprimitivetype(self, ksy, bitwise):
        self.log.append("prim")
        raise NotImplementedError

    def _emitfulltype(self, ksy, bitwise):
        self.log.append("full")
        raise NotImplementedError


cases = [
    ("bare", Bare()),
    ("onlyseq", OnlySeq()),
    ("onlyprim", OnlyPrim()),
    ("onlyfull", OnlyFull()),
    ("boom", Boom()),
    ("badreturn", BadReturn()),
    ("byte", Byte),
    ("float", Float32l),
    ("bytes", Bytes(4)),
    ("greedybytes", GreedyBytes),
    ("varint", VarInt),
    ("zigzag", ZigZag),
    ("flag", Flag),
    ("enum", Enum(Byte, a=1, b=2)),
    ("flagsenum", FlagsEnum(Byte, a=1)),
    ("struct", Struct("a" / Byte, "b_c" / Int16ul, Const(b"MZ"), "s" / Struct("x" / Byte))),
    ("sequence", Sequence(Byte, Int16ub)),
    ("array", Array(3, Byte)),
    ("array_struct", Array(2, Struct("a" / Byte))),
    ("greedyrange", GreedyRange(Int16ub)),
    ("repeatuntil", RepeatUntil(obj_ == 0, Byte)),
    ("prefixed", Prefixed(Byte, GreedyBytes)),
    ("prefixedarray", PrefixedArray(Byte, Int16ub)),
    ("padded", Padded(4, Byte)),
    ("padding", Padding(3)),
    ("if", If(this.a > 0, Byte)),
    ("ifthenelse", IfThenElse(this.a > 0, Byte, Int16ub)),
    ("pointer", Pointer(8, Byte)),
    ("pointer_struct", Pointer(this.off, Struct("a" / Byte))),
    ("fixedsized", FixedSized(4, GreedyBytes)),
    ("nullterminated", NullTerminated(GreedyBytes)),
    ("nullterminated2", NullTerminated(GreedyBytes, term=b"\x00\x00")),
    ("nullstripped", NullStripped(GreedyBytes)),
    ("paddedstring", PaddedString(8, "utf8")),
    ("pascalstring", PascalString(Byte, "utf8")),
    ("cstring", CString("utf8")),
    ("greedystring", GreedyString("utf8")),
    ("bitstruct", BitStruct("a" / BitsInteger(3), "b" / Flag, Padding(4))),
    ("bitwise_byte", Bitwise(Byte)),
    ("computed", Computed(1)),
    ("pass", Pass),
    ("terminated", Terminated),
    ("switch", Switch(this.a, {1: Byte})),
    ("select", Select(Byte, Int16ub)),
    ("aligned", Aligned(4, Byte)),
    ("checksum_like", Struct("a" / Bare())),
    ("nested_bare", Array(2, Bare())),
    ("renamed_bare", "n" / Bare()),
    ("doc", "n" / Byte * "docstring"),
]

for label, con in cases:
    for entry in ENTRIES:
        call(label, con, entry)
        call(label, con, entry, True)

# explicit recursion depths incl. boundary and odd values
probe = [
    ("bare", Bare()), ("onlyseq", OnlySeq()), ("onlyprim", OnlyPrim()), ("onlyfull", OnlyFull()),
    ("byte", Byte), ("struct", Struct("a" / Byte)), ("boom", Boom()),
]
for label, con in probe:
    for entry in ENTRIES:
        for rec in (-5, 0, 1, 2, 3, 4, 100, 2.5, 3.0, True, None, "3", [3]):
            call(label, con, entry, False, rec)
        call(label, con, entry, bitwise=True, recursion=2)
        call(label, con, entry, recursion=3)

for entry in ENTRIES:
    for rec in (0, 1, 2, 3):
        c = Counting()
        call("counting", c, entry, False, rec)
        print("   log", c.log)

for con in (Bare(), Struct("a" / Byte), Struct("a" / Bare())):
    try:
        con.export_ksy()
        print("export ok")
    except Exception as e:
        print("export EXC", type(e).__name__)
