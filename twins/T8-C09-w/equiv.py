import sys, io, itertools
sys.path.insert(0, sys.argv[1])
from construct import *

class Tr(io.BytesIO):
    def __init__(self, data=b"", failtell=None, failseek=None):
        super().__init__(data)
        self.log = []
        self.ntell = 0
        self.nseek = 0
        self.failtell = failtell
        self.failseek = failseek
    def tell(self):
        self.ntell += 1
        if self.failtell == self.ntell:
            self.log.append("tell!")
            raise OSError("tell")
        r = super().tell()
        self.log.append("t%d" % r)
        return r
    def seek(self, off, whence=0):
        self.nseek += 1
        if self.failseek == self.nseek:
            self.log.append("seek!")
            raise OSError("seek")
        r = super().seek(off, whence)
        self.log.append("s%r,%r>%d" % (off, whence, r))
        return r
    def read(self, n=-1):
        r = super().read(n)
        self.log.append("r%r=%d" % (n, len(r)))
        return r

def pos(s):
    return io.BytesIO.tell(s)

def chain(e):
    out = []
    seen = 0
    while e is not None and seen < 10:
        e = e.__context__
        out.append(type(e).__name__)
        seen += 1
    return ">".join(out)

def run(label, f):
    try:
        r = f()
        print(label, "->", repr(r))
    except BaseException as e:
        print(label, "!!", type(e).__name__, getattr(e, "path", None), "chain=" + chain(e))

def boom(ctx):
    raise ZeroDivisionError("boom")
def kbi(ctx):
    raise KeyboardInterrupt()
def stopit(ctx):
    raise StopFieldError()

alts = {
    "Byte": Byte,
    "Int16ub": Int16ub,
    "Int32ub": Int32ub,
    "Const12": Const(b"\x01\x02"),
    "Const123x": Const(b"\x01\x02\x03\xff"),
    "Pascal": PascalString(Byte, "utf8"),
    "CStr": CString("ascii"),
    "Prefixed": Prefixed(Byte, Int16ub[2]),
    "Check": Struct("a" / Byte, "b" / Byte, Check(this.a < this.b)),
    "OneOf": Struct("a" / Int16ub, "b" / OneOf(Byte, [3, 4])),
    "Nested": Select(Const(b"\x01\x02\x09"), Struct("h" / Const(b"\x01"), "t" / Bytes(4))),
    "Opt": Optional(Const(b"\x07\x07")),
    "GRange": GreedyRange(Const(b"\x01")),
    "Error": Error,
    "StructErr": Struct("a" / Int16ub, Error),
    "Pass": Pass,
    "Boom": Struct("a" / Byte, "z" / Computed(boom)),
    "Stop": Struct("a" / Byte, "z" / Computed(stopit)),
    "KBI": Struct("a" / Byte, "z" / Computed(kbi)),
    "Peek": Peek(Int32ub),
    "Pointer": Pointer(3, Const(b"\x04")),
    "Named": "nm" / Int24ub,
    "Term": Terminated,
    "None0": Computed(lambda ctx: None),
    "Zero": Computed(lambda ctx: 0),
}
inputs = [
    b"", b"\x01", b"\x01\x02", b"\x01\x02\x03", b"\x01\x02\x03\x04", b"\x01\x02\x03\x04\x05\x06",
    b"\x01\x02\x09\x09\x09", b"\x05hello", b"\x05hel", b"\x02\xff\xfe", b"abc\x00def", b"\x80\x81\x82",
    b"\x04\x00\x01\x00\x02rest", b"\x07\x07\x07", b"\x01\x01\x01\x02",
]
names = sorted(alts)
combos = []
combos += [(n,) for n in names]
combos += list(itertools.permutations(names, 2))
import random
rnd = random.Random(909)
allthree = list(itertools.permutations(names, 3))
combos += rnd.sample(allthree, 400)
combos.append(())

for combo in combos:
    d = Select(*[alts[n] for n in combo])
    for data in inputs:
        for start in (0, 1, 3):
            if start > len(data) + 1:
                continue
            s = Tr(data)
            io.BytesIO.seek(s, start)
            run("sel[%s] %r @%d" % (",".join(combo), data, start), lambda: d.parse_stream(s))
            print("   pos", pos(s), "log", " ".join(s.log))

# failure at every byte inside an alternative: truncate input at every length
big = Select(
    Struct("k" / Const(b"AB"), "n" / Byte, "v" / Bytes(this.n), "e" / Const(b"!")),
    Struct("k" / Const(b"A"), "w" / Int16ub, Check(this.w > 0x4200)),
    "s" / CString("ascii"),
    Struct("x" / Byte, "y" / Byte),
)
full = [b"AB\x03xyz!tail", b"AB\x03xyz?tail", b"ABC\x00\x00", b"A\x00\x01", b"zz\x00", b"\xff\xfe\xfd"]
for data in full:
    for cut in range(len(data) + 1):
        for start in (0, 1, 2):
            s = Tr(data[:cut])
            io.BytesIO.seek(s, start)
            run("big %r cut=%d @%d" % (data, cut, start), lambda: big.parse_stream(s))
            print("   pos", pos(s), "log", " ".join(s.log))

# tell / seek failing at each call
d = Select(Const(b"\xaa"), Const(b"\x01\x03"), Int16ub, Byte)
for data in (b"\x01\x02", b"\x01", b""):
    for ft in (None, 1, 2, 3, 4, 5):
        for fs in (None, 1, 2, 3, 4):
            s = Tr(data, failtell=ft, failseek=fs)
            run("fail %r ft=%s fs=%s" % (data, ft, fs), lambda: d.parse_stream(s))
            print("   pos", pos(s), "log", " ".join(s.log))

# Optional, top-level helpers, context, compiled, non seekable
run("opt hit", lambda: Optional(Int64ul).parse(b"12345678"))
run("opt miss", lambda: Optional(Int64ul).parse(b"1234567"))
run("seq opt", lambda: Sequence(Optional(Const(b"ab")), Optional(Const(b"xc")), GreedyBytes).parse(b"abxdz"))
run("ctx", lambda: Struct("n" / Byte, "v" / Select(Struct("q" / Bytes(this._.n), Check(this.q[0] == 0x61)), Bytes(1)), "t" / Tell).parse(b"\x02abc"))
run("ctx2", lambda: Struct("n" / Byte, "v" / Select(Struct("q" / Bytes(this._.n), Check(this.q[0] == 0x61)), Bytes(1)), "t" / Tell).parse(b"\x02bbc"))
run("index", lambda: Array(3, Select(Struct("i" / Index, "b" / Const(b"a")), Struct("i" / Index, "c" / Byte))).parse(b"aba"))
class NoSeek:
    def __init__(self, d): self.b = io.BytesIO(d)
    def read(self, n): return self.b.read(n)
run("noseek", lambda: Select(Byte, Int16ub).parse_stream(NoSeek(b"ab")))
run("compiled", lambda: Struct("a" / Select(Const(b"zz"), Int16ub), "t" / Tell).compile().parse(b"ab"))
run("build1", lambda: Select(Int32ub, CString("utf8")).build(1))
run("build2", lambda: Select(Int32ub, CString("utf8")).build(u"ab"))
run("build3", lambda: Select(Int32ub, CString("utf8")).build(b"x"))
run("buildnone", lambda: Select(Int32ub, Pass).build(None))
run("sizeof", lambda: Select(Byte).sizeof())
run("kw", lambda: Select(num=Int32ub, text=CString("utf8")).parse(b"ab\x00"))
run("lazy-ish", lambda: Select(Struct("a" / Int16ub, "r" / RawCopy(Const(b"x"))), RawCopy(Byte)).parse(b"\x00\x01y"))

# ---- building: every alternative combination x objects, traced writes
class Wr(io.BytesIO):
    def __init__(self, failwrite=None, short=False):
        super().__init__()
        self.log = []
        self.nw = 0
        self.failwrite = failwrite
        self.short = short
    def write(self, b):
        self.nw += 1
        if self.failwrite == self.nw:
            self.log.append("write!")
            raise OSError("write")
        r = super().write(b)
        self.log.append("w%d" % len(b))
        if self.short:
            return r - 1
        return r

balts = {
    "Byte": Byte,
    "Int16ub": Int16ub,
    "Const12": Const(b"\x01\x02"),
    "CStr": CString("ascii"),
    "Pascal": PascalString(Byte, "utf8"),
    "Bytes2": Bytes(2),
    "Greedy": GreedyBytes,
    "Struct": Struct("a" / Byte, "b" / Int16ub),
    "Check": Struct("a" / Byte, Check(this.a < 5)),
    "Error": Error,
    "StructErr": Struct("a" / Byte, Error),
    "Pass": Pass,
    "Boom": Struct("a" / Byte, "z" / Rebuild(Byte, boom)),
    "KBI": Struct("a" / Byte, "z" / Rebuild(Byte, kbi)),
    "Arr": Byte[2],
    "Ctx": Struct("a" / Byte, "n" / Rebuild(Byte, this._params.get("k", 9) if False else (lambda ctx: ctx._params["k"]))),
    "Opt": Optional(Int16ub),
}
objs = [None, 0, 1, 255, 256, 70000, -1, b"", b"ab", b"abc", "hi", "h\xe9", dict(a=1, b=2), dict(a=9), dict(a=1), [1, 2], [1], 1.5]
bnames = sorted(balts)
bcombos = [(n,) for n in bnames] + list(itertools.permutations(bnames, 2)) + [()]
for combo in bcombos:
    d = Select(*[balts[n] for n in combo])
    for obj in objs:
        s = Wr()
        s.write(b"__")
        run("bsel[%s] %r" % (",".join(combo), obj), lambda: d.build_stream(obj, s, k=3))
        print("   pos", s.tell(), "data", s.getvalue(), "log", " ".join(s.log))
d = Select(Const(b"\x01\x02"), Int16ub, Byte, CString("ascii"))
for obj in (None, 5, 300, "x", 1.5):
    for fw in (None, 1, 2):
        for short in (False, True):
            s = Wr(failwrite=fw, short=short)
            run("bfail %r fw=%s short=%s" % (obj, fw, short), lambda: d.build_stream(obj, s))
            print("   pos", s.tell(), "data", s.getvalue(), "log", " ".join(s.log))
run("bctx", lambda: Struct("n" / Byte, "v" / Select(Struct("q" / Bytes(this._.n)), Bytes(1))).build(dict(n=2, v=dict(q=b"ab"))))
run("bctx2", lambda: Struct("n" / Byte, "v" / Select(Struct("q" / Bytes(this._.n)), Bytes(1))).build(dict(n=2, v=b"z")))
run("bopt", lambda: Struct("o" / Optional(Int16ub), "t" / Byte).build(dict(o=None, t=1)))
run("bopt2", lambda: Struct("o" / Optional(Int16ub), "t" / Byte).build(dict(o=7, t=1)))
run("bret", lambda: Struct("o" / Select(Rebuild(Byte, lambda c: 4), Pass), "c" / Computed(this.o)).build(dict(o=None)))
for obj in (5, 300, None, "s"):
    w = Wr()
    run("direct _build %r" % (obj,), lambda: Select(Byte, Const(b"k"), CString("ascii"))._build(obj, w, Container(), "(p)"))
    print("   data", w.getvalue(), "log", " ".join(w.log))
for data in (b"ab", b"k", b""):
    t = Tr(data)
    run("direct _parse %r" % (data,), lambda: Select(Int16ub, Const(b"k"), Pass)._parse(t, Container(), "(p)"))
    print("   pos", pos(t), "log", " ".join(t.log))
