import sys, io, re
sys.path.insert(0, sys.argv[1])
from construct import *
from construct.core import *

def exc(e):
    return ("EXC", type(e).__name__, getattr(e, "path", None), str(e))

def show(label, fn):
    try:
        r = fn()
    except BaseException as e:
        r = exc(e)
    print(label, "->", repr(r))

def build_pos(d, obj, prefix=b"", **ctx):
    s = io.BytesIO()
    s.write(prefix)
    try:
        r = d.build_stream(obj, s, **ctx)
    except BaseException as e:
        r = exc(e)
    return r, s.tell(), s.getvalue()

def union_fragment(source):
    """all generated build_union_* functions, verbatim"""
    out = []
    lines = source.split("\n")
    i = 0
    while i < len(lines):
        if re.match(r"def build_union_\d+\(", lines[i]):
            out.append(lines[i]); i += 1
            while i < len(lines) and (lines[i].startswith(" ") or lines[i] == ""):
                out.append(lines[i]); i += 1
        else:
            i += 1
    return out

calls = []
def hook(tag):
    def f(obj, ctx):
        calls.append((tag, obj))
    return f

cases = {
    "named4": Union(0, "raw" / Bytes(4), "ints" / Int16ub[2], "chars" / Byte[4]),
    "kw": Union(None, a=Int8ub, b=Int16ub),
    "anon_first": Union(None, Byte, "b" / Int16ub),
    "anon_only": Union(None, Byte),
    "buildnone_first": Union(None, "c" / Const(b"K"), "b" / Byte),
    "buildnone_mid": Union(None, "a" / Byte, "p" / Pass, "z" / Int16ub),
    "anon_buildnone": Union(None, "a" / Byte, Const(b"Q"), "z" / Int16ub),
    "rebuild": Union(None, "a" / Byte, "r" / Rebuild(Byte, lambda ctx: 7)),
    "default": Union(None, "d" / Default(Int16ub, 513)),
    "nested": Union(None, "s" / Struct("x" / Byte, "y" / Rebuild(Byte, this.x + 1)), "n" / Int32ub),
    "inner_union": Union(None, "u" / Union(None, "p" / Byte, "q" / Int16ub), "v" / Byte),
    "quote_name": Union(None, "it's" / Byte, 'dq"x' / Int16ub),
    "empty": Union(None),
}
objs = [
    dict(raw=b"abcd"), dict(ints=[1, 2]), dict(chars=[1, 2, 3, 4]), dict(chars=range(4)),
    dict(a=1), dict(b=2), dict(a=1, b=2), dict(b=2, a=1), dict(z=3), dict(p=None), dict(c=None),
    dict(r=1), dict(d=None), dict(d=5), dict(s=dict(x=1)), dict(n=9), dict(u=dict(q=5)), dict(u=dict(p=5)), dict(v=1),
    {"it's": 4}, {'dq"x': 5}, {None: 9}, dict(), dict(unrelated=1), dict(a="bad"), dict(a=None),
    Container(a=5), None, 5, [("a", 1)],
]

for name, d in cases.items():
    print("=====", name)
    try:
        c = d.compile()
    except BaseException as e:
        print("compile", exc(e))
        continue
    for line in union_fragment(c.source):
        print("SRC|" + line)
    import hashlib
    print("whole source: lines", len(c.source.split("\n")), "sha256", hashlib.sha256(c.source.encode()).hexdigest())
    for obj in objs:
        ri = build_pos(d, obj, prefix=b"..")
        rc = build_pos(c, obj, prefix=b"..")
        if ri[0].__class__ is tuple and rc[0].__class__ is tuple and ri[0][1] == rc[0][1] == "UnionError" and name not in ("empty",) and obj not in (dict(), None):
            # plain "no key matched" for both; keep output short but still deterministic
            print("  build %r interp/compiled both UnionError" % (obj,), ri[1:], rc[1:])
            continue
        print("  build %r" % (obj,))
        print("     interp  ", ri)
        print("     compiled", rc)

# callbacks order under compiled build
calls.clear()
d = Union(None, "a" / (Byte * hook("a")), "b" / (Int16ub * hook("b")))
c = d.compile()
print("hooks interp", build_pos(d, dict(b=1, a=2)), calls); calls.clear()
print("hooks compiled", build_pos(c, dict(b=1, a=2)), calls); calls.clear()

# context visibility in compiled build
d = Struct("k" / Byte, "u" / Union(None, "x" / Bytes(this._.k), "y" / Rebuild(Byte, this._.k * 2)))
c = d.compile()
for obj in [dict(k=2, u=dict(x=b"ab")), dict(k=2, u=dict(y=None)), dict(k=2, u=dict(x=b"abc")), dict(k=2, u=dict())]:
    print("ctx interp  ", build_pos(d, obj))
    print("ctx compiled", build_pos(c, obj))
for line in union_fragment(c.source):
    print("SRC|" + line)

# compiled parse unaffected
d = Union(0, "raw" / Bytes(4), "ints" / Int16ub[2])
c = d.compile()
print("parse interp", d.parse(b"\x00\x01\x00\x02zz"))
print("parse compiled", c.parse(b"\x00\x01\x00\x02zz"))
show("sizeof", lambda: d.sizeof())
