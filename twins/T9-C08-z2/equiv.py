#!/usr/bin/env python
"""equiv.py <repo root>

Deterministic observations of Prefixed (all length fields, includelength on/off)
and FixedSized (constant / context / lambda lengths): parse results with Tell and
RawCopy offsets inside the region, stream position afterwards, built bytes, sizeof,
lazy skipping through _actualsize (Lazy, LazyStruct, LazyArray), compiled parsers
and builders, exception type names, and the order in which user callbacks run.
Output must be byte-identical before/after a behaviour-preserving refactoring.
"""
import sys, io, itertools

root = sys.argv[1]
sys.path.insert(0, root)

from construct import *

N = [0]


def show(label, fn):
    N[0] += 1
    try:
        r = fn()
        print("%03d %s -> %r" % (N[0], label, r))
    except Exception as e:
        print("%03d %s !! %s" % (N[0], label, type(e).__name__))


def parse_pos(d, data, **kw):
    s = io.BytesIO(data)
    r = d.parse_stream(s, **kw)
    return r, s.tell(), s.read()


log = []


def hook(tag):
    def f(obj, ctx):
        log.append((tag, obj))
    return f


def lam(tag, value):
    def f(ctx):
        log.append(("eval", tag))
        return value(ctx) if callable(value) else value
    return f


body = Struct(
    "t0" / Tell,
    "head" / RawCopy(Optional(Int16ub)),
    "t1" / Tell,
    "items" / GreedyRange(Int16ub),
    "tail" / GreedyBytes,
    "t2" / Tell,
)

lengthfields = [
    ("Byte", Byte, lambda n: bytes([n & 0xff])),
    ("Int16ub", Int16ub, lambda n: (n & 0xffff).to_bytes(2, "big")),
    ("Int16ul", Int16ul, lambda n: (n & 0xffff).to_bytes(2, "little")),
    ("Int24ub", Int24ub, lambda n: (n & 0xffffff).to_bytes(3, "big")),
    ("VarInt", VarInt, lambda n: VarInt.build(n)),
]
payloads = [b"", b"a", b"ab", b"abc", b"abcdefg", bytes(range(65, 65 + 26)) * 6]

# ---------------------------------------------------------------- Prefixed parse: well formed, every length field, both flags, two offsets
for (ln, lf, enc), incl, payload, start in itertools.product(lengthfields, (False, True), payloads, (0, 3)):
    d = Struct("lead" / Bytes(start), "box" / Prefixed(lf, body, includelength=incl), "after" / Tell, "rest" / GreedyBytes)
    hdr = len(enc(0)) if ln != "VarInt" else len(VarInt.build(len(payload)))
    stored = len(payload) + (hdr if incl else 0)
    blob = b"#" * start + enc(stored) + payload + b"TAIL"
    show("Prefixed(%s,incl=%d) start=%d len=%d" % (ln, incl, start, len(payload)), lambda: parse_pos(d, blob))

# ---------------------------------------------------------------- Prefixed parse: raw stored values incl. too small, zero, overlong
for (ln, lf, enc), incl, stored in itertools.product(lengthfields[:4], (False, True), (0, 1, 2, 3, 4, 5, 9, 200)):
    d = Sequence(Prefixed(lf, GreedyBytes, includelength=incl), Tell, GreedyBytes)
    blob = enc(stored) + b"abcdef"
    show("Prefixed(%s,incl=%d) stored=%d over 6 bytes" % (ln, incl, stored), lambda: parse_pos(d, blob))
for blob in [b"", b"\x00", b"\x01", b"\x80", b"\x80\x01" + bytes(128), b"\x85\x00abcdeX"]:
    for incl in (False, True):
        d = Sequence(Prefixed(VarInt, GreedyBytes, includelength=incl), Tell, GreedyBytes)
        show("Prefixed(VarInt,incl=%d) raw %r" % (incl, blob[:8]), lambda: parse_pos(d, blob))

# ---------------------------------------------------------------- Prefixed build / sizeof
values = [b"", b"a", b"abc", bytes(300)]
for (ln, lf, enc), incl, v in itertools.product(lengthfields, (False, True), values):
    d = Prefixed(lf, GreedyBytes, includelength=incl)
    show("build Prefixed(%s,incl=%d) %d bytes" % (ln, incl, len(v)), lambda: (lambda b: (len(b), b[:6]))(d.build(v)))
for (ln, lf, enc), incl in itertools.product(lengthfields, (False, True)):
    show("sizeof Prefixed(%s,incl=%d,Int32ub)" % (ln, incl), lambda: Prefixed(lf, Int32ub, includelength=incl).sizeof())
    show("sizeof Prefixed(%s,incl=%d,GreedyBytes)" % (ln, incl), lambda: Prefixed(lf, GreedyBytes, includelength=incl).sizeof())
    d = Struct("raw" / RawCopy(Prefixed(lf, Struct("x" / Int16ub, "t" / Tell), includelength=incl)), "end" / Tell)
    show("build RawCopy(Prefixed(%s,incl=%d))" % (ln, incl), lambda: d.build(dict(raw=dict(value=dict(x=0x4142)))))
    show("build nested Prefixed(%s,incl=%d)" % (ln, incl), lambda: Prefixed(lf, Prefixed(lf, GreedyBytes, includelength=incl), includelength=not incl).build(b"xyz"))
show("build Prefixed(Byte) 300 bytes", lambda: Prefixed(Byte, GreedyBytes).build(bytes(300)))
show("build Prefixed(Byte,incl) 255 bytes", lambda: Prefixed(Byte, GreedyBytes, includelength=True).build(bytes(255)))
show("build Prefixed(Byte) non-bytes", lambda: Prefixed(Byte, GreedyBytes).build(u"text"))

# ---------------------------------------------------------------- callback order
for incl in (False, True):
    del log[:]
    d = Struct(
        "box" / (Prefixed(Int16ub * hook("lengthfield"), (GreedyBytes * hook("payload")), includelength=incl) * hook("prefixed")),
        "t" / (Tell * hook("tell")),
    )
    show("hooks parse incl=%d" % incl, lambda: (parse_pos(d, b"\x00\x05abcde"), list(log)))
    del log[:]
    show("hooks build incl=%d" % incl, lambda: (d.build(dict(box=b"abc")), list(log)))
for n in (-1, 0, 2, 4, 9):
    del log[:]
    d = Struct(
        "box" / FixedSized(lam("length", n), Struct("t" / Tell, "v" / (GreedyBytes * hook("payload")), "c" / Computed(lam("inner", 1)))),
        "t" / Tell,
    )
    show("lambda order parse n=%d" % n, lambda: (parse_pos(d, b"abcdef"), list(log)))
    del log[:]
    show("lambda order build n=%d" % n, lambda: (d.build(dict(box=dict(v=b"xy"))), list(log)))

# ---------------------------------------------------------------- FixedSized parse / build / sizeof
for n, start, data in itertools.product((-3, 0, 1, 2, 5, 7), (0, 2), (b"", b"ab", b"abcdefg")):
    d = Struct("lead" / Bytes(start), "box" / FixedSized(n, body), "after" / Tell, "rest" / GreedyBytes)
    show("FixedSized(%d) start=%d %r" % (n, start, data), lambda: parse_pos(d, b"#" * start + data))
    d2 = Struct("n" / Byte, "box" / FixedSized(this.n - 3, body), "after" / Tell)
    show("FixedSized(this.n-3) n=%d %r" % (n + 3, data), lambda: parse_pos(d2, bytes([(n + 3) & 0xff]) + data))
for n, v in itertools.product((-1, 0, 1, 3, 6), (b"", b"abc", b"abcd")):
    show("build FixedSized(%d) %r" % (n, v), lambda: FixedSized(n, GreedyBytes).build(v))
    show("build FixedSized(this.n=%d) %r" % (n, v), lambda: FixedSized(this.n, GreedyBytes).build(v, n=n))
    show("build FixedSized(%d,Prefixed) %r" % (n, v), lambda: FixedSized(n, Prefixed(Byte, GreedyBytes, includelength=True)).build(v))
for n in (-1, 0, 5):
    show("sizeof FixedSized(%d)" % n, lambda: FixedSized(n, GreedyBytes).sizeof())
    show("sizeof FixedSized(this.n=%d)" % n, lambda: FixedSized(this.n, GreedyBytes).sizeof(n=n))
show("sizeof FixedSized(this.n) no ctx", lambda: FixedSized(this.n, GreedyBytes).sizeof())
show("parse FixedSized(this.n) no ctx", lambda: FixedSized(this.n, GreedyBytes).parse(b"abc"))
show("build FixedSized(this.n) no ctx", lambda: FixedSized(this.n, GreedyBytes).build(b"abc"))
show("parse FixedSized(None)", lambda: FixedSized(None, GreedyBytes).parse(b"abc"))
show("parse FixedSized(2.0)", lambda: FixedSized(2.0, GreedyBytes).parse(b"abc"))
show("build FixedSized(2.5)", lambda: FixedSized(2.5, GreedyBytes).build(b"a"))
show("parse Prefixed(Flag)", lambda: parse_pos(Prefixed(Flag, GreedyBytes), b"\x01abc"))
show("parse Prefixed(Flag,incl)", lambda: parse_pos(Prefixed(Flag, GreedyBytes, includelength=True), b"\x01abc"))
show("parse Prefixed(Enum)", lambda: parse_pos(Prefixed(Enum(Byte, two=2), GreedyBytes), b"\x03abc"))
show("parse Prefixed(Enum named)", lambda: parse_pos(Prefixed(Enum(Byte, two=2), GreedyBytes), b"\x02abc"))
show("parse Prefixed(Enum named,incl)", lambda: parse_pos(Prefixed(Enum(Byte, two=2), GreedyBytes, includelength=True), b"\x02abc"))
show("parse Prefixed(Float32b)", lambda: parse_pos(Prefixed(Float32b, GreedyBytes), b"\x40\x00\x00\x00abc"))
show("parse Prefixed(Float32b,incl)", lambda: parse_pos(Prefixed(Float32b, GreedyBytes, includelength=True), b"\x40\xc0\x00\x00abc"))
show("parse Prefixed(Computed)", lambda: parse_pos(Prefixed(Computed(2), GreedyBytes, includelength=True), b"abc"))
show("build Prefixed(Float32b,incl)", lambda: Prefixed(Float32b, GreedyBytes, includelength=True).build(b"ab"))
show("build Prefixed(Computed,incl)", lambda: Prefixed(Computed(7), GreedyBytes, includelength=True).build(b"ab"))

# ---------------------------------------------------------------- nesting up to depth 4
def nest(kinds, leaf):
    d = leaf
    for k in reversed(kinds):
        if k == "P":
            d = Prefixed(Byte, d)
        elif k == "I":
            d = Prefixed(Int16ub, d, includelength=True)
        elif k == "F":
            d = FixedSized(this._params.n, d)
    return d


def encode(kinds, payload, n):
    data = payload
    for k in reversed(kinds):
        if k == "P":
            data = bytes([len(data)]) + data
        elif k == "I":
            data = (len(data) + 2).to_bytes(2, "big") + data
        elif k == "F":
            data = data.ljust(n, b"\x00")[:n]
    return data


for depth in (1, 2, 3, 4):
    for kinds in itertools.product("PIF", repeat=depth):
        if depth >= 3 and kinds.count("F") > 1:
            continue
        n = 20
        payload = b"abcde"
        d = Struct("lead" / Bytes(2), "box" / nest(kinds, body), "after" / Tell, "rest" / GreedyBytes)
        blob = b"##" + encode(kinds, payload, n) + b"ZZ"
        show("nest %s" % "".join(kinds), lambda: parse_pos(d, blob, n=n))
        show("nest %s build" % "".join(kinds), lambda: nest(kinds, GreedyBytes).build(payload, n=n))

# ---------------------------------------------------------------- lazy skipping (uses _actualsize / _sizeof)
for (ln, lf, enc), incl in itertools.product(lengthfields, (False, True)):
    payload = b"abcd"
    hdr = len(enc(0)) if ln != "VarInt" else 1
    one = enc(len(payload) + (hdr if incl else 0)) + payload
    d = Struct("a" / Lazy(Prefixed(lf, GreedyBytes, includelength=incl)), "t" / Tell, "b" / Byte)
    show("Lazy(Prefixed(%s,incl=%d))" % (ln, incl), lambda: (lambda r, p, rest: (r.a(), r.t, r.b, p, rest))(*parse_pos(d, one + b"\x07rest")))
    ls = LazyStruct("x" / Byte, "p" / Prefixed(lf, GreedyBytes, includelength=incl), "f" / FixedSized(3, GreedyBytes), "y" / Byte)
    show("LazyStruct(Prefixed(%s,incl=%d))" % (ln, incl), lambda: (lambda r, p, rest: (r.y, r.f, r.p, r.x, p, rest))(*parse_pos(ls, b"\x01" + one + b"fff\x09more")))
    la = LazyArray(3, Prefixed(lf, GreedyBytes, includelength=incl))
    show("LazyArray(Prefixed(%s,incl=%d))" % (ln, incl), lambda: (lambda r, p, rest: (r[2], r[0], r[1], p, rest))(*parse_pos(la, one * 3 + b"more")))
show("Lazy(Prefixed) truncated", lambda: parse_pos(Struct("a" / Lazy(Prefixed(Int16ub, GreedyBytes)), "t" / Tell), b"\x00"))
show("LazyStruct(FixedSized(-1))", lambda: parse_pos(LazyStruct("f" / FixedSized(-1, GreedyBytes)), b"abc"))

# ---------------------------------------------------------------- compiled
for (ln, lf, enc), incl in itertools.product(lengthfields[:4], (False, True)):
    d = Struct("n" / Byte, "p" / Prefixed(lf, GreedyRange(Int16ub), includelength=incl), "f" / FixedSized(this.n, GreedyBytes), "rest" / GreedyBytes)
    dc = d.compile()
    hdr = len(enc(0))
    for payload in (b"", b"abcd", b"abcde"):
        blob = b"\x03" + enc(len(payload) + (hdr if incl else 0)) + payload + b"fffTAIL"
        show("compiled Prefixed(%s,incl=%d) %r" % (ln, incl, payload), lambda: (dc.parse(blob), dc.parse(blob) == d.parse(blob)))
    show("compiled build Prefixed(%s,incl=%d)" % (ln, incl), lambda: (dc.build(dict(n=3, p=[1, 2], f=b"xy", rest=b"r")), d.build(dict(n=3, p=[1, 2], f=b"xy", rest=b"r"))))
    show("compiled source mentions restream", lambda: dc.source.count("restream("))

print("observations: %d" % N[0])
