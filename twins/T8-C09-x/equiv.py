import sys, io
sys.path.insert(0, sys.argv[1])
from construct import *

class Tr(io.BytesIO):
    def __init__(self, data=b"", failtell=None, failseek=None):
        super().__init__(data)
        self.log = []
        self.ntell = 0
        self.nseek = 0
        self.failtell = failtell
        self.failseek = failseek
    def tell(self):
        self.ntell += 1
        if self.failtell == self.ntell:
            self.log.append("tell!")
            raise OSError("tell")
        r = super().tell()
        self.log.append("t%d" % r)
        return r
    def seek(self, off, whence=0):
        self.nseek += 1
        if self.failseek == self.nseek:
            self.log.append("seek!")
            raise OSError("seek")
        r = super().seek(off, whence)
        self.log.append("s%r,%r>%d" % (off, whence, r))
        return r
    def read(self, n=-1):
        r = super().read(n)
        self.log.append("r%r=%d" % (n, len(r)))
        return r

def pos(s):
    return io.BytesIO.tell(s)

def chain(e):
    out = []
    seen = 0
    while e is not None and seen < 10:
        e = e.__context__
        out.append(type(e).__name__)
        seen += 1
    return ">".join(out)

def run(label, f):
    try:
        r = f()
        print(label, "->", type(r).__name__, repr(r))
    except BaseException as e:
        print(label, "!!", type(e).__name__, getattr(e, "path", None), "chain=" + chain(e))

SEEN = []
def seeidx(ctx):
    SEEN.append((ctx._index, type(ctx._index).__name__))
    return ctx._index
def boom_at2(ctx):
    if ctx._index == 2:
        raise ZeroDivisionError("boom")
    return 0
def kbi_at1(ctx):
    if ctx._index == 1:
        raise KeyboardInterrupt()
    return 0
def stop_at2(ctx):
    if ctx._._index == 2:
        raise StopFieldError()
    return 0

elems = {
    "Byte": Byte,
    "Int16ub": Int16ub,
    "Int24ub": Int24ub,
    "ConstA": Const(b"a"),
    "ConstAB": Const(b"ab"),
    "Pascal": PascalString(Byte, "utf8"),
    "CStr": CString("ascii"),
    "Prefixed": Prefixed(Byte, GreedyRange(Int16ub)),
    "Check": Struct("a" / Byte, "b" / Byte, Check(this.a <= this.b)),
    "Idx": Struct("i" / Computed(seeidx), "b" / Byte),
    "IdxLimit": Struct("b" / Byte, Check(lambda ctx: ctx._._index < 3)) ,
    "Index": Struct("i" / Index, "v" / Int16ub),
    "Boom": Struct("b" / Byte, "z" / Computed(lambda ctx: boom_at2(ctx._))),
    "KBI": Struct("b" / Byte, "z" / Computed(lambda ctx: kbi_at1(ctx._))),
    "StopIf": Struct("b" / Byte, StopIf(this.b == 0x63), "c" / Byte),
    "StopInner": Struct("b" / Byte, "z" / Computed(stop_at2)),
    "StructErr": Struct("b" / Byte, If(this.b == 0x62, Error)),
    "Error": Error,
    "Select": Select(Const(b"ab"), Const(b"a\x00"), Const(b"c")),
    "Opt2": Struct("h" / Byte, "o" / Optional(Const(b"bb")), "t" / Const(b"c")),
    "NestedGR": Struct("n" / GreedyRange(Const(b"a")), "t" / Const(b"b")),
    "Peek": Struct("p" / Peek(Int16ub), "b" / Byte),
    "Pointer": Struct("p" / Pointer(0, Byte), "b" / Const(b"a")),
    "Term": Struct("b" / Byte, Terminated),
    "StopDirect": IfThenElse(lambda ctx: ctx._index >= 2, StopIf(True), Byte),
    "StopDirectCond": IfThenElse(lambda ctx: ctx._index >= 1, Struct("b" / Byte, "s" / IfThenElse(this.b == 0x62, Computed(lambda ctx: (_ for _ in ()).throw(StopFieldError())), Pass)), Byte),
    "ErrDirect": IfThenElse(lambda ctx: ctx._index >= 2, Error, Byte),
    "Bytes0": Struct("b" / Bytes(1), Check(this.b != b"\x00")),
}
inputs = [
    b"", b"a", b"ab", b"abc", b"aaab", b"aaaa", b"ababab", b"ababa", b"abcabcab", b"a\x00a\x00c",
    b"\x01a\x02bc\x03de", b"\x01a\x02bc\x03d", b"abc\x00de\x00f", b"\x02\x00\x01\x04\x00\x02\x00\x03\x03\x00",
    b"\x01\x02\x03\x03\x05\x04", b"aabbaab", b"abbcabbc", bytes(range(20)), b"\xff" * 7, b"cccc",
]
for name in sorted(elems):
    for discard in (False, True):
        d = GreedyRange(elems[name], discard=discard)
        for data in inputs:
            for start in (0, 1, 2, 5):
                if start > len(data) + 1:
                    continue
                s = Tr(data)
                io.BytesIO.seek(s, start)
                SEEN.clear()
                run("gr[%s,%s] %r @%d" % (name, discard, data, start), lambda: d.parse_stream(s))
                print("   pos", pos(s), "log", " ".join(s.log), "seen", SEEN)

# failure at every possible byte inside an element: truncate at every length
rec = GreedyRange(Struct("k" / Const(b"K"), "n" / Byte, "v" / Bytes(this.n), "c" / Int16ub, Check(this.c != 0xffff), "i" / Index))
full = b"K\x02ab\x00\x01K\x00\x00\x02K\x03xyz\xff\xffK\x01q\x00\x03"
for cut in range(len(full) + 1):
    for start in (0, 6):
        s = Tr(full[:cut])
        io.BytesIO.seek(s, start)
        run("rec cut=%d @%d" % (cut, start), lambda: rec.parse_stream(s))
        print("   pos", pos(s), "log", " ".join(s.log))

# context index visible after the loop / in sibling fields; nested ranges
run("after", lambda: Struct("xs" / GreedyRange(Const(b"a")), "ix" / Computed(lambda ctx: ctx.get("_index", "absent")), "t" / Tell).parse(b"aaab"))
run("nested", lambda: GreedyRange(Struct("o" / Index, "inner" / GreedyRange(Struct("i" / Index, "c" / Const(b"a"))), "sep" / Const(b"b"), "o2" / Index)).parse(b"aabbabx"))
run("array in", lambda: GreedyRange(Array(2, Struct("i" / Index, "b" / Byte))).parse(b"abcde"))
ctxprobe = {}
def grab(ctx):
    ctxprobe["idx"] = ctx._index
    return 1
run("parse ctx", lambda: Struct("xs" / GreedyRange(Struct("b" / Byte, "g" / Computed(lambda c: grab(c._)))), "post" / Computed(this._index)).parse(b"abcd"))
print("   probe", ctxprobe)

# tell / seek failures at each call
d = GreedyRange(Int16ub)
for data in (b"", b"ab", b"abc", b"abcd", b"abcde"):
    for ft in (None, 1, 2, 3, 4):
        for fs in (None, 1, 2):
            s = Tr(data, failtell=ft, failseek=fs)
            run("fail %r ft=%s fs=%s" % (data, ft, fs), lambda: d.parse_stream(s))
            print("   pos", pos(s), "log", " ".join(s.log))

# long run (index types / large counts), non seekable, compiled, build, sizeof
big = GreedyRange(Struct("i" / Index, "b" / Byte)).parse(bytes(300))
print("big", len(big), big[0], big[299], type(big[299].i).__name__)
class NoSeek:
    def __init__(self, d): self.b = io.BytesIO(d)
    def read(self, n): return self.b.read(n)
run("noseek", lambda: GreedyRange(Byte).parse_stream(NoSeek(b"ab")))
run("compiled", lambda: Struct("a" / GreedyRange(Const(b"z")), "t" / Tell).compile().parse(b"zzab"))
run("doc build", lambda: GreedyRange(Byte).build(range(8)))
run("doc parse", lambda: GreedyRange(Byte).parse(bytes(range(8))))
run("build idx", lambda: GreedyRange(Struct("i" / Index, "b" / Byte)).build([dict(b=1), dict(b=2)]))
run("build bad", lambda: GreedyRange(Byte).build([1, 2, 300, 4]))
run("sizeof", lambda: GreedyRange(Byte).sizeof())
run("getitem", lambda: Byte[:].parse(b"abc") if False else GreedyRange(Byte[2]).parse(b"abcde"))
run("discard build", lambda: GreedyRange(Byte, discard=True).build([1, 2]))
run("prefixed", lambda: Sequence(Prefixed(Byte, GreedyRange(Int16ub)), Tell).parse(b"\x05\x00\x01\x00\x02\x09zz"))
run("lazybound", lambda: GreedyRange(LazyBound(lambda: Const(b"q"))).parse(b"qqz"))
