import sys, io, random
sys.path.insert(0, sys.argv[1])
from construct import *


def parse_pos(d, data, **kw):
    s = io.BytesIO(data)
    try:
        r = d.parse_stream(s, **kw)
        return (r, type(r).__name__, s.tell())
    except Exception as e:
        return ("EXC", type(e).__name__, s.tell())


def build_pos(d, obj, **kw):
    s = io.BytesIO()
    try:
        r = d.build_stream(obj, s, **kw)
        return (r, type(r).__name__, s.getvalue(), s.tell())
    except Exception as e:
        return ("EXC", type(e).__name__, s.getvalue(), s.tell())


class MyInt(int):
    def __repr__(self):
        return "MyInt(%d)" % int(self)


class OddInt(int):
    """int subclass with overridden comparison/abs/mul to expose any change in the operations used"""
    def __ge__(self, other):
        print("   OddInt.__ge__", other)
        return int.__ge__(self, other)
    def __abs__(self):
        print("   OddInt.__abs__")
        return int.__abs__(self)
    def __rmul__(self, other):
        print("   OddInt.__rmul__", other)
        return int.__rmul__(self, other)
    def __mul__(self, other):
        print("   OddInt.__mul__", other)
        return int.__mul__(self, other)
    def __lt__(self, other):
        print("   OddInt.__lt__", other)
        return int.__lt__(self, other)
    def __neg__(self):
        print("   OddInt.__neg__")
        return int.__neg__(self)


values = [0, 1, -1, 2, -2, 63, -63, 64, -64, 65, -65, 127, -128, 8191, -8192, 8192, 2**31 - 1, -2**31, 2**31, 2**63 - 1, -2**63,
          2**64, -2**64, 2**200 + 7, -(2**200) - 7, True, False, MyInt(5), MyInt(-5), OddInt(9), OddInt(-9), OddInt(0),
          1.0, -1.5, None, "3", b"\x03", [1], 3 + 0j]
rng = random.Random(77)
for _ in range(400):
    values.append(rng.randrange(-2 ** rng.randrange(1, 100), 2 ** rng.randrange(1, 100)))

for v in values:
    r = build_pos(ZigZag, v)
    print("ZigZag.build", repr(v), r)
    if r[0] != "EXC":
        p = parse_pos(ZigZag, r[2])
        print("  parse back", p, p[0] == v)
        print("  as VarInt", parse_pos(VarInt, r[2]))

datas = [b"", b"\x00", b"\x01", b"\x02", b"\x03", b"\x7e", b"\x7f", b"\x80", b"\x80\x01", b"\x81\x01", b"\xfe\xff\x03", b"\xff\xff\x03",
         b"\xff" * 12 + b"\x01", b"\xfe" * 12 + b"\x01", b"\x80\x80", b"\x05tail", b"\x80\x80\x80\x80\x80\x80\x80\x80\x80\x01"]
for _ in range(300):
    datas.append(bytes(rng.randrange(256) for _ in range(rng.randrange(0, 10))))
for data in datas:
    print("ZigZag.parse", data.hex(), parse_pos(ZigZag, data))

comps = [
    ("Array", Array(4, ZigZag), [[0, -1, 1, -2**40], [1, 2, 3]]),
    ("GreedyRange", GreedyRange(ZigZag), [[], [-1, -2, -300, 2**70]]),
    ("Struct", Struct("z" / ZigZag, "y" / Rebuild(ZigZag, lambda ctx: -ctx.z), "d" / Bytes(lambda ctx: abs(ctx.z))),
        [dict(z=-3, d=b"abc"), dict(z=3, d=b"abc"), dict(z=0, d=b"")]),
    ("Prefixed", Prefixed(ZigZag, GreedyBytes), [b"", b"abc", b"q" * 100]),
    ("Default", Struct("a" / Default(ZigZag, -77)), [dict(), dict(a=None), dict(a=5)]),
    ("Const", Const(-5, ZigZag), [None, -5, 5]),
    ("Select", Select(ZigZag, CString("ascii")), [5, -5, "abc"]),
    ("Aligned", Aligned(4, ZigZag), [-1, 2**30, -2**30]),
]
for name, d, objs in comps:
    for obj in objs:
        r = build_pos(d, obj)
        print(name, "build", repr(obj)[:60], r)
        if r[0] != "EXC":
            print(name, "parse", parse_pos(d, r[2]))
            print(name, "parse truncated", parse_pos(d, r[2][:-1])[1:])

try:
    dc = Struct("a" / ZigZag, "b" / ZigZag).compile()
    print("compiled", dc.parse(b"\xac\x02\x05"), dc.build(dict(a=300, b=-3)))
except Exception as e:
    print("compiled !!", type(e).__name__)
