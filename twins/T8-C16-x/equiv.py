#!/usr/bin/env python
# usage: equiv.py <path-to-checkout>
# Exercises LazyStruct._parse and LazyArray._parse (offset tables, fallback to real parsing when a
# member cannot be sized), with a stream that logs every tell/seek/read call and can be made to fail.
import sys, io, itertools
sys.path.insert(0, sys.argv[1])
from construct import *
from construct.core import Construct


class LogStream(io.BytesIO):
    """BytesIO that records every operation; can be told to fail from the n-th seek or tell on."""
    def __init__(self, data, failseek=None, failtell=None):
        super().__init__(data)
        self.log = []
        self.nseek = 0
        self.ntell = 0
        self.failseek = failseek
        self.failtell = failtell
    def tell(self):
        self.ntell += 1
        if self.failtell is not None and self.ntell >= self.failtell:
            self.log.append("tell!")
            raise OSError("tell fails")
        r = super().tell()
        self.log.append("t%d" % r)
        return r
    def seek(self, offset, whence=0):
        self.nseek += 1
        if self.failseek is not None and self.nseek >= self.failseek:
            self.log.append("seek!(%r,%r)" % (offset, whence))
            raise OSError("seek fails")
        r = super().seek(offset, whence)
        self.log.append("s(%r,%r)" % (offset, whence))
        return r
    def read(self, n=-1):
        r = super().read(n)
        self.log.append("r(%r)->%d" % (n, len(r)))
        return r
    def pos(self):
        return io.BytesIO.tell(self)
    def take(self):
        out = " ".join(self.log)
        self.log = []
        return out


class Odd(Construct):
    """Member whose _actualsize misbehaves in a configurable way; parses one byte."""
    def __init__(self, mode):
        super().__init__()
        self.mode = mode
    def _parse(self, stream, context, path):
        return stream_read(stream, 1, path)
    def _build(self, obj, stream, context, path):
        stream_write(stream, obj, 1, path)
        return obj
    def _actualsize(self, stream, context, path):
        m = self.mode
        if m == "sizeof":
            raise SizeofError("no size", path=path)
        if m == "sizeof-after-read":
            stream_read(stream, 2, path)
            raise SizeofError("no size", path=path)
        if m == "stream":
            raise StreamError("boom", path=path)
        if m == "key":
            raise KeyError("k")
        if m == "none":
            return None
        if m == "str":
            return "1"
        if m == "float":
            return 1.0
        if m == "neg":
            return -1
        if m == "big":
            return 1000
        if m == "zero":
            return 0
        if m == "bool":
            return True
        return 1

from construct.core import stream_read, stream_write


def attempt(fn):
    try:
        return "ok %r" % (fn(),)
    except Exception as e:
        return "EXC %s" % (type(e).__name__,)


import re
def out(*a):
    # scrub memory addresses from function reprs so the transcript is deterministic
    print(re.sub(r" at 0x[0-9a-fA-F]+", " at 0x?", " ".join(str(x) for x in a)))


def offs(obj):
    return "offsets=%r cached=%r" % (sorted(obj._offsets.items(), key=repr), sorted(obj._values.items(), key=repr))


MEMBERS = [
    ("Byte", lambda: Byte),
    ("Int24ub", lambda: Int24ub),
    ("Bytes0", lambda: Bytes(0)),
    ("BytesN", lambda: Bytes(this.n)),
    ("BytesMissing", lambda: Bytes(this.nosuch)),
    ("BytesOuter", lambda: Bytes(this._.outer)),
    ("VarInt", lambda: VarInt),
    ("PrefixedBytes", lambda: Prefixed(Byte, GreedyBytes)),
    ("PrefixedIncl", lambda: Prefixed(Byte, GreedyBytes, includelength=True)),
    ("PrefixedVarInt", lambda: Prefixed(VarInt, GreedyBytes)),
    ("PrefixedVarIntIncl", lambda: Prefixed(VarInt, GreedyBytes, includelength=True)),
    ("PrefixedArray", lambda: PrefixedArray(Byte, Int16ub)),
    ("PrefixedArrayVar", lambda: PrefixedArray(Byte, VarInt)),
    ("PrefixedArrayVarInt", lambda: PrefixedArray(VarInt, Byte)),
    ("Pascal", lambda: PascalString(Byte, "utf8")),
    ("CString", lambda: CString("utf8")),
    ("GreedyBytes", lambda: GreedyBytes),
    ("GreedyRange", lambda: GreedyRange(Byte)),
    ("Computed", lambda: Computed(5)),
    ("Pass", lambda: Pass),
    ("Tell", lambda: Tell),
    ("Pointer", lambda: Pointer(1, Byte)),
    ("Const", lambda: Const(b"\x02")),
    ("ConstBad", lambda: Const(b"\xee")),
    ("Check", lambda: Check(False)),
    ("Error", lambda: Error),
    ("Terminated", lambda: Terminated),
    ("Padding", lambda: Padding(2)),
    ("Struct", lambda: Struct("a" / Byte, "b" / VarInt)),
    ("LazyStruct", lambda: LazyStruct("a" / Byte, "b" / VarInt)),
    ("LazyArrayVar", lambda: LazyArray(2, VarInt)),
    ("Lazy", lambda: Lazy(Byte)),
    ("IfThenElse", lambda: IfThenElse(this.n > 1, Byte, Int16ub)),
    ("Switch", lambda: Switch(this.n, {2: Byte}, default=Int16ub)),
    ("Select", lambda: Select(Int32ub, Byte)),
    ("Optional", lambda: Optional(Int32ub)),
    ("StopIf", lambda: StopIf(True)),
] + [("Odd-" + m, (lambda m=m: Odd(m))) for m in ["sizeof", "sizeof-after-read", "stream", "key", "none", "str", "float", "neg", "big", "zero", "bool", "one"]]

DATA = bytes([2, 2, 0x81, 1, 3, 4, 0, 7, 8, 9, 0x85, 0x80, 0, 1, 2, 3, 4, 5, 6, 7])

def parse_report(label, d, data, start=0, **kw):
    stream = LogStream(data)
    io.BytesIO.seek(stream, start)
    try:
        obj = d.parse_stream(stream, **kw)
    except Exception as e:
        out("   %s len=%d start=%d parse EXC %s pos=%d log=[%s]" % (label, len(data), start, type(e).__name__, stream.pos(), stream.take()))
        return None, stream
    out("   %s len=%d start=%d parsed %r %s pos=%d log=[%s]" % (label, len(data), start, obj, offs(obj), stream.pos(), stream.take()))
    return obj, stream

# -- every member kind in the middle of a LazyStruct and as LazyArray element
for name, mk in MEMBERS:
    out("## member %s" % name)
    for data in [DATA, DATA[:3], DATA[:1], b""]:
        for start in [0, 1]:
            d = LazyStruct("n" / Byte, "m" / mk(), "z" / Byte, mk())
            obj, stream = parse_report("struct", d, data, start, outer=1)
            if obj is not None:
                for k in ["z", "m", 3, "n", "m", 4]:
                    out("      [%r] -> %s pos=%d %s log=[%s]" % (k, attempt(lambda: obj[k]), stream.pos(), offs(obj), stream.take()))
                ctx = obj._context
                out("      ctx keys", sorted(k for k in ctx.keys() if not k.startswith("_")), "io", ctx._io is stream, "index", ctx._index, "root", ctx._root is ctx._)
                out("      build ->", attempt(lambda: d.build(obj, outer=1)))
            d = LazyArray(3, mk())
            obj, stream = parse_report("array", d, data, start, outer=1, n=2)
            if obj is not None:
                for k in [2, 0, 3, 1, 2]:
                    out("      [%r] -> %s pos=%d %s log=[%s]" % (k, attempt(lambda: obj[k]), stream.pos(), offs(obj), stream.take()))
                out("      build ->", attempt(lambda: d.build(obj, outer=1, n=2)))

# -- flaky streams: n-th tell / seek fails during _parse
for name in ["Byte", "VarInt", "PrefixedBytes", "PrefixedVarIntIncl", "PrefixedArray", "Odd-sizeof-after-read", "Odd-none", "CString"]:
    mk = dict(MEMBERS)[name]
    for failtell in [None, 1, 2, 3, 4, 5]:
        for failseek in [None, 1, 2, 3, 4]:
            out("## flaky %s failtell=%r failseek=%r" % (name, failtell, failseek))
            for label, d in [("struct", LazyStruct("n" / Byte, "m" / mk(), "z" / mk())), ("array", LazyArray(3, mk()))]:
                stream = LogStream(DATA, failseek=failseek, failtell=failtell)
                r = attempt(lambda: offs(d.parse_stream(stream)))
                out("   %s -> %s pos=%d log=[%s]" % (label, r, stream.pos(), stream.take()))

# -- counts
COUNTS = [("0", 0), ("1", 1), ("5", 5), ("25", 25), ("-1", -1), ("True", True), ("2.0", 2.0), ("lambda 2", lambda ctx: 2),
          ("lambda -3", lambda ctx: -3), ("lambda missing", lambda ctx: ctx.nosuch), ("None", None), ("'3'", "3")]
for cname, count in COUNTS:
    for name in ["Byte", "VarInt", "PrefixedBytes"]:
        out("## count %r of %s" % (cname, name))
        try:
            d = LazyArray(count, dict(MEMBERS)[name]())
        except Exception as e:
            out("   ctor EXC", type(e).__name__)
            continue
        parse_report("array", d, DATA)
        out("   sizeof", attempt(d.sizeof))

# -- exhaustive member lists of up to 3 kinds drawn from 5 shapes: offsets table, cached values, positions
SHAPES = ["Byte", "BytesN", "PrefixedBytes", "VarInt", "CString"]
for k in [0, 1, 2, 3]:
    for combo in itertools.product(SHAPES, repeat=k):
        subs = ["n" / Byte] + [("m%d" % i) / dict(MEMBERS)[nm]() for i, nm in enumerate(combo)]
        d = LazyStruct(*subs)
        out("## combo %s" % "+".join(combo))
        for data in [DATA, DATA[:4]]:
            obj, stream = parse_report("struct", d, data)
            if obj is not None:
                out("      values", attempt(lambda: list(obj.values())), "pos=%d %s" % (stream.pos(), offs(obj)))
                eager = attempt(lambda: [v for kk, v in Struct(*subs).parse(data).items() if not kk.startswith("_")])
                out("      eager ", eager)

# -- nested inside eager constructs, context propagation (_index, _root, _params)
d = Struct("outer" / Byte, "arr" / Array(2, LazyStruct("i" / Computed(this._index), "v" / VarInt, "b" / Bytes(this._.outer))), "tail" / Byte)
stream = LogStream(bytes([1, 0x80, 1, 65, 5, 66, 9, 9]))
obj = d.parse_stream(stream)
out("## nested pos=%d log=[%s]" % (stream.pos(), stream.take()))
for acc in [lambda: obj.arr[1].b, lambda: obj.arr[0].i, lambda: obj.arr[1].i, lambda: obj.arr[0].v, lambda: obj.arr[0].b, lambda: obj.tail]:
    out("   ", attempt(acc), "pos=%d log=[%s]" % (stream.pos(), stream.take()))
out("   build", attempt(lambda: d.build(obj)))
d = LazyArray(2, LazyArray(2, Prefixed(Byte, GreedyBytes)))
stream = LogStream(bytes([1, 65, 0, 2, 66, 67, 1, 68, 9]))
obj = d.parse_stream(stream)
out("## nested arrays pos=%d %s log=[%s]" % (stream.pos(), offs(obj), stream.take()))
for i, j in [(1, 1), (0, 0), (1, 0), (0, 1), (1, 1)]:
    out("   [%d][%d] -> %s pos=%d log=[%s]" % (i, j, attempt(lambda: obj[i][j]), stream.pos(), stream.take()))
