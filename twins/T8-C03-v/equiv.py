import sys, io
sys.path.insert(0, sys.argv[1])
import construct
from construct import *

assert construct.__file__.startswith(sys.argv[1]), construct.__file__


def show(label, fn):
    try:
        r = fn()
        print(label, "->", repr(r))
    except Exception as e:
        print(label, "!!", type(e).__name__)


def parse_pos(d, data, **kw):
    s = io.BytesIO(data)
    try:
        r = d.parse_stream(s, **kw)
        return (r, s.tell())
    except Exception as e:
        return ("EXC", type(e).__name__, s.tell())


def build_pos(d, obj, **kw):
    s = io.BytesIO()
    try:
        r = d._build(obj, s, Container(**kw), "(x)")
        return (r, s.getvalue(), s.tell())
    except Exception as e:
        return ("EXC", type(e).__name__, s.getvalue(), s.tell())


class Weird:
    """modulus whose comparison raises"""
    def __lt__(self, other):
        raise KeyError("lt")
    def __repr__(self):
        return "Weird()"


mods = [-3, -1, 0, 1, 2, 3, 4, 5, 7, 8, 16, 2.0, 2.5, True, None, "4", Weird()]
subcons = [("Byte", Byte, 7), ("Int16ub", Int16ub, 513), ("Int24ul", Int24ul, 70000),
           ("VarInt", VarInt, 70000), ("CString", CString("utf8"), "abcd"),
           ("Bytes0", Bytes(0), b""), ("GreedyBytes", GreedyBytes, b"hello"),
           ("Pass", Pass, None)]
data = bytes(range(1, 40))

for m in mods:
    for name, sc, val in subcons:
        for pattern in (b"\x00", b"\xee"):
            try:
                d = Aligned(m, sc, pattern)
            except Exception as e:
                print("ctor", m, name, pattern, "!!", type(e).__name__)
                continue
            lab = f"Aligned({m!r},{name},{pattern!r})"
            for n in (0, 1, 2, 3, 4, 5, 8, 9, 39):
                print(lab, "parse", n, parse_pos(d, data[:n] if name != "CString" else (data[:n] + b"\x00" + b"zzzzzzzz")[:n + 4]))
            print(lab, "build", build_pos(d, val))
            show(lab + " sizeof", lambda: d.sizeof())
            show(lab + " build()", lambda: d.build(val))

# context lambdas for modulus
for m in (-1, 0, 1, 2, 3, 4, 9):
    d = Struct("m" / Byte, "a" / Aligned(this.m, Int16ub), "b" / Aligned(lambda ctx: ctx.m + 1, VarInt, b"\x11"))
    print("ctx", m, parse_pos(d, bytes([m & 0xff]) + data))
    show(f"ctx build {m}", lambda: d.build(dict(m=m & 0xff, a=300, b=300)))
    show(f"ctx sizeof {m}", lambda: d.sizeof())
    show(f"ctx sizeof2 {m}", lambda: Aligned(this.m, Int16ub).sizeof(m=m))

# missing key in context
d = Aligned(this.missing, Byte)
print("missing parse", parse_pos(d, data))
print("missing build", build_pos(d, 1))
show("missing sizeof", lambda: d.sizeof())
d = Aligned(lambda ctx: ctx["nokey"], Byte)
print("nokey parse", parse_pos(d, data))
print("nokey build", build_pos(d, 1))
show("nokey sizeof", lambda: d.sizeof())

# pattern validation
for p in (b"", b"ab", "a", None, 0, bytearray(b"a")):
    show(f"pattern {p!r}", lambda: Aligned(4, Byte, p))

# failing subcon inside Aligned: position after failure
d = Aligned(4, Int32ub)
for n in range(0, 9):
    print("short", n, parse_pos(d, data[:n]))
show("build bad", lambda: build_pos(Aligned(4, Byte), 256))
show("build bad2", lambda: build_pos(Aligned(1, Byte), 256))

# AlignedStruct macro, nested and in Bitwise
d = AlignedStruct(4, "a" / Byte, "b" / Int16ub, "c" / VarInt)
for n in (0, 4, 8, 11, 12, 13):
    print("AlignedStruct parse", n, parse_pos(d, data[:n]))
show("AlignedStruct build", lambda: d.build(dict(a=1, b=2, c=300)))
show("AlignedStruct sizeof", lambda: AlignedStruct(4, "a" / Byte, "b" / Int16ub).sizeof())
d = Aligned(8, Aligned(3, Bytes(2)))
for n in (0, 2, 3, 7, 8, 9):
    print("nested parse", n, parse_pos(d, data[:n]))
show("nested build", lambda: d.build(b"xy"))
show("nested sizeof", lambda: d.sizeof())
d = Bitwise(Aligned(8, BitsInteger(3)))
show("bitwise parse", lambda: d.parse(b"\xe0"))
show("bitwise build", lambda: d.build(5))
show("bitwise sizeof", lambda: d.sizeof())

# non-seekable stream: tell fails
class NoTell(io.RawIOBase):
    def __init__(self, data):
        self.b = io.BytesIO(data)
    def read(self, n=-1):
        return self.b.read(n)
    def write(self, d):
        return self.b.write(d)
    def tell(self):
        raise OSError("no tell")
    def readable(self): return True
    def writable(self): return True

for m in (0, 4):
    d = Aligned(m, Byte)
    show(f"notell parse {m}", lambda: d.parse_stream(NoTell(data)))
    show(f"notell build {m}", lambda: d.build_stream(1, NoTell(b"")))

# compiled form unchanged
d = Struct("a" / Aligned(4, Byte), "b" / Aligned(3, Int16ub, b"\x07"))
try:
    dc = d.compile()
    print("compiled source hash-free dump:")
    print(dc.source.replace("\r", ""))
    print(parse_pos(dc, data))
    show("compiled build", lambda: dc.build(dict(a=1, b=2)))
except Exception as e:
    print("compile !!", type(e).__name__)
