import sys, io
sys.path.insert(0, sys.argv[1])
from construct import *
from construct.core import Construct, Container, SizeofError

def show(label, fn):
    try:
        r = fn()
        print(label, "->", repr(r))
    except BaseException as e:
        print(label, "!!", type(e).__name__, "|", str(e).replace("\n", " / "))

LOG = []

class Probe(Construct):
    """records the context handed to _sizeof, returns a fixed size"""
    def __init__(self, size):
        super().__init__()
        self.size = size
    def _parse(self, stream, context, path):
        return stream.read(self.size)
    def _build(self, obj, stream, context, path):
        stream.write(b"p" * self.size)
        return obj
    def _sizeof(self, context, path):
        up = context.get("_")
        LOG.append((
            sorted(k for k in context.keys()),
            context._parsing, context._building, context._sizing,
            context._io, context.get("_index"),
            context._root is context,
            None if up is None else sorted(str(k) for k in up.keys()),
            context._params is (up._params if up is not None else None),
            sorted(context._subcons.keys()),
            path,
        ))
        return self.size

class Raiser(Construct):
    def __init__(self, exc):
        super().__init__()
        self.exc = exc
    def _sizeof(self, context, path):
        raise self.exc

def raising(exc):
    def f(ctx):
        raise exc
    return f

def advance(d, obj, ctx):
    s = io.BytesIO()
    d.build_stream(obj, s, **ctx)
    n = s.tell()
    s2 = io.BytesIO(s.getvalue() + b"TRAILING")
    d.parse_stream(s2, **ctx)
    return (n, s2.tell())

makers = {
    "Struct": lambda *sc: Struct(*sc),
    "Sequence": lambda *sc: Sequence(*sc),
    "FocusedSeq": lambda *sc: FocusedSeq(sc[0].name if sc and getattr(sc[0], "name", None) else "a", *sc),
    "LazyStruct": lambda *sc: LazyStruct(*sc),
}

for kind, mk in makers.items():
    print("=====", kind)
    show("empty", lambda: mk().sizeof() if kind != "FocusedSeq" else FocusedSeq("a").sizeof())
    show("fixed", lambda: mk("a"/Byte, "b"/Int32ub, "c"/Bytes(3)).sizeof())
    show("fixed+ctxextra", lambda: mk("a"/Byte, "b"/Int32ub).sizeof(n=7, zz=1))
    show("ctx-len ok", lambda: mk("a"/Byte, "b"/Bytes(this._.n)).sizeof(n=5))
    show("ctx-len zero", lambda: mk("a"/Byte, "b"/Bytes(this._.n)).sizeof(n=0))
    show("ctx-len missing", lambda: mk("a"/Byte, "b"/Bytes(this._.n)).sizeof())
    show("ctx-len missing w/ other", lambda: mk("a"/Byte, "b"/Bytes(this._.n)).sizeof(m=5))
    show("sibling ref", lambda: mk("a"/Byte, "b"/Bytes(this.a)).sizeof())
    show("sibling ref supplied on wrong level", lambda: mk("a"/Byte, "b"/Bytes(this.a)).sizeof(a=2))
    show("params ref", lambda: mk("a"/Byte, "b"/Bytes(this._params.n)).sizeof(n=4))
    show("root ref", lambda: mk("a"/Byte, "b"/Bytes(this._root.n)).sizeof(n=4))
    show("root._ ref", lambda: mk("a"/Byte, "b"/Bytes(this._root._.n)).sizeof(n=4))
    show("unsized VarInt", lambda: mk("a"/Byte, "b"/VarInt).sizeof())
    show("unsized GreedyBytes", lambda: mk("a"/GreedyBytes).sizeof())
    show("unsized first then missing key", lambda: mk("a"/VarInt, "b"/Bytes(this._.n)).sizeof())
    show("missing key first then unsized", lambda: mk("a"/Bytes(this._.n), "b"/VarInt).sizeof())
    for exc in (KeyError("k"), AttributeError("a"), ValueError("v"), ZeroDivisionError("z"),
                TypeError("t"), IndexError("i"), LookupError("l"), StopIteration("s"),
                SizeofError("custom"), ConstructError("ce"), RuntimeError("r")):
        show("lambda raising %s" % type(exc).__name__, lambda: mk("a"/Byte, "b"/Bytes(raising(exc))).sizeof())
        show("subcon raising %s" % type(exc).__name__, lambda: mk("a"/Byte, "b"/Raiser(exc)).sizeof())
    show("non-int sizes (float)", lambda: mk("a"/Probe(1.5), "b"/Probe(2)).sizeof())
    show("non-int sizes (str)", lambda: mk("a"/Probe("x"), "b"/Probe(2)).sizeof())
    show("non-int sizes (list)", lambda: mk("a"/Probe([1]), "b"/Probe([2])).sizeof())
    show("none size", lambda: mk("a"/Probe(None)).sizeof())
    show("negative size", lambda: mk("a"/Probe(-3), "b"/Probe(1)).sizeof())
    show("bool size", lambda: mk("a"/Probe(True)).sizeof())
    del LOG[:]
    show("probe top", lambda: mk("a"/Probe(3), Probe(2), "c"/Probe(0)).sizeof(n=1, _index=9))
    show("probe nested", lambda: mk("a"/Probe(1), "inner"/mk("a"/Probe(2), "d"/Probe(4))).sizeof(q=1))
    show("probe in array", lambda: Array(3, mk("a"/Probe(2))).sizeof())
    show("probe in array in struct", lambda: Struct("n"/Byte, "arr"/Array(2, mk("a"/Probe(2)))).sizeof())
    show("probe under Switch/If", lambda: Struct("x"/IfThenElse(this._.f, mk("a"/Probe(2)), mk("a"/Probe(7)))).sizeof(f=0))
    for entry in LOG:
        print("   LOG", entry)
    del LOG[:]
    show("direct _sizeof plain Container (no _params)", lambda: mk("a"/Byte)._sizeof(Container(), "(p)"))
    show("direct _sizeof dict context", lambda: mk("a"/Byte)._sizeof({}, "(p)"))
    c = Container(_parsing=True, _building=True, _sizing=False, _params=Container(z=1), _index=4, _root=Container(n=6))
    show("direct _sizeof custom flags", lambda: mk("a"/Probe(2), "b"/Bytes(this._root.n))._sizeof(c, "(custom path)"))
    for entry in LOG:
        print("   LOG", entry)
    del LOG[:]
    show("custom ctx unchanged", lambda: sorted(c.keys()))
    show("path in error", lambda: mk("a"/Byte, "b"/Bytes(this._.n))._sizeof(c, "(here) -> x"))
    # relation to stream advance
    if kind == "Struct" or kind == "LazyStruct":
        d = mk("a"/Byte, "b"/Bytes(this._.n), "c"/Int16ub)
        for n in (0, 1, 5):
            show("advance n=%d" % n, lambda: (d.sizeof(n=n), advance(d, dict(a=1, b=b"x"*n, c=2), dict(n=n))) if kind == "Struct" else (d.sizeof(n=n),))
    if kind == "Sequence":
        d = mk("a"/Byte, "b"/Bytes(this._.n), "c"/Int16ub)
        for n in (0, 1, 5):
            show("advance n=%d" % n, lambda: (d.sizeof(n=n), advance(d, [1, b"x"*n, 2], dict(n=n))))
    if kind == "FocusedSeq":
        d = FocusedSeq("b", "a"/Const(b"\x01"), "b"/Bytes(this._.n), "c"/Const(b"zz"))
        for n in (0, 1, 5):
            show("advance n=%d" % n, lambda: (d.sizeof(n=n), advance(d, b"x"*n, dict(n=n))))

print("===== misc")
show("Union still unsized", lambda: Union(0, "a"/Byte).sizeof())
show("deep nest", lambda: Struct("a"/Struct("b"/Sequence(Byte, Struct("c"/FocusedSeq("d", "d"/Bytes(this._._._._.n)))))).sizeof(n=11))
show("deep nest ok", lambda: Struct("a"/Struct("b"/Sequence(Byte, Struct("c"/FocusedSeq("d", "d"/Bytes(this._._._._._.n)))))).sizeof(n=11))
show("deep nest missing", lambda: Struct("a"/Struct("b"/Sequence(Byte, Struct("c"/FocusedSeq("d", "d"/Bytes(this._._._._.n)))))).sizeof())
show("deep nest wrong depth", lambda: Struct("a"/Struct("b"/Bytes(this._._._._.n))).sizeof(n=1))
show("compiled struct sizeof", lambda: Struct("a"/Byte, "b"/Int16ub).compile().sizeof())
show("prefixedarray of struct", lambda: PrefixedArray(Byte, Struct("a"/Int16ub)).sizeof())
show("aligned struct", lambda: Aligned(4, Struct("a"/Byte, "b"/Bytes(this._.n))).sizeof(n=4))
show("padded struct", lambda: Padded(this.n, Struct("a"/Byte)).sizeof(n=4))
