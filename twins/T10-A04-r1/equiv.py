import sys, io
sys.path.insert(0, sys.argv[1])
from construct import *
from construct.core import *

def show(label, fn):
    try:
        r = fn()
    except BaseException as e:
        print(label, "->", "EXC", type(e).__name__, getattr(e, "path", None))
    else:
        print(label, "->", repr(r))

class LogStream(io.BytesIO):
    """BytesIO that logs every tell/seek/read/write."""
    def __init__(self, data=b""):
        super().__init__(data)
        self.log = []
    def tell(self):
        r = super().tell(); self.log.append(("tell", r)); return r
    def seek(self, *a):
        r = super().seek(*a); self.log.append(("seek", a, r)); return r
    def read(self, *a):
        r = super().read(*a); self.log.append(("read", a, r)); return r
    def write(self, b):
        r = super().write(b); self.log.append(("write", bytes(b), r)); return r

def parse_logged(d, data, **ctx):
    s = LogStream(data)
    try:
        r = d.parse_stream(s, **ctx)
    except BaseException as e:
        r = ("EXC", type(e).__name__, getattr(e, "path", None))
    return r, io.BytesIO.tell(s), s.log

def build_logged(d, obj, prefix=b"", **ctx):
    s = LogStream()
    io.BytesIO.write(s, prefix)
    try:
        r = d.build_stream(obj, s, **ctx)
    except BaseException as e:
        r = ("EXC", type(e).__name__, getattr(e, "path", None))
    return r, io.BytesIO.tell(s), s.getvalue(), s.log

calls = []
def hook(tag):
    def f(obj, ctx):
        calls.append((tag, obj))
    return f

# ---- parse
d = Select(Int32ub, CString("utf8"))
for data in [b"\x00\x00\x00\x01", b"ab\x00", b"abcd\x00", b"", b"abc", b"\x00", b"\xff\xff\xff\xff\x00rest"]:
    show("parse Select(Int32ub,CString) %r" % data, lambda: d.parse(data))
    print("  logged", parse_logged(d, data))

d2 = Select(Const(b"AB"), Const(b"A"), Byte)
for data in [b"AB", b"AC", b"ZZ", b"", b"A"]:
    print("parse Select(Const,Const,Byte) %r" % data, parse_logged(d2, data))

d3 = Select("a" / Int16ub, "b" / Int8ub, c=Bytes(0))
for data in [b"\x01\x02", b"\x01", b""]:
    print("parse named %r" % data, parse_logged(d3, data))

# empty Select
show("parse Select() b'x'", lambda: Select().parse(b"x"))
show("build Select() 1", lambda: Select().build(1))
show("sizeof Select(Byte)", lambda: Select(Byte).sizeof())
print("flagbuildnone", Select(Byte).flagbuildnone, Select(Byte, Pass).flagbuildnone, Select().flagbuildnone)

# ExplicitError passes through, other errors swallowed
d4 = Select(Error, Byte)
print("parse Select(Error,Byte)", parse_logged(d4, b"\x05"))
print("build Select(Error,Byte)", build_logged(d4, 5))
d5 = Select(Check(lambda ctx: False), Byte)
print("parse Select(Check False,Byte)", parse_logged(d5, b"\x05"))
print("build Select(Check False,Byte)", build_logged(d5, 5))
def boom(ctx):
    raise ZeroDivisionError("boom")
d6 = Select(Bytes(boom), Byte)
print("parse Select(Bytes(boom),Byte)", parse_logged(d6, b"\x07"))
print("build Select(Bytes(boom),Byte)", build_logged(d6, 7))
class MyBase(BaseException):
    pass
def boom2(ctx):
    raise MyBase()
d7 = Select(Bytes(boom2), Byte)
print("parse Select(Bytes(BaseException),Byte)", parse_logged(d7, b"\x07"))
print("build Select(Bytes(BaseException),Byte)", build_logged(d7, 7))

# parse hooks: order of callbacks
calls.clear()
d8 = Select((Int16ub * hook("p16")), (Int8ub * hook("p8")))
print("hooks parse 2 bytes", parse_logged(d8, b"\x01\x02"), calls); calls.clear()
print("hooks parse 1 byte", parse_logged(d8, b"\x09"), calls); calls.clear()
print("hooks parse 0 byte", parse_logged(d8, b""), calls); calls.clear()

# returned falsy values from first subcon must be returned, not skipped
d9 = Select(Int8ub, Int16ub)
print("parse falsy 0", parse_logged(d9, b"\x00\x01"))
d10 = Select(Pass, Byte)
print("parse Pass first", parse_logged(d10, b"\x01"))
print("build Pass first", build_logged(d10, None), build_logged(d10, 3))

# ---- build
for obj in [1, u"Афон", "", -1, None, 2**40, b"raw", [1]]:
    print("build Select(Int32ub,CString) %r" % (obj,), build_logged(d, obj, prefix=b"PRE"))
for obj in [None, 1, 300, "x"]:
    print("build Optional(Byte) %r" % (obj,), build_logged(Optional(Byte), obj))
    print("build Select(Byte,Int16ub) %r" % (obj,), build_logged(Select(Byte, Int16ub), obj))
for data in [b"12345678", b"", b"1234"]:
    print("parse Optional(Int64ul) %r" % data, parse_logged(Optional(Int64ul), data))

# build uses context
d11 = Select(Bytes(this.n), GreedyBytes)
print("build ctx n=2", build_logged(d11, b"ab", n=2))
print("build ctx n=3", build_logged(d11, b"ab", n=3))
print("parse ctx n=2", parse_logged(d11, b"abc", n=2))
print("parse ctx n=5", parse_logged(d11, b"abc", n=5))

# inside Struct: paths and stream positions
st = Struct("tag" / Byte, "v" / Select(Const(b"XY"), Int16ub, Int8ub), "end" / Tell)
for data in [b"\x01XY", b"\x01XZ", b"\x01X", b"\x01", b""]:
    print("struct parse %r" % data, parse_logged(st, data))
for obj in [dict(tag=1, v=None), dict(tag=1, v=513), dict(tag=1, v="bad"), dict(tag=1)]:
    print("struct build %r" % (obj,), build_logged(st, obj))

# error messages
for fn in [lambda: d.parse(b""), lambda: d.build([1]), lambda: st.parse(b"\x01"), lambda: st.build(dict(tag=1, v="bad"))]:
    try:
        fn()
    except BaseException as e:
        print("msg", type(e).__name__, str(e))

# non-seekable stream
class NoSeek(io.RawIOBase):
    def __init__(self, data): self.b = io.BytesIO(data)
    def read(self, n=-1): return self.b.read(n)
    def readable(self): return True
    def tell(self): raise OSError("no tell")
    def seek(self, *a): raise OSError("no seek")
show("noseek parse", lambda: d.parse_stream(NoSeek(b"\x00\x00\x00\x01")))
class NoSeekOnly(io.BytesIO):
    def seek(self, *a): raise OSError("no seek")
show("noseekonly parse ok", lambda: d.parse_stream(NoSeekOnly(b"\x00\x00\x00\x01")))
show("noseekonly parse fallback", lambda: d.parse_stream(NoSeekOnly(b"ab\x00")))

# compiled Select is not supported: observe
show("compile Select", lambda: type(Select(Byte, Int16ub).compile()).__name__)
# GreedyRange of Select
gr = GreedyRange(Select(Const(b"\x01"), Const(b"\x02\x03")))
print("greedy", parse_logged(gr, b"\x01\x02\x03\x01\x02\x04"))
print("greedy build", build_logged(gr, [None, None]))
