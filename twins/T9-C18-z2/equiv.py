#!/usr/bin/env python
"""C18 twin z2: observation script for Padded / Padding / Pointer (and the shapes around them).

usage: equiv.py <repo root>
Prints a deterministic transcript (results, bytes, sizes, stream positions, exception
types/paths/messages, callback order, compiled behaviour).  Output on the reference tree and
on the refactored tree must be byte-identical.
"""
import io
import sys

root = sys.argv[1]
sys.path.insert(0, root)

from construct import *  # noqa: E402

LINE = [0]


def out(*parts):
    LINE[0] += 1
    print("%04d" % LINE[0], *parts)


def show(v):
    if isinstance(v, dict):
        return "{" + ", ".join("%s=%s" % (k, show(x)) for k, x in dict.items(v) if not str(k).startswith("_")) + "}"
    if isinstance(v, (list, tuple)):
        return "[" + ", ".join(show(x) for x in v) + "]"
    if callable(v):
        return "<callable>"
    return repr(v)


def describe(e):
    if isinstance(e, ConstructError):
        return "%s path=%r msg=%r" % (type(e).__name__, e.path, str(e))
    return "%s msg=%r" % (type(e).__name__, str(e))


def try_parse(label, con, data, **kw):
    stream = io.BytesIO(data)
    try:
        res = con.parse_stream(stream, **kw)
        out("parse", label, data.hex(), "->", show(res), "pos=%d" % stream.tell())
    except Exception as e:
        out("parse", label, data.hex(), "!!", describe(e), "pos=%d" % stream.tell())


def try_build(label, con, obj, initial=b"", **kw):
    stream = io.BytesIO()
    stream.write(initial)
    try:
        con.build_stream(obj, stream, **kw)
        out("build", label, show(obj), "->", stream.getvalue().hex(), "pos=%d" % stream.tell())
    except Exception as e:
        out("build", label, show(obj), "!!", describe(e), "pos=%d written=%s" % (stream.tell(), stream.getvalue().hex()))


def try_sizeof(label, con, **kw):
    try:
        out("sizeof", label, "->", con.sizeof(**kw))
    except Exception as e:
        out("sizeof", label, "!!", describe(e))


LOG = []


def logged(tag, value):
    def f(ctx):
        LOG.append("%s(%s)" % (tag, ",".join(sorted(k for k in dict.keys(ctx) if not k.startswith("_")))))
        return value(ctx) if callable(value) else value
    return f


def flush(label):
    out("callbacks", label, " ".join(LOG) if LOG else "-")
    del LOG[:]


class Pipe(io.RawIOBase):
    """Readable/writable, but cannot tell or seek."""
    def __init__(self, data=b""):
        self.buf = io.BytesIO(data)
    def readable(self):
        return True
    def writable(self):
        return True
    def read(self, n=-1):
        return self.buf.read(n)
    def write(self, b):
        return self.buf.write(b)
    def tell(self):
        raise OSError("no tell")
    def seek(self, *a):
        raise OSError("no seek")


# ---------------------------------------------------------------------------------------------
# Padded
# ---------------------------------------------------------------------------------------------
slot = Struct(
    "w" / Byte,
    "cell" / Padded(logged("width", lambda ctx: ctx.w), Struct("a" / Byte, "b" / Int16ub), pattern=b"\xaa"),
    "after" / Byte,
)
for w in (0, 1, 2, 3, 4, 6, 0x80):
    data = bytes([w]) + b"\x01\x00\x02" + b"\xaa" * 3 + b"\x09"
    try_parse("slot w=%d" % w, slot, data)
gooddata = b"\x05\x01\x00\x02\xaa\xaa\x09"
for cut in range(len(gooddata) + 1):
    try_parse("slot cut=%d" % cut, slot, gooddata[:cut])
flush("slot parse")
for w in (0, 2, 3, 4, 7):
    try_build("slot w=%d" % w, slot, dict(w=w, cell=dict(a=1, b=2), after=9))
try_build("slot b unbuildable", slot, dict(w=5, cell=dict(a=1, b=-2), after=9))
try_build("slot a missing", slot, dict(w=5, cell=dict(b=2), after=9))
try_build("slot after unbuildable", slot, dict(w=5, cell=dict(a=1, b=2), after=256))
flush("slot build")
try_sizeof("slot", slot)
try_sizeof("slot w given", slot, w=5)
flush("slot sizeof")

signed = Struct("w" / Int8sb, "cell" / Padded(this.w, "v" / Byte), "z" / Byte)
for w in (-1, -128, 0, 1, 2):
    try_parse("signed w=%d" % w, signed, bytes([w & 0xff]) + b"\x07\x00\x08")
    try_build("signed w=%d" % w, signed, dict(w=w, cell=7, z=8))
for kw in (dict(), dict(n=4), dict(n=-4), dict(n=0)):
    con = Padded(this.n, "v" / Int16ub)
    try_sizeof("Padded(this.n) %r" % sorted(kw.items()), con, **kw)
    try_sizeof("nested Padded(this._.n) %r" % sorted(kw.items()), Struct("p" / Padded(this._.n, Byte)), **kw)
try_sizeof("Padded(lambda raising AttributeError)", "m" / Padded(lambda ctx: ctx.nothere.deeper, Byte))
try_sizeof("Padded(lambda raising ZeroDivisionError)", "m" / Padded(lambda ctx: 1 // 0, Byte))
try_parse("Padded(lambda raising KeyError)", Struct("m" / Padded(this.missing, Byte)), b"\x01\x02")
try_build("Padded(lambda raising KeyError)", Struct("m" / Padded(this.missing, Byte)), dict(m=1))

# fixed widths, Padding macro, nesting in arrays / switches / prefixed blocks
table = Struct(
    "n" / Byte,
    "rows" / Array(this.n, "row" / Padded(4, Struct("k" / Byte, "name" / CString("ascii")))),
    Padding(2, pattern=b"\xff"),
    "sw" / Switch(this.n, {1: "one" / Padded(3, "x" / Int16ub), 2: "two" / Padded(1, "x" / Int16ub)}, default="dflt" / Padded(2, Pass)),
    "blk" / Prefixed(Byte, "pp" / Padded(3, "q" / GreedyBytes)),
)
t1 = b"\x01" + b"\x07ab\x00" + b"\xff\xff" + b"\x00\x05\x00" + b"\x03xyz"
t2 = b"\x02" + b"\x07ab\x00" + b"\x08a\x00\x00" + b"\xff\xff" + b"\x00\x05" + b"\x03xyz"
t0 = b"\x00" + b"\xff\xff" + b"\x00\x00" + b"\x02xy"
for name, data in (("t1", t1), ("t2", t2), ("t0", t0)):
    try_parse("table %s" % name, table, data)
    for cut in range(len(data)):
        try_parse("table %s cut=%d" % (name, cut), table, data[:cut])
try_parse("table row too long", table, b"\x01" + b"\x07abcd\x00" + bytes(12))
try_parse("table blk longer than pad", table, b"\x00\xff\xff\x00\x00\x05vwxyz")
try_build("table n=1", table, dict(n=1, rows=[dict(k=7, name="ab")], sw=5, blk=b"xyz"))
try_build("table n=2", table, dict(n=2, rows=[dict(k=7, name="ab"), dict(k=8, name="")], sw=5, blk=b"xyz"))
try_build("table n=0", table, dict(n=0, rows=[], sw=None, blk=b""))
try_build("table name too long", table, dict(n=1, rows=[dict(k=7, name="abcdef")], sw=5, blk=b"xyz"))
try_build("table k unbuildable", table, dict(n=1, rows=[dict(k=-7, name="ab")], sw=5, blk=b"xyz"))
try_build("table sw unbuildable", table, dict(n=1, rows=[dict(k=7, name="ab")], sw=-5, blk=b"xyz"))
try_build("table blk too long", table, dict(n=0, rows=[], sw=None, blk=b"vwxyz"))
try_build("table blk not bytes", table, dict(n=0, rows=[], sw=None, blk=u"vw"))
try_sizeof("table", table)
try_sizeof("table n=2", table, n=2)
try_sizeof("padded rows", Array(3, "row" / Padded(4, Struct("k" / Byte, "name" / CString("ascii")))))
try_sizeof("padding", Padding(5))
try_parse("padding", Struct(Padding(3), "a" / Byte), b"\x01\x02\x03\x04")
try_parse("padding short", Struct("pad" / Padding(3), "a" / Byte), b"\x01\x02")
try_build("padding", Struct("pad" / Padding(3, pattern=b"z"), "a" / Byte), dict(a=1))
try:
    Padded(4, Byte, pattern=b"ab")
    out("ctor", "pattern ab accepted")
except Exception as e:
    out("ctor", "pattern ab !!", describe(e))
try:
    Padded(4, Byte, pattern=u"a")
    out("ctor", "pattern str accepted")
except Exception as e:
    out("ctor", "pattern str !!", describe(e))

# streams without tell()
try_pipe = Struct("a" / Byte, "p" / Padded(3, "v" / Byte))
try:
    out("pipe parse", show(try_pipe.parse_stream(Pipe(b"\x01\x02\x00\x00"))))
except Exception as e:
    out("pipe parse !!", describe(e))
try:
    pipe = Pipe()
    try_pipe.build_stream(dict(a=1, p=2), pipe)
    out("pipe build", pipe.buf.getvalue().hex())
except Exception as e:
    out("pipe build !!", describe(e), pipe.buf.getvalue().hex())

# ---------------------------------------------------------------------------------------------
# Pointer
# ---------------------------------------------------------------------------------------------
other = io.BytesIO(b"OTHERSTREAM")
ptrs = Struct(
    "off" / Int8sb,
    "near" / Pointer(logged("near", lambda ctx: ctx.off), "v" / Int16ub),
    "mid" / Byte,
    "tail" / Pointer(-2, "t" / Int16ub),
    "ext" / Pointer(logged("extoff", 5), "e" / Bytes(3), stream=logged("extstream", lambda ctx: ctx._params.get("alt"))),
    "end" / Tell,
)
blob = b"\x03\x11\x22\x33\x44\x55\x66\x77\x88\x99"
for off in (0, 1, 3, 8, 9, 10, 50, -1, -3, -10, -11, -128):
    data = bytes([off & 0xff]) + blob[1:]
    try_parse("ptrs off=%d" % off, ptrs, data)
    flush("ptrs off=%d" % off)
    other.seek(4)
    try_parse("ptrs off=%d alt" % off, ptrs, data, alt=other)
    out("other stream position", other.tell())
    flush("ptrs off=%d alt" % off)
for cut in range(len(blob)):
    try_parse("ptrs cut=%d" % cut, ptrs, blob[:cut])
flush("ptrs cuts")
for off in (0, 2, 6, -1, -4, -128):
    try_build("ptrs off=%d" % off, ptrs, dict(off=off, near=0xBEEF, mid=0x4D, tail=0x5454, ext=b"EXT"), initial=b"")
    flush("ptrs build off=%d" % off)
    sink = io.BytesIO(b"0123456789")
    sink.seek(1)
    try_build("ptrs off=%d alt" % off, ptrs, dict(off=off, near=0xBEEF, mid=0x4D, tail=0x5454, ext=b"EXT"), initial=b"pre", alt=sink)
    out("alt sink", sink.getvalue().hex(), "pos=%d" % sink.tell())
    flush("ptrs build off=%d alt" % off)
try_build("ptrs near unbuildable", ptrs, dict(off=0, near=-1, mid=1, tail=2, ext=b"EXT"))
try_build("ptrs tail unbuildable", ptrs, dict(off=0, near=1, mid=1, tail=-2, ext=b"EXT"))
try_build("ptrs ext wrong length", ptrs, dict(off=0, near=1, mid=1, tail=2, ext=b"EX"))
try_build("ptrs off unbuildable", ptrs, dict(off=300, near=1, mid=1, tail=2, ext=b"EXT"))
flush("ptrs build failures")
try_sizeof("ptrs", ptrs)
try_sizeof("pointer", Pointer(this.nowhere, Int32ub))

# pointers inside length-delimited blocks and arrays, pointer to pointer
boxed = Struct(
    "hdr" / Bytes(2),
    "blk" / FixedSized(4, Struct(
        "len" / Byte,
        "back" / Pointer(this.len, "b" / Byte),
        "chain" / Pointer(3, "hop" / Pointer(this.len, "c" / Byte)),
    )),
    "dir" / Array(2, "ent" / Struct("at" / Byte, "val" / Pointer(this.at, "pv" / Padded(2, "x" / Byte)))),
)
for ln in (0, 1, 2, 3, 5, 6, 9, 200):
    try_parse("boxed len=%d" % ln, boxed, b"HD" + bytes([ln]) + b"\x61\x62\x63" + b"\x02\x07")
    try_parse("boxed len=%d short dir" % ln, boxed, b"HD" + bytes([ln]) + b"\x61\x62\x63" + b"\x02")
try_parse("boxed all resolvable", boxed, b"HD\x03abc\x00\x01")
try_parse("boxed all resolvable, len=5", boxed, b"HD\x05abc\x04\x02")
try_parse("boxed dir past end", boxed, b"HD\x03abc\x09\x0a")
try_parse("boxed dir at last byte", boxed, b"HD\x03abc\x07\x00")
try_build("boxed", boxed, dict(hdr=b"HD", blk=dict(len=2, back=0x42, chain=0x43), dir=[dict(at=8, val=1), dict(at=9, val=2)]))
try_build("boxed pv unbuildable", boxed, dict(hdr=b"HD", blk=dict(len=2, back=0x42, chain=0x43), dir=[dict(at=8, val=1), dict(at=9, val=-2)]))
try_build("boxed c unbuildable", boxed, dict(hdr=b"HD", blk=dict(len=2, back=0x42, chain=-1), dir=[dict(at=8, val=1), dict(at=9, val=2)]))

# streams without tell()/seek()
pp = Struct("a" / Byte, "p" / Pointer(0, "v" / Byte))
try:
    out("pipe pointer parse", show(pp.parse_stream(Pipe(b"\x01\x02"))))
except Exception as e:
    out("pipe pointer parse !!", describe(e))
try:
    pipe = Pipe()
    pp.build_stream(dict(a=1, p=2), pipe)
    out("pipe pointer build", pipe.buf.getvalue().hex())
except Exception as e:
    out("pipe pointer build !!", describe(e), pipe.buf.getvalue().hex())

# ---------------------------------------------------------------------------------------------
# compiled instances (emitted code is separate, but part of the observable surface)
# ---------------------------------------------------------------------------------------------
comp = Struct("w" / Byte, "p" / Padded(3, "x" / Byte, pattern=b"\x2e"), "ptr" / Pointer(this.w, "y" / Byte), Padding(1))
ccomp = comp.compile()
for data in (b"\x00\x01\x00\x00\x09", b"\x04\x01\x00\x00\x09", b"\x09\x01\x00\x00\x09", b"\x00\x01\x00", b""):
    try_parse("comp", comp, data)
    try_parse("comp compiled", ccomp, data)
for obj in (dict(w=0, p=1, ptr=2), dict(w=6, p=1, ptr=2), dict(w=1, p=300, ptr=2), dict(w=1, p=1)):
    try_build("comp", comp, obj)
    try_build("comp compiled", ccomp, obj)
try_sizeof("comp", comp)
try_sizeof("comp compiled", ccomp)
out("done")
