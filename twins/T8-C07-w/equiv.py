"""Equivalence transcript for C07 refactorings.

usage: python equiv.py <path-to-checkout>

Exercises top-level context creation (parse/parse_stream/build/build_stream/sizeof
with keyword arguments), nested context resolution in Struct / Sequence /
FocusedSeq / Union / LazyStruct / Array / GreedyRange / RepeatUntil, and the
member-selection logic of Struct._build / LazyStruct._build / Sequence._build /
FocusedSeq._parse / FocusedSeq._build. Prints a deterministic transcript.
"""
import sys, io

sys.path.insert(0, sys.argv[1])

import construct
from construct import *
from construct.lib import Container, ListContainer

assert construct.__file__.startswith(sys.argv[1].rstrip("/")), construct.__file__

OUT = []


def show(x, depth=0):
    """Deterministic, identity-free rendering."""
    if depth > 6:
        return "..."
    if isinstance(x, io.BytesIO):
        return "<BytesIO pos=%d>" % x.tell()
    if isinstance(x, dict):
        items = []
        for k, v in x.items():
            if k in ("_", "_root", "_params", "_subcons"):
                if isinstance(v, dict):
                    items.append("%s=<%s keys=%s>" % (k, type(v).__name__, [kk for kk in v.keys()]))
                else:
                    items.append("%s=%s" % (k, show(v, depth + 1)))
            else:
                items.append("%s=%s" % (k, show(v, depth + 1)))
        return "%s{%s}" % (type(x).__name__, ", ".join(items))
    if isinstance(x, (list, tuple)):
        return "%s[%s]" % (type(x).__name__, ", ".join(show(e, depth + 1) for e in x))
    if isinstance(x, (bytes, int, str, bool, float)) or x is None:
        return repr(x)
    if callable(x):
        return "<callable>"
    return "<%s>" % type(x).__name__


def emit(label, fn):
    try:
        r = fn()
        OUT.append("%s -> %s" % (label, show(r)))
    except Exception as e:
        OUT.append("%s !! %s: %s" % (label, type(e).__name__, " ".join(str(e).split())[:200]))


# ---------------------------------------------------------------------------
# 1. top-level context: snapshot taken by a Computed at top level and nested
# ---------------------------------------------------------------------------
SNAPS = []


def snap(ctx):
    d = {}
    d["keys"] = list(ctx.keys())
    d["flags"] = (ctx.get("_parsing"), ctx.get("_building"), ctx.get("_sizing"))
    p = ctx.get("_params")
    d["params_keys"] = list(p.keys()) if isinstance(p, dict) else repr(p)
    d["params_is_self"] = p is ctx
    d["params_params_is_params"] = (p.get("_params") is p) if isinstance(p, dict) else None
    r = ctx.get("_root", "<none>")
    d["root_keys"] = list(r.keys()) if isinstance(r, dict) else repr(r)
    d["depth"] = 0
    c = ctx
    while isinstance(c, dict) and "_" in c:
        c = c["_"]
        d["depth"] += 1
    d["index"] = ctx.get("_index", "<none>")
    SNAPS.append(d)
    return sorted((k, repr(v)) for k, v in d.items())


KWS = [
    {},
    {"k": 3},
    {"k": 3, "n": 2, "zeta": b"z"},
    {"_parsing": 5},
    {"_building": "yes", "_sizing": None},
    {"_params": 1},
    {"_root": 7, "_index": 9, "_": 4},
    {"_io": 1, "_subcons": 2},
    {"stream": 1, "obj": 2, "data": 3, "path": 4},
]

top = Computed(snap)
nest1 = Struct("a" / Byte, "s" / Computed(snap))
nest2 = Struct("a" / Byte, "in" / Struct("b" / Byte, "s" / Computed(snap)))
arr = Array(2, Struct("s" / Computed(snap)))
seqs = Sequence(Byte, "s" / Computed(snap), FocusedSeq("t", "t" / Computed(snap)))

for kw in KWS:
    for name, d, data, obj in [
        ("top", top, b"", None),
        ("nest1", nest1, b"\x01", {"a": 1}),
        ("nest2", nest2, b"\x01\x02", {"a": 1, "in": {"b": 2}}),
        ("arr", arr, b"", [{}, {}]),
        ("seqs", seqs, b"\x05", [5, None, None]),
    ]:
        emit("parse %s kw=%r" % (name, sorted(kw)), lambda: d.parse(data, **kw))
        def ps():
            st = io.BytesIO(data + b"TAIL")
            r = d.parse_stream(st, **kw)
            return (r, st.tell())
        emit("parse_stream %s kw=%r" % (name, sorted(kw)), ps)
        emit("build %s kw=%r" % (name, sorted(kw)), lambda: d.build(obj, **kw))
        def bs():
            st = io.BytesIO(b"XY")
            st.seek(2)
            r = d.build_stream(obj, st, **kw)
            return (r, st.tell(), st.getvalue())
        emit("build_stream %s kw=%r" % (name, sorted(kw)), bs)
        emit("sizeof %s kw=%r" % (name, sorted(kw)), lambda: d.sizeof(**kw))

# keyword names colliding with python-level parameter names
emit("parse self kw", lambda: Byte.parse(b"\x01", **{"self": 1}))
emit("parse_stream self kw", lambda: Byte.parse_stream(io.BytesIO(b"\x01"), **{"self": 1}))
emit("parse_stream stream kw", lambda: Byte.parse_stream(io.BytesIO(b"\x01"), **{"stream": 1}))
emit("build self kw", lambda: Byte.build(1, **{"self": 1}))
emit("build_stream self kw", lambda: Byte.build_stream(1, io.BytesIO(), **{"self": 1}))
emit("sizeof self kw", lambda: Byte.sizeof(**{"self": 1}))
emit("sizeof contextkw kw", lambda: Computed(snap).sizeof(contextkw=1, parsing=2, building=3, sizing=4))
emit("parse contextkw kw", lambda: Computed(snap).parse(b"", contextkw=1, parsing=2, building=3, sizing=4, context=5))
emit("build contextkw kw", lambda: Computed(snap).build(None, contextkw=1, parsing=2, building=3, sizing=4, context=5))

# parsed hook sees the top-level context; CancelParsing returns None
seen = []
hooked = Byte * (lambda obj, ctx: seen.append((obj, list(ctx.keys()), ctx._params is ctx)))
emit("hook parse", lambda: (hooked.parse(b"\x09", q=1), list(seen)))


def cancel(obj, ctx):
    raise CancelParsing


emit("cancel parse", lambda: (Byte * cancel).parse(b"\x01", q=1))
emit("cancel parse_stream", lambda: (Byte * cancel).parse_stream(io.BytesIO(b"\x01\x02"), q=1))
emit("parse short", lambda: Byte.parse(b"", q=1))
emit("parse_stream not a stream", lambda: Byte.parse_stream(None))
emit("build bad", lambda: Byte.build("x", q=1))
emit("sizeof unknown", lambda: GreedyBytes.sizeof(q=1))
emit("sizeof missing key", lambda: Bytes(this.n).sizeof())
emit("sizeof with key", lambda: Bytes(this.n).sizeof(n=4))
emit("sizeof _params key", lambda: Struct("d" / Bytes(this._params.n)).sizeof(n=4))

# flags
flags = Struct(
    "p" / Computed(this._parsing), "b" / Computed(this._building), "z" / Computed(this._sizing),
    "in" / Struct("p" / Computed(this._parsing), "b" / Computed(this._building), "z" / Computed(this._sizing),
                  "d" / If(this._building, Byte)),
)
emit("flags parse", lambda: flags.parse(b""))
emit("flags build", lambda: flags.build({"in": {"d": 7}}))
emit("flags sizeof", lambda: flags.sizeof())
emit("flags parse override", lambda: flags.parse(b"", _parsing=0, _building=1, _sizing=2))
emit("flags build override", lambda: flags.build({"in": {"d": 7}}, _parsing=0, _building=0, _sizing=2))

# ---------------------------------------------------------------------------
# 2. nested reference paths, all operations
# ---------------------------------------------------------------------------
shapes = {
    "struct_this": Struct("n" / Byte, "d" / Bytes(this.n)),
    "struct_up": Struct("n" / Byte, "in" / Struct("d" / Bytes(this._.n))),
    "struct_upup": Struct("n" / Byte, "in" / Struct("in" / Struct("d" / Bytes(this._._.n)))),
    "struct_root": Struct("n" / Byte, "in" / Struct("in" / Struct("d" / Bytes(this._root.n)))),
    "struct_params": Struct("in" / Struct("in" / Struct("d" / Bytes(this._params.k)))),
    "lazy_this": LazyStruct("n" / Byte, "d" / Bytes(this.n)),
    "lazy_up": Struct("n" / Byte, "in" / LazyStruct("d" / Bytes(this._.n))),
    "seq_this": Sequence("n" / Byte, Bytes(this.n)),
    "seq_up": Struct("n" / Byte, "in" / Sequence(Bytes(this._.n))),
    "focus_this": FocusedSeq("d", "n" / Byte, "d" / Bytes(this.n)),
    "focus_up": Struct("n" / Byte, "in" / FocusedSeq("d", "d" / Bytes(this._.n))),
    "focus_dyn": Struct("w" / Computed("d"), "in" / FocusedSeq(this._.w, "n" / Byte, "d" / Bytes(this.n))),
    "union_this": Union(None, "n" / Byte, "d" / Bytes(this.n)),
    "array_index": Struct("n" / Byte, "a" / Array(this.n, Struct("i" / Computed(this._index), "d" / Bytes(this._index)))),
    "greedy_index": GreedyRange(Struct("i" / Computed(this._index), "b" / Byte)),
    "until_index": RepeatUntil(lambda e, lst, ctx: ctx._index >= 2, Struct("i" / Computed(this._index), "b" / Byte)),
    "later_sibling": Struct("d" / Bytes(this.n), "n" / Byte),
    "switch": Struct("t" / Byte, "v" / Switch(this.t, {1: Byte, 2: Int16ub}, default=Pass)),
}
datas = [b"", b"\x00", b"\x01", b"\x02ab", b"\x02abcdef", b"\x03\x01\x02\x03\x04\x05\x06\x07"]
objs = [
    None, {}, [], {"n": 2, "d": b"ab"}, {"n": 1, "d": b"ab"}, {"d": b"ab"}, {"n": 2},
    {"n": 2, "in": {"d": b"ab"}}, {"n": 2, "in": {"in": {"d": b"ab"}}}, {"in": {"in": {"d": b"ab"}}},
    [2, b"ab"], [2], {"n": 2, "in": [b"ab"]}, b"ab", {"n": 2, "in": b"ab"}, {"w": None, "in": b"ab"},
    {"n": 2, "a": [{"d": b""}, {"d": b"x"}]}, [{"b": 1}, {"b": 2}, {"b": 3}], [{"b": 1}],
    {"t": 1, "v": 5}, {"t": 2, "v": 5}, {"t": 3, "v": None}, {"t": 1},
    {"n": 2, "d": b"ab", "extra": 1, "_index": 5},
]
for name, d in shapes.items():
    for data in datas:
        def ps():
            st = io.BytesIO(data)
            r = d.parse_stream(st, k=2)
            if isinstance(r, dict) and type(r).__name__ == "LazyContainer":
                r = dict((k, r[k]) for k in r.keys())
            return (r, st.tell())
        emit("P %s %r" % (name, data), ps)
    for i, obj in enumerate(objs):
        emit("B %s #%d" % (name, i), lambda: d.build(obj, k=2))
    emit("S %s" % name, lambda: d.sizeof(k=2))
    emit("S %s n" % name, lambda: d.sizeof(k=2, n=3, t=2, w="d"))

# ---------------------------------------------------------------------------
# 3. member selection while building (flagbuildnone vs. required members)
# ---------------------------------------------------------------------------
class Spy(Construct):
    """records what it was asked to build and what the context held at that time"""
    def __init__(self, log, buildnone, ret="same"):
        super().__init__()
        self.log = log
        self.flagbuildnone = buildnone
        self.ret = ret
    def _parse(self, stream, context, path):
        self.log.append(("parse", [k for k in context.keys()], path))
        return len(self.log)
    def _build(self, obj, stream, context, path):
        self.log.append(("build", show(obj), [(k, show(v)) for k, v in context.items() if not k.startswith("_")], path))
        if self.ret == "stop":
            raise StopFieldError
        return obj if self.ret == "same" else self.ret
    def _sizeof(self, context, path):
        return 0


for cls in (Struct, LazyStruct):
    for objname, obj in [("none", None), ("empty", {}), ("a", {"a": 1}), ("ab", {"a": 1, "b": 2}), ("b", {"b": 2}),
                         ("Nonekey", {None: 5, "b": 2}), ("Nonekey-only", {None: 5}),
                         ("container", Container(a=1, b=2, c=3)), ("list", [1, 2]), ("int", 5), ("str", "ab")]:
        for variant in range(6):
            log = []
            members = {
                0: ["a" / Spy(log, True), "b" / Spy(log, False)],
                1: ["a" / Spy(log, False), "b" / Spy(log, True)],
                2: [Spy(log, True), "b" / Spy(log, False, ret=99)],
                3: [Spy(log, False), "b" / Spy(log, True)],
                4: ["a" / Spy(log, True, ret="stop"), "b" / Spy(log, False)],
                5: ["a" / Spy(log, True, ret=[1]), "b" / Spy(log, True), "c" / Computed(this.a)],
            }[variant]
            d = cls(*members)
            def run():
                st = io.BytesIO()
                ctx = Container(_params=Container(), _parsing=False, _building=True, _sizing=False)
                r = d._build(obj, st, ctx, "(p)")
                return ([(k, show(v)) for k, v in r.items() if not k.startswith("_")], st.tell())
            emit("%s._build %s v%d" % (cls.__name__, objname, variant), run)
            OUT.append("   log=%r" % (log,))
            log2 = []
            emit("%s.build %s v%d" % (cls.__name__, objname, variant), lambda: d.build(obj, kk=1))

# Sequence / FocusedSeq building and parsing with spies
for objname, obj in [("none", None), ("empty", []), ("one", [1]), ("two", [1, 2]), ("three", [1, 2, 3]),
                     ("tuple", (1, 2)), ("gen", "GEN"), ("dict", {"a": 1, "b": 2}), ("int", 5), ("bytes", b"ab")]:
    for variant in range(4):
        log = []
        members = {
            0: ["a" / Spy(log, True), "b" / Spy(log, False)],
            1: [Spy(log, True), "b" / Spy(log, False, ret=99)],
            2: ["a" / Spy(log, True, ret="stop"), "b" / Spy(log, False)],
            3: [],
        }[variant]
        d = Sequence(*members)
        def run():
            st = io.BytesIO()
            ctx = Container(_params=Container(), _parsing=False, _building=True, _sizing=False)
            o = (x for x in [7, 8, 9]) if obj == "GEN" else obj
            r = d._build(o, st, ctx, "(p)")
            return (r, st.tell())
        emit("Sequence._build %s v%d" % (objname, variant), run)
        OUT.append("   log=%r" % (log,))

for focus in ["a", "b", "zz", None, 0, this._.w, lambda ctx: "b"]:
    for variant in range(5):
        log = []
        members = {
            0: ["a" / Spy(log, True), "b" / Spy(log, False)],
            1: [Spy(log, True), "b" / Spy(log, False, ret=99)],
            2: ["a" / Spy(log, True, ret="stop"), "b" / Spy(log, False)],
            3: [],
            4: ["a" / Byte, "b" / Bytes(this.a), "b" / Byte],
        }[variant]
        d = FocusedSeq(focus, *members)
        fl = "callable" if callable(focus) else repr(focus)
        for obj in [None, 1, b"x", [1, 2]]:
            def run():
                st = io.BytesIO()
                ctx = Container(_params=Container(), _parsing=False, _building=True, _sizing=False, w="a")
                r = d._build(obj, st, ctx, "(p)")
                return (r, st.tell(), st.getvalue())
            emit("FocusedSeq._build focus=%s v%d obj=%r" % (fl, variant, obj), run)
            OUT.append("   log=%r" % (log,))
            del log[:]
        for data in [b"", b"\x01", b"\x01xy", b"\x02xyz"]:
            def run():
                st = io.BytesIO(data)
                ctx = Container(_params=Container(), _parsing=True, _building=False, _sizing=False, w="a")
                r = d._parse(st, ctx, "(p)")
                return (r, st.tell())
            emit("FocusedSeq._parse focus=%s v%d data=%r" % (fl, variant, data), run)
            OUT.append("   log=%r" % (log,))
            del log[:]
        emit("FocusedSeq.sizeof focus=%s v%d" % (fl, variant), lambda: d.sizeof(w="a", a=1))

# compiled variants still agree (emitters untouched, but they share semantics)
for name in ["struct_this", "struct_up", "struct_root", "seq_this", "focus_this"]:
    d = shapes[name]
    try:
        dc = d.compile()
    except Exception as e:
        OUT.append("compile %s !! %s" % (name, type(e).__name__))
        continue
    for data in datas:
        emit("C %s %r" % (name, data), lambda: dc.parse(data, k=2))

# ---------------------------------------------------------------------------
# 4. iteration over self.subcons: mutated during the loop, or replaced by other iterables
# ---------------------------------------------------------------------------
class Grower(Construct):
    """appends one more member to its owner's subcons list the first time it is used"""
    def __init__(self):
        super().__init__()
        self.owner = None
        self.fired = False
        self.flagbuildnone = True
    def _fire(self):
        if not self.fired:
            self.fired = True
            self.owner.subcons.append("late" / Byte)
    def _parse(self, stream, context, path):
        self._fire()
        return "g"
    def _build(self, obj, stream, context, path):
        self._fire()
        return "g"
    def _sizeof(self, context, path):
        return 0


class Shrinker(Grower):
    def _fire(self):
        if not self.fired:
            self.fired = True
            del self.owner.subcons[-1]


for gcls in (Grower, Shrinker):
    for mk in ("seq", "focus"):
        def make():
            g = gcls()
            if mk == "seq":
                d = Sequence("a" / Byte, "g" / g, "z" / Byte)
            else:
                d = FocusedSeq("a", "a" / Byte, "g" / g, "z" / Byte)
            g.owner = d
            return d
        d = make()
        emit("%s %s parse" % (gcls.__name__, mk), lambda: (d.parse(b"\x01\x02\x03\x04"), len(d.subcons)))
        emit("%s %s parse again" % (gcls.__name__, mk), lambda: (d.parse(b"\x01\x02\x03\x04"), len(d.subcons)))
        d = make()
        emit("%s %s build" % (gcls.__name__, mk), lambda: (d.build([1, None, 3, 4] if mk == "seq" else 1), len(d.subcons)))
        emit("%s %s build again" % (gcls.__name__, mk), lambda: (d.build([1, None, 3, 4] if mk == "seq" else 1), len(d.subcons)))

for label, repl in [("tuple", lambda l: tuple(l)), ("gen", lambda l: (x for x in l)), ("none", lambda l: None),
                    ("int", lambda l: 5), ("dictkeys", lambda l: {sc: 1 for sc in l}), ("empty", lambda l: [])]:
    d = Sequence("a" / Byte, "b" / Byte)
    d.subcons = repl(d.subcons)
    emit("Sequence subcons=%s build" % label, lambda: d.build([1, 2]))
    emit("Sequence subcons=%s build2" % label, lambda: d.build([1, 2]))
    d = FocusedSeq("b", "a" / Byte, "b" / Byte)
    d.subcons = repl(d.subcons)
    emit("FocusedSeq subcons=%s parse" % label, lambda: d.parse(b"\x01\x02"))
    emit("FocusedSeq subcons=%s parse2" % label, lambda: d.parse(b"\x01\x02"))
    d = FocusedSeq("b", "a" / Const(b"\x01"), "b" / Byte)
    d.subcons = repl(d.subcons)
    emit("FocusedSeq subcons=%s build" % label, lambda: d.build(2))
    emit("FocusedSeq subcons=%s build2" % label, lambda: d.build(2))

# a member literally called "i" must still be visible through the context, and this._index untouched
d = Struct("arr" / Array(2, FocusedSeq("i", "i" / Byte, "j" / Computed(this.i + this._index))))
emit("focus member i parse", lambda: d.parse(b"\x05\x06"))
emit("focus member i build", lambda: d.build({"arr": [5, 6]}))
d = Array(2, Sequence("i" / Byte, "j" / Computed(this.i * 10 + this._index)))
emit("seq member i parse", lambda: d.parse(b"\x05\x06"))
emit("seq member i build", lambda: d.build([[5, None], [6, None]]))
emit("seq short obj", lambda: Sequence(Byte, Byte).build([1]))
emit("seq long obj", lambda: Sequence(Byte, Byte).build([1, 2, 3]))

print("\n".join(OUT))
print("snaps", len(SNAPS))
for i, d in enumerate(SNAPS):
    print("snap", i, sorted((k, repr(v)) for k, v in d.items()))
