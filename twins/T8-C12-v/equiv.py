import sys
sys.path.insert(0, sys.argv[1])
import enum
import io
import construct
from construct import *

out = []
def show(label, fn):
    try:
        r = fn()
        out.append("%s -> %s %r" % (label, type(r).__name__, r))
    except Exception as e:
        out.append("%s !! %s" % (label, type(e).__name__))

class E(enum.IntEnum):
    one = 1
    two = 2

class F(enum.IntFlag):
    four = 4
    eight = 8

class Alias(enum.IntEnum):
    a = 1
    b = 1      # alias, not iterated
    c = 3

class Empty(enum.IntEnum):
    pass

class Plain(enum.Enum):
    x = "ex"
    y = 7

class Override(enum.IntEnum):
    one = 100
    three = 3

class NotEnumEntries:
    def __iter__(self):
        return iter([1, 2])

class HalfEntry:
    name = "half"
    # no .value

class PartialIter:
    def __iter__(self):
        yield E.one
        yield HalfEntry()

def describe(d):
    if isinstance(d, construct.Enum):
        return (list(d.encmapping.items()), list(d.decmapping.items()), list(d.ksymapping.items()),
                [type(k).__name__ for k in d.encmapping])
    return (list(d.flags.items()), list(d.reverseflags.items()))

mergesets = [
    ("none", (), {}),
    ("kwonly", (), dict(one=1, two=2)),
    ("E", (E,), {}),
    ("F", (F,), {}),
    ("E,F", (E, F), {}),
    ("F,E", (F, E), {}),
    ("E+kw", (E,), dict(zero=0, one=9)),
    ("kw+Override", (E, Override), dict(three=33, five=5)),
    ("Alias", (Alias,), {}),
    ("Empty", (Empty,), dict(k=1)),
    ("Plain", (Plain,), {}),
    ("list-of-members", ([E.two, F.four],), {}),
    ("tuple-empty", ((),), {}),
    ("notenum", (NotEnumEntries(),), dict(k=1)),
    ("partial", (PartialIter(),), dict(k=1)),
    ("int", (5,), {}),
    ("None", (None,), {}),
    ("str", ("ab",), {}),
    ("dict", ({"a": 1},), {}),
]

for cls in (construct.Enum, construct.FlagsEnum):
    for label, merge, kw in mergesets:
        kwcopy = dict(kw)
        show("%s ctor %s" % (cls.__name__, label), lambda: describe(cls(Byte, *merge, **kwcopy)))
        out.append("   kw after: %r" % (list(kwcopy.items()),))

# passing an explicit dict via ** always copies; check the caller's dict is untouched
shared = dict(one=1)
d = construct.Enum(Byte, E, **shared)
out.append("shared after Enum: %r" % (shared,))
d = construct.FlagsEnum(Byte, E, F, **shared)
out.append("shared after FlagsEnum: %r" % (shared,))

# the documented laws: Enum(Byte, E) <--> Enum(Byte, one=1, two=2), same for FlagsEnum
pairs = [
    ("Enum", construct.Enum(Byte, E), construct.Enum(Byte, one=1, two=2)),
    ("Enum16", construct.Enum(Int16ul, E, F), construct.Enum(Int16ul, one=1, two=2, four=4, eight=8)),
    ("Flags", construct.FlagsEnum(Byte, E), construct.FlagsEnum(Byte, one=1, two=2)),
    ("FlagsF", construct.FlagsEnum(Byte, F, E), construct.FlagsEnum(Byte, four=4, eight=8, one=1, two=2)),
]
datas = [b"", b"\x00", b"\x01", b"\x02", b"\x03", b"\x04", b"\x0f", b"\xff", b"\x01\x02", b"\x01\x02\x03"]
values = [0, 1, 2, 3, 255, 256, -1, "one", "two", "three", "one|two", "four|one", " one | ", "", None, 1.5,
          E.one, E.two, F.four, F.four | F.eight, dict(one=True), dict(one=True, two=False, _x=1),
          dict(bogus=True), dict(bogus=False), {1: True}, [1], b"one"]
for label, a, b in pairs:
    for side, d in (("L", a), ("R", b)):
        for data in datas:
            def run(d=d, data=data):
                s = io.BytesIO(data)
                r = d.parse_stream(s)
                return (r, str(r), type(r).__name__, s.tell())
            show("%s.%s parse %r" % (label, side, data), run)
        for v in values:
            show("%s.%s build %r" % (label, side, v), lambda d=d, v=v: d.build(v))
        show("%s.%s sizeof" % (label, side), lambda d=d: d.sizeof())
        for attr in ("one", "two", "four", "nine", "encmapping", "flags"):
            def ga(d=d, attr=attr):
                r = getattr(d, attr)
                return (type(r).__name__, r if not isinstance(r, dict) else sorted(r.items()))
            show("%s.%s attr %s" % (label, side, attr), ga)
        show("%s.%s compiled parse" % (label, side), lambda d=d: [repr(d.compile().parse(x)) for x in datas[1:8]] )
        show("%s.%s compiled build" % (label, side), lambda d=d: d.compile().build(1))

print("\n".join(out))
