import sys
sys.path.insert(0, sys.argv[1])

import itertools
import operator

from construct.expr import this, obj_, list_, len_, sum_, min_, max_, abs_, UniExpr, BinExpr, Path
from construct import Container, Struct, Byte, Int8ub, Array, Computed, IfThenElse, If, Check, Bytes


def show(label, fn):
    try:
        print(label, "->", repr(fn()))
    except BaseException as e:
        print(label, "-> EXC", type(e).__name__, str(e)[:80])


LOG = []


class Spy(object):
    """callable operand that records the order and arguments of its calls"""
    def __init__(self, name, result=None, exc=None):
        self.name = name
        self.result = result
        self.exc = exc
    def __call__(self, *args, **kw):
        LOG.append((self.name, args, sorted(kw.items())))
        if self.exc is not None:
            raise self.exc
        return self.result
    def __repr__(self):
        return "Spy(%r)" % (self.name,)


class NotCallable(object):
    def __init__(self, v):
        self.v = v
    def __neg__(self):
        LOG.append(("neg", self.v)); return -self.v
    def __pos__(self):
        LOG.append(("pos", self.v)); return +self.v
    def __add__(self, other):
        LOG.append(("add", self.v)); return ("add", self.v, other)
    def __radd__(self, other):
        LOG.append(("radd", self.v)); return ("radd", other, self.v)
    def __bool__(self):
        LOG.append(("bool", self.v)); return bool(self.v)
    def __repr__(self):
        return "NotCallable(%r)" % (self.v,)


def logged(label, fn):
    del LOG[:]
    show(label, fn)
    print(label, "log", LOG)


unops = [("neg", operator.neg), ("pos", operator.pos), ("not", operator.not_), ("abs", abs), ("inv", operator.invert)]
binops = [("add", operator.add), ("sub", operator.sub), ("mul", operator.mul), ("div", operator.div), ("floordiv", operator.floordiv),
          ("mod", operator.mod), ("pow", operator.pow), ("xor", operator.xor), ("lshift", operator.lshift), ("rshift", operator.rshift),
          ("and", operator.and_), ("or", operator.or_), ("contains", operator.contains), ("gt", operator.gt), ("ge", operator.ge),
          ("lt", operator.lt), ("le", operator.le), ("eq", operator.eq), ("ne", operator.ne)]

consts = [0, 1, -1, 2, 3, True, False, 1.5, "s", b"b", None, [1, 2], (0,)]
ctxs = [Container(a=a, b=b, _=Container(c=c)) for a in (-2, 0, 1, 3) for b in (-1, 0, 2) for c in (0, 2)]
leaves = [("this.a", this.a), ("this[b]", this["b"]), ("this._.c", this._.c), ("obj_", obj_)]

# unary: every operator over constants and over paths in every context
for (un, u) in unops:
    for ci, c in enumerate(consts):
        show("uni %s const %d" % (un, ci), lambda: UniExpr(u, c)(None))
        show("uni %s const %d extra" % (un, ci), lambda: UniExpr(u, c)({}, 1, 2, 3))
    for (ln, l) in leaves[:3]:
        for k, ctx in enumerate(ctxs):
            show("uni %s %s ctx %d" % (un, ln, k), lambda: UniExpr(u, l)(ctx))
            show("uni2 %s %s ctx %d" % (un, ln, k), lambda: UniExpr(u, UniExpr(operator.neg, l))(ctx))
    show("uni %s obj_ int" % un, lambda: UniExpr(u, obj_)(-4))

# binary: every operator with constant/path operands on either side
for (bn, b) in binops:
    for (ci, c), (di, d) in itertools.product(enumerate(consts), repeat=2):
        show("bin %s const %d %d" % (bn, ci, di), lambda: BinExpr(b, c, d)(None))
    for (ln, l) in leaves[:3]:
        for ci, c in enumerate(consts[:9]):
            for k, ctx in enumerate(ctxs[::5]):
                show("bin %s %s const %d ctx %d" % (bn, ln, ci, k), lambda: BinExpr(b, l, c)(ctx))
                show("bin %s const %d %s ctx %d" % (bn, ci, ln, k), lambda: BinExpr(b, c, l)(ctx))
    for (ln, l), (rn, r) in itertools.product(leaves[:3], repeat=2):
        for k, ctx in enumerate(ctxs):
            show("bin %s %s %s ctx %d" % (bn, ln, rn, k), lambda: BinExpr(b, l, r)(ctx))

# order of operand evaluation, arguments passed down, exceptions from operands
logged("order both callable", lambda: BinExpr(operator.sub, Spy("L", 10), Spy("R", 3))("CTX"))
logged("order extra args dropped", lambda: BinExpr(operator.sub, Spy("L", 10), Spy("R", 3))("CTX", "x", "y"))
logged("order lhs raises", lambda: BinExpr(operator.sub, Spy("L", exc=KeyError("l")), Spy("R", 3))("CTX"))
logged("order rhs raises", lambda: BinExpr(operator.sub, Spy("L", 10), Spy("R", exc=IndexError("r")))("CTX"))
logged("order both raise", lambda: BinExpr(operator.sub, Spy("L", exc=KeyError("l")), Spy("R", exc=IndexError("r")))("CTX"))
logged("order op raises", lambda: BinExpr(operator.div, Spy("L", 10), Spy("R", 0))("CTX"))
logged("lhs const rhs callable", lambda: BinExpr(operator.add, NotCallable(1), Spy("R", 3))("CTX"))
logged("lhs callable rhs const", lambda: BinExpr(operator.add, Spy("L", 3), NotCallable(2))("CTX"))
logged("both noncallable objects", lambda: BinExpr(operator.add, NotCallable(1), NotCallable(2))("CTX"))
logged("uni callable", lambda: UniExpr(operator.neg, Spy("U", 5))("CTX"))
logged("uni callable extra", lambda: UniExpr(operator.neg, Spy("U", 5))("CTX", 1, 2))
logged("uni callable raises", lambda: UniExpr(operator.neg, Spy("U", exc=ValueError("u")))("CTX"))
logged("uni noncallable object", lambda: UniExpr(operator.neg, NotCallable(4))("CTX"))
logged("uni not noncallable object", lambda: UniExpr(operator.not_, NotCallable(0))("CTX"))
logged("uni op raises", lambda: UniExpr(operator.neg, Spy("U", "str"))("CTX"))
logged("spy returning callable is not called again", lambda: UniExpr(operator.pos, Spy("U", Spy("inner", 1)))("CTX"))
logged("bin spy returning callable", lambda: BinExpr(operator.eq, Spy("L", Spy("inner", 1)), 1)("CTX"))

# callable things that are not expressions: types, builtins, lambdas, bound methods
show("type operand", lambda: UniExpr(operator.neg, int)("12"))
show("type operand fails", lambda: UniExpr(operator.neg, int)("zz"))
show("builtin operand", lambda: BinExpr(operator.add, len, 1)([1, 2, 3]))
show("lambda operands", lambda: BinExpr(operator.mul, lambda ctx: ctx["n"], lambda ctx: ctx["m"])({"n": 3, "m": 4}))
show("lambda needing two args", lambda: BinExpr(operator.mul, lambda a, b: a, 2)(1, 2))
show("bound method", lambda: BinExpr(operator.add, "abc".upper, "x")(None))
show("missing obj", lambda: BinExpr(operator.add, 1, 2)())
show("missing obj uni", lambda: UniExpr(operator.neg, 1)())
show("keyword obj", lambda: BinExpr(operator.add, this.a, 2)(obj={"a": 1}))
show("op not callable", lambda: BinExpr(None, 1, 2)(None))
show("op wrong arity", lambda: BinExpr(operator.neg, 1, 2)(None))
show("uni op wrong arity", lambda: UniExpr(operator.add, 1)(None))

# attributes reassigned after construction are honoured at call time
e = BinExpr(operator.add, this.a, 1)
show("before reassign", lambda: e({"a": 1}))
e.lhs = 100
show("after lhs reassign", lambda: e({"a": 1}))
e.rhs = this.a
show("after rhs reassign", lambda: e({"a": 1}))
e.op = operator.sub
show("after op reassign", lambda: e({"a": 1}))
u = UniExpr(operator.neg, this.a)
u.operand = 7
show("uni after reassign", lambda: u({"a": 1}))
del u.operand
show("uni operand deleted", lambda: u({"a": 1}))
del e.lhs
show("bin lhs deleted", lambda: e({"a": 1}))

# expressions built through overloads, against native evaluation
def tree(a, b, c, x):
    return [
        (this.a + this["b"] * 2, a + b * 2), (2 ** this._.c - this.a, 2 ** c - a), (-this.a % 3, -a % 3), ((this.a << 2) | this["b"] & 7, (a << 2) | b & 7),
        (this.a // 2 + this.a / 2, a // 2 + a / 2), (10 - this.a - this["b"], 10 - a - b), (~(this.a == this["b"]), not (a == b)), (+this.a ^ this._.c, +a ^ c),
        ((this.a >= 0) & (this["b"] < 2), (a >= 0) & (b < 2)), (len_(this.x) * 2 + sum_(this.x), len(x) * 2 + sum(x)), (abs_(this.a) - max_(this.x), abs(a) - max(x)),
        (7 % (this._.c + 1), 7 % (c + 1)), (this.a != 0, a != 0), (1 - -this.a, 1 - -a),
    ]
for a, b, c in itertools.product((-2, 0, 1, 3), (-1, 0, 2), (0, 2)):
    x = [a, b, c, 1]
    ctx = Container(a=a, b=b, x=x, _=Container(c=c))
    for i, (ex, native) in enumerate(tree(a, b, c, x)):
        got = ex(ctx)
        print("tree", a, b, c, i, repr(got), repr(native), got == native, type(got).__name__)

# through the library: expressions as counts, conditions and computed values
d = Struct("n" / Byte, "m" / Byte, "data" / Array(this.n + this.m * 2 - 1, Byte), "neg" / Computed(-this.n + this.m), "flag" / Computed(~(this.n == this.m)),
           "opt" / If(this.n > this.m, Byte), "alt" / IfThenElse((this.n & 1) == 1, Int8ub, Bytes(2)))
for blob in [bytes([1, 1, 9, 8, 7, 6, 5]), bytes([2, 0, 9, 8, 7, 6]), bytes([0, 0, 1, 2]), bytes([3, 3]), bytes([0, 1, 5, 6, 7])]:
    show("parse %s" % blob.hex(), lambda: d.parse(blob))
show("check ok", lambda: Struct("a" / Byte, Check(this.a * 2 == 4)).parse(b"\x02"))
show("check fail", lambda: Struct("a" / Byte, Check(this.a * 2 == 4)).parse(b"\x03"))
show("build", lambda: Struct("n" / Byte, "data" / Array(this.n - 1, Byte)).build(dict(n=3, data=[1, 2])))
show("build mismatch", lambda: Struct("n" / Byte, "data" / Array(this.n - 1, Byte)).build(dict(n=3, data=[1, 2, 3])))
show("sizeof", lambda: Struct("n" / Byte, "data" / Array(this.n - 1, Byte)).sizeof(n=5))
show("sizeof missing", lambda: Struct("n" / Byte, "data" / Array(this.n - 1, Byte)).sizeof())
