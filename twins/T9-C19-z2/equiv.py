#!/usr/bin/env python
"""C19 equivalence observations (z2).

usage: equiv.py <repo root>
Prints deterministic observations of everything the edited code can influence:
KSY export (sequence, types, instances, enums, key order), hyphenation helpers,
parse results with stream positions, built bytes, sizeof, compiled-parser
results, expression rendering/evaluation, and exception type names.
"""
import sys, io, enum
sys.path.insert(0, sys.argv[1])

from construct import *
from construct.core import KsyGen, hyphenatedict, hyphenatelist
from construct.expr import _operand, UniExpr, BinExpr, Path
import operator

N = [0]
def out(*args):
    N[0] += 1
    print("%03d" % N[0], *args)

def items(d):
    return [(k, items(v) if isinstance(v, dict) else [items(x) if isinstance(x, dict) else x for x in v] if isinstance(v, list) else v) for k, v in d.items()]

def attempt(f):
    try:
        return f()
    except Exception as e:
        return "!%s" % type(e).__name__

def export(label, d, bitwise=False):
    def run():
        gen = KsyGen()
        seq = d._compileseq(gen, bitwise)
        return dict(seq=[items(m) for m in seq], instances=items(gen.instances), enums=items(gen.enums), types=items(gen.types), nextid=gen.nextid)
    out("export", label, attempt(run))
    def run2():
        gen = KsyGen()
        return items(d._compilefulltype(gen, bitwise)), items(gen.types), items(gen.instances)
    out("fulltype", label, attempt(run2))
    def run3():
        gen = KsyGen()
        return d._compileprimitivetype(gen, bitwise), items(gen.types), items(gen.instances), items(gen.enums)
    out("primtype", label, attempt(run3))

def behave(label, d, datas=(), values=(), ctx=None):
    ctx = ctx or {}
    out("sizeof", label, attempt(lambda: d.sizeof(**ctx)))
    for data in datas:
        def run():
            stream = io.BytesIO(data)
            obj = d.parse_stream(stream, **ctx)
            return repr(obj), stream.tell()
        out("parse", label, data.hex(), attempt(run))
    for value in values:
        def run():
            stream = io.BytesIO()
            d.build_stream(value, stream, **ctx)
            return stream.getvalue().hex(), stream.tell()
        out("build", label, repr(value), attempt(run))

def compiled(label, d, datas):
    try:
        dc = d.compile()
    except Exception as e:
        out("compile", label, "!%s" % type(e).__name__)
        return
    for data in datas:
        out("cparse", label, data.hex(), attempt(lambda: repr(dc.parse(data))))


class E(enum.IntFlag):
    red = 1
    green = 2
    blue = 64

class K(enum.IntEnum):
    alpha = 1
    beta = 7

# ---------------------------------------------------------------- hyphenation
out("hyphenatedict", list(hyphenatedict(dict(if_=1, repeat_expr=2, size_eos=3, _construct_render=4, id=5, pad_right=6, eos_error=7, __=8, a_b_=9)).items()))
out("hyphenatedict", list(hyphenatedict({"a_": 1, "a": 2, "a__": 3}).items()))
out("hyphenatedict", list(hyphenatedict({}).items()))
out("hyphenatelist", [list(x.items()) for x in hyphenatelist([dict(if_=1), dict(), dict(repeat_until="x_y", type="t_1")])])
out("hyphenatelist", hyphenatelist([]), hyphenatelist(()))
out("hyphenatelist", attempt(lambda: hyphenatelist([1])), attempt(lambda: hyphenatedict([1])), attempt(lambda: hyphenatedict({1: 2})))

# ---------------------------------------------------------------- expressions
exprs = [
    this.n, this.a.b, this["k"][0], this._.n, -this.n, +this.n, ~this.n, ~(this.n > 1), -(-this.n), ~~this.f,
    this.n + 1, this.n - (-1), (-1) ** this.n, this.n ** -2, -this.n ** 2, (-this.n) ** 2, this.n * -1.5, -2.5 + this.n,
    this.n == True, this.n & False, (this.a > 1) & (this.b < -3), 3 - this.n, 0 - this.n, this.n // -0.0, this.n * float("-inf"),
    this.n % 7 == 0, (this.n << 2) | 1, obj_ == 0, obj_.x > -1, len_(this.items) > 0, list_[-1] == 0, list_[0][1],
]
for e in exprs:
    out("expr", repr(e), "|", str(e))
ctx = Container(n=3, f=0, a=Container(b=5), k=[9, 8], _=Container(n=11), b=-4, items=[1, 2], x=0)
for e in [this.n, this.a.b, this["k"][0], this._.n, -this.n, ~this.n, ~~this.f, this.n + 1, (-1) ** this.n, -this.n ** 2, (-this.n) ** 2, this.n % 7 == 0, (this.n << 2) | 1, this.a, this]:
    out("eval", repr(e), attempt(lambda: e(ctx)))
for e in [this.missing, this.n.x, this.k[5], this.a.b.c]:
    out("eval-err", repr(e), attempt(lambda: e(ctx)))
for v in [1, -1, 0, -0.0, 0.0, -2.5, True, False, "s", "-s", None, -this.n, this.n, this.n + 1, float("nan"), float("-inf"), b"-1", -10**30]:
    out("operand", repr(v), _operand(v, repr), _operand(v, str))
out("getfield", this.n.__getfield__(), this.a.b.__getfield__(), this.__getfield__(), this[3].__getfield__())

# ---------------------------------------------------------------- exports
exports = [
    ("renamed", Struct("a" / Byte, "b" / Int16ul * "doc b", "c" / ("inner" / Byte), "d" / ("din" / Int32sb * "inner doc") * "outer doc", Byte, Renamed(Byte, newdocs="only docs"))),
    ("renamed-bare", Renamed(Byte, newname="x", newdocs="dx")),
    ("renamed-nodoc", "y" / Int16sb),
    ("renamed-struct", "s" / Struct("q" / Byte)),
    ("flags", Struct("f" / FlagsEnum(Byte, a=1, b=2, c=128), "g" / FlagsEnum(Int16ub, E, extra=256), "h" / FlagsEnum(Byte, E, red=4))),
    ("flags-dupe", FlagsEnum(Byte, one=1, uno=1, two=2)),
    ("enum", Struct("e" / Enum(Byte, K, gamma=9), "e2" / Enum(Int16ul, x=1))),
    ("ifthenelse", Struct("n" / Byte, "v" / IfThenElse(this.n > 2, Int16ub, Byte), "w" / If(this.n == 0, Int32ul), "z" / IfThenElse(~this.n, Byte, Pass))),
    ("pointer", Struct("off" / Byte, "p" / Pointer(this.off, Int16ub), "q" / Pointer(4, Byte), "r" / Pointer(this.hdr.off, Byte), "t" / Pointer(-1, Byte))),
    ("pointer-expr", Pointer(this.off + 1, Byte)),
    ("pointer-lambda", Pointer(lambda ctx: 2, Byte)),
    ("nullstripped", Struct("s" / NullStripped(Bytes(4)), "t" / NullStripped(GreedyBytes, pad=b"\x20"))),
    ("nullstripped-wide", NullStripped(GreedyBytes, pad=b"\x00\x00")),
    ("nullstripped-clash", NullStripped(NullStripped(GreedyBytes))),
    ("strings", Struct("s" / PaddedString(8, "utf8"), "t" / CString("utf8"), "u" / PascalString(Byte, "utf8"), "w" / PaddedString(8, "utf16"))),
    ("prefixed", Struct("v" / Prefixed(Int16ub, GreedyBytes, includelength=True), "w" / PrefixedArray(Byte, Int16ul), "x" / Prefixed(Byte, Struct("k" / Byte)))),
    ("misc", Struct("k" / Const(b"MZ"), "k2" / Const(5, Int16ul), "p" / Padded(6, Int16ub), Padding(2), "fl" / Flag, "vi" / VarInt, "by" / Bytes(3), "rest" / GreedyBytes)),
    ("arrays", Struct("n" / Byte, "a" / Array(this.n, Byte), "b" / Array(2, Struct("x" / Byte)), "c" / RepeatUntil(obj_ == 0, Byte), "d" / GreedyRange(Int16ub))),
    ("sized", Struct("n" / Byte, "d" / FixedSized(this.n * 2 + 1, GreedyBytes), "e" / FixedSized(3, GreedyBytes), "t" / NullTerminated(GreedyBytes, term=b"\xff"))),
    ("bits", BitStruct("a" / Flag, "b" / BitsInteger(3), Padding(4), "d" / Byte, "e" / Default(Flag, False), "f" / BytesInteger(1), "g" / FlagsEnum(Nibble, lo=1, hi=8), "h" / Nibble)),
    ("floats", Struct("f" / Float32b, "g" / Float64l, "h" / Int24ub, "i" / Int64sl, "j" / BytesInteger(5, signed=True, swapped=True))),
    ("unsupported", Struct("a" / Half)),
    ("unsupported2", Aligned(4, Byte)),
]
for label, d in exports:
    export(label, d)
export("bitwise-renamed", "r" / Flag, bitwise=True)
export("bitwise-pointer", Pointer(this.o, Byte), bitwise=True)

# ---------------------------------------------------------------- parse / build / sizeof
behave("flags", FlagsEnum(Byte, a=1, b=2, c=128), [b"\x83", b"\x00", b""], [dict(a=True, c=True), "a|b", 130, dict(zzz=True), "zzz"])
behave("flags-enum", FlagsEnum(Int16ub, E, extra=256), [b"\x01\x43", b"\x01"], [E.red | E.blue, dict(extra=True, green=True), "red|extra"])
fe = FlagsEnum(Byte, E, red=4)
out("flags-attrs", list(fe.flags.items()), list(fe.reverseflags.items()), fe.red, fe.red | fe.blue, attempt(lambda: fe.nope))
fd = FlagsEnum(Byte, one=1, uno=1, two=2)
out("flags-attrs", list(fd.flags.items()), list(fd.reverseflags.items()))
out("flags-bad", attempt(lambda: FlagsEnum(Byte, 5)), attempt(lambda: FlagsEnum(Byte, a=[])), attempt(lambda: FlagsEnum(Byte, E, K).flags))
ite = Struct("n" / Byte, "v" / IfThenElse(this.n > 2, Int16ub, Byte), "w" / If(this.n == 0, Int32ul), "t" / Byte)
behave("ifthenelse", ite, [b"\x03\x01\x02\xee", b"\x02\x41\xee", b"\x00\x41\x01\x00\x00\x00\xee", b"\x05\x01", b""], [dict(n=3, v=258, w=None, t=1), dict(n=0, v=1, w=7, t=1), dict(n=1, v=300, w=None, t=1)])
compiled("ifthenelse", ite, [b"\x03\x01\x02\xee", b"\x02\x41\xee", b"\x00\x41\x01\x00\x00\x00\xee", b"\x05\x01"])
behave("ifthenelse-ctx", IfThenElse(this.c, Int16ub, Byte), [b"\x01\x02"], [5], ctx=dict(c=1))
behave("ifthenelse-ctx0", IfThenElse(this.c, Int16ub, Byte), [b"\x01\x02"], [5], ctx=dict(c=0))
behave("ifthenelse-nokey", IfThenElse(this.c, Int16ub, Byte), [b"\x01\x02"], [5])
behave("ifthenelse-const", IfThenElse(False, Int16ub, Byte), [b"\x01\x02"], [5])
calls = []
def cond(ctx):
    calls.append("cond")
    return ctx.n
probe = Struct("n" / Byte, "v" / IfThenElse(cond, Int16ub, Byte))
behave("ifthenelse-lambda", probe, [b"\x01\x00\x09", b"\x00\x09"], [dict(n=1, v=2)])
out("callback-order", calls)
def boom(ctx):
    raise ZeroDivisionError
behave("ifthenelse-raise", IfThenElse(boom, Byte, Byte), [b"\x01"], [1])
behave("pointer", Struct("off" / Byte, "p" / Pointer(this.off, Int16ub), "q" / Pointer(-1, Byte), "t" / Byte), [b"\x02\x07\xab\xcd", b"\x09\x07"], [dict(off=2, p=0x0102, q=3, t=9)])
behave("nullstripped", Struct("s" / NullStripped(Bytes(2)), "t" / NullStripped(GreedyBytes, pad=b"\x20")), [b"ab  c  ", b"a"], [dict(s=b"ab", t=b"zz")])
behave("renamed", Struct("a" / Byte, "c" / ("inner" / Byte), "d" / Int16ul * "doc"), [b"\x01\x02\x03\x04", b"\x01"], [dict(a=1, c=2, d=3), dict(a=1)])
r = "outer" / ("inner" / Byte * "idoc") * "odoc"
out("renamed-attrs", r.name, r.docs, r.subcon.name, r.subcon.docs, r.sizeof())
behave("bits", BitStruct("a" / Flag, "b" / BitsInteger(3), Padding(4), "g" / FlagsEnum(Nibble, lo=1, hi=8), "h" / Nibble), [b"\xb0\x95", b"\xb0"], [dict(a=True, b=5, g=dict(lo=True), h=3)])
behave("sized", Struct("n" / Byte, "d" / FixedSized(this.n * 2 + 1, GreedyBytes), "t" / Byte), [b"\x01abcz", b"\x02ab"], [dict(n=1, d=b"abc", t=1), dict(n=1, d=b"abcd", t=1)])

# ---------------------------------------------------------------- z2 specific: generator state, naming, value plumbing
import re
def masked(x):
    return re.sub(r"0x[0-9a-f]+", "0x?", repr(x))

gen = KsyGen()
out("ksygen", [gen.allocateId() for _ in range(3)], gen.nextid, sorted(k for k in vars(gen)))
gen = KsyGen()
e1 = Enum(Byte, a=1)
e2 = Enum(Int16ub, K)
out("ksygen-enum", e1._compileprimitivetype(gen), e2._compileprimitivetype(gen), e1._compileprimitivetype(gen), items(gen.enums), gen.nextid, gen.enums["enum_1"] is e1.ksymapping)
gen = KsyGen()
mixed = Struct("e" / Enum(Byte, a=1), "p" / Pointer(this.e, Byte), "s" / Struct("f" / Enum(Byte, b=2)), "i" / IfThenElse(this.e == 1, Enum(Byte, c=3), Struct("z" / Byte)))
out("ksygen-mixed", [items(m) for m in mixed._compileseq(gen)], items(gen.enums), items(gen.types), items(gen.instances), gen.nextid)

for label, d in [
    ("bitsint", BitStruct("a" / BitsInteger(3), "b" / BitsInteger(13), "c" / Bit, "d" / Nibble, "e" / Octet, Padding(3))),
    ("bitsint-signed", BitStruct("a" / BitsInteger(8, signed=True))),
    ("bitsint-swapped", BitStruct("a" / BitsInteger(16, swapped=True))),
    ("bitsint-ctxlen", Struct("n" / Byte, "b" / Bitwise(BitsInteger(this.n)))),
    ("bitsint-bool", BitStruct("a" / BitsInteger(True), Padding(7))),
    ("flag", Struct("f" / Flag, "g" / Array(2, Flag))),
    ("flag-bits", BitStruct("f" / Flag, "g" / Array(7, Flag))),
    ("repeatuntil", Struct("a" / RepeatUntil(obj_ == 0, Byte), "b" / RepeatUntil(obj_.x == 0, Struct("x" / Byte)), "c" / RepeatUntil(this.obj_obj_n == obj_, Byte), "d" / RepeatUntil(True, Int16ub), "e" / RepeatUntil(list_[-1] == obj_, Byte))),
    ("if", Struct("this.a" / Byte, "b" / If(this["this.a"] == 1, Byte), "c" / If(True, Int16ub), "d" / If(this.obj_x, Byte), "e" / If(this._.x, Struct("q" / Byte)))),
    ("ifthenelse2", Struct("n" / Byte, "a" / IfThenElse(this.n == 1, Struct("p" / Byte), Enum(Byte, k=1)), "b" / IfThenElse(this.n & 1, Pointer(this.n, Byte), Bytes(2)))),
    ("ifthenelse-bool", IfThenElse(True, Byte, Int16ub)),
    ("padded", Struct("a" / Padded(4, Byte), "b" / Padded(this.a, Struct("x" / Byte)), "c" / Padded(3, Bytes(2)))),
    ("prefixedarray", Struct("a" / PrefixedArray(Byte, Byte), "b" / PrefixedArray(VarInt, Struct("x" / Int16ul)), "c" / PrefixedArray(Enum(Byte, k=1), Enum(Byte, j=2)))),
    ("fixedsized", Struct("n" / Byte, "a" / FixedSized(this.n, GreedyBytes), "b" / FixedSized(4, GreedyString("utf8")), "c" / FixedSized(this.n - 1, NullStripped(GreedyBytes)), "d" / FixedSized(2, Struct("x" / Byte)))),
    ("fixedsized-clash", FixedSized(4, Bytes(4))),
    ("fixedsized-clash2", Struct("a" / FixedSized(4, PaddedString(4, "utf8")))),
]:
    export(label, d)

def exportmasked(label, d):
    gen = KsyGen()
    try:
        result = masked([items(m) for m in d._compileseq(gen)])
    except Exception as e:
        result = "!%s" % type(e).__name__
    out("export-masked", label, result, masked(items(gen.types)), masked(items(gen.enums)), masked(items(gen.instances)), gen.nextid)
exportmasked("ifthenelse-lambda", Struct("n" / Byte, "v" / IfThenElse(lambda ctx: ctx.n, Struct("p" / Byte), Enum(Byte, k=1))))
exportmasked("if-lambda", Struct("n" / Byte, "v" / If(lambda ctx: ctx.n, Struct("p" / Byte))))
exportmasked("repeatuntil-lambda", RepeatUntil(lambda obj_, lst, ctx: obj_ == 0, Enum(Byte, k=1)))
exportmasked("fixedsized-lambda", FixedSized(lambda this: 3, Enum(Byte, k=1)))
exportmasked("fixedsized-clash", Struct("e" / Enum(Byte, k=1), "f" / FixedSized(4, Padded(4, Enum(Byte, j=1)))))
exportmasked("unsupported-after-alloc", Struct("e" / Enum(Byte, k=1), "f" / Aligned(4, Byte)))

behave("bitsint", BitStruct("a" / BitsInteger(3), "b" / BitsInteger(13)), [b"\xa0\x07", b"\xa0"], [dict(a=5, b=7), dict(a=9, b=0)])
behave("flag", Struct("f" / Flag, "g" / Array(2, Flag)), [b"\x01\x00\x05", b"\x01"], [dict(f=True, g=[False, True])])
behave("enum", Struct("e" / Enum(Byte, K, gamma=9)), [b"\x07", b"\x09", b"\x63", b""], [dict(e="alpha"), dict(e=9), dict(e="nope"), dict(e=K.beta)])
behave("repeatuntil", RepeatUntil(obj_ == 0, Byte), [b"\x01\x02\x00\x09", b"\x01"], [[3, 0], [3]])
behave("if", Struct("n" / Byte, "b" / If(this.n == 1, Byte), "t" / Byte), [b"\x01\x02\x03", b"\x00\x02\x03"], [dict(n=1, b=2, t=3), dict(n=0, b=None, t=3)])
behave("padded", Struct("a" / Padded(4, Byte), "b" / Padded(this.a, Int16ub)), [b"\x03\x00\x00\x00\x01\x02\x00\xff", b"\x01\x00\x00\x00\x01\x02"], [dict(a=2, b=5), dict(a=1, b=5)])
behave("prefixedarray", PrefixedArray(Byte, Int16ul), [b"\x02\x01\x00\x02\x00\xff", b"\x02\x01\x00"], [[1, 2], []])
behave("fixedsized", Struct("n" / Byte, "a" / FixedSized(this.n, GreedyBytes), "t" / Byte), [b"\x02ab\x09", b"\x05ab"], [dict(n=2, a=b"ab", t=1), dict(n=1, a=b"ab", t=1)])
compiled("mixed", Struct("n" / Byte, "b" / If(this.n == 1, Byte), "p" / PrefixedArray(Byte, Int16ul), "f" / Flag), [b"\x01\x02\x01\x05\x00\x01", b"\x00\x00\x00", b"\x01"])
out("lines", N[0] + 1)
