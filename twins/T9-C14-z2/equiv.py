#!/usr/bin/env python
"""equiv.py <repo root>

Deterministic observations of the code touched by the z2 refactoring
(Struct member context, Pointer offset/stream resolution, Padded length and
pad computation) as seen through RawCopy / Checksum formats.  Output must be
byte-identical on the reference tree and on the refactored tree.
"""
import sys, io, zlib, hashlib

root = sys.argv[1]
sys.path.insert(0, root)

from construct import *

N = [0]


def show(label, thunk):
    N[0] += 1
    try:
        r = thunk()
        print("%03d %s -> %r" % (N[0], label, r))
    except Exception as e:
        msg = str(e).replace("\n", " | ")
        print("%03d %s !! %s: %s" % (N[0], label, type(e).__name__, msg))


def crc(data):
    return zlib.crc32(data) & 0xffffffff


def plain(obj):
    if isinstance(obj, dict):
        return {k: plain(v) for k, v in dict.items(obj) if not (isinstance(k, str) and k.startswith("_"))}
    if isinstance(obj, list):
        return [plain(v) for v in obj]
    return obj


calls = []


def spy(tag, func):
    def f(ctx):
        calls.append(tag)
        return func(ctx)
    return f


# ------------------------------------------------ docs layout: digest slot first, patched through Pointer
sha = lambda d: hashlib.sha1(d).digest()
slot = Struct(
    "lead" / Bytes(this._params.lead),
    "offset" / Tell,
    "reserve" / Padding(20),
    "fields" / RawCopy(Struct("n" / Byte, "items" / Array(this.n, Int16ub), "note" / Padded(6, CString("ascii"), pattern=b"."))),
    "digest" / Pointer(this.offset, Checksum(Bytes(20), sha, this.fields.data)),
    "end" / Tell,
)
vals = [dict(n=0, items=[], note=u""), dict(n=2, items=[1, 65535], note=u"hey"), dict(n=1, items=[7], note=u"12345")]
msgs = []
for lead in (0, 3):
    for v in vals:
        def t(lead=lead, v=v):
            b = slot.build(dict(lead=b"#" * lead, fields=dict(value=v)), lead=lead)
            msgs.append((lead, b))
            return b
        show("slot.build lead=%d %r" % (lead, v), t)
for lead, b in list(msgs):
    show("slot.parse lead=%d" % lead, lambda lead=lead, b=b: plain(slot.parse(b, lead=lead)))
    def t(lead=lead, b=b):
        s = io.BytesIO(b + b"trailing")
        o = slot.parse_stream(s, lead=lead)
        return o.fields.offset1, o.fields.offset2, o.fields.length, o.end, s.tell()
    show("slot.parse_stream positions", t)
    show("slot rebuild from data", lambda lead=lead, b=b: slot.build(dict(lead=b"#" * lead, fields=dict(data=slot.parse(b, lead=lead).fields.data)), lead=lead) == b)
lead, b = msgs[4]
for i in range(len(b)):
    broken = b[:i] + bytes([b[i] ^ 0x21]) + b[i + 1:]
    show("slot corrupt byte %d" % i, lambda broken=broken: slot.parse(broken, lead=lead).fields.value.n)
show("slot note too long", lambda: slot.build(dict(lead=b"", fields=dict(value=dict(n=0, items=[], note=u"toolong"))), lead=0))
show("slot missing lead param", lambda: slot.build(dict(lead=b"", fields=dict(value=vals[0]))))
show("slot sizeof", lambda: slot.sizeof(lead=2))

# ------------------------------------------------ Pointer: negative offsets, explicit stream, callback order
foot = Struct(
    "body" / RawCopy(Prefixed(Byte, GreedyBytes)),
    "crc" / Pointer(-4, Checksum(Int32ub, crc, this.body.data)),
    "pos" / Tell,
)
for payload in (b"", b"abc", bytes(range(20))):
    raw = foot.body.build(dict(value=payload))
    full = raw + Int32ub.build(crc(raw))
    show("foot.parse %d" % len(payload), lambda full=full: plain(foot.parse(full)))
    show("foot.parse corrupt body", lambda full=full: plain(foot.parse(b"\x00" + full[1:] if full[0] else b"\x01" + full[1:])))
    show("foot.parse corrupt crc", lambda full=full: plain(foot.parse(full[:-1] + bytes([full[-1] ^ 1]))))
    def t(payload=payload):
        s = io.BytesIO(bytes(40))
        foot.build_stream(dict(body=dict(value=payload)), s)
        return s.getvalue(), s.tell()
    show("foot.build_stream into 40 zero bytes", t)

other = Struct(
    "hdr" / Struct("x" / Byte),
    "sub" / Prefixed(Byte, Struct(
        "rc" / RawCopy(Bytes(2)),
        "peekroot" / Pointer(spy("offset", lambda ctx: 0), Byte, stream=spy("stream", lambda ctx: ctx._root._io)),
        "peekhere" / Pointer(spy("offset2", this.rc.offset1), Bytes(2)),
        "none" / Pointer(3, Byte, stream=spy("stream-none", lambda ctx: None)),
        "t" / Tell,
    )),
    "after" / Byte,
)
show("other.parse", lambda: plain(other.parse(b"\x11\x04ABCD\x99")))
show("callback order parse", lambda: list(calls))
del calls[:]
show("other.build", lambda: other.build(dict(hdr=dict(x=0x11), sub=dict(rc=dict(value=b"AB"), peekroot=0x22, peekhere=b"xy", none=0x7a), after=0x99)))
show("callback order build", lambda: list(calls))
del calls[:]
show("Pointer offset None", lambda: Pointer(lambda ctx: None, Byte).parse(b"ab"))
show("Pointer offset str", lambda: Pointer(lambda ctx: "1", Byte).parse(b"ab"))
show("Pointer beyond end", lambda: Pointer(5, Byte).parse(b"ab"))
show("Pointer negative beyond start", lambda: Pointer(-5, Byte).parse(b"ab"))
show("Pointer build beyond end", lambda: Pointer(5, Byte).build(65))
show("Pointer build negative", lambda: Pointer(-1, Byte).build(65))
show("Pointer sizeof", lambda: Pointer(5, Int64ub).sizeof())
show("Pointer missing key", lambda: Struct("p" / Pointer(this.nowhere, Byte)).parse(b"ab"))
show("Pointer on stream position", lambda: (lambda s: (Struct("a" / Byte, "p" / Pointer(3, RawCopy(Byte)), "b" / Byte).parse_stream(s), s.tell()))(io.BytesIO(b"\x01\x02\x03\x04"))[1])
show("Pointer RawCopy offsets", lambda: plain(Struct("a" / Byte, "p" / Pointer(3, RawCopy(Byte)), "b" / Byte).parse(b"\x01\x02\x03\x04")))

# ------------------------------------------------ Padded: lengths, pads, errors, sizeof
for length in (0, 1, 2, 3, 8, -1):
    d = Padded(length, RawCopy(Int16ub))
    show("Padded(%d).parse" % length, lambda d=d: plain(d.parse(b"\x01\x02\x03\x04\x05\x06\x07\x08\x09")))
    show("Padded(%d).parse short" % length, lambda d=d: plain(d.parse(b"\x01\x02\x03")))
    show("Padded(%d).build" % length, lambda d=d: d.build(dict(value=258)))
    show("Padded(%d).sizeof" % length, lambda d=d: d.sizeof())
dyn = Struct("w" / Byte, "f" / RawCopy(Padded(spy("len", this.w), PascalString(Byte, "ascii"), pattern=b"~")), "sum" / Checksum(Byte, lambda d: sum(d) & 0xff, this.f.data), "pos" / Tell)
for w, text in ((1, u""), (4, u"ab"), (4, u"abc"), (4, u"abcd"), (0, u""), (200, u"x")):
    show("dyn.build w=%d %r" % (w, text), lambda w=w, text=text: dyn.build(dict(w=w, f=dict(value=text))))
    show("dyn.roundtrip w=%d %r" % (w, text), lambda w=w, text=text: plain(dyn.parse(dyn.build(dict(w=w, f=dict(value=text))))))
show("dyn.parse pad garbage", lambda: plain(dyn.parse(b"\x04\x01aZZ\xb6")))
show("dyn.parse bad sum", lambda: plain(dyn.parse(b"\x04\x01aZZ\xb7")))
show("dyn.parse overlong", lambda: plain(dyn.parse(b"\x02\x03abc\x00")))
show("dyn.sizeof no ctx", lambda: dyn.sizeof())
show("Padded sizeof missing key", lambda: Padded(this.missing, Byte).sizeof())
show("Padded sizeof with key", lambda: Padded(this.k, Byte).sizeof(k=5))
show("Padded sizeof negative key", lambda: Padded(this.k, Byte).sizeof(k=-5))
show("Padded parse missing key", lambda: Padded(this.missing, Byte).parse(b"abc"))
show("Padded length callback calls", lambda: list(calls))
del calls[:]
show("Padding(3) build/parse", lambda: (Padding(3).build(None), Padding(3).parse(b"abcd"), Padding(3, pattern=b"x").build(None)))
show("Padded bad pattern", lambda: Padded(3, Byte, pattern=b"xy"))

# ------------------------------------------------ Struct member context: _, _root, _params, _index, _io, _subcons, flags
seen = []


def look(tag):
    def f(ctx):
        seen.append((tag, sorted(k for k in ctx.keys() if k.startswith("_")), ctx._parsing, ctx._building, ctx._sizing,
                     ctx._index, ctx._io is not None, ctx._root is ctx, ctx._root is ctx._.get("_root", None), ctx._params is ctx._root._,
                     sorted(ctx._subcons.keys()) if ctx._subcons is not None else None, ctx._params.get("k")))
        return 0
    return f


deep = Struct(
    "a" / Computed(look("top")),
    "arr" / Array(2, Struct(
        "b" / Computed(look("elem")),
        "rc" / RawCopy(Struct("c" / Computed(look("inner")), "v" / Byte)),
        "sum" / Checksum(Byte, lambda d: (d[0] * 2) & 0xff, this.rc.data),
        "up" / Computed(this._._params.k),
        "rootkeys" / Computed(lambda ctx: ctx._root is ctx._),
    )),
)
show("deep.parse", lambda: plain(deep.parse(b"\x05\x0a\x06\x0c", k=42)))
show("deep.parse contexts", lambda: list(seen))
del seen[:]
show("deep.build", lambda: deep.build(dict(arr=[dict(rc=dict(value=dict(v=5))), dict(rc=dict(data=b"\x06"))]), k=43))
show("deep.build contexts", lambda: list(seen))
del seen[:]
sized = Struct("n" / Computed(look("sz")), "x" / Struct("y" / Padded(this._._params.k, Byte), "z" / Computed(look("sz-inner"))))
show("sized.sizeof", lambda: sized.sizeof(k=6))
show("sized.sizeof contexts", lambda: list(seen))
del seen[:]
show("sized.sizeof missing", lambda: sized.sizeof())
show("deep.parse bad sum", lambda: deep.parse(b"\x05\x0b\x06\x0c", k=1))
show("deep.parse no k", lambda: deep.parse(b"\x05\x0a\x06\x0c"))
show("Struct parse without params ctx", lambda: Struct("a" / Byte)._parse(io.BytesIO(b"a"), Container(), "p"))
show("Struct parse with dict ctx", lambda: Struct("a" / Byte)._parse(io.BytesIO(b"a"), dict(_params=1), "p"))
show("Struct member access", lambda: (deep.arr.name, repr(slot.fields.subcon.__class__.__name__)))
show("Struct no such member", lambda: deep.nothing)

# ------------------------------------------------ generated code agrees with the interpreter
cslot = slot.compile()
for lead, b in msgs:
    show("compiled slot.parse == interpreted", lambda lead=lead, b=b: plain(cslot.parse(b, lead=lead)) == plain(slot.parse(b, lead=lead)))
for v in vals:
    show("compiled slot.build == interpreted", lambda v=v: cslot.build(dict(lead=b"##", fields=dict(value=v)), lead=2) == slot.build(dict(lead=b"##", fields=dict(value=v)), lead=2))
show("compiled slot corrupt", lambda: cslot.parse(msgs[1][1][:25] + b"\xff" + msgs[1][1][26:], lead=0))
cfoot = foot.compile()
show("compiled foot.parse", lambda: plain(cfoot.parse(b"\x03abc" + Int32ub.build(crc(b"\x03abc")))))
print("observations:", N[0])
