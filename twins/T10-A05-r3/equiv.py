import sys, io
sys.path.insert(0, sys.argv[1])
from construct import *
from construct.lib import *

N = [0]
def out(label, fn):
    N[0] += 1
    try:
        r = fn()
        print("%03d %s -> %r" % (N[0], label, r))
    except Exception as e:
        msg = str(e).replace("\n", " / ")
        print("%03d %s !! %s: %s | path=%r" % (N[0], label, type(e).__name__, msg, getattr(e, "path", None)))

def parse_pos(d, data, skip=0):
    s = io.BytesIO(data)
    s.read(skip)
    r = d.parse_stream(s)
    return r, list(r.keys()) if hasattr(r, "keys") else None, s.tell()

def build_pos(d, obj, prefix=b""):
    s = io.BytesIO()
    s.write(prefix)
    r = d._build(obj, s, Container(_params=Container(), _building=True, _parsing=False, _sizing=False), "(equiv)")
    return r, list(r.keys()) if hasattr(r, "keys") else None, s.getvalue(), s.tell()

# ---- parsing
for name, sub in [("Byte", Byte), ("Int32ub", Int32ub), ("Bytes0", Bytes(0)), ("GreedyBytes", GreedyBytes),
                  ("CString", CString("utf8")), ("Struct", Struct("a" / Byte, "b" / Int16ul)),
                  ("Pass", Pass), ("Array", Array(3, Byte)), ("VarInt", VarInt), ("PaddedTo4", Padded(4, Byte))]:
    d = RawCopy(sub)
    out("parse %s" % name, lambda: parse_pos(d, b"\x81\x02\x00\x04\x05\x06"))
    out("parse skip2 %s" % name, lambda: parse_pos(d, b"\x81\x02\x00\x04\x05\x06", skip=2))
    out("parse empty %s" % name, lambda: parse_pos(d, b""))
    out("sizeof %s" % name, lambda: d.sizeof())

# subcon that seeks backwards -> negative length
back = RawCopy(Struct("x" / Byte, Seek(-1, 1), Seek(-1, 1)))
out("parse backwards (neg length)", lambda: parse_pos(back, b"abcdef", skip=3))
fwd = RawCopy(Struct(Seek(4, 0), "t" / Tell))
out("parse seek fwd", lambda: parse_pos(fwd, b"abcdef", skip=1))
beyond = RawCopy(Seek(10, 0))
out("parse seek beyond eof", lambda: parse_pos(beyond, b"abcdef", skip=1))
peek = RawCopy(Peek(Int16ub))
out("parse Peek", lambda: parse_pos(peek, b"abcdef", skip=1))
ptr = RawCopy(Pointer(4, Byte))
out("parse Pointer", lambda: parse_pos(ptr, b"abcdef", skip=1))

# ---- building
d = RawCopy(Int16ub)
out("build value", lambda: build_pos(d, dict(value=0x0102)))
out("build value prefix", lambda: build_pos(d, dict(value=0x0102), prefix=b"xyz"))
out("build data", lambda: build_pos(d, dict(data=b"\xff\xfe")))
out("build data prefix", lambda: build_pos(d, dict(data=b"\xff\xfe\xfd"), prefix=b"xy"))
out("build both (data wins)", lambda: build_pos(d, dict(data=b"\x07", value=0x0102), prefix=b"x"))
out("build both Container order", lambda: build_pos(d, Container(value=1, data=b"\x07\x08", extra=5)))
out("build extra keys value", lambda: build_pos(d, Container(zzz=1, value=3, offset1=99, length=77)))
out("build neither", lambda: build_pos(d, dict(other=1)))
out("build empty dict", lambda: build_pos(d, {}))
out("build None (no flagbuildnone)", lambda: build_pos(d, None))
out("build data str", lambda: build_pos(d, dict(data=u"ab")))
out("build data empty", lambda: build_pos(d, dict(data=b""), prefix=b"q"))
out("build value too big", lambda: build_pos(d, dict(value=1 << 20)))
out("build value None", lambda: build_pos(d, dict(value=None)))
out("build list obj", lambda: build_pos(d, ["value"]))
out("build int obj", lambda: build_pos(d, 5))

dn = RawCopy(Pass)
out("Pass build None", lambda: build_pos(dn, None, prefix=b"ab"))
out("Pass build value", lambda: build_pos(dn, dict(value=7)))
dc = RawCopy(Const(b"MZ"))
out("Const build None", lambda: build_pos(dc, None, prefix=b"a"))
out("Const build value None", lambda: build_pos(dc, dict(value=None)))
out("Const build value wrong", lambda: build_pos(dc, dict(value=b"XX")))
out("Const build data", lambda: build_pos(dc, dict(data=b"QQQ")))
dr = RawCopy(Rebuild(Byte, lambda ctx: 9))
out("Rebuild build (buildret replaces value)", lambda: build_pos(dr, dict(value=1), prefix=b"p"))
dd = RawCopy(Default(Byte, 7))
out("Default build None value", lambda: build_pos(dd, dict(value=None)))
dback = RawCopy(Struct("x" / Byte, Seek(-1, 1)))
out("build backwards (zero length)", lambda: build_pos(dback, dict(value=dict(x=65)), prefix=b"pq"))
dback2 = RawCopy(Struct("x" / Byte, Seek(-2, 1)))
out("build backwards (neg length)", lambda: build_pos(dback2, dict(value=dict(x=65)), prefix=b"pq"))
dg = RawCopy(GreedyBytes)
out("GreedyBytes build", lambda: build_pos(dg, dict(value=b"hello"), prefix=b"12"))
out("GreedyBytes build empty", lambda: build_pos(dg, dict(value=b""), prefix=b"12"))
dp = RawCopy(Pointer(5, Byte))
out("Pointer build", lambda: build_pos(dp, dict(value=1), prefix=b"ab"))

# ---- public API
out("api parse", lambda: RawCopy(Byte).parse(b"\xff"))
out("api build data", lambda: RawCopy(Byte).build(dict(data=b"\xff")))
out("api build value", lambda: RawCopy(Byte).build(dict(value=255)))
out("api build neither", lambda: RawCopy(Byte).build(dict()))
out("api sizeof", lambda: RawCopy(Int64ub).sizeof())
out("api sizeof greedy", lambda: RawCopy(GreedyBytes).sizeof())

# ---- nested / struct context / checksum use case
st = Struct("hdr" / Byte, "body" / RawCopy(Struct("a" / Int16ub, "b" / Byte)), "len" / Computed(this.body.length),
            "o1" / Computed(this.body.offset1), "o2" / Computed(this.body.offset2), "raw" / Computed(this.body.data))
out("struct parse", lambda: parse_pos(st, b"\x01\x00\x02\x03\x04"))
out("struct build value", lambda: st.build(dict(hdr=1, body=dict(value=dict(a=2, b=3)))))
out("struct build data", lambda: st.build(dict(hdr=1, body=dict(data=b"zz"))))
out("struct build missing", lambda: st.build(dict(hdr=1, body=dict())))
def ctxafter(obj):
    s = io.BytesIO()
    ctx = Container(_params=Container(), _building=True, _parsing=False, _sizing=False)
    st._build(obj, s, ctx, "(b)")
    return s.getvalue()
out("struct _build ctx", lambda: ctxafter(dict(hdr=1, body=dict(value=dict(a=2, b=3)))))
import hashlib
ck = Struct("fields" / RawCopy(Struct("x" / Int16ub, "y" / Bytes(3))),
            "checksum" / Checksum(Bytes(16), lambda data: hashlib.md5(data).digest(), this.fields.data))
built = ck.build(dict(fields=dict(value=dict(x=5, y=b"abc"))))
out("checksum build", lambda: built)
out("checksum parse", lambda: ck.parse(built))
out("checksum parse bad", lambda: ck.parse(built[:-1] + b"\x00"))
nest = RawCopy(RawCopy(Byte))
out("nested parse", lambda: parse_pos(nest, b"\x05\x06", skip=1))
out("nested build", lambda: build_pos(nest, dict(value=dict(value=4)), prefix=b"k"))
arr = Array(2, RawCopy(Int16ul))
out("array parse", lambda: arr.parse(b"\x01\x00\x02\x00"))
out("array build", lambda: arr.build([dict(value=1), dict(data=b"ab")]))
pre = Prefixed(Byte, RawCopy(GreedyBytes))
out("prefixed parse (offsets from parent stream)", lambda: pre.parse(b"\x03abcd"))
bw = Bitwise(RawCopy(Nibble))
out("bitwise rawcopy parse", lambda: bw.parse(b"\xab"))

# ---- non-seekable stream
class NoSeek(io.RawIOBase):
    def __init__(self, data):
        self.b = io.BytesIO(data)
    def read(self, n=-1):
        return self.b.read(n)
    def write(self, d):
        return self.b.write(d)
    def readable(self): return True
    def writable(self): return True
    def seekable(self): return False
    def tell(self): raise IOError("no tell")
    def seek(self, *a): raise IOError("no seek")
out("noseek parse", lambda: RawCopy(Byte).parse_stream(NoSeek(b"ab")))
out("noseek build value", lambda: RawCopy(Byte).build_stream(dict(value=1), NoSeek(b"")))
class TellOnly(NoSeek):
    def __init__(self, data):
        NoSeek.__init__(self, data)
        self.log = []
    def tell(self):
        self.log.append("tell")
        return self.b.tell()
    def seek(self, *a):
        self.log.append(("seek",) + a)
        raise IOError("no seek")
    def read(self, n=-1):
        self.log.append(("read", n))
        return self.b.read(n)
    def write(self, d):
        self.log.append(("write", bytes(d)))
        return self.b.write(d)
def tellonly(fn, data, cls=None):
    s = (cls or TellOnly)(data)
    try:
        r = fn(s)
    except Exception as e:
        r = type(e).__name__, str(e).replace("\n", " / ")
    return r, s.log
out("tellonly parse", lambda: tellonly(lambda s: RawCopy(Byte).parse_stream(s), b"ab"))
out("tellonly build value", lambda: tellonly(lambda s: RawCopy(Byte).build_stream(dict(value=1), s), b""))
out("tellonly build data", lambda: tellonly(lambda s: RawCopy(Byte).build_stream(dict(data=b"zz"), s), b""))
# stream whose tell() returns a type that cannot be subtracted: the error must come after the seek
class BadTell(TellOnly):
    def tell(self):
        self.log.append("tell")
        return None
    def seek(self, *a):
        self.log.append(("seek",) + a)
        return 0
out("badtell parse", lambda: tellonly(lambda s: RawCopy(Byte).parse_stream(s), b"ab", cls=BadTell))
out("badtell build value", lambda: tellonly(lambda s: RawCopy(Byte).build_stream(dict(value=1), s), b"", cls=BadTell))
out("badtell build data", lambda: tellonly(lambda s: RawCopy(Byte).build_stream(dict(data=b"z"), s), b"", cls=BadTell))

# ---- compiled
out("compiled parse", lambda: st.compile().parse(b"\x01\x00\x02\x03\x04"))
out("compiled build", lambda: st.compile().build(dict(hdr=1, body=dict(value=dict(a=2, b=3)))))
