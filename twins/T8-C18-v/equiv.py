"""Transcript of error paths / results for code touched by the C18 refactorings.

usage: python equiv.py <path-to-checkout>
"""
import sys, io

sys.path.insert(0, sys.argv[1])

from construct import *
from construct.core import Renamed, ConstructError


def show(label, fn):
    try:
        r = fn()
        print("%s => OK %r" % (label, r))
    except ConstructError as e:
        print("%s => %s path=%r args=%r str=%r" % (label, type(e).__name__, e.path, e.args, str(e)))
    except Exception as e:
        print("%s => NONCONSTRUCT %s %r" % (label, type(e).__name__, e.args))


def flat(obj):
    # deterministic rendering of containers (drop _io)
    if isinstance(obj, dict):
        return "{" + ", ".join("%s: %s" % (k, flat(v)) for k, v in obj.items() if k != "_io") + "}"
    if isinstance(obj, (list, tuple)):
        return "[" + ", ".join(flat(v) for v in obj) + "]"
    return repr(obj)


def parse_pos(d, data, **kw):
    s = io.BytesIO(data)
    try:
        r = d.parse_stream(s, **kw)
        return "OK %s pos=%d" % (flat(r), s.tell())
    except ConstructError as e:
        return "%s path=%r msg=%r pos=%d" % (type(e).__name__, e.path, str(e), s.tell())
    except Exception as e:
        return "NONCONSTRUCT %s %r pos=%d" % (type(e).__name__, e.args, s.tell())


def build_res(d, obj, **kw):
    s = io.BytesIO()
    try:
        d.build_stream(obj, s, **kw)
        return "OK %r" % (s.getvalue(),)
    except ConstructError as e:
        return "%s path=%r msg=%r written=%r" % (type(e).__name__, e.path, str(e), s.getvalue())
    except Exception as e:
        return "NONCONSTRUCT %s %r written=%r" % (type(e).__name__, e.args, s.getvalue())


def size_res(d, **kw):
    try:
        return "OK %r" % (d.sizeof(**kw),)
    except ConstructError as e:
        return "%s path=%r msg=%r" % (type(e).__name__, e.path, str(e))
    except Exception as e:
        return "NONCONSTRUCT %s %r" % (type(e).__name__, e.args)


# ---------------------------------------------------------------- shapes
inner = Struct("x" / Int16ub, "y" / Int8ub)
shapes = {}
shapes["nested"] = (
    Struct("hdr" / Struct("magic" / Const(b"MZ"), "ver" / Int8ub), "body" / Struct("a" / Int16ub, "in" / inner), "tail" / Int8ub),
    dict(hdr=dict(magic=b"MZ", ver=1), body=dict(a=2, **{"in": dict(x=3, y=4)}), tail=5),
)
shapes["sequence"] = (
    Sequence("p" / Int8ub, "q" / Sequence("r" / Int16ub, "s" / Int8ub), Int8ub),
    [1, [2, 3], 4],
)
shapes["array"] = (
    Struct("n" / Int8ub, "items" / Array(this.n, "elem" / inner), "end" / Int8ub),
    dict(n=2, items=[dict(x=1, y=2), dict(x=3, y=4)], end=9),
)
shapes["prefixed"] = (
    Struct("pre" / Prefixed(Int8ub, "payload" / Struct("u" / Int16ub, "v" / Int16ub)), "post" / Int8ub),
    dict(pre=dict(u=1, v=2), post=3),
)
shapes["prefixed_incl"] = (
    Struct("pre" / Prefixed("len" / Int8ub, "payload" / GreedyBytes, includelength=True), "post" / Int8ub),
    dict(pre=b"abc", post=3),
)
shapes["fixedsized"] = (
    Struct("fs" / FixedSized(4, "w" / Struct("u" / Int16ub, "v" / Int8ub)), "post" / Int16ub),
    dict(fs=dict(u=1, v=2), post=3),
)
shapes["ifthenelse"] = (
    Struct("flag" / Int8ub, "val" / IfThenElse(this.flag, "t" / Int16ub, "e" / Struct("e1" / Int8ub, "e2" / Int8ub)), "post" / Int8ub),
    dict(flag=1, val=7, post=3),
)
shapes["ifthenelse_else"] = (
    shapes["ifthenelse"][0],
    dict(flag=0, val=dict(e1=1, e2=2), post=3),
)
shapes["if"] = (
    Struct("flag" / Int8ub, "val" / If(this.flag, "t" / Int16ub), "post" / Int8ub),
    dict(flag=1, val=7, post=3),
)
shapes["switch"] = (
    Struct("k" / Int8ub, "val" / Switch(this.k, {1: "one" / Int8ub, 2: "two" / Struct("t1" / Int16ub, "t2" / Int8ub)}, default="dflt" / Int32ub), "post" / Int8ub),
    dict(k=2, val=dict(t1=1, t2=2), post=3),
)
shapes["switch_default"] = (
    shapes["switch"][0],
    dict(k=9, val=77, post=3),
)
shapes["unnamed_renamed"] = (
    Struct("a" / Renamed(Int16ub), Renamed(Int8ub, newdocs="doc"), "c" / Renamed(Renamed(Int8ub, "deep"), "outer")),
    {"a": 1, None: 5, "c": 2},
)

for name, (d, val) in shapes.items():
    print("== shape", name)
    enc = build_res(d, val)
    print("build:", enc)
    try:
        data = d.build(val)
    except Exception:
        data = None
    print("sizeof:", size_res(d))
    if data is not None:
        for cut in range(len(data) + 1):
            print("  cut %2d: %s" % (cut, parse_pos(d, data[:cut])))
        # corrupt every byte in turn (changes selectors, lengths, consts)
        for i in range(len(data)):
            bad = data[:i] + bytes([data[i] ^ 0xFF]) + data[i + 1:]
            print("  flip %2d: %s" % (i, parse_pos(d, bad)))

# ---------------------------------------------------------------- unbuildable members
print("== unbuildable members")


def poison(val, trail=()):
    """yield (trail, copy of val with one leaf replaced by an unbuildable object)"""
    if isinstance(val, dict):
        for k in val:
            for t, sub in poison(val[k], trail + (k,)):
                c = dict(val)
                c[k] = sub
                yield t, c
            c = dict(val)
            del c[k]
            yield trail + (k, "<deleted>"), c
    elif isinstance(val, list):
        for i in range(len(val)):
            for t, sub in poison(val[i], trail + (i,)):
                c = list(val)
                c[i] = sub
                yield t, c
        yield trail + ("<shorter>",), val[:-1]
    else:
        yield trail, "unbuildable"
        yield trail + ("<big>",), 1 << 70
        yield trail + ("<None>",), None


for name, (d, val) in shapes.items():
    for trail, bad in poison(val):
        print("  %s %r: %s" % (name, trail, build_res(d, bad)))

# ---------------------------------------------------------------- sizeof failures
print("== sizeof failures")
sz = {
    "varint_inner": Struct("a" / Int8ub, "b" / Struct("c" / VarInt)),
    "missing_key": Struct("a" / Int8ub, "b" / Struct("arr" / Array(this._.nokey, Byte))),
    "greedy": Struct("g" / Sequence("h" / GreedyBytes)),
    "ifthenelse_ctx": Struct("v" / IfThenElse(this.flag, "t" / Int16ub, "e" / VarInt)),
    "ifthenelse_const_t": Struct("v" / IfThenElse(True, "t" / Int16ub, "e" / VarInt)),
    "ifthenelse_const_e": Struct("v" / IfThenElse(False, "t" / Int16ub, "e" / VarInt)),
    "switch_ctx": Struct("v" / Switch(this.k, {1: "one" / Int8ub}, default="d" / VarInt)),
    "fixedsized_neg": Struct("f" / FixedSized(-1, "w" / Byte)),
    "fixedsized_ctx": Struct("f" / FixedSized(this.n, "w" / Byte)),
    "prefixed": Struct("p" / Prefixed("l" / Int8ub, "d" / GreedyBytes)),
    "renamed_noname": Renamed(VarInt),
    "bare": VarInt,
}
for name, d in sz.items():
    print("  %s: %s" % (name, size_res(d)))
    for kw in (dict(flag=1), dict(flag=0), dict(k=1), dict(k=2), dict(n=3), dict(n=-3), dict(flag=[], k=None)):
        print("  %s %r: %s" % (name, sorted(kw.items(), key=repr), size_res(d, **kw)))

# ---------------------------------------------------------------- IfThenElse condition truthiness / laziness
print("== IfThenElse conditions")


class Truthy:
    def __init__(self, v, log):
        self.v, self.log = v, log

    def __bool__(self):
        self.log.append("bool(%r)" % (self.v,))
        return self.v


class BoolRaises:
    def __bool__(self):
        raise KeyError("from __bool__")


for ci, cond in enumerate((True, False, 0, 1, "", "x", None, [], [0], 0.0, b"", lambda ctx: ctx.c, lambda ctx: ctx["nokey"], lambda ctx: ctx.nokey)):
    d = IfThenElse(cond, "t" / Int16ub, "e" / Int8ub)
    label = cond if not callable(cond) else "<lambda #%d>" % ci
    for kw in (dict(c=1), dict(c=0), {}):
        print("  cond=%r kw=%r parse: %s" % (label, kw, parse_pos(d, b"\x01\x02\x03", **kw)))
        print("  cond=%r kw=%r parse short: %s" % (label, kw, parse_pos(d, b"", **kw)))
        print("  cond=%r kw=%r build: %s" % (label, kw, build_res(d, 5, **kw)))
        print("  cond=%r kw=%r build bad: %s" % (label, kw, build_res(d, "no", **kw)))
        print("  cond=%r kw=%r sizeof: %s" % (label, kw, size_res(d, **kw)))
for v in (True, False):
    log = []
    d = IfThenElse(Truthy(v, log), "t" / Int16ub, "e" / Int8ub)
    print("  truthy %r parse: %s" % (v, parse_pos(d, b"\x01\x02\x03")))
    print("  truthy %r build: %s" % (v, build_res(d, 5)))
    print("  truthy %r sizeof: %s" % (v, size_res(d)))
    print("  truthy %r log: %r" % (v, log))
d = IfThenElse(BoolRaises(), "t" / Int16ub, "e" / Int8ub)
print("  boolraises parse: %s" % parse_pos(d, b"\x01\x02\x03"))
print("  boolraises build: %s" % build_res(d, 5))
print("  boolraises sizeof: %s" % size_res(d))

# ---------------------------------------------------------------- Renamed called directly
print("== Renamed direct calls")
ctx = Container(_parsing=True, _building=False, _sizing=False)
ctx._params = ctx
for nm in ("n", "", None, "a b", "%s", "{}", "é"):
    r = Renamed(Int16ub, nm)
    print("  name=%r -> r.name=%r" % (nm, r.name))
    for p in ("(parsing)", "", "(parsing) -> outer", "%d"):
        show("  _parse short name=%r path=%r" % (nm, p), lambda: r._parse(io.BytesIO(b"\x00"), ctx, p))
        show("  _parse ok name=%r path=%r" % (nm, p), lambda: r._parse(io.BytesIO(b"\x00\x07"), ctx, p))
        show("  _build bad name=%r path=%r" % (nm, p), lambda: r._build("zz", io.BytesIO(), ctx, p))
        show("  _build ok name=%r path=%r" % (nm, p), lambda: r._build(7, io.BytesIO(), ctx, p))
        rv = Renamed(VarInt, nm)
        show("  _sizeof bad name=%r path=%r" % (nm, p), lambda: rv._sizeof(ctx, p))
        show("  _sizeof ok name=%r path=%r" % (nm, p), lambda: r._sizeof(ctx, p))
# non-string paths: None / int raise TypeError from the concatenation, a list is extended in place
r = Renamed(Int16ub, "nm")
for p in (None, 5, b"bytes"):
    show("  _parse path=%r" % (p,), lambda: r._parse(io.BytesIO(b"\x00"), ctx, p))
    show("  _build path=%r" % (p,), lambda: r._build("zz", io.BytesIO(), ctx, p))
    show("  _sizeof path=%r" % (p,), lambda: r._sizeof(ctx, p))
for meth in ("parse", "build", "sizeof"):
    lst = ["root"]
    if meth == "parse":
        show("  _parse path=list", lambda: r._parse(io.BytesIO(b"\x00"), ctx, lst))
    elif meth == "build":
        show("  _build path=list", lambda: r._build("zz", io.BytesIO(), ctx, lst))
    else:
        show("  _sizeof path=list", lambda: Renamed(VarInt, "nm")._sizeof(ctx, lst))
    print("  list after %s: %r" % (meth, lst))
# attribute delegation of Renamed is unchanged
r = Renamed(inner, "nm")
print("  delegated attr x:", r.x, "subcons:", len(r.subcons))
show("  missing attr", lambda: r.nonexistent_attribute)
print("  parsed hook:", Renamed(Int8ub, "h", newparsed=lambda obj, ctx: print("    hook saw", obj)).parse(b"\x05"))

# ---------------------------------------------------------------- ConstructError construction
print("== ConstructError construction")
from construct import core

classes = [core.ConstructError, core.StreamError, core.SizeofError, core.RangeError, core.ExplicitError]
for cls in classes:
    for args, kw in (
        ((), {}),
        (("msg",), {}),
        (("msg",), dict(path=None)),
        (("msg",), dict(path="(parsing) -> a")),
        (("msg", "(building) -> b"), {}),
        ((), dict(path="(sizeof)")),
        ((), dict(path="")),
        (("",), dict(path="")),
        (("m",), dict(path=0)),
        (("m",), dict(path=False)),
        (("m",), dict(path=("a", "b"))),
        (("m {} %s",), dict(path="{} %s")),
        ((b"bytes",), {}),
        ((None,), {}),
        ((5,), {}),
        ((b"bytes",), dict(path="p")),
        ((None,), dict(path="p")),
        ((5,), dict(path="p")),
        ((["l"],), dict(path=["p"])),
    ):
        try:
            e = cls(*args, **kw)
            print("  %s%r%r -> path=%r args=%r str=%r repr=%r" % (cls.__name__, args, sorted(kw.items()), e.path, e.args, str(e), repr(e)))
        except Exception as ex:
            print("  %s%r%r -> RAISES %s %r" % (cls.__name__, args, sorted(kw.items()), type(ex).__name__, ex.args))


class PathFmtRaises:
    def __format__(self, spec):
        raise RuntimeError("format failed")


try:
    core.StreamError("m", path=PathFmtRaises())
except Exception as ex:
    print("  path with raising __format__ ->", type(ex).__name__, ex.args)

# ---------------------------------------------------------------- misc wrappers forwarding the path
print("== misc wrappers")
misc = Struct(
    "pad" / Padded(4, "pin" / Int16ub),
    "al" / Aligned(4, "ain" / Int8ub),
    "ptr" / Pointer(0, "pt" / Int8ub),
    "opt" / Optional("o" / Int8ub),
    "rc" / RawCopy("raw" / Int16ub),
    "rng" / GreedyRange("g" / Int16ub),
)
val = dict(pad=1, al=2, ptr=0, opt=3, rc=dict(value=4), rng=[5, 6])
print("build:", build_res(misc, val))
data = misc.build(val)
for cut in range(len(data) + 1):
    print("  cut %2d: %s" % (cut, parse_pos(misc, data[:cut])))
print("sizeof:", size_res(misc))
show("Error field", lambda: Struct("a" / Struct("b" / Error)).parse(b""))
show("Error field build", lambda: Struct("a" / Struct("b" / Error)).build(dict(a=dict(b=None))))
show("Check field", lambda: Struct("a" / Int8ub, "chk" / Check(this.a == 1)).parse(b"\x02"))
show("compiled struct", lambda: Struct("a" / Int8ub, "b" / Struct("c" / Int16ub)).compile().parse(b"\x01\x02"))
show("compiled ifthenelse", lambda: Struct("a" / Int8ub, "b" / IfThenElse(this.a, Int16ub, Int8ub)).compile().parse(b"\x01\x02\x03"))
