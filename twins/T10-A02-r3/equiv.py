import sys, io, enum
sys.path.insert(0, sys.argv[1])
from construct import *
from construct.core import Enum, FlagsEnum, KsyGen, CodeGen


def show(label, fn):
    try:
        r = fn()
        print(label, "->", type(r).__name__, repr(r))
    except Exception as e:
        print(label, "!!", type(e).__name__, str(e).replace("\n", " | "))


class E(enum.IntEnum):
    one = 1
    two = 2
    alias_two = 2
    ten = 10


class F(enum.IntFlag):
    r = 4
    w = 2
    x = 1
    rw = 6


class G(enum.IntEnum):
    one = 100
    eleven = 11


class Plain(enum.Enum):
    a = "sa"
    b = 3


class Entry:
    def __init__(self, name, value, log):
        self._name, self._value, self._log = name, value, log

    @property
    def name(self):
        self._log.append("name:%s" % self._name)
        return self._name

    @property
    def value(self):
        self._log.append("value:%s" % self._name)
        return self._value


class Raises:
    def __iter__(self):
        yield Entry("ok", 1, [])
        raise RuntimeError("iteration broke")


def describe_enum(label, d):
    print(label, "encmapping", [(str(k), k.intvalue, v) for k, v in d.encmapping.items()])
    print(label, "decmapping", [(k, str(v), v.intvalue, type(v).__name__) for k, v in d.decmapping.items()])
    print(label, "ksymapping", list(d.ksymapping.items()))


def describe_flags(label, d):
    print(label, "flags", list(d.flags.items()), type(d.flags).__name__)
    print(label, "reverseflags", list(d.reverseflags.items()))


cases = [
    ("no merge", (), dict(a=1, b=2)),
    ("empty", (), dict()),
    ("E", (E,), dict()),
    ("E+kw", (E,), dict(zero=0, one=111)),
    ("E,G", (E, G), dict()),
    ("G,E", (G, E), dict(one=5)),
    ("F", (F,), dict()),
    ("F,E", (F, E), dict(extra=128)),
    ("Plain", (Plain,), dict()),
    ("list of members", ([E.one, F.r],), dict()),
    ("empty list", ([],), dict(k=1)),
]
for label, merge, kw in cases:
    show("Enum ctor %s" % label, lambda: type(Enum(Byte, *merge, **kw)).__name__)
    try:
        d = Enum(Byte, *merge, **kw)
    except Exception:
        d = None
    if d is not None:
        describe_enum("Enum %s" % label, d)
        for raw in (b"\x01", b"\x02", b"\x0a", b"\x64", b"\xff"):
            show("  Enum %s parse %s" % (label, raw.hex()), lambda: d.parse(raw))
        for v in ("one", "two", "alias_two", "rw", "zero", "nope", 7, E.two):
            show("  Enum %s build %r" % (label, v), lambda: d.build(v))
        show("  Enum %s attr one" % label, lambda: d.one)
        show("  Enum %s attr missing" % label, lambda: d.missing)
        show("  Enum %s sizeof" % label, lambda: d.sizeof())
    show("FlagsEnum ctor %s" % label, lambda: type(FlagsEnum(Byte, *merge, **kw)).__name__)
    try:
        f = FlagsEnum(Byte, *merge, **kw)
    except Exception:
        f = None
    if f is not None:
        describe_flags("FlagsEnum %s" % label, f)
        for raw in (b"\x00", b"\x03", b"\x06", b"\xff"):
            show("  FlagsEnum %s parse %s" % (label, raw.hex()), lambda: f.parse(raw))
        for v in ("one|two", "r|w", dict(one=True, two=False), dict(r=True, x=True), 5, "nope", ""):
            show("  FlagsEnum %s build %r" % (label, v), lambda: f.build(v))
        show("  FlagsEnum %s attr one" % label, lambda: f.one)
        show("  FlagsEnum %s attr missing" % label, lambda: f.missing)

# order of attribute accesses on the merged entries
for cls in (Enum, FlagsEnum):
    log = []
    entries = [Entry("p", 1, log), Entry("q", 2, log), Entry("p", 3, log)]
    d = cls(Byte, entries, [Entry("z", 9, log)], q=20, y=7)
    print(cls.__name__, "access log", log)
    if cls is Enum:
        describe_enum("Enum entries", d)
    else:
        describe_flags("FlagsEnum entries", d)

# errors during merging
for cls in (Enum, FlagsEnum):
    show("%s merge non-iterable" % cls.__name__, lambda: cls(Byte, 5))
    show("%s merge entries without name" % cls.__name__, lambda: cls(Byte, [1, 2]))
    show("%s merge iteration raises" % cls.__name__, lambda: cls(Byte, Raises()))
    show("%s merge None" % cls.__name__, lambda: cls(Byte, None))
    show("%s no subcon" % cls.__name__, lambda: cls())
    show("%s unhashable value" % cls.__name__, lambda: cls(Byte, a=[1]))

# the caller's dict is not the one being filled in
kw = dict(a=1)
d = Enum(Byte, E, **kw)
f = FlagsEnum(Byte, E, **kw)
print("caller kwargs after", kw)

# generated code and ksy for merged enums
d = Enum(Byte, E, zero=0)
code = CodeGen()
show("Enum emitparse", lambda: d._emitparse(code))
show("Enum emitbuild", lambda: d._emitbuild(code))
print("Enum code blocks", code.blocks)
ksy = KsyGen()
show("Enum ksy", lambda: d._emitprimitivetype(ksy, False))
print("Enum ksy enums", ksy.enums)
f = FlagsEnum(Byte, F, hi=128)
show("FlagsEnum emitparse", lambda: f._emitparse(CodeGen()))
show("FlagsEnum emitseq", lambda: f._emitseq(KsyGen(), False))
dc = Struct("e" / Enum(Byte, E), "f" / FlagsEnum(Byte, F)).compile()
show("compiled parse", lambda: dc.parse(b"\x02\x07"))
show("compiled build", lambda: dc.build(dict(e="ten", f=dict(r=True))))
