#!/usr/bin/env python
"""C09 twin z2: observations for Union._parse / Union._build after the nested
context moved into a private helper and the bookkeeping values were renamed
(start/ends/selected/target instead of fallback/forwards/parsefrom).

usage: equiv.py <repo root>     (deterministic output, compare with cmp)
"""
import sys, io
sys.path.insert(0, sys.argv[1])
from construct import *

N = [0]
def show(label, value):
    N[0] += 1
    print("%04d %s => %s" % (N[0], label, value))

def parse_from(d, data, start, **ctx):
    s = io.BytesIO(data)
    s.seek(start)
    try:
        r = d.parse_stream(s, **ctx)
        return "ret %r pos %d" % (r, s.tell())
    except Exception as e:
        return "exc %s: %s pos %d" % (type(e).__name__, " / ".join(str(e).split("\n")), s.tell())

def build_into(d, obj, prefix, at, **ctx):
    s = io.BytesIO(prefix)
    s.seek(at)
    try:
        r = d.build_stream(obj, s, **ctx)
        return "ret %r bytes %r pos %d" % (r, s.getvalue(), s.tell())
    except Exception as e:
        return "exc %s: %s bytes %r pos %d" % (type(e).__name__, " / ".join(str(e).split("\n")), s.getvalue(), s.tell())

def attempt(func, *args, **kw):
    try:
        return "ret %r" % (func(*args, **kw),)
    except Exception as e:
        return "exc %s: %s" % (type(e).__name__, " / ".join(str(e).split("\n")))

class Logged(io.BytesIO):
    """BytesIO that records every tell and seek."""
    def __init__(self, data):
        super().__init__(data)
        self.log = []
    def tell(self):
        r = super().tell()
        self.log.append("t%d" % r)
        return r
    def seek(self, at, whence=0):
        self.log.append("s%d,%d" % (at, whence))
        return super().seek(at, whence)

members = ["a" / Bytes(2), "b" / Int16ub, "c" / Byte, "v" / VarInt]
blobs = [b"", b"\x01", b"\x81\x02", b"\x81\x82\x03\x04", b"\xff\xff\xff", b"AB\x00CD"]

# ---- every kind of selector ------------------------------------------------
selectors = [None, 0, 1, 2, 3, 4, -1, "a", "c", "v", "zz", True, 1.0,
             this.c, this._.k, lambda ctx: ctx._.k, lambda ctx: None, lambda ctx: [1]]
for sel in selectors:
    label = sel if not callable(sel) or hasattr(sel, "__getfield__") else "<lambda>"
    d = Union(sel, *members)
    for data in blobs:
        for start in (0, 1):
            if start <= len(data):
                show("Union(%r) %r@%d" % (label, data, start), parse_from(d, data, start, k="b"))

# ---- anonymous members, duplicate names, odd names ---------------------------
variants = [
    ("anon first", Union(0, Int16ub, "b" / Byte)),
    ("anon middle sel 1", Union(1, "a" / Byte, Int24ub, "c" / Int16ub)),
    ("anon only", Union(None, Byte, Int16ub)),
    ("anon last sel 2", Union(2, "a" / Byte, "b" / Int16ub, VarInt)),
    ("duplicate names sel x", Union("x", "x" / Byte, "x" / Int24ub)),
    ("duplicate names sel 0", Union(0, "x" / Byte, "x" / Int24ub)),
    ("member called _", Union(None, "_" / Byte, "q" / Computed(lambda ctx: type(ctx._).__name__))),
    ("member called _root", Union(None, "_root" / Byte, "q" / Computed(lambda ctx: ctx._root))),
    ("member called _index", Union("_index", "_index" / Int16ub, "q" / Computed(this._index))),
    ("member called _io", Union(None, "_io" / Byte, "q" / Byte)),
    ("kw members", Union("b", a=Int8ub, b=Int16ub, c=Int32ub)),
    ("no members", Union(None)),
    ("no members sel 0", Union(0)),
    ("Pass sel 0", Union(0, Pass)),
    ("zero size selected", Union("t", "a" / Int16ub, "t" / Tell)),
    ("Peek member", Union("p", "p" / Peek(Int16ub), "q" / Byte)),
    ("Pointer member", Union(0, "p" / Pointer(2, Byte), "q" / Int16ub)),
    ("Select member", Union("s", "s" / Select(Const(b"AB"), Byte), "q" / Int16ub)),
    ("GreedyRange member", Union("g", "g" / GreedyRange(Const(b"\x81")), "rest" / GreedyBytes)),
    ("failing middle member", Union(0, "a" / Byte, "k" / Const(b"\x00\x00"), "c" / Byte)),
    ("Error member", Union(0, "a" / Byte, Error)),
    ("StopIf member", Union(0, "a" / Byte, StopIf(this.a > 1), "c" / Int16ub)),
    ("Check on earlier member", Union("b", "a" / Byte, Check(this.a < 0x90), "b" / Int16ub)),
]
for name, d in variants:
    for data in blobs:
        for start in (0, 1):
            if start <= len(data):
                show("%s %r@%d" % (name, data, start), parse_from(d, data, start))

# ---- what the members see in their context -----------------------------------
probe = Union(None,
    "a" / Byte,
    "sees_a" / Computed(this.a),
    "outer_x" / Computed(this._.x),
    "root_is_outer" / Computed(lambda ctx: ctx._root is ctx._),
    "root_x" / Computed(this._root.x),
    "params_k" / Computed(this._params.k),
    "flags" / Computed(lambda ctx: (ctx._parsing, ctx._building, ctx._sizing)),
    "index" / Computed(this._index),
    "subcons" / Computed(lambda ctx: sorted(dict.keys(ctx._subcons))),
    "io_pos" / Computed(lambda ctx: ctx._io.tell()),
    "ctxkeys" / Computed(lambda ctx: [k for k in dict.keys(ctx)]),
)
outer = Struct("x" / Byte, "u" / probe, "after" / Tell)
for data in blobs[2:]:
    show("context probe in Struct %r" % data, parse_from(outer, data, 0, k=7))
    show("context probe in Array  %r" % data, parse_from(Array(2, Struct("x" / Computed(5), "u" / probe)), data, 0, k=7))
    show("context probe top level %r" % data, parse_from(Union(None, "a" / Byte, "i" / Computed(this._index), "r" / Computed(lambda ctx: ctx._root is ctx), "keys" / Computed(lambda ctx: list(ctx.keys()))), data, 0, k=7))
    show("GreedyRange(Union) %r" % data, parse_from(GreedyRange(Union(0, "a" / Byte, "i" / Computed(this._index))), data, 0))
    show("Union in Union %r" % data, parse_from(Union("n", "n" / Union(1, "p" / Byte, "q" / Int16ub, "up" / Computed(lambda ctx: sorted(k for k in ctx._.keys() if not k.startswith("_")))), "m" / Byte), data, 0))

# ---- exact tell/seek traffic ---------------------------------------------------
for sel in (None, 0, "c", 3, "zz", this.c):
    d = Union(sel, *members)
    for data in blobs[2:5]:
        s = Logged(data)
        try:
            r = "ret %r" % (d.parse_stream(s),)
        except Exception as e:
            r = "exc %s" % type(e).__name__
        show("traffic Union(%r) %r" % (sel, data), "%s | %s" % (r, " ".join(s.log)))

# ---- direct _parse with hand-made contexts ---------------------------------------
for ctx in (Container(), Container(_params=1), Container(_params=1, _parsing=True, _building=False), Container(_params=1, _parsing=True, _building=False, _sizing=False), Container(_params=1, _parsing=1, _building=2, _sizing=3, _index=9, _root="R")):
    d = Union(0, "a" / Byte, "seen" / Computed(lambda c: (c._params, c._parsing, c._building, c._sizing, c._index, c._root if isinstance(c._root, str) else "ctx")))
    show("direct _parse ctx keys %r" % (sorted(ctx.keys()),), attempt(d._parse, io.BytesIO(b"\x05\x06"), ctx, "here"))
    show("direct _build ctx keys %r" % (sorted(ctx.keys()),), attempt(d._build, dict(a=1), io.BytesIO(), ctx, "here"))

# ---- building -----------------------------------------------------------------------
bd = Union(None, "a" / Bytes(2), "b" / Int16ub, "c" / Struct("n" / Byte, "m" / Computed(this._.b if False else this.n)))
objs = [dict(a=b"zz"), dict(b=258), dict(c=dict(n=4)), dict(b=1, a=b"qq"), dict(), dict(a=b"z"), dict(zz=1), None, Container(b=70000)]
for obj in objs:
    for prefix, at in ((b"", 0), (b"......", 2)):
        show("build %r into %r@%d" % (obj, prefix, at), build_into(bd, obj, prefix, at))
bd2 = Union(0, "a" / Byte, "p" / Pass, "d" / Default(Byte, 9))
for obj in (dict(), dict(d=3), dict(a=1), dict(p=None)):
    show("build with buildnone members %r" % (obj,), build_into(bd2, obj, b"", 0))
bd3 = Struct("x" / Byte, "u" / Union(None, "w" / Computed(this._.x), "b" / Byte), "t" / Tell)
for obj in (dict(x=1, u=dict(b=2)), dict(x=1, u=dict()), dict(x=1)):
    show("build Struct(x,Union) %r" % (obj,), build_into(bd3, obj, b"", 0))
bd4 = Union(None, "seen" / Computed(lambda c: (c._parsing, c._building, c._sizing, c._index, c._params.k, c.extra)), "b" / Byte)
show("build context flags", build_into(bd4, dict(extra=5), b"", 0, k=3))
show("build ctx in Array", build_into(Array(2, Union(None, "i" / Computed(this._index), "b" / Byte)), [dict(), dict()], b"", 0))

# ---- sizeof, attribute access, compiled forms -------------------------------------------
for name, d in variants:
    show("sizeof %s" % name, attempt(d.sizeof))
u = Union(None, "a" / Byte, "_x" / Int16ub)
show("getattr a", attempt(lambda: repr(u.a)))
show("getattr _x", attempt(lambda: repr(u._x)))
show("getattr missing", attempt(lambda: u.nothing))
show("getattr _unioncontext", attempt(lambda: u._unioncontext))
show("getattr _subcontext", attempt(lambda: u._subcontext))
for sel in (None, 0, 2, "c", "zz", 7):
    try:
        c = Union(sel, "a" / Bytes(2), "b" / Int16ub, "c" / Byte).compile()
    except Exception as e:
        show("compile Union(%r)" % (sel,), "exc %s" % type(e).__name__)
        continue
    for data in blobs:
        show("compiled Union(%r) %r" % (sel, data), parse_from(c, data, 0))
    show("compiled build Union(%r)" % (sel,), build_into(c, dict(b=5), b"", 0))
