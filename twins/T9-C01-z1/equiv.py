#!/usr/bin/env python
"""
Observation script for GreedyRange / RepeatUntil (parse and build loops).

usage: equiv.py <repo root>

Prints parse results, built bytes, stream positions after parsing, sizeof
results, the _index value left in the context, the order of user callback
invocations and exception type names + messages for a fixed list of inputs.
Output is deterministic; two trees with the same behaviour print the same text.
"""
import sys, io, re

root = sys.argv[1]
sys.path.insert(0, root)

from construct import *
from construct.lib import *

LINE = [0]

def out(text):
    LINE[0] += 1
    text = re.sub(r" at 0x[0-9a-fA-F]+", " at 0x?", text)  # object addresses are not behaviour
    print("%03d %s" % (LINE[0], text))

def show_exc(e):
    chain = []
    c = e.__context__
    while c is not None:
        chain.append(type(c).__name__)
        c = c.__context__
    return "%s(%s) context=%s" % (type(e).__name__, str(e).replace("\n", " | "), chain)

def obs_parse(label, d, data, **kw):
    stream = io.BytesIO(data)
    try:
        obj = d.parse_stream(stream, **kw)
        out("parse %-34s data=%s -> %r pos=%d" % (label, data.hex(), obj, stream.tell()))
    except Exception as e:
        out("parse %-34s data=%s !! %s pos=%d" % (label, data.hex(), show_exc(e), stream.tell()))

def obs_build(label, d, obj, **kw):
    stream = io.BytesIO()
    try:
        d.build_stream(obj, stream, **kw)
        out("build %-34s obj=%r -> %s pos=%d" % (label, obj, stream.getvalue().hex(), stream.tell()))
    except Exception as e:
        out("build %-34s obj=%r !! %s written=%s" % (label, obj, show_exc(e), stream.getvalue().hex()))

def obs_buildret(label, d, obj):
    # return value of _build as seen by an enclosing Struct (context hand-over)
    seen = []
    s = Struct("x" / d, "after" / Computed(lambda ctx: seen.append(repr(ctx.x)) or 0))
    try:
        data = s.build(dict(x=obj))
        out("bret  %-34s obj=%r -> %s ret=%s" % (label, obj, data.hex(), seen))
    except Exception as e:
        out("bret  %-34s obj=%r !! %s" % (label, obj, show_exc(e)))

def obs_sizeof(label, d, **kw):
    try:
        out("size  %-34s -> %r" % (label, d.sizeof(**kw)))
    except Exception as e:
        out("size  %-34s !! %s" % (label, show_exc(e)))

class NoSeek(io.BytesIO):
    """tellable but refuses to seek"""
    def seek(self, *a):
        raise OSError("no seeking here")

class NoTell(io.BytesIO):
    def tell(self):
        raise OSError("no telling here")

# ---------------------------------------------------------------- GreedyRange
calls = []
def tracer(name):
    def f(obj, ctx):
        calls.append("%s:%r@%r" % (name, obj, ctx.get("_index")))
    return f

elements = [
    ("Byte", Byte),
    ("Int16ub", Int16ub),
    ("Int24ul", Int24ul),
    ("Struct(tag=Const 01,v)", Struct("tag" / Const(b"\x01"), "v" / Int16ub)),
    ("Seq(Byte,Index)", Sequence(Byte, Index)),
    ("Struct(n, idx)", Struct("n" / Byte, "idx" / Computed(this._index))),
    ("FocusedSeq StopIf(x==0)", FocusedSeq("x", "x" / Byte, StopIf(this.x == 0))),
    ("Struct(x, Error if 9)", Struct("x" / Byte, If(this.x == 9, Error))),
    ("Struct KeyError on 7", Struct("x" / Byte, "y" / Computed(lambda ctx: {1: "a", 2: "b", 0: "z"}[ctx.x]))),
    ("PascalString", PascalString(Byte, "utf8")),
]
datas = [b"", b"\x01", b"\x01\x00\x02", b"\x01\x00\x02\x01\x00\x03\x02", b"\x01\x02\x00\x04\x05", b"\x02\x01\x09\x03", b"\x01\x02\x07\x01", b"\x02ab\x05xy"]

for discard in (False, True):
    for name, el in elements:
        d = GreedyRange(el, discard=discard)
        for data in datas:
            obs_parse("GR[%s]%s" % (name, " discard" if discard else ""), d, data)

# followed by other members, nested in length-prefixed / fixed-size substreams at non-zero offsets
d = Struct("head" / Byte, "items" / GreedyRange(Int16ub), "tail" / GreedyBytes, "idx" / Computed(this._index))
for data in (b"\x09", b"\x09\x00\x01\x00\x02", b"\x09\x00\x01\x00\x02\xff", b"\x09\xff"):
    obs_parse("Struct(head,GR(Int16ub),tail)", d, data)
d = Struct("head" / Bytes(3), "box" / Prefixed(Byte, Struct("items" / GreedyRange(Struct("t" / Const(b"\x01"), "v" / Int16ub)), "rest" / GreedyBytes)), "after" / Byte)
for data in (b"abc\x00\x07", b"abc\x03\x01\x00\x05\x07", b"abc\x05\x01\x00\x05\x01\x09\x07", b"abc\x04\x01\x00\x05\x02\x07", b"abc\x09\x01\x00\x05"):
    obs_parse("Prefixed(Struct(GR,rest))", d, data)
d = Sequence(Byte, FixedSized(5, Sequence(GreedyRange(Int16ul), GreedyBytes)), Tell)
for data in (b"\x01\x02\x00\x03\x00\x04", b"\x01\x02\x00\x03\x00\x04\x05", b"\x01\x02"):
    obs_parse("FixedSized(Seq(GR,GreedyBytes))", d, data)
d = Struct("n" / Byte, "rows" / Array(this.n, Prefixed(Byte, GreedyRange(Int16ub))), "idx" / Computed(this._index))
for data in (b"\x00", b"\x02\x04\x00\x01\x00\x02\x03\x00\x09\xff", b"\x02\x02\x00\x01"):
    obs_parse("Array(Prefixed(GR))", d, data)
d = Bitwise(GreedyRange(Nibble))
for data in (b"", b"\x12", b"\x12\x34"):
    obs_parse("Bitwise(GR(Nibble))", d, data)
d = NullTerminated(GreedyRange(Int16ub), term=b"\xff")
for data in (b"\xff", b"\x00\x01\xff", b"\x00\x01\x02\xff", b"\x00\x01"):
    obs_parse("NullTerminated(GR(Int16ub))", d, data)

# parsed hooks and callback order
calls[:] = []
d = GreedyRange((Byte * tracer("el")))
obs_parse("GR(Byte*hook)", d, b"\x05\x06\x07")
out("calls %r" % (calls,))
calls[:] = []
d = GreedyRange(Struct("a" / (Byte * tracer("a")), "b" / (Int16ub * tracer("b"))))
obs_parse("GR(Struct hooks)", d, b"\x05\x00\x06\x07\x00")
out("calls %r" % (calls,))

# streams that cannot seek or tell
for cls in (NoSeek, NoTell):
    for data in (b"\x00\x01\x00\x02", b"\x00\x01\x00"):
        stream = cls(data)
        try:
            obj = GreedyRange(Int16ub).parse_stream(stream)
            out("parse GR(Int16ub) on %s data=%s -> %r" % (cls.__name__, data.hex(), obj))
        except Exception as e:
            out("parse GR(Int16ub) on %s data=%s !! %s" % (cls.__name__, data.hex(), show_exc(e)))

# building
def gen(items):
    for x in items:
        yield x

def stopiter():
    yield 1
    raise StopFieldError("from the iterable")

for discard in (False, True):
    tag = " discard" if discard else ""
    d = GreedyRange(Byte, discard=discard)
    for obj in ([], [1, 2, 3], (4, 5), range(3), [1, 300, 2], [1, None], None, 5, b"\x07\x08"):
        obs_build("GR(Byte)" + tag, d, obj)
    obs_build("GR(Byte) generator" + tag, d, gen([7, 8, 9]))
    obs_build("GR(Byte) iter raises Stop" + tag, d, stopiter())
    d = GreedyRange(FocusedSeq("x", "x" / Byte, StopIf(this.x == 0)), discard=discard)
    for obj in ([1, 2, 0, 3], [0], [1, 2]):
        obs_build("GR(FocusedSeq StopIf)" + tag, d, obj)
        obs_buildret("GR(FocusedSeq StopIf)" + tag, d, obj)
    d = GreedyRange(Struct("x" / Byte, If(this.x == 9, Error)), discard=discard)
    obs_build("GR(Struct Error if 9)" + tag, d, [dict(x=1), dict(x=9), dict(x=2)])
    d = GreedyRange(Struct("n" / Byte, "idx" / Rebuild(Byte, this._index)), discard=discard)
    obs_build("GR(Struct n,idx)" + tag, d, [dict(n=7), dict(n=8), dict(n=9)])
    obs_buildret("GR(Struct n,idx)" + tag, d, [dict(n=7), dict(n=8)])
    obs_buildret("GR(Byte)" + tag, GreedyRange(Byte, discard=discard), [1, 2])
    obs_buildret("GR(Default)" + tag, GreedyRange(Default(Byte, 7), discard=discard), [None, 2])

d = Struct("items" / GreedyRange(Int16ub), "idx" / Computed(this._index), "tail" / Byte)
obs_build("Struct(GR, idx, tail)", d, dict(items=[1, 2, 3], tail=9))
obs_build("Struct(GR, idx, tail)", d, dict(items=[], tail=9))
obs_sizeof("GR(Byte)", GreedyRange(Byte))

# ---------------------------------------------------------------- RepeatUntil
preds = [
    ("obj_==9", obj_ == 9),
    ("lambda lst[-2:]==[0,0]", lambda x, lst, ctx: lst[-2:] == [0, 0]),
    ("True", True),
    ("False", False),
    ("lambda idx>=2", lambda x, lst, ctx: ctx._index >= 2),
    ("lambda raises on 7", lambda x, lst, ctx: 1 // (x - 7) == 99),
    ("lambda len(lst)==2", lambda x, lst, ctx: len(lst) == 2),
]
rdatas = [b"", b"\x09", b"\x01\x02\x09\x03", b"\x00\x00\x00", b"\x01\x07\x09", b"\x01\x02\x03\x04"]
for discard in (False, True):
    tag = " discard" if discard else ""
    for pname, pred in preds:
        d = RepeatUntil(pred, Byte, discard=discard)
        for data in rdatas:
            obs_parse("RU[%s]%s" % (pname, tag), d, data)
        for obj in ([], [9], [1, 2, 9, 3], [0, 0, 0], [1, 7, 9], [1, 2, 3, 4], None, [1, 300, 9]):
            obs_build("RU[%s]%s" % (pname, tag), d, obj)
        obs_build("RU[%s] generator%s" % (pname, tag), d, gen([1, 2, 9, 3]))
    d = RepeatUntil(lambda x, lst, ctx: x.last, Struct("last" / Flag, "idx" / Rebuild(Byte, this._index), "v" / Int16ul), discard=discard)
    obs_parse("RU[Struct last]" + tag, d, b"\x00\x00\x01\x00\x01\x01\x02\x00\xee")
    obs_parse("RU[Struct last]" + tag, d, b"\x00\x00\x01\x00\x00\x01\x02")
    obs_build("RU[Struct last]" + tag, d, [dict(last=False, v=1), dict(last=True, v=2), dict(last=False, v=3)])
    obs_buildret("RU[Struct last]" + tag, d, [dict(last=False, v=1), dict(last=True, v=2)])
    obs_build("RU[Struct last]" + tag, d, [dict(last=False, v=1)])

calls[:] = []
d = RepeatUntil(lambda x, lst, ctx: calls.append("pred:%r:%r@%r" % (x, list(lst), ctx._index)) or x == 0, Byte * tracer("el"))
obs_parse("RU callbacks", d, b"\x03\x02\x00\x01")
obs_build("RU callbacks", d, [3, 0, 1])
out("calls %r" % (calls,))

d = Struct("n" / Byte, "items" / RepeatUntil(obj_ == 0, Int16ub), "idx" / Computed(this._index), "tail" / GreedyBytes)
obs_parse("Struct(n, RU, idx, tail)", d, b"\x05\x00\x01\x00\x00\xaa\xbb")
obs_parse("Struct(n, RU, idx, tail)", d, b"\x05\x00\x01\x00")
obs_build("Struct(n, RU, idx, tail)", d, dict(n=5, items=[1, 2, 0, 3], tail=b"zz"))
obs_build("Struct(n, RU, idx, tail)", d, dict(n=5, items=[1, 2], tail=b"zz"))
d = Prefixed(Byte, RepeatUntil(obj_ == 0, Byte))
obs_parse("Prefixed(RU)", d, b"\x02\x01\x00\x09")
obs_parse("Prefixed(RU)", d, b"\x02\x01\x01\x00")
obs_sizeof("RU", RepeatUntil(True, Byte))

# compiled forms (RepeatUntil has emitters, GreedyRange is linked to the interpreted methods)
for label, d, data, obj in (
    ("compiled Struct(GR)", Struct("n" / Byte, "items" / Prefixed(Byte, GreedyRange(Int16ub)), "t" / Byte), b"\x01\x05\x00\x01\x00\x02\xff\x07", dict(n=1, items=[1, 2], t=7)),
    ("compiled RU", Struct("items" / RepeatUntil(obj_ == 0, Byte), "t" / Byte), b"\x03\x00\x07", dict(items=[3, 0], t=7)),
):
    c = d.compile()
    obs_parse(label, c, data)
    obs_build(label, c, obj)

# round trips through both constructs
for label, d, obj in (
    ("rt GR(Int16ub)", GreedyRange(Int16ub), [1, 2, 65535]),
    ("rt GR(Struct)", GreedyRange(Struct("a" / Byte, "b" / PascalString(Byte, "utf8"))), [dict(a=1, b=u"x"), dict(a=2, b=u"")]),
    ("rt RU", RepeatUntil(obj_ == 0, VarInt), [300, 2, 0]),
    ("rt PrefixedArray(GR in Prefixed)", PrefixedArray(Byte, Prefixed(Byte, GreedyRange(Int16sl))), [[-1, 2], [], [3]]),
):
    try:
        data = d.build(obj)
        back = d.parse(data)
        out("%-36s %r -> %s -> %r equal=%r" % (label, obj, data.hex(), back, back == obj))
    except Exception as e:
        out("%-36s %r !! %s" % (label, obj, show_exc(e)))

out("done")
