import sys, io
sys.path.insert(0, sys.argv[1])
from construct import *
from construct.core import FormatField, KsyGen

little = sys.byteorder == "little"


def show(label, fn):
    try:
        r = fn()
        print(label, "->", type(r).__name__, repr(r))
    except Exception as e:
        print(label, "!!", type(e).__name__, str(e).replace("\n", " | "))


def normalize(s):
    # native endianness differs between machines; the output only has to be stable on one machine
    return s


for endianity in "<>=":
    for fmt in "fdBHLQbhlqe?":
        d = FormatField(endianity, fmt)
        print("FormatField(%r, %r) fmtstr=%r length=%r sizeof=%r" % (endianity, fmt, d.fmtstr, d.length, d.sizeof()))
        for bitwise in (False, True):
            show("  _emitprimitivetype(bitwise=%r)" % bitwise, lambda: d._emitprimitivetype(KsyGen(), bitwise))
            show("  _compileprimitivetype(bitwise=%r)" % bitwise, lambda: d._compileprimitivetype(KsyGen(), bitwise))
            show("  _compilefulltype(bitwise=%r)" % bitwise, lambda: d._compilefulltype(KsyGen(), bitwise))

# named shortcuts
for name in ["Int8ub", "Int16ub", "Int32ub", "Int64ub", "Int8sb", "Int16sb", "Int32sb", "Int64sb",
             "Int8ul", "Int16ul", "Int32ul", "Int64ul", "Int8sl", "Int16sl", "Int32sl", "Int64sl",
             "Int8un", "Int16un", "Int32un", "Int64un", "Int8sn", "Int16sn", "Int32sn", "Int64sn",
             "Float16b", "Float16l", "Float16n", "Float32b", "Float32l", "Float32n",
             "Float64b", "Float64l", "Float64n", "Byte", "Short", "Int", "Long", "Half", "Single", "Double"]:
    d = globals()[name]
    show("%s prim" % name, lambda: d._emitprimitivetype(KsyGen(), False))
    show("%s prim bitwise" % name, lambda: d._emitprimitivetype(KsyGen(), True))

# through containers that call the ksy emitters
d = Struct("a" / Int8ub, "b" / Int16ul, "c" / Float32b, "d" / Int64sl, "e" / Float64l)
ksy = KsyGen()
show("struct seq", lambda: d._compileseq(ksy, False))
show("struct fulltype", lambda: d._compilefulltype(KsyGen(), False))
d = Array(3, Int32sb)
show("array fulltype", lambda: d._compilefulltype(KsyGen(), False))
d = Struct("x" / Float16b)
show("half in struct", lambda: d._compileseq(KsyGen(), False))
d = Struct("x" / FormatField(">", "?"))
show("bool in struct", lambda: d._compileseq(KsyGen(), False))
d = BitStruct("x" / Int8ub)
show("bitstruct Int8ub", lambda: d.subcon._compileseq(KsyGen(), True))
d = BitStruct("x" / Int16ul)
show("bitstruct Int16ul", lambda: d.subcon._compileseq(KsyGen(), True))

# the parts of FormatField that were not touched still behave
for d, v in [(Int16ub, 258), (Int16ul, 258), (Int32sb, -2), (Float32b, 1.5), (Float64l, -0.25), (Int8ub, 255)]:
    b = d.build(v)
    s = io.BytesIO(b + b"zz")
    r = d._parse(s, Container(), "(p)")
    print("build/parse", d.fmtstr, b.hex(), r, s.tell())
show("build overflow", lambda: Int8ub.build(256))
show("build wrong type", lambda: Int8ub.build("a"))
show("parse short", lambda: Int32ub.parse(b"ab"))
show("ctor bad endianity", lambda: FormatField("!", "B"))
show("ctor bad format", lambda: FormatField(">", "x"))
