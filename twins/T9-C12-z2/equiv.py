#!/usr/bin/env python
"""C12 twin (z2) observations: BytesInteger (and the Int24* aliases, Bytewise/ByteSwapped wrappers
around it) -- parse results, built bytes, sizeof, stream positions, exception types and messages,
order of user callbacks, generated source and compiled behaviour, KSY primitive type names.

usage: equiv.py <repo root>     output is deterministic; compare clean vs changed tree with cmp
"""
import sys
import io

root = sys.argv[1] if len(sys.argv) > 1 else "."
sys.path.insert(0, root)

from construct import *  # noqa
from construct.lib import *  # noqa
from construct.core import KsyGen, CodeGen

lineno = 0


def emit(text):
    global lineno
    lineno += 1
    print("%04d %s" % (lineno, text))


def show(label, func, *args, **kw):
    try:
        emit("%s -> %r" % (label, func(*args, **kw)))
    except Exception as e:
        ctx = type(e.__context__).__name__ if e.__context__ is not None else "-"
        emit("%s !! %s: %s [context %s]" % (label, type(e).__name__, str(e).replace("\n", " | "), ctx))


def probes(n, signed):
    if signed:
        lo, hi = -(1 << (8 * n - 1)), (1 << (8 * n - 1)) - 1
    else:
        lo, hi = 0, (1 << (8 * n)) - 1
    values = [lo - 1, lo, -1, 0, 1, hi, hi + 1]
    blobs = [bytes(n), b"\xff" * n, b"\x80" + bytes(n - 1), bytes(range(1, n + 1)), bytes(n - 1), bytes(range(0xf0, 0xf0 + n)) + b"Z"]
    return values, blobs


def parse_with_position(d, data, **kw):
    stream = io.BytesIO(b"##" + data + b"$$")
    stream.seek(2)
    try:
        obj = d.parse_stream(stream, **kw)
        return (obj, stream.tell())
    except Exception as e:
        return ("!! " + type(e).__name__, stream.tell())


def build_with_position(d, obj, **kw):
    stream = io.BytesIO()
    stream.write(b"##")
    try:
        d.build_stream(obj, stream, **kw)
        return (stream.getvalue(), stream.tell())
    except Exception as e:
        return ("!! " + type(e).__name__, stream.getvalue(), stream.tell())


print("=== constant parameters: widths x signed x swapped")
for n in (1, 2, 3, 5, 8, 16):
    for signed in (False, True):
        for swapped in (False, True):
            d = BytesInteger(n, signed=signed, swapped=swapped)
            tag = "BytesInteger(%d,%s,%s)" % (n, "s" if signed else "u", "le" if swapped else "be")
            values, blobs = probes(n, signed)
            for data in blobs:
                emit("%s.parse(%s) => %r" % (tag, data.hex(), parse_with_position(d, data)))
            for v in values:
                emit("%s.build(%d) => %r" % (tag, v, build_with_position(d, v)))
            show("%s.sizeof()" % tag, d.sizeof)

print("=== messages and exception context")
show("BytesInteger(0).parse(b'')", BytesInteger(0).parse, b"")
show("BytesInteger(0).build(0)", BytesInteger(0).build, 0)
show("BytesInteger(-3).parse(b'abc')", BytesInteger(-3).parse, b"abc")
show("BytesInteger(-3).build(1)", BytesInteger(-3).build, 1)
show("BytesInteger(-3).sizeof()", BytesInteger(-3).sizeof)
show("BytesInteger(2).parse(b'a')", BytesInteger(2).parse, b"a")
show("BytesInteger(2).build(None)", BytesInteger(2).build, None)
show("BytesInteger(2).build('1')", BytesInteger(2).build, "1")
show("BytesInteger(2).build(1.0)", BytesInteger(2).build, 1.0)
show("BytesInteger(2).build(True)", BytesInteger(2).build, True)
show("BytesInteger(2).build(70000)", BytesInteger(2).build, 70000)
show("BytesInteger(2).build(-1)", BytesInteger(2).build, -1)
show("BytesInteger(2,True).build(-32769)", BytesInteger(2, True).build, -32769)
show("BytesInteger(-3).build(None)  (type check precedes length check)", BytesInteger(-3).build, None)
show("BytesInteger(this.n).parse no n", BytesInteger(this.n).parse, b"ab")
show("BytesInteger(this.n).build no n", BytesInteger(this.n).build, 1)
show("BytesInteger(this.n).sizeof no n", BytesInteger(this.n).sizeof)
show("BytesInteger(2, swapped=this.s).parse no s", BytesInteger(2, swapped=this.s).parse, b"ab")
show("BytesInteger(2, swapped=this.s).parse short, no s", BytesInteger(2, swapped=this.s).parse, b"a")
show("BytesInteger(2, swapped=this.s).build no s", BytesInteger(2, swapped=this.s).build, 1)
show("BytesInteger(2, swapped=this.s).build overflow, no s", BytesInteger(2, swapped=this.s).build, 1 << 20)

print("=== context-dependent parameters and the order user callbacks run in")
calls = []


def lengthfunc(ctx):
    calls.append("length")
    return ctx.n


def swappedfunc(ctx):
    calls.append("swapped")
    return ctx.s


d = BytesInteger(lengthfunc, signed=True, swapped=swappedfunc)
for n in (-1, 0, 1, 2, 4):
    for s in (False, True, 0, "yes"):
        for data in (b"", b"\x01", b"\x01\x02", b"\x81\x02\x03\x04\x05"):
            del calls[:]
            res = parse_with_position(d, data, n=n, s=s)
            emit("parse n=%r s=%r %s => %r calls=%r" % (n, s, data.hex(), res, calls))
        for v in (0, -2, 300, None):
            del calls[:]
            res = build_with_position(d, v, n=n, s=s)
            emit("build n=%r s=%r %r => %r calls=%r" % (n, s, v, res, calls))
        del calls[:]
        show("sizeof n=%r s=%r" % (n, s), d.sizeof, n=n, s=s)
        emit("   calls=%r" % (calls,))

print("=== inside Struct / Array / Bitwise(Bytewise) / ByteSwapped / aliases")
st = Struct("n" / Byte, "le" / Flag, "v" / BytesInteger(this.n, signed=True, swapped=this.le), "tail" / Int24ul)
for data in [b"\x02\x00\xff\xfe\x01\x02\x03", b"\x02\x01\xff\xfe\x01\x02\x03", b"\x00\x01\x01\x02\x03", b"\x03\x01\x01\x02", b"\x01\x00\x80\x01\x02"]:
    show("Struct.parse(%s)" % data.hex(), st.parse, data)
for obj in [dict(n=2, le=False, v=-2, tail=1), dict(n=2, le=True, v=-2, tail=0x030201), dict(n=1, le=True, v=200, tail=0), dict(n=0, le=True, v=0, tail=0), dict(n=1, le=0, v=-128, tail=1 << 24)]:
    show("Struct.build(%r)" % (obj,), st.build, obj)
show("Struct.sizeof()", st.sizeof)
show("Struct.sizeof(n=3) via _", lambda: BytesInteger(this._.n).sizeof())
arr = BytesInteger(3, signed=True, swapped=True)[2]
show("Array.parse", arr.parse, b"\x01\x00\x80\xff\xff\xff")
show("Array.build", arr.build, [-8388607, -1])
show("Array.sizeof", arr.sizeof)
for name in ("Int24ub", "Int24ul", "Int24un", "Int24sb", "Int24sl", "Int24sn"):
    d = globals()[name]
    for data in (b"\x01\x02\x03", b"\x80\x00\x01", b"\xff\xff", b"\x00\x00\x80\x00"):
        emit("%s.parse(%s) => %r" % (name, data.hex(), parse_with_position(d, data)))
    for v in (0, 1, -1, 0x800000, -0x800000, 0xffffff, 0x1000000):
        emit("%s.build(%d) => %r" % (name, v, build_with_position(d, v)))
    show("%s.sizeof()" % name, d.sizeof)
    show("%s ksy type" % name, d._compileprimitivetype, KsyGen(), False)
for n in (1, 3, 8):
    for signed in (False, True):
        for swapped in (False, True):
            d = Bitwise(Bytewise(BytesInteger(n, signed=signed, swapped=swapped)))
            e = ByteSwapped(BytesInteger(n, signed=signed, swapped=swapped))
            tag = "(%d,%s,%s)" % (n, signed, swapped)
            data = bytes(range(0xfd - n, 0xfd))
            show("Bitwise(Bytewise(BytesInteger%s)).parse" % tag, d.parse, data)
            show("Bitwise(Bytewise(BytesInteger%s)).build(-2)" % tag, d.build, -2)
            show("Bitwise(Bytewise(BytesInteger%s)).build(2)" % tag, d.build, 2)
            show("ByteSwapped(BytesInteger%s).parse" % tag, e.parse, data)
            show("ByteSwapped(BytesInteger%s).build(-2)" % tag, e.build, -2)
            show("ByteSwapped(BytesInteger%s).build(258)" % tag, e.build, 258)

print("=== generated code")
for args in [(1, False, False), (3, True, True), (16, True, False), (this.n, False, this.s), (this._.n + 1, True, True), (4, False, this.flags.le)]:
    d = BytesInteger(*args)
    show("emitparse %r" % (args,), d._emitparse, CodeGen())
    show("emitbuild %r" % (args,), d._emitbuild, CodeGen())
for args in [(2, False, False), (3, True, True), (8, True, False), (16, False, True)]:
    d = BytesInteger(*args)
    c = d.compile()
    emit("compiled source %r: %s" % (args, [ln for ln in c.source.splitlines() if "return" in ln and "func(" not in ln]))
    values, blobs = probes(args[0], args[1])
    for data in blobs:
        show("compiled%r.parse(%s)" % (args, data.hex()), c.parse, data)
    for v in values:
        show("compiled%r.build(%d)" % (args, v), c.build, v)
    show("compiled%r.sizeof()" % (args,), c.sizeof)
cs = Struct("n" / Byte, "s" / Flag, "v" / BytesInteger(this.n, True, this.s), "w" / Int24sl).compile()
for data in [b"\x02\x00\xff\xfe\x01\x02\x83", b"\x02\x01\xff\xfe\x01\x02\x83", b"\x00\x01\x01\x02\x03", b"\x03\x01\x01\x02"]:
    show("compiled Struct.parse(%s)" % data.hex(), cs.parse, data)
for obj in [dict(n=2, s=False, v=-2, w=-3), dict(n=2, s=True, v=-2, w=5), dict(n=1, s=True, v=200, w=0)]:
    show("compiled Struct.build(%r)" % (obj,), cs.build, obj)

print("=== KSY primitive type names")
for n in (1, 2, 3, 8):
    for signed in (False, True):
        for swapped in (False, True, this.s):
            for bitwise in (False, True):
                d = BytesInteger(n, signed=signed, swapped=swapped)
                show("ksy BytesInteger(%d,%s,%r) bitwise=%s" % (n, signed, swapped, bitwise), d._compileprimitivetype, KsyGen(), bitwise)
show("ksy BytesInteger(this.n) bitwise=False", BytesInteger(this.n)._compileprimitivetype, KsyGen(), False)
show("ksy BytesInteger(this.n) bitwise=True", BytesInteger(this.n)._compileprimitivetype, KsyGen(), True)
show("ksy seq of Struct", Struct("a" / Int24ul, "b" / BytesInteger(5, True))._compileseq, KsyGen())
