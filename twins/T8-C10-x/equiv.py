import sys, io
sys.path.insert(0, sys.argv[1])
from construct import *
from construct.lib import *
import construct.lib.binary as B

def attempt(label, fn):
    try:
        r = fn()
        print(label, "->", type(r).__name__, repr(r))
    except Exception as e:
        print(label, "!!", type(e).__name__)

bitstrings = [
    b"", bytes(8), bytes([1]*8), bytes([1,0,1,0,0,1,0,1]), bytes([1,0,1,0,0,1,0,1, 0,0,1,1,1,1,0,0]),
    bytes([0,0,0,0,0,0,0,1]*3), bytes(range(2)) * 12, bytes([1]*7), bytes([1]*9), bytes([1]*15), bytes([0]*17),
    bytes([2]*8), bytes([0,0,0,0,0,0,0,1, 0,0,0,0,0,0,0,255]), b"0000000011111111", b"abcdefghijklmnopqrstuvwx",
    bytes([1,0]*32), bytes([1,1,0]*8*3),
]
others = [bytearray(8), bytearray(b""), bytearray([1]*16), memoryview(bytes(8)), memoryview(b""), "", "00000000", "0000000", [], [0]*8, [b"a"]*8,
          (), (0,)*8, None, 5, 8.0, range(8), range(0), {}, {1:2}]

def lab(data):
    if isinstance(data, memoryview):
        return "memoryview(%r)" % (bytes(data),)
    return "%s:%r" % (type(data).__name__, data)

for data in bitstrings + others:
    attempt("bits2bytes " + lab(data), lambda: bits2bytes(data))
    attempt("swapbytesinbits " + lab(data), lambda: swapbytesinbits(data))

# all byte values round trip; every 2-byte value
ok = True
for i in range(256):
    bits = bytes2bits(bytes([i]))
    if bits2bytes(bits) != bytes([i]):
        ok = False
print("bits2bytes single-byte round trip", ok)
acc = 0
for n in range(65536):
    raw = n.to_bytes(2, "big")
    bits = bytes2bits(raw)
    sw = swapbytesinbits(bits)
    back = bits2bytes(sw)
    assert type(back) is bytes and type(sw) is bytes
    acc = (acc * 257 + int.from_bytes(back, "big") + 3 * int.from_bytes(bits2bytes(bits), "big")) % (2**61 - 1)
print("16-bit checksum", acc)
for width in [24, 32, 40, 64, 128]:
    v = int("9e3779b97f4a7c15f39cc0605cedc834"[: width // 4], 16)
    bits = integer2bits(v, width)
    print("wide", width, bits2bytes(bits).hex(), bits2bytes(swapbytesinbits(bits)).hex(), swapbytesinbits(swapbytesinbits(bits)) == bits)

# module-level cache built from these functions
print("SWAPBITSINBYTES_CACHE", sorted(B.SWAPBITSINBYTES_CACHE.items()))
print("BITS2BYTES_CACHE size", len(B.BITS2BYTES_CACHE), sorted(B.BITS2BYTES_CACHE.values()) == list(range(256)))
print("swapbitsinbytes", swapbitsinbytes(bytes(range(0, 256, 5))).hex())

# aliasing: results are new objects equal to input for one-byte data
one = bytes([1,0,0,0,0,0,0,0])
print("one-byte swap equal", swapbytesinbits(one) == one)

def parse_pos(d, data, **kw):
    s = io.BytesIO(data)
    try:
        r = d.parse_stream(s, **kw)
        return ("ok", r, s.tell())
    except Exception as e:
        return ("exc", type(e).__name__, s.tell())

def build_pos(d, obj, **kw):
    s = io.BytesIO()
    try:
        r = d.build_stream(obj, s, **kw)
        return ("ok", r, s.tell(), s.getvalue())
    except Exception as e:
        return ("exc", type(e).__name__, s.tell(), s.getvalue())

# through the library: swapped BitsInteger at all widths, sized and streaming regions
for width in [1, 4, 7, 8, 9, 12, 16, 24, 32]:
    for signed in [False, True]:
        d = BitsInteger(width, signed=signed, swapped=True)
        for data in [bytes(width), bytes([1]*width), bytes([1] + [0]*(width-1)), bytes([0]*(width-1) + [1]), bytes([1,0]*width)[:width], bytes(width)[:-1]]:
            print("BitsInteger swapped", width, signed, data.hex(), parse_pos(d, data))
        for v in [0, 1, -1, 2**(width-1), 2**width - 1, -(2**(width-1)), 2**width, 0x5a5a5a5a % (2**width)]:
            print("BitsInteger swapped build", width, signed, v, build_pos(d, v))
    d = BitsInteger(this.w, swapped=this.s)
    for s in [False, True, 0, 1]:
        print("ctx", width, s, parse_pos(d, bytes([1,0,0]*width)[:width], w=width, s=s), build_pos(d, 1, w=width, s=s))

layouts = {
    "sized": Bitwise(Struct("a" / BitsInteger(4), "b" / BitsInteger(16, swapped=True), "c" / BitsInteger(4, signed=True))),
    "sized24": Bitwise(Struct("a" / BitsInteger(24, swapped=True, signed=True), "f" / Flag, Padding(7))),
    "stream": Bitwise(Struct("n" / BitsInteger(8), "v" / BitsInteger(this.n, swapped=True), "rest" / GreedyBytes)),
    "island": Bitwise(Struct("a" / Nibble, "b" / Bytewise(Int16ul), "c" / Nibble)),
    "islandstream": Bitwise(Struct("a" / Nibble, "b" / Bytewise(GreedyBytes))),
    "odd": Bitwise(BitsInteger(12, swapped=True)),
    "odd2": Bitwise(Struct("a" / BitsInteger(5))),
    "compiledlike": ByteSwapped(Bitwise(Struct("a" / BitsInteger(3), "b" / BitsInteger(13)))),
}
for name, d in layouts.items():
    print("class", name, type(d).__name__)
    for data in [b"", b"\xa5", b"\xa5\x3c", b"\x12\x34\x56", b"\x80\x00\x01\xff", b"\x10\xbe\xef\x00", b"\x0c\xab\xcd", b"\xff" * 6]:
        r = parse_pos(d, data)
        print("parse", name, data.hex(), r)
        if r[0] == "ok":
            print("rebuild", name, build_pos(d, r[1]))

# compiled code path uses the same helpers by name
try:
    d = Bitwise(Struct("a" / BitsInteger(4), "b" / BitsInteger(16, swapped=True), "c" / BitsInteger(4, signed=True)))
    dc = d.compile()
    for data in [b"\x12\x34\x56", b"\xff\x00\x81", b"\x12"]:
        print("compiled", data.hex(), parse_pos(dc, data))
    print("compiled build", build_pos(dc, dict(a=1, b=0x2345, c=-2)))
except Exception as e:
    print("compile !!", type(e).__name__)
