#!/usr/bin/env python
"""C12 twin (z1) observations: FlagsEnum/Enum built from enum classes and from keywords,
driven through every branch of FlagsEnum._encode (int / str / dict / other, empty and unknown
labels, private keys, falsy values, non-string keys), interpreted and compiled.

usage: equiv.py <repo root>     output is deterministic; compare clean vs changed tree with cmp
"""
import sys
import enum
import io

root = sys.argv[1] if len(sys.argv) > 1 else "."
sys.path.insert(0, root)

from construct import *  # noqa
from construct.lib import *  # noqa

lineno = 0


def show(label, func, *args, **kw):
    global lineno
    lineno += 1
    try:
        res = func(*args, **kw)
        print("%03d %s -> %r" % (lineno, label, res))
    except Exception as e:
        ctx = type(e.__context__).__name__ if e.__context__ is not None else "-"
        print("%03d %s !! %s: %s [context %s]" % (lineno, label, type(e).__name__, str(e).replace("\n", " | "), ctx))


class E(enum.IntEnum):
    one = 1
    two = 2
    four = 4
    eight = 8


class F(enum.IntFlag):
    one = 1
    two = 2
    four = 4
    eight = 8


class Noisy(object):
    """truthiness probe that records the order in which values are inspected"""
    log = []

    def __init__(self, tag, truth):
        self.tag = tag
        self.truth = truth

    def __bool__(self):
        Noisy.log.append(self.tag)
        return self.truth

    def __repr__(self):
        return "Noisy(%s)" % self.tag


class OddDict(dict):
    """dict whose items() can itself fail with KeyError"""
    def items(self):
        raise KeyError("items exploded")


sides = [
    ("kw", FlagsEnum(Byte, one=1, two=2, four=4, eight=8)),
    ("IntEnum", FlagsEnum(Byte, E)),
    ("IntFlag", FlagsEnum(Byte, F)),
    ("mixed", FlagsEnum(Int16ub, E, sixteen=16, big=0x100)),
]

inputs = [
    0, 1, 3, 15, 255, 256, -1, True, False, E.two, F.one | F.eight,
    "one", "two", "one|two", "one | two", " one|  eight ", "one||two", "|", "", "   ", "|one|", "one|one",
    "three", "one|three", "three|one", "ONE", "one,two", "_one", "big", "sixteen|one",
    dict(), dict(one=True), dict(one=True, two=True), dict(one=False, two=True), dict(one=0, two=1, four=2, eight=None),
    dict(one=True, _private=True), dict(_flagsenum=True, eight=True), dict(three=True), dict(three=False),
    dict(one=True, three=True), dict(three=True, one=True), {"": True}, {"": False}, {"_": True, "__x": 1},
    {1: True}, {1: False}, {None: True}, {"one": [0]}, {"one": []}, {"one": "x", "two": ""},
    Container(one=True, eight=True), Container(one=False), ListContainer([1, 2]),
    None, 1.0, 2.5, b"one", [1], ("one",), object, BitwisableString("one"), BitwisableString("one") | "two",
    EnumIntegerString.new(1, "one"), OddDict(one=True),
]

print("=== FlagsEnum: build through every _encode branch")
for sname, d in sides:
    for obj in inputs:
        show("FlagsEnum[%s].build(%r)" % (sname, obj), d.build, obj)

print("=== FlagsEnum: attribute labels and their | concatenations")
for sname, d in sides:
    show("FlagsEnum[%s].build(d.one|d.two)" % sname, lambda: d.build(d.one | d.two))
    show("FlagsEnum[%s].build(d.eight)" % sname, lambda: d.build(d.eight))
    show("FlagsEnum[%s].missing" % sname, lambda: d.missing)

print("=== FlagsEnum: parse, re-build, sizeof")
for sname, d in sides:
    n = d.sizeof()
    for data in [bytes(n), b"\xff" * n, b"\x05" * n, b"\x0a" * n, b"", bytes(n + 1)]:
        show("FlagsEnum[%s].parse(%r)" % (sname, data), d.parse, data)
        show("FlagsEnum[%s].build(parse(%r))" % (sname, data), lambda: d.build(d.parse(data)))
    show("FlagsEnum[%s].sizeof()" % sname, d.sizeof)

print("=== FlagsEnum: order in which dict values are inspected")
d = sides[0][1]
for keys in [("one", "two", "four"), ("one", "_skip", "two"), ("one", "three", "two"), ("three", "one"), ("_a", "_b")]:
    for truths in [(True, True, True), (False, True, False), (True, False, True)]:
        Noisy.log = []
        obj = {}
        for k, t in zip(keys, truths):
            obj[k] = Noisy(k, t)
        show("build(%r)" % (obj,), d.build, obj)
        lineno += 1
        print("%03d    inspected: %r" % (lineno, Noisy.log))

print("=== FlagsEnum: stream position and build return value")
for obj in [3, "one|eight", dict(two=True, four=True), dict(three=True), None]:
    def run():
        stream = io.BytesIO(b"..")
        stream.seek(2)
        ctx = Container(_parsing=False, _building=True, _sizing=False)
        ctx._params = ctx
        ret = d._build(obj, stream, ctx, "(probe)")
        return (ret, stream.tell(), stream.getvalue())
    show("_build(%r)" % (obj,), run)

print("=== FlagsEnum nested in Struct and BitStruct, interpreted and compiled")
outer = Struct("flags" / FlagsEnum(Byte, E), "more" / FlagsEnum(Int16ul, a=1, b=0x8000), "n" / Byte)
outerc = outer.compile()
for obj in [
    dict(flags="one|two", more=dict(a=True, b=True), n=7),
    dict(flags=dict(one=True, _x=True), more="b", n=1),
    dict(flags="nine", more=0, n=1),
    dict(flags=3, more=dict(c=True), n=1),
    dict(flags=None, more=0, n=1),
    dict(flags=7, more=" a | b ", n=300),
]:
    show("Struct.build(%r)" % (obj,), outer.build, obj)
    show("compiled Struct.build(%r)" % (obj,), outerc.build, obj)
for data in [b"\x03\x01\x80\x07", b"\xff\xff\xff\xff", b"\x00\x00"]:
    show("Struct.parse(%r)" % data, outer.parse, data)
    show("compiled Struct.parse(%r)" % data, outerc.parse, data)
bs = BitStruct("f" / FlagsEnum(Nibble, lo=1, hi=8), "g" / FlagsEnum(BitsInteger(4), E))
for obj in [dict(f="lo|hi", g="one|eight"), dict(f=dict(lo=True), g=dict(two=True, four=False)), dict(f="mid", g=0), dict(f=0, g=dict(nine=1))]:
    show("BitStruct.build(%r)" % (obj,), bs.build, obj)

print("=== Enum companions (same docstring law)")
for sname, d in [("kw", Enum(Byte, one=1, two=2, four=4, eight=8)), ("IntEnum", Enum(Byte, E)), ("IntFlag", Enum(Byte, F))]:
    for obj in [1, 2, 3, 255, 256, "one", "eight", "three", "", None, E.four, d.one, 1.5, b"one", ["one"]]:
        show("Enum[%s].build(%r)" % (sname, obj), d.build, obj)
    for data in [b"\x01", b"\x08", b"\x03", b""]:
        show("Enum[%s].parse(%r)" % (sname, data), d.parse, data)
