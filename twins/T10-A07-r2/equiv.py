import sys
sys.path.insert(0, sys.argv[1])

import pickle, copy, operator
from construct import *
from construct.expr import ExprMixin, Path, Path2, FuncPath, BinExpr, UniExpr

n = [0]
def show(label, thunk):
    n[0] += 1
    try:
        r = thunk()
        print("%03d %s -> %s %r" % (n[0], label, type(r).__name__, r))
    except Exception as e:
        print("%03d %s !! %s: %s" % (n[0], label, type(e).__name__, e))

def state(x):
    st = x.__getstate__()
    return [(k, type(v).__name__, repr(v)) for k, v in st.items()]

# --- __getstate__ of the library's own expression objects ---
exprs = [
    ("this", this),
    ("this.a", this.a),
    ("this.a.b", this.a.b),
    ("this['x y']", this["x y"]),
    ("this._.n", this._.n),
    ("obj_", obj_),
    ("obj_.f", obj_.f),
    ("list_", list_),
    ("list_[0]", list_[0]),
    ("list_[-1][2]", list_[-1][2]),
    ("len_", len_),
    ("len_(this.a)", len_(this.a)),
    ("sum_(list_)", sum_(list_)),
    ("abs_(this.x)", abs_(this.x)),
    ("this.a+1", this.a + 1),
    ("1+this.a", 1 + this.a),
    ("this.a*this.b", this.a * this.b),
    ("-this.a", -this.a),
    ("~this.a", ~this.a),
    ("+this.a", +this.a),
    ("this.a==3", this.a == 3),
    ("this.a!=3", this.a != 3),
    ("(this.a+1)*2", (this.a + 1) * 2),
    ("this.a ** -2", this.a ** -2),
    ("this.a >> 2 & 1", (this.a >> 2) & 1),
    ("this.a // 2 % 3", (this.a // 2) % 3),
    ("this.a / 2", this.a / 2),
    ("UniExpr(neg, 5)", UniExpr(operator.neg, 5)),
    ("BinExpr(add, 1, 2)", BinExpr(operator.add, 1, 2)),
]
for label, e in exprs:
    show("getstate " + label, lambda e=e: state(e))

# --- order of keys ---
show("keys BinExpr", lambda: list((this.a + 1).__getstate__().keys()))
show("keys UniExpr", lambda: list((-this.a).__getstate__().keys()))
show("keys Path", lambda: list(this.a.__getstate__().keys()))
show("keys Path2", lambda: list(list_[1].__getstate__().keys()))
show("keys FuncPath", lambda: list(len_(this.a).__getstate__().keys()))
show("getstate returns fresh dict", lambda: (this.a + 1).__getstate__() is not (this.a + 1).__dict__)

# --- pickle / copy round trips ---
def rt(e, *ctx):
    e2 = pickle.loads(pickle.dumps(e))
    return (type(e2).__name__, repr(e2), e2(*ctx))
c = Container(a=6, b=7, x=-3, items=[1, 2, 3])
show("pickle this.a+1", lambda: rt(this.a + 1, c))
show("pickle this.a*this.b", lambda: rt(this.a * this.b, c))
show("pickle -this.a", lambda: rt(-this.a, c))
show("pickle this.a==6", lambda: rt(this.a == 6, c))
show("pickle this.a", lambda: rt(this.a, c))
show("pickle this", lambda: rt(this, c))
show("pickle list_[1]", lambda: rt(list_[1], None, [4, 5, 6], c))
show("pickle len_(this.items)", lambda: rt(len_(this.items), c))
show("pickle abs_(this.x)", lambda: rt(abs_(this.x), c))
show("pickle sum_", lambda: rt(sum_, [1, 2, 3]))
for proto in range(0, pickle.HIGHEST_PROTOCOL + 1):
    show("pickle proto %d" % proto, lambda proto=proto: repr(pickle.loads(pickle.dumps((this.a + 1) * 2, proto))))
show("copy this.a+1", lambda: (repr(copy.copy(this.a + 1)), copy.copy(this.a + 1)(c)))
show("deepcopy (this.a+1)*this.b", lambda: (repr(copy.deepcopy((this.a + 1) * this.b)), copy.deepcopy((this.a + 1) * this.b)(c)))
show("deepcopy this.a.b", lambda: repr(copy.deepcopy(this.a.b)))
show("deepcopy list_[0]", lambda: repr(copy.deepcopy(list_[0])))
show("deepcopy len_(this.a)", lambda: repr(copy.deepcopy(len_(this.a))))
show("pickle lambda operand", lambda: pickle.dumps(BinExpr(operator.add, lambda ctx: 1, 2)))

# --- subclasses with __slots__ ---
class S1(ExprMixin):
    __slots__ = ["p", "q"]
class S2(S1):
    __slots__ = ("r",)
class S3(S2):
    pass
class S4(ExprMixin):
    __slots__ = "ab"
class S5(ExprMixin):
    __slots__ = ()
class Plain(object):
    __slots__ = ["z"]
class M1(ExprMixin, Plain):
    __slots__ = ["m"]
class M2(Plain, ExprMixin):
    __slots__ = ["m"]
class D1(BinExpr):
    __slots__ = ["extra"]
class D2(S1):
    __slots__ = ["p2", "p"]
class Dup(S1):
    __slots__ = ["p3"]
    @property
    def q2(self):
        return 1

def mk(cls, **kw):
    o = cls.__new__(cls)
    for k, v in kw.items():
        setattr(o, k, v)
    return o

show("S1 empty", lambda: mk(S1).__getstate__())
show("S1 p", lambda: mk(S1, p=1).__getstate__())
show("S1 q,p", lambda: mk(S1, q=2, p=1).__getstate__())
show("S2 all", lambda: mk(S2, p=1, q=2, r=3).__getstate__())
show("S2 keys order", lambda: list(mk(S2, p=1, q=2, r=3).__getstate__().keys()))
show("S2 r only", lambda: mk(S2, r=3).__getstate__())
show("S3 dict+slots", lambda: mk(S3, p=1, r=3, w=9).__getstate__())
show("S3 keys order", lambda: list(mk(S3, p=1, r=3, w=9, q=0).__getstate__().keys()))
show("S4 string slots", lambda: mk(S4, ab=5).__getstate__())
show("S5 empty slots", lambda: mk(S5).__getstate__())
show("M1", lambda: mk(M1, m=1, z=2).__getstate__())
show("M1 keys", lambda: list(mk(M1, m=1, z=2).__getstate__().keys()))
show("M1 base", lambda: M1.__base__.__name__)
show("M2", lambda: mk(M2, m=1, z=2).__getstate__())
show("M2 keys", lambda: list(mk(M2, m=1, z=2).__getstate__().keys()))
show("M2 base", lambda: M2.__base__.__name__)
show("D1", lambda: sorted(D1(operator.add, 1, 2).__getstate__().items(), key=lambda kv: kv[0]))
def d1extra():
    o = D1(operator.sub, 5, 2)
    o.extra = "e"
    return (list(o.__getstate__().keys()), o(None))
show("D1 extra", d1extra)
show("D2 repeated slot name", lambda: list(mk(D2, p=1, p2=2, other=3).__getstate__().items()))
show("Dup", lambda: mk(Dup, p3=1, q=2).__getstate__())

# slot round trips
def rt_slots(o):
    o2 = pickle.loads(pickle.dumps(o, 2))
    return (type(o2).__name__, o2.__getstate__())
show("pickle S2", lambda: rt_slots(mk(S2, p=1, q=2, r=3)))
show("pickle S3", lambda: rt_slots(mk(S3, p=1, w=2)))
show("pickle M1", lambda: rt_slots(mk(M1, m=1, z=2)))
show("copy S2", lambda: copy.copy(mk(S2, p=[1], r=3)).__getstate__())
show("deepcopy S3", lambda: copy.deepcopy(mk(S3, p=[1], w={2: 3})).__getstate__())

# setstate
def ss():
    o = mk(S3)
    o.__setstate__({"p": 1, "r": 2, "free": 3})
    return o.__getstate__()
show("setstate S3", ss)
def ss_bad():
    o = mk(S1)
    o.__setstate__({"nope": 1})
    return o.__getstate__()
show("setstate S1 bad", ss_bad)

# a metaclass whose classes raise on __slots__ access order, to observe the walk
events = []
class Meta(type):
    def __getattribute__(cls, name):
        if name in ("__slots__", "__base__"):
            events.append((type.__getattribute__(cls, "__name__"), name))
        return type.__getattribute__(cls, name)
class W1(ExprMixin, metaclass=Meta):
    __slots__ = ["w1"]
class W2(W1):
    __slots__ = ["w2"]
show("W2 state", lambda: mk(W2, w1=1, w2=2).__getstate__())
show("W2 walk events", lambda: list(events))

# constructs holding expressions can still be pickled / used
d = Struct("n" / Byte, "data" / Bytes(this.n * 2), "rest" / Array(this.n - 1, Int16ub))
show("construct pickle If/Pass", lambda: len(pickle.dumps(Struct("n" / Byte, "t" / If(this.n > 1, Byte)))) > 0)
def via_pickle():
    return pickle.loads(pickle.dumps(d))
show("construct pickled parse", lambda: via_pickle().parse(b"\x02abcd\x00\x09"))
show("construct pickled build", lambda: via_pickle().build(dict(n=1, data=b"xy", rest=[])))
show("construct pickled sizeof", lambda: via_pickle().sizeof(n=3))
show("construct orig parse", lambda: d.parse(b"\x02abcd\x00\x09"))
show("construct copy parse", lambda: copy.copy(d).parse(b"\x01ab"))
show("construct deepcopy parse", lambda: copy.deepcopy(d).parse(b"\x01ab"))
