import sys, io, enum
sys.path.insert(0, sys.argv[1])
from construct import *


class WeirdRepr:
    def __repr__(self):
        return "<weird %s {} {0} %(a)s \n>"


class BadRepr:
    def __repr__(self):
        raise ValueError("no repr")


class NonStrRepr:
    def __repr__(self):
        return 5


class Unhashable(list):
    pass


class StrSub(str):
    def __repr__(self):
        return "StrSub<%s>" % str.__str__(self)
    def __format__(self, spec):
        return "FORMAT-CALLED"
    def __str__(self):
        return "STR-CALLED"


class TupSub(tuple):
    pass


def outcome(fn):
    try:
        return ("ok", fn())
    except Exception as e:
        return ("exc", type(e).__name__, str(e), getattr(e, "path", None), type(e.__context__).__name__)


def parse_pos(d, data):
    s = io.BytesIO(data)
    r = outcome(lambda: d.parse_stream(s))
    return r + (s.tell(),)


def build_pos(d, obj):
    s = io.BytesIO()
    r = outcome(lambda: d.build_stream(obj, s))
    return r + (s.getvalue(),)


class E(enum.IntEnum):
    one = 1
    two = 2


class F(enum.IntFlag):
    a = 1
    b = 4


sentinel = object
constructs = [
    ("Enum", Enum(Byte, one=1, two=2, four=4, eight=8)),
    ("EnumE", Enum(Int16ub, E, extra=300)),
    ("EnumEmpty", Enum(Byte)),
    ("EnumDup", Enum(Byte, a=1, b=1)),
    ("Flags", FlagsEnum(Byte, one=1, two=2, four=4, eight=8)),
    ("FlagsF", FlagsEnum(Byte, F, c=3)),
    ("FlagsEmpty", FlagsEnum(Byte)),
    ("FlagsZero", FlagsEnum(Byte, zero=0, hi=128)),
    ("Mapping", Mapping(Byte, {"x": 0, "y": 1, None: 2, (1, 2): 3})),
    ("MappingObj", Mapping(Byte, {sentinel: 0})),
    ("MappingDup", Mapping(Byte, {"p": 7, "q": 7})),
    ("MappingBytes", Mapping(Bytes(1), {1: b"a", 2: b"b"})),
    ("MappingList", Mapping(Array(1, Byte), {"l": 9})),
    ("Struct", Struct("e" / Enum(Byte, a=1), "f" / FlagsEnum(Byte, a=1, b=2), "m" / Mapping(Byte, {"k": 5}))),
    ("Nested", Mapping(Enum(Byte, z=0), {"zero": "z", "one": 1})),
]

objs = [0, 1, 2, 3, 5, 255, 256, -1, True, False, None, 1.0, "one", "two", "one|two", " one | four ", "|", "", "one|", "nope", "one|nope",
        "a", "b", "c", "a|b|c", "x", "y", "z", "zero", "l", "p", "q", "k", b"a", b"one", (1, 2), TupSub((1, 2)), [1, 2], Unhashable([9]), sentinel,
        E.one, E.two, F.a, F.a | F.b, WeirdRepr(), BadRepr(), NonStrRepr(), StrSub("one"), StrSub("nope"), StrSub("x"),
        dict(), dict(one=True), dict(one=True, two=False, four=1), dict(one=True, nope=True), dict(one=True, nope=False), dict(_x=1, one=1),
        dict(a=True, c=True), {1: True}, {1: False}, {"_p": True, "zero": True, "hi": True},
        Container(one=True), Container(e="a", f=dict(a=True), m="k"), Container(e="zz", f=dict(a=True), m="k"),
        Container(e=1, f="a|zz", m="k"), Container(e=1, f=3, m="kk"), Container(e=1, f=1.5, m="k"), Container(e=1, f=dict(q=1), m="k"),
        EnumIntegerString.new(1, "one"), EnumIntegerString.new(9, "nine"), BitwisableString("one") | BitwisableString("two")]

datas = [b"", b"\x00", b"\x01", b"\x02", b"\x03", b"\x04", b"\x05", b"\x07", b"\x09", b"\x0f", b"\x80", b"\xff", b"\x01\x2c", b"\x00\x01", b"\x01\x03\x05", b"\x02\xff\x06", b"a", b"c"]

for name, d in constructs:
    for data in datas:
        print("PARSE", name, data, repr(parse_pos(d, data)))
    for obj in objs:
        try:
            label = repr(obj)
        except Exception:
            label = "<%s>" % type(obj).__name__
        print("BUILD", name, label, repr(build_pos(d, obj)))
    for data in datas:
        try:
            o = d.parse(data)
            b1 = d.build(o)
            o2 = d.parse(b1)
            b2 = d.build(o2)
            print("RT", name, data, repr(o), b1, o == o2, b1 == b2)
        except Exception as e:
            print("RT", name, data, "!!", type(e).__name__, str(e))

# direct adapter calls with explicit paths
en = constructs[0][1]
fl = constructs[4][1]
mp = constructs[8][1]
for obj in objs:
    try:
        label = repr(obj)
    except Exception:
        label = "<%s>" % type(obj).__name__
    print("ENC Enum", label, repr(outcome(lambda: en._encode(obj, Container(), "(p) -> e"))))
    print("ENC Flags", label, repr(outcome(lambda: fl._encode(obj, Container(), "(p) -> f"))))
    print("ENC Mapping", label, repr(outcome(lambda: mp._encode(obj, Container(), None))))
    print("DEC Mapping", label, repr(outcome(lambda: mp._decode(obj, Container(), "(p) -> m"))))
    print("DEC Enum", label, repr(outcome(lambda: en._decode(obj, Container(), "(p)"))))

# attribute access helpers untouched
print(en.one, repr(en.one), fl.one, fl.one | fl.two, outcome(lambda: en.nope), outcome(lambda: fl.nope))

# compiled forms
for name, d in constructs[:2] + constructs[8:9]:
    c = d.compile()
    for data in datas[:8]:
        print("CPARSE", name, data, repr(outcome(lambda: c.parse(data))))
    for obj in [1, "one", "x", "nope", None]:
        print("CBUILD", name, repr(obj), repr(outcome(lambda: c.build(obj))))
