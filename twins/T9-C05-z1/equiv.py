#!/usr/bin/env python
"""C05 twin z1: observation script for the stream helper functions
(stream_read / stream_read_entire / stream_write / stream_seek / stream_tell /
stream_size / stream_iseof in construct/core.py).

usage: equiv.py <repo root>

Prints deterministic observations (return values, stream positions, exception type
names and messages, exception chaining, call logs of instrumented streams, and the
behaviour of constructs and compiled constructs that sit on top of the helpers).
The output on the clean tree and on the refactored tree must be byte-identical.
"""
import sys, io

root = sys.argv[1]
sys.path.insert(0, root)

from construct import *
from construct import core

LINE = [0]


def out(*parts):
    LINE[0] += 1
    print("%04d" % LINE[0], *parts)


def describe(e):
    ctx = e.__context__
    return "%s(%s) path=%r context=%s suppress=%r" % (
        type(e).__name__, e, getattr(e, "path", None),
        type(ctx).__name__ if ctx is not None else None, e.__suppress_context__)


def attempt(label, func, *args, **kw):
    try:
        r = func(*args, **kw)
    except Exception as e:
        out(label, "->", "RAISED", describe(e))
        return None
    out(label, "->", repr(r))
    return r


class Logged(object):
    """A stream that records every call and can be told to misbehave."""

    def __init__(self, data=b"", failread=None, failwrite=None, failseek=None, failtell=None,
                 shortread=0, shortwrite=0, writeret="count"):
        self.inner = io.BytesIO(data)
        self.log = []
        self.failread, self.failwrite, self.failseek, self.failtell = failread, failwrite, failseek, failtell
        self.shortread, self.shortwrite, self.writeret = shortread, shortwrite, writeret

    def read(self, *args):
        self.log.append(("read",) + args)
        if self.failread:
            raise self.failread
        data = self.inner.read(*args)
        return data[:len(data) - self.shortread] if self.shortread else data

    def write(self, data):
        self.log.append(("write", bytes(data)))
        if self.failwrite:
            raise self.failwrite
        n = self.inner.write(data)
        if self.writeret == "none":
            return None
        return n - self.shortwrite

    def seek(self, *args):
        self.log.append(("seek",) + args)
        if self.failseek:
            raise self.failseek
        return self.inner.seek(*args)

    def tell(self):
        self.log.append(("tell",))
        if self.failtell:
            raise self.failtell
        return self.inner.tell()


def section(title):
    out("=" * 10, title)


# ----------------------------------------------------------------------------
section("stream_read")
for length in (0, 1, 3, 5, 6, -1, -7):
    s = Logged(b"abcde")
    attempt("stream_read(len5, %d)" % length, core.stream_read, s, length, "(p)")
    out("   log", s.log, "pos", s.inner.tell())
for exc in (IOError("boom"), ValueError("closed"), KeyError("k"), StreamError("inner")):
    s = Logged(b"abcde", failread=exc)
    attempt("stream_read failing with %s" % type(exc).__name__, core.stream_read, s, 2, "(p) -> x")
    out("   log", s.log)
s = Logged(b"abcde", failread=IOError("boom"))
attempt("stream_read negative beats failing read", core.stream_read, s, -2, "(p)")
out("   log", s.log)
s = Logged(b"abcdefgh", shortread=1)
attempt("stream_read short by one", core.stream_read, s, 4, "(q)")
out("   log", s.log, "pos", s.inner.tell())

# ----------------------------------------------------------------------------
section("stream_read_entire")
s = Logged(b"abcde")
s.inner.seek(2)
attempt("stream_read_entire from 2", core.stream_read_entire, s, "(p)")
out("   log", s.log, "pos", s.inner.tell())
s = Logged(b"abcde", failread=OSError("nope"))
attempt("stream_read_entire failing", core.stream_read_entire, s, "(p)")

# ----------------------------------------------------------------------------
section("stream_write")
for data, length in [(b"", 0), (b"abc", 3), (b"abc", 2), (b"abc", 4), (b"abc", -1), (b"", -1),
                     (u"abc", 3), (bytearray(b"abc"), 3), (None, 0), (7, 1), (u"abc", -1), ([1, 2], 2)]:
    s = Logged()
    attempt("stream_write(%r, %r)" % (data, length), core.stream_write, s, data, length, "(w)")
    out("   log", s.log, "value", s.inner.getvalue())
for exc in (IOError("disk full"), TypeError("bad"), AttributeError("a")):
    s = Logged(failwrite=exc)
    attempt("stream_write failing with %s" % type(exc).__name__, core.stream_write, s, b"xy", 2, "(w) -> f")
    out("   log", s.log)
s = Logged(shortwrite=1)
attempt("stream_write short by one", core.stream_write, s, b"wxyz", 4, "(w)")
out("   log", s.log, "value", s.inner.getvalue())
s = Logged(writeret="none")
attempt("stream_write returning None", core.stream_write, s, b"wxyz", 4, "(w)")
s = Logged(failwrite=IOError("x"))
attempt("stream_write wrong length beats failing write", core.stream_write, s, b"wxyz", 3, "(w)")
out("   log", s.log)

# ----------------------------------------------------------------------------
section("stream_seek / stream_tell")
for offset, whence in [(0, 0), (3, 0), (-2, 2), (1, 1), (9, 0), (-1, 0), (0, 7), (-9, 2)]:
    s = Logged(b"abcde")
    s.inner.seek(1)
    attempt("stream_seek(%d, %d)" % (offset, whence), core.stream_seek, s, offset, whence, "(s)")
    out("   log", s.log, "pos", s.inner.tell())
s = Logged(b"abcde", failseek=IOError("unseekable"))
attempt("stream_seek failing", core.stream_seek, s, 1, 0, "(s)")
s = Logged(b"abcde")
s.inner.seek(4)
attempt("stream_tell", core.stream_tell, s, "(t)")
s = Logged(b"abcde", failtell=IOError("untellable"))
attempt("stream_tell failing", core.stream_tell, s, "(t)")
out("   log", s.log)

# ----------------------------------------------------------------------------
section("stream_size / stream_iseof")
for start in (0, 2, 5):
    s = Logged(b"abcde")
    s.inner.seek(start)
    attempt("stream_size from %d" % start, core.stream_size, s)
    out("   log", s.log, "pos", s.inner.tell())
    s = Logged(b"abcde")
    s.inner.seek(start)
    attempt("stream_iseof from %d" % start, core.stream_iseof, s)
    out("   log", s.log, "pos", s.inner.tell())
attempt("stream_size failing tell", core.stream_size, Logged(b"abc", failtell=IOError("t")))
attempt("stream_size failing seek", core.stream_size, Logged(b"abc", failseek=IOError("s")))
attempt("stream_iseof failing read", core.stream_iseof, Logged(b"abc", failread=IOError("r")))
attempt("stream_iseof failing seek", core.stream_iseof, Logged(b"abc", failseek=IOError("s")))

# ----------------------------------------------------------------------------
section("constructs on top of the helpers: sizeof vs measured advance")
TRAILER = b"\xee" * 5
battery = [
    ("Bytes(3)", Bytes(3), {}, [b"abc", b"ab", b"abcd", u"abc", 5, bytearray(b"xyz")]),
    ("Bytes(this.n) n=2", Bytes(this.n), dict(n=2), [b"ab", b"a"]),
    ("Bytes(this.n) n=-1", Bytes(this.n), dict(n=-1), [b""]),
    ("Bytes(this.n) missing", Bytes(this.n), {}, [b"ab"]),
    ("Int16ub", Int16ub, {}, [1, 65535, 65536, None]),
    ("BytesInteger(3)", BytesInteger(3), {}, [5, -1, 2 ** 24]),
    ("BytesInteger(this.w, swapped) w=2", BytesInteger(this.w, swapped=True), dict(w=2), [258]),
    ("Flag", Flag, {}, [True, False, 3]),
    ("VarInt", VarInt, {}, [0, 300]),
    ("Padded(4, Byte, pattern=x)", Padded(4, Byte, pattern=b"x"), {}, [7]),
    ("Padded(2, VarInt)", Padded(2, VarInt), {}, [1, 300, 70000]),
    ("Padded(this.n, Byte) n=3", Padded(this.n, Byte), dict(n=3), [9]),
    ("Padded(this.n, Byte) n=0", Padded(this.n, Byte), dict(n=0), [9]),
    ("Aligned(4, Bytes(this.n)) n=5", Aligned(4, Bytes(this.n)), dict(n=5), [b"12345"]),
    ("FixedSized(5, GreedyBytes)", FixedSized(5, GreedyBytes), {}, [b"abc", b"abcdef", b""]),
    ("FixedSized(this.n, Byte) n=0", FixedSized(this.n, Byte), dict(n=0), [1]),
    ("FixedSized(lambda n) missing", FixedSized(lambda ctx: ctx.n, Byte), {}, [1]),
    ("Prefixed(Byte, Int16ul)", Prefixed(Byte, Int16ul), {}, [513]),
    ("Prefixed(Int16ub, GreedyBytes, incl)", Prefixed(Int16ub, GreedyBytes, includelength=True), {}, [b"hello"]),
    ("PrefixedArray(Byte, Int16ub)", PrefixedArray(Byte, Int16ub), {}, [[1, 2, 3]]),
    ("NullTerminated(GreedyBytes)", NullTerminated(GreedyBytes), {}, [b"abc"]),
    ("CString(utf8)", CString("utf8"), {}, [u"hi"]),
    ("PaddedString(6, utf8)", PaddedString(6, "utf8"), {}, [u"abc", u"toolong"]),
    ("Struct(n, Bytes(this.n), Tell)", Struct("n" / Byte, "d" / Bytes(this.n), "t" / Tell), {}, [dict(n=2, d=b"xy"), dict(n=2, d=b"x")]),
    ("Sequence(Byte, Pointer(0, Byte), Byte)", Sequence(Byte, Pointer(0, Byte), Byte), {}, [[1, 1, 2]]),
    ("Peek(Int16ub)", Peek(Int16ub), {}, [None]),
    ("Struct(Seek(2), Byte)", Struct(Seek(2), "b" / Byte), {}, [dict(b=9)]),
    ("RawCopy(Int16ub)", RawCopy(Int16ub), {}, [dict(value=258), dict(data=b"zz")]),
    ("Bitwise(Bytes(this.n)) n=16", Bitwise(Bytes(this.n)), dict(n=16), [bytes(16), bytes(12)]),
    ("BitStruct(Nibble, Nibble)", BitStruct("a" / Nibble, "b" / Nibble), {}, [dict(a=1, b=2)]),
    ("ByteSwapped(Int24ub)", ByteSwapped(Int24ub), {}, [66051]),
    ("Switch(this.t) t=2", Switch(this.t, {1: Int8ub, 2: Int16ub}), dict(t=2), [7]),
    ("Switch(this.t) t=9", Switch(this.t, {1: Int8ub, 2: Int16ub}), dict(t=9), [None]),
    ("Array(this.c, Int16ub) c=2", Array(this.c, Int16ub), dict(c=2), [[1, 2], [1]]),
    ("GreedyRange(Int16ub)", GreedyRange(Int16ub), {}, [[1, 2]]),
    ("Select(Int32ub, Byte)", Select(Int32ub, Byte), {}, [1, 2 ** 40]),
    ("Union(0, Byte, Int16ub)", Union(0, "a" / Byte, "b" / Int16ub), {}, [dict(a=1)]),
    ("Terminated", Terminated, {}, [None]),
    ("OffsettedEnd(-2, GreedyBytes)", OffsettedEnd(-2, GreedyBytes), {}, [b"abc"]),
    ("LazyStruct(a, Prefixed, c)", LazyStruct("a" / Byte, "p" / Prefixed(Byte, GreedyBytes), "c" / Int16ub), {}, [dict(a=1, p=b"xyz", c=2)]),
    ("Lazy(Int16ub)", Lazy(Int16ub), {}, [3]),
    ("ProcessXor(1, Int16ub)", ProcessXor(1, Int16ub), {}, [3]),
    ("Checksum-ish Struct", Struct("d" / RawCopy(Bytes(2)), "c" / Checksum(Byte, lambda b: sum(b) & 255, this.d.data)), {}, [dict(d=dict(value=b"\x01\x02"))]),
]


def show(obj):
    if callable(obj) and not isinstance(obj, (dict, list)):
        return "<callable -> %r>" % (obj(),)
    if obj.__class__.__name__ == "LazyContainer":
        return "Lazy" + repr(dict(obj.items()))
    return repr(obj)


def exercise(label, con, ctx, values):
    try:
        size = con.sizeof(**ctx)
        out(label, "| sizeof", size)
    except Exception as e:
        out(label, "| sizeof RAISED", type(e).__name__, str(e))
    for v in values:
        s = io.BytesIO()
        try:
            ret = con.build_stream(v, s, **ctx)
        except Exception as e:
            out(label, "| build", repr(v), "RAISED", type(e).__name__, str(e), "| written", s.getvalue().hex(), "pos", s.tell())
            continue
        data = s.getvalue()
        out(label, "| build", repr(v), "->", data.hex(), "pos", s.tell())
        for tail in (b"", TRAILER):
            s2 = io.BytesIO(data + tail)
            try:
                obj = con.parse_stream(s2, **ctx)
                out(label, "| parse +%d" % len(tail), "->", show(obj), "pos", s2.tell())
            except Exception as e:
                out(label, "| parse +%d" % len(tail), "RAISED", type(e).__name__, str(e), "pos", s2.tell())
        s3 = io.BytesIO(data[:-1])
        try:
            obj = con.parse_stream(s3, **ctx)
            out(label, "| parse truncated ->", show(obj), "pos", s3.tell())
        except Exception as e:
            out(label, "| parse truncated RAISED", type(e).__name__, str(e), "pos", s3.tell())


for label, con, ctx, values in battery:
    exercise(label, con, ctx, values)

# ----------------------------------------------------------------------------
section("constructs over misbehaving streams")
for label, con, v in [("Bytes(2)", Bytes(2), b"ab"), ("Int16ub", Int16ub, 7), ("Padded(3, Byte)", Padded(3, Byte), 1),
                      ("Pointer(1, Byte)", Pointer(1, Byte), 1), ("Tell", Tell, None), ("GreedyBytes", GreedyBytes, b"q"),
                      ("Prefixed(Byte, GreedyBytes)", Prefixed(Byte, GreedyBytes), b"zz")]:
    for kind, kw in [("failwrite", dict(failwrite=IOError("w"))), ("shortwrite", dict(shortwrite=1)),
                     ("failtell", dict(failtell=IOError("t"))), ("failseek", dict(failseek=IOError("s")))]:
        s = Logged(**kw)
        attempt("%s build on %s" % (label, kind), con.build_stream, v, s)
        out("   log", s.log)
    for kind, kw in [("failread", dict(failread=IOError("r"))), ("shortread", dict(shortread=1)),
                     ("failtell", dict(failtell=IOError("t"))), ("failseek", dict(failseek=IOError("s")))]:
        s = Logged(b"\x01\x02\x03\x04", **kw)
        attempt("%s parse on %s" % (label, kind), con.parse_stream, s)
        out("   log", s.log)

# ----------------------------------------------------------------------------
section("compiled constructs")
for label, con, ctx, values in battery:
    try:
        c = con.compile()
    except Exception as e:
        out(label, "| compile RAISED", type(e).__name__)
        continue
    for v in values[:2]:
        try:
            data = c.build(v, **ctx)
            out(label, "| compiled build", repr(v), "->", data.hex())
        except Exception as e:
            out(label, "| compiled build", repr(v), "RAISED", type(e).__name__)
            continue
        s2 = io.BytesIO(data + TRAILER)
        try:
            obj = c.parse_stream(s2, **ctx)
            out(label, "| compiled parse ->", show(obj), "pos", s2.tell())
        except Exception as e:
            out(label, "| compiled parse RAISED", type(e).__name__, "pos", s2.tell())

out("done")
