#!/usr/bin/env python
"""
C07 twin z1: observations of Union._build, RepeatUntil._parse and GreedyRange._build
(results, built bytes, return values, stream positions, exception type names, order and
arguments of user callbacks, context expressions seen inside the repeated / selected member).

usage: equiv.py <repo root>      (deterministic output; compare clean vs changed tree with cmp)
"""
import sys, io
sys.path.insert(0, sys.argv[1])

from construct import *
from construct.lib import *

N = [0]
def show(label, func):
    N[0] += 1
    try:
        ret = func()
        text = repr(ret)
    except Exception as e:
        text = "EXC %s" % (e.__class__.__name__,)
    print("%03d %-72s %s" % (N[0], label, text))

def buildctx(**kw):
    ctx = Container(**kw)
    ctx._parsing = False
    ctx._building = True
    ctx._sizing = False
    ctx._params = ctx
    return ctx

def parsectx(**kw):
    ctx = Container(**kw)
    ctx._parsing = True
    ctx._building = False
    ctx._sizing = False
    ctx._params = ctx
    return ctx

def rawbuild(d, obj, **kw):
    """calls _build directly: returns (return value, bytes written, stream position, _index left in the context)"""
    stream = io.BytesIO()
    ctx = buildctx(**kw)
    ret = d._build(obj, stream, ctx, "(equiv)")
    return ret, stream.getvalue(), stream.tell(), ctx.get("_index", "unset")

def rawparse(d, data, **kw):
    stream = io.BytesIO(data)
    ctx = parsectx(**kw)
    ret = d._parsereport(stream, ctx, "(equiv)")
    return ret, stream.tell(), ctx.get("_index", "unset")

log = []
def logged(label, func):
    del log[:]
    show(label, func)
    N[0] += 1
    print("%03d %-72s %r" % (N[0], label + " [callback log]", log))

# ----------------------------------------------------------------------------------------
print("# Union._build")
u1 = Union(None, "a" / Byte, "b" / Int16ub, "c" / Bytes(3))
for obj in [dict(a=1), dict(b=2), dict(c=b"xyz"), dict(b=2, a=1), dict(c=b"xyz", b=7), dict(), dict(z=1), dict(a=None), dict(a=300), None, [], "a", 5]:
    show("u1.build(%r)" % (obj,), lambda: u1.build(obj))
    show("u1 rawbuild(%r)" % (obj,), lambda: rawbuild(u1, obj))

# members that build from nothing, anonymous members, order of members
u2 = Union(None, "n" / Int8ub, "k" / Const(b"K"), "m" / Int16ub)
u3 = Union(None, "k" / Const(b"K"), "n" / Int8ub)
u4 = Union(None, Const(b"Z"), "n" / Int8ub)
u5 = Union(None, "d" / Default(Byte, 9), "n" / Int8ub)
u6 = Union(0)
for name, u in [("u2", u2), ("u3", u3), ("u4", u4), ("u5", u5), ("u6", u6)]:
    for obj in [dict(), dict(n=4), dict(m=5), dict(k=None), dict(k=b"K"), dict(k=b"X"), dict(d=3), dict(n=4, m=5, k=None), None]:
        show("%s rawbuild(%r)" % (name, obj), lambda: rawbuild(u, obj))

# context expressions inside the selected member: siblings supplied in the dict, _ steps, _root, _params, flags, _index
def member(tag):
    return Struct(
        "tag" / Computed(tag),
        "sib" / Computed(this._.other),
        "up" / Computed(this._._.top),
        "root" / Computed(this._root.top),
        "par" / Computed(this._params.k),
        "flags" / Computed(lambda ctx: (ctx._parsing, ctx._building, ctx._sizing)),
        "idx" / Computed(this._index),
        "len" / Rebuild(Byte, this._.other),
        "data" / Bytes(this.len),
    )
u7 = Struct("top" / Byte, "u" / Union(None, "first" / member(1), "second" / member(2), "other" / Byte))
for obj in [
    dict(top=7, u=dict(first=dict(data=b"ab"), other=2)),
    dict(top=7, u=dict(second=dict(data=b"abc"), other=3)),
    dict(top=7, u=dict(other=3, second=dict(data=b"abc"), first=dict(data=b"abc"))),
    dict(top=7, u=dict(other=3)),
    dict(top=7, u=dict(first=dict(data=b"ab"))),
    dict(top=7, u=dict()),
    dict(top=7, u=dict(second=dict(data=b"abcd"), other=3)),
]:
    show("u7.build(%r, k=5)" % (obj,), lambda: u7.build(obj, k=5))
    show("u7.build(%r) no kwargs" % (obj,), lambda: u7.build(obj))
    show("Array(2,u7) rawbuild", lambda: rawbuild(Array(2, u7), [obj, obj], k=6))

# a member whose build stops / fails
u8 = Union(None, "s" / Struct("x" / Byte, StopIf(this.x == 0), "y" / Byte), "e" / Error, "c" / Check(this._.flag))
for obj in [dict(s=dict(x=0)), dict(s=dict(x=1, y=2)), dict(s=dict(x=1)), dict(e=None), dict(c=None)]:
    show("u8 rawbuild(%r, flag=True)" % (obj,), lambda: rawbuild(u8, obj, flag=True))
    show("u8.build(%r)" % (obj,), lambda: u8.build(obj))
show("Union inside GreedyRange with StopIf member",
     lambda: rawbuild(GreedyRange(Union(None, "v" / FocusedSeq("b", "b" / Byte, StopIf(this.b == 0)))), [dict(v=1), dict(v=2), dict(v=0), dict(v=3)]))

# ----------------------------------------------------------------------------------------
print("# RepeatUntil._parse")
def pred_index(n):
    def predicate(e, lst, ctx):
        log.append(("pred", e, list(lst), ctx._index))
        return ctx._index == n
    return predicate
def hook(obj, ctx):
    log.append(("hook", obj, ctx._index))

for discard in (False, True):
    for n in (0, 1, 3):
        d = RepeatUntil(pred_index(n), Byte * hook, discard=discard)
        logged("RepeatUntil(index==%d, Byte, discard=%s) rawparse 6 bytes" % (n, discard), lambda: rawparse(d, b"\x01\x02\x03\x04\x05\x06"))
        logged("RepeatUntil(index==%d, Byte, discard=%s) rawparse 2 bytes" % (n, discard), lambda: rawparse(d, b"\x01\x02"))
    d = RepeatUntil(obj_ == 9, Byte, discard=discard)
    show("RepeatUntil(obj_==9, discard=%s) 1 2 9 4" % discard, lambda: rawparse(d, b"\x01\x02\x09\x04"))
    show("RepeatUntil(obj_==9, discard=%s) no terminator" % discard, lambda: rawparse(d, b"\x01\x02"))
    show("RepeatUntil(obj_==9, discard=%s) empty" % discard, lambda: rawparse(d, b""))
    d = RepeatUntil(lambda e, lst, ctx: lst[-2:] == [0, 0], Byte, discard=discard)
    show("RepeatUntil(last two zero, discard=%s)" % discard, lambda: rawparse(d, b"\x01\x00\x00\xff"))
    d = RepeatUntil(True, Byte, discard=discard)
    show("RepeatUntil(True, discard=%s)" % discard, lambda: rawparse(d, b"\x07\x08"))
    d = RepeatUntil(False, Byte, discard=discard)
    show("RepeatUntil(False, discard=%s)" % discard, lambda: rawparse(d, b"\x07\x08"))
    d = RepeatUntil(1, Byte, discard=discard)
    show("RepeatUntil(1, discard=%s)" % discard, lambda: rawparse(d, b"\x07\x08"))
    d = RepeatUntil(lambda e, lst, ctx: 1/0, Byte, discard=discard)
    show("RepeatUntil(raising predicate, discard=%s)" % discard, lambda: rawparse(d, b"\x07\x08"))
    # element layout depends on the index, directly and from a nested scope
    d = RepeatUntil(lambda e, lst, ctx: ctx._index == 2, Bytes(this._index + 1), discard=discard)
    show("RepeatUntil(Bytes(this._index+1), discard=%s)" % discard, lambda: rawparse(d, b"abbcccdddd"))
    d = RepeatUntil(lambda e, lst, ctx: e.i == 2, Struct("i" / Index, "j" / Computed(this._index * 10), "d" / Bytes(this.i + 1), "s" / Struct("k" / Computed(this._._index))), discard=discard)
    show("RepeatUntil(Struct with Index/_index/_._index, discard=%s)" % discard, lambda: rawparse(d, b"abbcccdddd"))
    d = RepeatUntil(lambda e, lst, ctx: ctx._index == 1, RepeatUntil(lambda e, lst, ctx: ctx._index == 2, Struct("i" / Index, "b" / Byte)), discard=discard)
    show("nested RepeatUntil, discard=%s (outer)" % discard, lambda: rawparse(d, bytes(range(10))))
    d = Struct("n" / Byte, "items" / RepeatUntil(lambda e, lst, ctx: ctx._index + 1 == ctx.n, Struct("i" / Index, "up" / Computed(this._.n), "root" / Computed(this._root.n), "par" / Computed(this._params.k), "b" / Byte), discard=discard), "after" / Computed(this._index), "tail" / Byte)
    show("Struct(n, RepeatUntil(until index+1==n), after, tail), discard=%s" % discard, lambda: d.parse(b"\x03abcXY", k=4))
    show("same, inside Array(2, ...)", lambda: Array(2, d).parse(b"\x02abX\x01cY", k=4))
    show("same, via parse_stream position", lambda: (lambda s: (d.parse_stream(s, k=1), s.tell()))(io.BytesIO(b"\x02abXYZ")))

# ----------------------------------------------------------------------------------------
print("# GreedyRange._build")
for discard in (False, True):
    d = GreedyRange(Byte, discard=discard)
    for obj in [[], [1, 2, 3], range(4), (5, 6), iter([7, 8]), [1, 256, 3], [1, "x"], None, 5, b"ab"]:
        show("GreedyRange(Byte, discard=%s) rawbuild(%r)" % (discard, obj if not hasattr(obj, "__next__") else "iterator"), lambda: rawbuild(d, obj))
    show("GreedyRange(Byte, discard=%s).build([1,2])" % discard, lambda: d.build([1, 2]))
    d = GreedyRange(Bytes(this._index + 1), discard=discard)
    show("GreedyRange(Bytes(this._index+1), discard=%s) rawbuild" % discard, lambda: rawbuild(d, [b"a", b"bb", b"ccc"]))
    show("GreedyRange(Bytes(this._index+1), discard=%s) rawbuild wrong sizes" % discard, lambda: rawbuild(d, [b"a", b"b", b"ccc"]))
    d = GreedyRange(Struct("i" / Index, "j" / Rebuild(Byte, this._index), "s" / Struct("k" / Rebuild(Byte, this._._index + 100))), discard=discard)
    show("GreedyRange(Struct(Index, Rebuild(_index), nested _._index), discard=%s) rawbuild" % discard, lambda: rawbuild(d, [dict(s=dict())] * 3))
    # stopping: the element raises StopFieldError out of the repeater
    d = GreedyRange(FocusedSeq("b", "b" / Byte, StopIf(this.b == 0)), discard=discard)
    show("GreedyRange(stop at 0, discard=%s) rawbuild [1,2,0,3]" % discard, lambda: rawbuild(d, [1, 2, 0, 3]))
    show("GreedyRange(stop at 0, discard=%s) rawbuild [1,2,3]" % discard, lambda: rawbuild(d, [1, 2, 3]))
    show("GreedyRange(stop at 0, discard=%s) rawbuild [0]" % discard, lambda: rawbuild(d, [0]))
    show("GreedyRange(StopIf(True), discard=%s) rawbuild [None]" % discard, lambda: rawbuild(GreedyRange(StopIf(True), discard=discard), [None, None]))
    s = Struct("items" / d, "seen" / Computed(this.items), "idx" / Computed(this._index), "tail" / Const(b"T"))
    show("Struct(items=GreedyRange(stop at 0), seen, idx, tail), discard=%s: stops" % discard, lambda: rawbuild(s, dict(items=[4, 0, 5])))
    show("Struct(items=GreedyRange(stop at 0), seen, idx, tail), discard=%s: runs out" % discard, lambda: rawbuild(s, dict(items=[4, 5])))
    show("Array(2, that Struct)", lambda: rawbuild(Array(2, s), [dict(items=[4, 0, 5]), dict(items=[6])]))
    # explicit errors and other exceptions propagate
    show("GreedyRange(Error, discard=%s) rawbuild" % discard, lambda: rawbuild(GreedyRange(Error, discard=discard), [None]))
    show("GreedyRange(Check(False), discard=%s) rawbuild" % discard, lambda: rawbuild(GreedyRange(Check(False), discard=discard), [None]))
    def gen():
        yield 1
        yield 2
        raise StopFieldError("from the iterable")
    show("GreedyRange(Byte, discard=%s) rawbuild(generator raising StopFieldError)" % discard, lambda: rawbuild(GreedyRange(Byte, discard=discard), gen()))
    def gen2():
        yield 1
        raise ValueError("from the iterable")
    show("GreedyRange(Byte, discard=%s) rawbuild(generator raising ValueError)" % discard, lambda: rawbuild(GreedyRange(Byte, discard=discard), gen2()))

# ----------------------------------------------------------------------------------------
print("# round trips through the public API, interpreted and compiled")
fmt = Struct(
    "n" / Rebuild(Byte, len_(this.items)),
    "items" / Array(this.n, Struct("i" / Index, "v" / Bytes(this._index + 1))),
    "u" / Union(0, "one" / Byte, "two" / Int16ub),
    "rest" / GreedyRange(Struct("i" / Computed(this._index), "b" / Byte)),
)
data = b"\x02abb\x01\x02\x09\x08"
show("fmt.parse", lambda: fmt.parse(data))
show("fmt.build(parse)", lambda: fmt.build(fmt.parse(data)))
show("fmt.build(dict one)", lambda: fmt.build(dict(items=[dict(v=b"x"), dict(v=b"yy")], u=dict(one=5), rest=[dict(b=1)])))
show("fmt.build(dict two)", lambda: fmt.build(dict(items=[], u=dict(two=5), rest=[])))
show("fmt.sizeof", lambda: fmt.sizeof())
ru = Struct("items" / RepeatUntil(obj_ == 0, Byte), "u" / Union(None, "a" / Byte, "b" / Bytes(1)))
show("ru.parse", lambda: ru.parse(b"\x01\x02\x00\x41"))
show("ru.build", lambda: ru.build(dict(items=[1, 2, 0], u=dict(b=b"A"))))
c = ru.compile()
show("compiled ru.parse", lambda: c.parse(b"\x01\x02\x00\x41"))
show("compiled ru.build", lambda: c.build(dict(items=[1, 2, 0], u=dict(b=b"A"))))
print("# %d observations" % N[0])
