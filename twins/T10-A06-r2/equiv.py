import sys, io
sys.path.insert(0, sys.argv[1])
from construct import *
from construct.lib import HexDisplayedInteger, HexDisplayedBytes, HexDisplayedDict

N = [0]
def out(*a):
    N[0] += 1
    print("%03d" % N[0], *a)

def attempt(label, f):
    try:
        r = f()
    except Exception as e:
        out(label, "EXC", type(e).__name__, str(e).replace("\n", " | "))
    else:
        out(label, "OK", r)

def show(x):
    return (type(x).__name__, repr(x), str(x).replace("\n", " | "), getattr(x, "fmtstr", "<nofmt>"), type(getattr(x, "fmtstr", None)).__name__)

# ---- fixed-size integer subcons
fixed = [
    ("Int8ub", Int8ub, b"\x0f"), ("Int8sb", Int8sb, b"\xf1"), ("Int16ub", Int16ub, b"\x01\x02"), ("Int16ul", Int16ul, b"\x01\x02"),
    ("Int24ub", Int24ub, b"\x00\x00\x07"), ("Int24sl", Int24sl, b"\xff\xff\xff"), ("Int32ub", Int32ub, b"\x00\x00\x01\x02"),
    ("Int32sb", Int32sb, b"\xff\xff\xff\xfe"), ("Int64ul", Int64ul, b"\x01" + b"\x00" * 7), ("BytesInteger(3)", BytesInteger(3), b"\x00\xab\xcd"),
    ("BytesInteger(0..)", BytesInteger(1, signed=True), b"\x80"), ("Flag", Flag, b"\x01"), ("Flag0", Flag, b"\x00"),
    ("Computed(300)", Computed(300), b""), ("Computed(-1)", Computed(-1), b""), ("Computed(True)", Computed(True), b""),
    ("Const", Const(258, Int16ub), b"\x01\x02"), ("Default", Default(Int16ub, 7), b"\x00\x09"),
    ("Padded", Padded(4, Byte), b"\x05\x00\x00\x00"), ("Aligned", Aligned(4, Int16ub), b"\x05\x00\x00\x00"),
    ("Renamed", "x" / Int32ul, b"\x01\x00\x00\x00"), ("Pointer", Pointer(2, Byte), b"\x00\x00\x2a"),
    ("Peek", Peek(Int16ub), b"\x12\x34"), ("Float32b", Float32b, b"\x3f\x80\x00\x00"),
]
for name, sc, data in fixed:
    d = Hex(sc)
    def p():
        s = io.BytesIO(data + b"TAIL")
        r = d.parse_stream(s)
        return show(r) + (s.tell(),)
    attempt("parse %s" % name, p)
    attempt("sizeof %s" % name, lambda: d.sizeof())
    attempt("roundtrip %s" % name, lambda: d.build(d.parse(data)))

# ---- variable-size integer subcons (SizeofError branch)
var = [
    ("VarInt", VarInt, [b"\x00", b"\x7f", b"\x80\x01", b"\xff\x7f", b"\xff\xff\x03", b"\x80\x80\x80\x80\x10"]),
    ("ZigZag", ZigZag, [b"\x00", b"\x01", b"\x02", b"\xff\x01", b"\xfe\xff\x07"]),
    ("BytesInteger(this.n)", BytesInteger(this.n), [b"\x00\x01\x02", b"\xff\xff\xff"]),
    ("Prefixed(Byte,VarInt)", Prefixed(Byte, VarInt), [b"\x02\x81\x01", b"\x01\x05"]),
    ("Select", Select(Int32ub, Int8ub), [b"\x01\x02\x03\x04", b"\x09"]),
    ("IfThenElse", IfThenElse(this.n == 3, Int8ub, Int16ub), [b"\x01\x02"]),
    ("If", If(this.n == 3, Int16ub), [b"\x01\x02"]),
    ("Switch", Switch(this.n, {3: Int32ub}, default=Int8ub), [b"\x00\x00\x00\x11"]),
    ("FocusedSeq", FocusedSeq("v", "l" / Byte, "v" / BytesInteger(this.l)), [b"\x02\x01\x00", b"\x00"]),
    ("Rebuild", Rebuild(VarInt, lambda ctx: 77), [b"\x90\x4e"]),
]
for name, sc, datas in var:
    d = Hex(sc)
    for data in datas:
        for n in (3, 2):
            def p():
                s = io.BytesIO(data + b"ZZ")
                r = d.parse_stream(s, n=n)
                return show(r) + (s.tell(),)
            attempt("parse %s %r n=%d" % (name, data, n), p)
    attempt("sizeof %s" % name, lambda: d.sizeof(n=3))
    attempt("build %s" % name, lambda: d.build(5, n=3))

# ---- direct _decode calls with odd values
ctx = Container(_parsing=True, _building=False, _sizing=False, _params=Container(), n=5)
for v in (0, 1, -1, 255, 256, -256, 2**64, -(2**70), True, False, HexDisplayedInteger.new(17, "02X")):
    attempt("decode VarInt %r" % (v,), lambda: show(Hex(VarInt)._decode(v, ctx, "(d)")))
    attempt("decode Int16ub %r" % (v,), lambda: show(Hex(Int16ub)._decode(v, ctx, "(d)")))
    attempt("decode Bytes(this.n) %r" % (v,), lambda: show(Hex(BytesInteger(this.n))._decode(v, ctx, "(d)")))
    attempt("decode missing key %r" % (v,), lambda: show(Hex(BytesInteger(this.zz))._decode(v, ctx, "(d)")))

# ---- subcons whose _sizeof returns unusual things or raises other errors
class Odd(Construct):
    def __init__(self, size): super().__init__(); self.size = size
    def _parse(self, stream, context, path): return 1234
    def _build(self, obj, stream, context, path): return obj
    def _sizeof(self, context, path):
        if isinstance(self.size, Exception): raise self.size
        return self.size
for size in (0, 1, 3, -2, 2.5, True, None, "3", (1,), [4], SizeofError("so"), KeyError("k"), ValueError("v"), StreamError("st")):
    attempt("odd sizeof %r" % (size,), lambda: show(Hex(Odd(size)).parse(b"")))

# ---- non-int objects pass through the other branches unchanged
attempt("bytes", lambda: show(Hex(GreedyBytes).parse(b"\x00\x01\xfe")))
attempt("bytes sized", lambda: show(Hex(Bytes(2)).parse(b"\x00\x01\xfe")))
attempt("rawcopy", lambda: show(Hex(RawCopy(Int32ub)).parse(b"\x00\x00\x01\x02")))
attempt("struct", lambda: show(Hex(Struct("a" / Byte)).parse(b"\x07")))
attempt("enum", lambda: show(Hex(Enum(Byte, one=1)).parse(b"\x01")))
attempt("enum unknown", lambda: show(Hex(Enum(Byte, one=1)).parse(b"\x09")))
attempt("string", lambda: show(Hex(CString("utf8")).parse(b"ab\x00")))
attempt("array", lambda: show(Hex(Array(2, Byte)).parse(b"\x01\x02")))
attempt("float", lambda: show(Hex(Float64b).parse(b"\x40\x09\x21\xfb\x54\x44\x2d\x18")))
attempt("none", lambda: show(Hex(Pass).parse(b"")))

# ---- in containers, printing, nesting, compile
st = Struct("n" / Byte, "a" / Hex(Int16ub), "b" / Hex(VarInt), "c" / Hex(BytesInteger(this.n)), "d" / Hex(Hex(Int8sb)), "e" / Hex(Bytes(2)))
blob = b"\x03" + b"\x00\x10" + b"\xac\x02" + b"\x00\x00\x05" + b"\xff" + b"hi"
attempt("struct print", lambda: str(st.parse(blob)).replace("\n", " | "))
attempt("struct repr", lambda: repr(st.parse(blob)))
attempt("struct build", lambda: st.build(st.parse(blob)))
attempt("struct sizeof", lambda: st.sizeof(n=3))
attempt("bitstruct", lambda: str(BitStruct("x" / Hex(BitsInteger(12)), "y" / Hex(Nibble)).parse(b"\xab\xcd")).replace("\n", " | "))
attempt("compiled", lambda: show(Hex(Int32ub).compile().parse(b"\x00\x00\x01\x02")))
attempt("compiled src has decode", lambda: "Hex" in Hex(Int32ub).compile().source)
attempt("ksy type", lambda: Hex(Int32ub)._compileprimitivetype(None, False))
attempt("ksy full", lambda: Hex(Int32ub)._compilefulltype(None, False))
attempt("array of hex", lambda: [show(x) for x in Array(3, Hex(VarInt)).parse(b"\x01\x80\x01\xff\xff\x7f")])
attempt("greedyrange hex", lambda: [str(x) for x in GreedyRange(Hex(Int24ub)).parse(b"\x00\x00\x01\xff\xff\xff\x00")])
