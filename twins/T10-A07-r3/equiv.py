import sys
sys.path.insert(0, sys.argv[1])

import io
from construct import *
from construct.expr import FuncPath, Path, BinExpr, UniExpr

n = [0]
def show(label, thunk):
    n[0] += 1
    try:
        r = thunk()
        print("%03d %s -> %s %r" % (n[0], label, type(r).__name__, r))
    except Exception as e:
        print("%03d %s !! %s: %s" % (n[0], label, type(e).__name__, e))

c = Container(a=[1, 2, 3], b=-7, s=b"hello", e=[], m=dict(x=1, y=2), f=2.5, items=[4, -9, 6])
c2 = Container(_=c, k=[10, 20])

# --- unbound FuncPath called with a callable: binds, returns FuncPath ---
for name, fp in [("len_", len_), ("sum_", sum_), ("min_", min_), ("max_", max_), ("abs_", abs_)]:
    show("%s(this.a) type/repr" % name, lambda fp=fp: (type(fp(this.a)).__name__, repr(fp(this.a)), str(fp(this.a))))
show("len_(lambda) type", lambda: type(len_(lambda ctx: ctx.a)).__name__)
show("len_(len) type/repr", lambda: (type(len_(len)).__name__, repr(len_(len))))
show("len_(int) type (class is callable)", lambda: type(len_(int)).__name__)
show("len_(this.a + this.a) repr", lambda: repr(len_(this.a + this.a)))
show("len_(len_(this.a)) repr", lambda: repr(len_(len_(this.a))))
show("len_(len_) unbound in unbound", lambda: repr(len_(len_)))
show("len_(this.a) is new each time", lambda: len_(this.a) is not len_(this.a))
show("len_(this.a, 1, 2) extra args", lambda: repr(len_(this.a, 1, 2)))

# --- unbound FuncPath called with a non-callable: returns operand itself ---
show("len_([1,2,3])", lambda: len_([1, 2, 3]))
show("len_(5)", lambda: len_(5))
show("abs_(-5)", lambda: abs_(-5))
show("sum_(None)", lambda: sum_(None))
show("max_('str')", lambda: max_("str"))
show("min_(ctx container)", lambda: min_(c) is c)
show("len_(0)", lambda: len_(0))
show("len_(False)", lambda: len_(False))
show("len_(b'')", lambda: len_(b""))
show("len_()", lambda: len_())
show("len_(5, 6, 7)", lambda: len_(5, 6, 7))

# --- bound FuncPath with callable operand ---
show("len_(this.a)(c)", lambda: len_(this.a)(c))
show("len_(this.s)(c)", lambda: len_(this.s)(c))
show("len_(this.e)(c)", lambda: len_(this.e)(c))
show("len_(this.m)(c)", lambda: len_(this.m)(c))
show("sum_(this.a)(c)", lambda: sum_(this.a)(c))
show("sum_(this.e)(c)", lambda: sum_(this.e)(c))
show("min_(this.items)(c)", lambda: min_(this.items)(c))
show("max_(this.items)(c)", lambda: max_(this.items)(c))
show("abs_(this.b)(c)", lambda: abs_(this.b)(c))
show("abs_(this.f)(c)", lambda: abs_(this.f)(c))
show("len_(this._.a)(c2)", lambda: len_(this._.a)(c2))
show("sum_(this.k)(c2)", lambda: sum_(this.k)(c2))
show("len_(lambda)(c)", lambda: len_(lambda ctx: ctx.s)(c))
show("abs_(this.b * 2)(c)", lambda: abs_(this.b * 2)(c))
show("abs_(-this.b)(c)", lambda: abs_(-this.b)(c))
show("len_(this.a)(c, 1, 2) extra args", lambda: len_(this.a)(c, 1, 2))
show("len_(this.a)() no args", lambda: len_(this.a)())
# errors
show("len_(this.b)(c) TypeError", lambda: len_(this.b)(c))
show("len_(this.zz)(c) KeyError", lambda: len_(this.zz)(c))
show("min_(this.e)(c) ValueError", lambda: min_(this.e)(c))
show("sum_(this.s)(c)", lambda: sum_(this.s)(c))
show("abs_(this.a)(c) TypeError", lambda: abs_(this.a)(c))
show("len_(this.a)(None)", lambda: len_(this.a)(None))
# nested
show("len_(len_(this.a))(c)", lambda: len_(len_(this.a))(c))
show("abs_(sum_(this.items))", lambda: (repr(abs_(sum_(this.items))), abs_(sum_(this.items))(c)))
show("abs_(min_(this.items))(c)", lambda: abs_(min_(this.items))(c))

# --- bound FuncPath with non-callable operand (constructed directly) ---
show("FuncPath(len, [1,2])(c)", lambda: FuncPath(len, [1, 2])(c))
show("FuncPath(len, [1,2])(None)", lambda: FuncPath(len, [1, 2])(None))
show("FuncPath(abs, -3)('ignored')", lambda: FuncPath(abs, -3)("ignored"))
show("FuncPath(sum, (1,2,3))(c)", lambda: FuncPath(sum, (1, 2, 3))(c))
show("FuncPath(len, 0)(c) TypeError", lambda: FuncPath(len, 0)(c))
show("FuncPath(len, '')(c)", lambda: FuncPath(len, "")(c))
show("FuncPath(len, False)(c)", lambda: FuncPath(len, False)(c))
show("FuncPath(len, None)([1]) unbound", lambda: FuncPath(len, None)([1]))
show("FuncPath(len, None)(this.a) binds", lambda: repr(FuncPath(len, None)(this.a)))
show("FuncPath(5, this.a)(c) TypeError", lambda: FuncPath(5, this.a)(c))
show("FuncPath(5, this.zz)(c) KeyError first", lambda: FuncPath(5, this.zz)(c))
show("FuncPath(str, this.b)(c)", lambda: FuncPath(str, this.b)(c))
show("FuncPath(sorted, this.items)(c)", lambda: FuncPath(sorted, this.items)(c))

# --- order of calls: operand evaluated, then func ---
events = []
def rec_operand(ctx):
    events.append(("operand", ctx))
    return [1, 2]
def rec_func(x):
    events.append(("func", x))
    return "F"
fp = FuncPath(rec_func)
show("custom unbound repr", lambda: repr(fp))
show("custom bound repr", lambda: repr(fp(this.q)))
show("custom call", lambda: fp(rec_operand)("CTX"))
show("custom events", lambda: list(events))
def boom(ctx):
    events.append(("boom", ctx))
    raise ZeroDivisionError("from operand")
del events[:]
show("operand raises", lambda: fp(boom)("CTX"))
show("events after raise", lambda: list(events))

# --- in expressions and constructs ---
show("(len_(this.a) + 1)(c)", lambda: (len_(this.a) + 1)(c))
show("(len_(this.a) * sum_(this.a))(c)", lambda: (len_(this.a) * sum_(this.a))(c))
show("(len_(this.a) == 3)(c)", lambda: (len_(this.a) == 3)(c))
show("(-abs_(this.b))(c)", lambda: (-abs_(this.b))(c))
show("repr (len_(this.a) + 1)", lambda: repr(len_(this.a) + 1))

d = Struct("items" / PrefixedArray(Byte, Byte), "n" / Computed(len_(this.items)), "total" / Computed(sum_(this.items)), "pad" / Bytes(len_(this.items)))
show("Struct parse", lambda: d.parse(b"\x03\x01\x02\x03abc"))
show("Struct build", lambda: d.build(dict(items=[5, 6], pad=b"zz")))
show("Struct parse short", lambda: d.parse(b"\x03\x01\x02\x03ab"))
def stream_case():
    s = io.BytesIO(b"\x02\x09\x08xyTAIL")
    r = d.parse_stream(s)
    return (r.n, r.total, r.pad, s.tell())
show("Struct stream pos", stream_case)
d2 = Struct("data" / GreedyBytes, "cnt" / Computed(len_(this.data)), Check(len_(this.data) == 4))
show("Check ok", lambda: d2.parse(b"abcd"))
show("Check fail", lambda: d2.parse(b"abc"))
d3 = RepeatUntil(len_, Byte)
show("RepeatUntil(len_) parse", lambda: d3.parse(b"\x00\x00\x01\x05"))
d4 = Struct("v" / Int8sb, "a" / Computed(abs_(this.v)), "mx" / Computed(max_(this._params.seq)))
show("abs_/max_ parse with params", lambda: d4.parse(b"\xfb", seq=[3, 8, 1]))
show("sizeof Bytes(len_(this.items))", lambda: Bytes(len_(this.items)).sizeof(items=[1, 2, 3, 4]))
show("sizeof missing ctx", lambda: Bytes(len_(this.items)).sizeof())
try:
    dc = Struct("items" / Array(3, Byte), "n" / Computed(len_(this.items)), "pad" / Bytes(len_(this.items) - 1)).compile()
    show("compiled parse", lambda: dc.parse(b"\x01\x02\x03ab"))
    show("compiled build", lambda: dc.build(dict(items=[1, 2, 3], pad=b"ab")))
    for line in dc.source.splitlines():
        if "len_" in line:
            n[0] += 1
            print("%03d src %s" % (n[0], line.strip()))
except Exception as e:
    print("compile !! %s: %s" % (type(e).__name__, e))
