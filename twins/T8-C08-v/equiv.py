import sys, io
sys.path.insert(0, sys.argv[1])
from construct import *

def show(label, fn):
    try:
        r = fn()
        print(label, "->", repr(r))
    except Exception as e:
        print(label, "!!", type(e).__name__, "|", str(e).replace("\n", " / "))

def parse_at(con, data, start, **kw):
    s = io.BytesIO(data)
    s.seek(start)
    try:
        r = con.parse_stream(s, **kw)
        return ("ok", r if not isinstance(r, Container) else dict((k, v) for k, v in r.items() if k != "_io"), s.tell())
    except Exception as e:
        return ("exc", type(e).__name__, str(e).replace("\n", " / "), s.tell())

def build_to(con, obj, prefix=b"", **kw):
    s = io.BytesIO()
    s.write(prefix)
    try:
        r = con.build_stream(obj, s, **kw)
        return ("ok", s.getvalue(), s.tell())
    except Exception as e:
        return ("exc", type(e).__name__, str(e).replace("\n", " / "), s.getvalue(), s.tell())

pads = [0, 1, 0x5a, 0xff, 256, -1, True, False, b"", b"\x00", b"\x01", b"\xff", b"\x00\x00", b"\x00\x01",
        b"\x01\x02\x03", bytes(64), bytes(65), bytes(63) + b"\x01", bytes(64) + b"\x01", bytes(range(1, 70)),
        "str", None, 1.5, bytearray(b"\x01"), [1], this.k, lambda ctx: ctx.k]
datas = [b"", b"\x00", b"a", b"abc", b"\x00\x01\x02\x03\x04\x05\x06\x07", bytes(range(200)), b"\xff" * 70]

for pi, pad in enumerate(pads):
    plabel = repr(pad) if not callable(pad) else "ctx#%d" % pi
    for inner_name, inner in [("GreedyBytes", GreedyBytes), ("Byte", Byte), ("Int16ub", Int16ub),
                              ("Seq", Sequence(Tell, GreedyBytes, Tell)), ("RawCopy", RawCopy(GreedyBytes))]:
        con = ProcessXor(pad, inner)
        for data in datas:
            for start in (0, 1, 3):
                if start > len(data):
                    continue
                for k in (0x21, b"\x10\x20"):
                    if not callable(pad) and k != 0x21:
                        continue
                    r = parse_at(con, data, start, k=k)
                    if r[0] == "ok" and isinstance(r[1], dict):
                        r = (r[0], sorted((a, b) for a, b in r[1].items()), r[2])
                    print("P", plabel, inner_name, len(data), start, repr(k), r)
        show("sizeof %s %s" % (plabel, inner_name), lambda: con.sizeof(k=1))

build_cases = [("GreedyBytes", GreedyBytes, [b"", b"\x00", b"abc", bytes(range(130)), "text", None, 5]),
               ("Byte", Byte, [0, 1, 255, 256, -1, None]),
               ("Int16ub", Int16ub, [0, 0x1234, 0xffff]),
               ("Seq", Sequence(Tell, GreedyBytes, Tell), [[None, b"xyz", None], [None, b"", None]])]
for pi, pad in enumerate(pads):
    plabel = repr(pad) if not callable(pad) else "ctx#%d" % pi
    for inner_name, inner, objs in build_cases:
        con = ProcessXor(pad, inner)
        for obj in objs:
            for prefix in (b"", b"PQ"):
                for k in (0x21, b"\x10\x20"):
                    if not callable(pad) and k != 0x21:
                        continue
                    print("B", plabel, inner_name, repr(obj), prefix, repr(k), build_to(con, obj, prefix, k=k))

# nested in delimited regions, absolute offsets
inner = Struct("t1" / Tell, "raw" / RawCopy(GreedyBytes), "t2" / Tell)
for pad in (0, 7, b"\x00\x00", b"\x0f\xf0", b"\x01"):
    nests = [
        ("Prefixed", Prefixed(Byte, ProcessXor(pad, inner))),
        ("FixedSized4", FixedSized(4, ProcessXor(pad, inner))),
        ("NullTerm", NullTerminated(ProcessXor(pad, inner))),
        ("Xor(Prefixed)", ProcessXor(pad, Prefixed(Byte, inner))),
        ("Xor(Xor)", ProcessXor(pad, ProcessXor(b"\x03\x04\x05", inner))),
        ("Prefixed(Xor(FixedSized))", Prefixed(Byte, ProcessXor(pad, FixedSized(2, inner)))),
        ("OffsettedEnd", OffsettedEnd(-1, ProcessXor(pad, inner))),
        ("NullStripped", NullStripped(ProcessXor(pad, inner))),
    ]
    for name, con in nests:
        for data in (b"", b"\x03abc\x00de", b"\x05\x01\x02\x03\x00\x05\x06\x00\x00", b"\x00", b"\x09ab"):
            for start in (0, 1, 2):
                if start > len(data):
                    continue
                r = parse_at(con, data, start)
                if r[0] == "ok":
                    d = r[1]
                    raw = d["raw"]
                    r = ("ok", d["t1"], raw.data, raw.value, raw.offset1, raw.offset2, raw.length, d["t2"], r[2])
                print("N", repr(pad), name, data, start, r)
        for obj in (dict(raw=dict(data=b"hey")), dict(raw=dict(value=b"\x00\x01")), dict(raw=dict())):
            print("NB", repr(pad), name, sorted(obj["raw"]), build_to(con, obj, b"Z"))
