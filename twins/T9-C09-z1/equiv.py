#!/usr/bin/env python
"""C09 twin z1: observations for the restructured stream helpers
(stream_read, stream_read_entire, stream_write, stream_seek, stream_tell,
stream_size, stream_iseof) and for everything in the C09 property that sits on
top of them.

usage: equiv.py <repo root>     (deterministic output, compare with cmp)
"""
import sys, io
sys.path.insert(0, sys.argv[1])
from construct import *
from construct.core import stream_read, stream_read_entire, stream_write, stream_seek, stream_tell, stream_size, stream_iseof

N = [0]
def show(label, value):
    N[0] += 1
    print("%04d %s => %s" % (N[0], label, value))

def attempt(func, *args, **kw):
    try:
        return "ret %r" % (func(*args, **kw),)
    except Exception as e:
        chain = type(e.__context__).__name__ if e.__context__ is not None else "-"
        return "exc %s: %s [ctx %s]" % (type(e).__name__, e, chain)

# ---------------------------------------------------------------- stub streams
class Stub(object):
    """Stream whose every method can be told to misbehave."""
    def __init__(self, data=b"0123456789", readfail=False, shortby=0, writefail=False, writeret=None, seekfail=False, tellfail=False, readnone=False):
        self.b = io.BytesIO(data)
        self.readfail, self.shortby, self.writefail, self.writeret = readfail, shortby, writefail, writeret
        self.seekfail, self.tellfail, self.readnone = seekfail, tellfail, readnone
        self.log = []
    def read(self, n=None):
        self.log.append("read(%r)" % (n,))
        if self.readfail:
            raise IOError("no read")
        if self.readnone:
            return None
        if n is None:
            return self.b.read()
        return self.b.read(max(n - self.shortby, 0))
    def write(self, data):
        self.log.append("write(%r)" % (data,))
        if self.writefail:
            raise IOError("no write")
        r = self.b.write(data)
        return r if self.writeret is None else self.writeret
    def seek(self, at, whence=0):
        self.log.append("seek(%r,%r)" % (at, whence))
        if self.seekfail:
            raise IOError("no seek")
        return self.b.seek(at, whence)
    def tell(self):
        self.log.append("tell()")
        if self.tellfail:
            raise IOError("no tell")
        return self.b.tell()

def withlog(stub, func, *args):
    r = attempt(func, *args)
    return "%s | log %s | pos %d" % (r, ",".join(stub.log), stub.b.tell())

# ---------------------------------------------------------------- helpers, directly
for length in (-3, -1, 0, 1, 4, 10, 11, 2.0, "x", None):
    s = Stub()
    show("stream_read len=%r" % (length,), withlog(s, stream_read, s, length, "P"))
for kw in (dict(readfail=True), dict(shortby=1), dict(shortby=5), dict(readnone=True)):
    for length in (-1, 0, 3):
        s = Stub(**kw)
        show("stream_read %r len=%r" % (sorted(kw.items()), length), withlog(s, stream_read, s, length, "P -> x"))
for kw in (dict(), dict(readfail=True), dict(readnone=True)):
    s = Stub(**kw)
    show("stream_read_entire %r" % (sorted(kw.items()),), withlog(s, stream_read_entire, s, "P"))

for data in (b"abc", b"", u"abc", bytearray(b"abc"), 5, None, [1]):
    for length in (-1, 0, 3, 4):
        s = Stub(b"")
        show("stream_write data=%r len=%r" % (data, length), withlog(s, stream_write, s, data, length, "B"))
for kw in (dict(writefail=True), dict(writeret=2), dict(writeret=0), dict(writeret=3)):
    for length in (-1, 3, 4):
        s = Stub(b"", **kw)
        show("stream_write %r len=%r" % (sorted(kw.items()), length), withlog(s, stream_write, s, b"abc", length, "B -> y"))

for at, whence in ((0, 0), (4, 0), (-1, 0), (-2, 2), (3, 2), (2, 1), (-20, 2), (1, 7), ("a", 0), (None, 0)):
    s = Stub()
    s.b.seek(5)
    show("stream_seek(%r,%r)" % (at, whence), withlog(s, stream_seek, s, at, whence, "S"))
s = Stub(seekfail=True); show("stream_seek failing", withlog(s, stream_seek, s, 1, 0, "S -> z"))
s = Stub(); s.b.seek(7); show("stream_tell", withlog(s, stream_tell, s, "T"))
s = Stub(tellfail=True); show("stream_tell failing", withlog(s, stream_tell, s, "T -> t"))
for kw in (dict(), dict(seekfail=True), dict(tellfail=True), dict(readfail=True), dict(readnone=True)):
    for start in (0, 4, 10):
        s = Stub(**kw); s.b.seek(start)
        show("stream_size %r from %d" % (sorted(kw.items()), start), withlog(s, stream_size, s))
        s = Stub(**kw); s.b.seek(start)
        show("stream_iseof %r from %d" % (sorted(kw.items()), start), withlog(s, stream_iseof, s))
show("stream_size closed", attempt(stream_size, None))
show("stream_read closed BytesIO", attempt(stream_read, (lambda b: (b.close(), b)[1])(io.BytesIO(b"ab")), 1, "C"))
show("stream_tell closed BytesIO", attempt(stream_tell, (lambda b: (b.close(), b)[1])(io.BytesIO(b"ab")), "C"))
show("stream_seek closed BytesIO", attempt(stream_seek, (lambda b: (b.close(), b)[1])(io.BytesIO(b"ab")), 0, 0, "C"))

# ---------------------------------------------------------------- the constructs of the property
def parse_from(d, data, start, **ctx):
    s = io.BytesIO(data)
    s.seek(start)
    try:
        r = d.parse_stream(s, **ctx)
        return "ret %r pos %d" % (r, s.tell())
    except Exception as e:
        return "exc %s: %s pos %d" % (type(e).__name__, e, s.tell())

def build_into(d, obj, prefix, at, **ctx):
    s = io.BytesIO(prefix)
    s.seek(at)
    try:
        r = d.build_stream(obj, s, **ctx)
        return "ret %r bytes %r pos %d" % (r, s.getvalue(), s.tell())
    except Exception as e:
        return "exc %s: %s bytes %r pos %d" % (type(e).__name__, e, s.getvalue(), s.tell())

constructs = [
    ("Select(Int32ub,Int16ub,Int8ub)", Select(Int32ub, Int16ub, Int8ub)),
    ("Select(Const(AB),Struct(a=Byte,Const(Z)),CString)", Select(Const(b"AB"), Struct("a" / Byte, Const(b"Z")), CString("ascii"))),
    ("Optional(Int16ub)", Optional(Int16ub)),
    ("Optional(Struct(n=Byte,d=Bytes(n)))", Optional(Struct("n" / Byte, "d" / Bytes(this.n)))),
    ("GreedyRange(Int16ub)", GreedyRange(Int16ub)),
    ("GreedyRange(Struct(n=Byte,d=Bytes(n)))", GreedyRange(Struct("n" / Byte, "d" / Bytes(this.n)))),
    ("GreedyRange(FocusedSeq(Const(T),Byte))", GreedyRange(FocusedSeq("v", Const(b"T"), "v" / Byte))),
    ("GreedyRange(Byte,discard)", GreedyRange(Byte, discard=True)),
    ("Peek(Int16ub)", Peek(Int16ub)),
    ("Peek(Struct(Const(T),v=Int16ub))", Peek(Struct(Const(b"T"), "v" / Int16ub))),
    ("Seq(Peek(Byte),Peek(Int16ub),Byte)", Sequence(Peek(Byte), Peek(Int16ub), Byte)),
    ("Pointer(3,Int16ub)", Pointer(3, Int16ub)),
    ("Pointer(-2,Int16ub)", Pointer(-2, Int16ub)),
    ("Pointer(-1,Int16ub)", Pointer(-1, Int16ub)),
    ("Seq(Byte,Pointer(this[0],Byte),Byte)", Sequence(Byte, Pointer(this[0], Byte), Byte)),
    ("Union(None,a=Bytes(2),b=Int16ub,c=Byte)", Union(None, "a" / Bytes(2), "b" / Int16ub, "c" / Byte)),
    ("Union(0,...)", Union(0, "a" / Bytes(2), "b" / Int16ub, "c" / Byte)),
    ("Union('c',...)", Union("c", "a" / Bytes(2), "b" / Int16ub, "c" / Byte)),
    ("Union(2,a=Byte,VarInt,c=Int24ub)", Union(2, "a" / Byte, VarInt, "c" / Int24ub)),
    ("Union(this.k,...)", Union(this._.k, "a" / Bytes(2), "b" / Byte)),
    ("FixedSized(4,GreedyRange(Int16ub))", FixedSized(4, GreedyRange(Int16ub))),
    ("Prefixed(Byte,Select(Int32ub,GreedyBytes))", Prefixed(Byte, Select(Int32ub, GreedyBytes))),
    ("Bitwise(GreedyRange(BitsInteger(3)))", Bitwise(GreedyRange(BitsInteger(3)))),
    ("Select(Error,Byte)", Select(Error, Byte)),
    ("GreedyRange(Struct(Byte,Error))", GreedyRange(Struct("a" / Byte, Error))),
]
blobs = [b"", b"\x01", b"AB", b"T\x01T\x02U", b"\x02ab\x01c\x05", b"\x00\x00\x00\x07\x00\x09", b"\x03AZ\x00\x81\x01hello\x00"]
for name, d in constructs:
    for data in blobs:
        for start in (0, 1, 3):
            if start <= len(data):
                show("parse %s %r@%d" % (name, data, start), parse_from(d, data, start, k="b"))

builds = [
    ("Select(Int32ub,CString)", Select(Int32ub, CString("utf8")), [7, u"hi", b"x", None]),
    ("Optional(Int16ub)", Optional(Int16ub), [5, None, "no", 70000]),
    ("GreedyRange(Byte)", GreedyRange(Byte), [[1, 2, 3], [], [1, 300], None]),
    ("Pointer(6,Int16ub)", Pointer(6, Int16ub), [0x4142, -1, None]),
    ("Pointer(-2,Byte)", Pointer(-2, Byte), [0x43, 256]),
    ("Struct(a=Byte,p=Pointer(5,Byte),b=Byte)", Struct("a" / Byte, "p" / Pointer(5, Byte), "b" / Byte), [dict(a=1, p=2, b=3), dict(a=1, p=2)]),
    ("Peek(Byte)", Peek(Byte), [1, None]),
    ("Union(None,a=Bytes(2),b=Int16ub)", Union(None, "a" / Bytes(2), "b" / Int16ub), [dict(a=b"zz"), dict(b=258), dict(), dict(a=b"z")]),
    ("FixedSized(3,Byte)", FixedSized(3, Byte), [1, 256]),
]
for name, d, objs in builds:
    for obj in objs:
        for prefix, at in ((b"", 0), (b"........", 2), (b"........", 8)):
            show("build %s %r into %r@%d" % (name, obj, prefix, at), build_into(d, obj, prefix, at))

# non seekable / non tellable streams under the property's constructs
for name, d in constructs[:12]:
    s = Stub(b"\x01\x02\x03\x04", seekfail=True)
    show("seekfail %s" % name, withlog(s, d.parse_stream, s))
    s = Stub(b"\x01\x02\x03\x04", tellfail=True)
    show("tellfail %s" % name, withlog(s, d.parse_stream, s))
    s = Stub(b"\x01\x02\x03\x04", shortby=1)
    show("short    %s" % name, withlog(s, d.parse_stream, s))

for name, d in (("Int16ub", Int16ub), ("GreedyRange(Byte)", GreedyRange(Byte)), ("Pointer(2,Byte)", Pointer(2, Byte))):
    for kw in (dict(writefail=True), dict(writeret=0), dict(seekfail=True), dict(tellfail=True)):
        s = Stub(b"", **kw)
        obj = [1, 2] if name.startswith("Greedy") else 1
        show("build %s on %r" % (name, sorted(kw.items())), withlog(s, d.build_stream, obj, s))

# sizeof and compiled forms
for name, d in constructs:
    show("sizeof %s" % name, attempt(d.sizeof))
for name, d in constructs:
    try:
        c = d.compile()
    except Exception as e:
        show("compile %s" % name, "exc %s" % type(e).__name__)
        continue
    for data in blobs[2:6]:
        show("compiled parse %s %r" % (name, data), parse_from(c, data, 0, k="b"))
