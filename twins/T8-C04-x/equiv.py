import sys, re, io
sys.path.insert(0, sys.argv[1])
import construct
from construct import *
from construct.core import CodeGen

assert construct.__file__.startswith(sys.argv[1]), construct.__file__

_seen = {}
def norm(s):
    return re.sub(r"\b\d{9,}\b", lambda m: _seen.setdefault(m.group(0), "ID%d" % len(_seen)), s)

def show(label, f):
    try:
        r = f()
        print(label, "->", type(r).__name__, norm(repr(r)))
    except Exception as e:
        print(label, "!!", type(e).__name__)

class Odd(Subconstruct):
    """emitter returning a str subclass"""
    class S(str):
        pass
    def _parse(self, stream, context, path):
        return self.subcon._parsereport(stream, context, path)
    def _build(self, obj, stream, context, path):
        return self.subcon._build(obj, stream, context, path)
    def _sizeof(self, context, path):
        return self.subcon._sizeof(context, path)
    def _emitparse(self, code):
        return Odd.S(self.subcon._compileparse(code))
    def _emitbuild(self, code):
        return Odd.S(self.subcon._compilebuild(code))

inner = Union(0, "lo" / Byte, "w" / Int16ul)

cons = {
    "none_named": Union(None, "a" / Byte, "b" / Int16ub, "c" / Bytes(3)),
    "int0_diff": Union(0, "a" / Byte, "b" / Int16ub),
    "int1_last": Union(1, "a" / Byte, "b" / Int16ub),
    "int_same": Union(0, "a" / Int16ub, "b" / Int16ul),
    "int_neg": Union(-1, "a" / Byte, "b" / Int16ub),
    "int_neg2": Union(-2, "a" / Byte, "b" / Int16ub),
    "int_oob": Union(5, "a" / Byte, "b" / Int16ub),
    "bool_true": Union(True, "a" / Byte, "b" / Int16ub),
    "bool_false": Union(False, "a" / Byte, "b" / Int16ub),
    "str_a": Union("a", "a" / Byte, "b" / Int16ub),
    "str_b": Union("b", "a" / Byte, "b" / Int16ub),
    "str_missing": Union("zz", "a" / Byte, "b" / Int16ub),
    "callable": Union(lambda ctx: 0, "a" / Byte, "b" / Int16ub),
    "this_expr": Union(this._.k, "a" / Byte, "b" / Int16ub),
    "float_from": Union(1.0, "a" / Byte, "b" / Int16ub),
    "unnamed_mixed": Union(0, Byte, "b" / Int16ub, Int8sb),
    "all_unnamed": Union(None, Byte, Int16ub),
    "empty_none": Union(None),
    "empty_int": Union(0),
    "single": Union(0, "only" / Int24ub),
    "kw": Union(None, x=Byte, y=Int32ul),
    "quote_name": Union(0, "it's" / Byte, 'say "hi"' / Int16ub),
    "unicode_name": Union(0, "näme" / Byte, "b\\n" / Int16ub),
    "tuple1_name": Union(0, ("a",) / Byte, "b" / Int16ub),
    "tuple2_name": Union(0, ("a", "b") / Byte, "b" / Int16ub),
    "bytes_name": Union(0, b"a" / Byte, "b" / Int16ub),
    "int_name": Union(0, 7 / Byte, "b" / Int16ub),
    "varsize_from": Union(0, "s" / CString("ascii"), "b" / Byte),
    "varsize_none": Union(None, "s" / CString("ascii"), "b" / Byte),
    "linked_member": Union(0, "a" / Pointer(1, Byte, stream=lambda ctx: None), "b" / Int16ub),
    "odd_member": Union(0, "a" / Odd(Byte), "b" / Odd(Int16ub)),
    "nested": Union(0, "u" / inner, "raw" / Bytes(2)),
    "in_struct": Struct("k" / Byte, "u" / Union(0, "a" / Byte, "b" / Int16ub), "p" / Bytes(this.u.a & 3)),
    "in_struct_none": Struct("k" / Byte, "u" / Union(None, "a" / Byte, "b" / Int16ub), "p" / Bytes(this.u.b & 3), "q" / Byte),
    "in_struct_expr": Struct("k" / Byte, "u" / Union(None, "a" / Byte, "d" / Bytes(this._.k)), "p" / Bytes(len_(this.u.d))),
    "shared_twice": Struct("u" / inner, "v" / inner, "p" / Bytes(this.v.lo & 1)),
    "two_unions": Sequence(Union(0, "a" / Byte), Union(None, "b" / Byte), Byte),
    "array_of": Array(2, Union(0, "a" / Byte, "b" / Int16ub)),
    "stopif_member": Union(None, "a" / Byte, StopIf(this.a == 1), "b" / Int16ub),
    "struct_member": Union(1, "h" / Byte, "s" / Struct("x" / Byte, "y" / Bytes(this.x))),
}
datas = [b"", b"\x00", b"\x01", b"\x01\x02", b"\x00\x00\x00\x00", b"\x01\x02\x03\x04\x05\x06", b"\x02ab\x00\x07\x08\x09",
         b"abc\x00def", b"\xff" * 5, b"\x03" * 300]
objs = [None, {}, [], 5, dict(a=1), dict(b=258), dict(a=1, b=2), dict(c=b"xyz"), dict(a=300), dict(a=None), dict(b=None),
        dict(x=1), dict(y=70000), dict(only=5), dict(s="hi"), dict(u=dict(lo=1)), dict(u=dict(w=513)), dict(raw=b"zz"),
        dict(k=1, u=dict(a=2), p=b"xy"), dict(k=1, u=dict(b=2), p=b"xy", q=1), dict(k=2, u=dict(d=b"ab"), p=b"zz"),
        dict(u=dict(lo=1), v=dict(lo=3), p=b"z"), [dict(a=1), dict(b=2), 3], [dict(a=1), dict(b=2)],
        {"it's": 1}, {'say "hi"': 2}, {"näme": 1}, {("a",): 1}, {("a", "b"): 1}, {b"a": 1}, {7: 1},
        dict(h=1), dict(s=dict(x=1, y=b"q"))]

for name, d in cons.items():
    try:
        dc = d.compile()
    except Exception as e:
        print("compile", name, "!!", type(e).__name__)
        dc = None
    else:
        print("source", name)
        print(norm(dc.source))
        print("linked", name, [type(v).__name__ for v in dc.module.linkedinstances.values()])
    for kind, c in (("interp", d), ("compiled", dc)):
        if c is None:
            continue
        show("sizeof %s %s" % (name, kind), lambda: c.sizeof())
        for i, data in enumerate(datas):
            def p():
                s = io.BytesIO(data)
                try:
                    r = c.parse_stream(s, k=1)
                finally:
                    print("    pos", s.tell())
                return r
            show("parse %s %s #%d" % (name, kind, i), p)
        for i, o in enumerate(objs):
            show("build %s %s #%d" % (name, kind, i), lambda: c.build(o, k=1))

# direct emitter calls: returned snippet, id allocation, emitted blocks, exceptions raised by the emitter itself
for name, d in cons.items():
    if not isinstance(d, Union):
        continue
    code = CodeGen()
    code.nextid = 40
    show("emitparse %s" % name, lambda: d._emitparse(code))
    print("   nextid", code.nextid, "blocks", len(code.blocks), "linked", len(code.linkedinstances))
    for b in code.blocks:
        print(norm(b))
    show("emitparse again %s" % name, lambda: d._emitparse(code))
    print("   nextid", code.nextid, "blocks", len(code.blocks))
    show("compileparse %s" % name, lambda: d._compileparse(code))
    print("   nextid", code.nextid, "blocks", len(code.blocks), "cache", sorted(norm(v) for v in code.parsercache.values()))
