import sys, io, hashlib
sys.path.insert(0, sys.argv[1])
from construct import *


def run(label, fn):
    try:
        r = fn()
        print(label, "OK", repr(r))
    except Exception as e:
        print(label, "EXC", type(e).__name__)


def data_for(n):
    return bytes((i * i * 37 + 11) & 0xff for i in range(n))


ENC = ["zlib", "gzip", "bzip2", "lzma", "hex", "base64", "zlib_codec", "bz2", "utf8", "nosuchcodec", "rot13", "", None, 5]
LEVELS = [None, 0, 1, 6, 9, 10, -1, "x", 1.5]

for enc in ENC:
    for level in LEVELS:
        tag = "%r/%r" % (enc, level)
        try:
            d = Compressed(GreedyBytes, enc, level)
        except Exception as e:
            print(tag, "ctor EXC", type(e).__name__)
            continue
        print(tag, "lib", getattr(d.lib, "__name__", None), "level", d.level, "encoding", d.encoding)
        for n in (0, 1, 17, 300):
            data = data_for(n)
            def enc_():
                out = d._encode(data, {}, "p")
                # gzip output embeds mtime; report roundtrip instead of raw bytes
                if enc == "gzip":
                    return ("gz", d._decode(out, {}, "p") == data, out[:3])
                return out
            run(tag + " encode %d" % n, enc_)
            def rt():
                out = d.build(data)
                return d.parse(out) == data
            run(tag + " roundtrip %d" % n, rt)
        run(tag + " decode junk", lambda: d._decode(b"\x00\x01junk", {}, "p"))
        run(tag + " decode empty", lambda: d._decode(b"", {}, "p"))
        run(tag + " parse junk", lambda: d.parse(b"\xff\xfejunk"))
        run(tag + " encode str", lambda: d._encode("text", {}, "p"))
        run(tag + " sizeof", lambda: d.sizeof())

# known vectors, decode direction
import zlib, bz2, lzma, gzip
for enc, blob in [("zlib", zlib.compress(b"hello" * 20, 9)), ("bzip2", bz2.compress(b"hello" * 20)),
                  ("lzma", lzma.compress(b"hello" * 20)), ("gzip", gzip.compress(b"hello" * 20, mtime=0) if sys.version_info >= (3, 8) else b""),
                  ("hex", b"68656c6c6f")]:
    d = Compressed(GreedyBytes, enc)
    run("vec parse " + enc, lambda: d.parse(blob))
    run("vec parse trunc " + enc, lambda: d.parse(blob[:-3]))

# inside Prefixed, with inner struct, stream positions
d = Prefixed(VarInt, Compressed(GreedyBytes, "zlib"))
run("prefixed build", lambda: d.build(bytes(100)))
run("prefixed parse", lambda: d.parse(d.build(bytes(100)) + b"tail"))
d = Prefixed(Byte, Compressed(Struct("a" / Int16ub, "b" / GreedyBytes), "bzip2", 3))
run("struct rt", lambda: d.parse(d.build(dict(a=7, b=b"zzz"))))
d = Compressed(GreedyBytes, "zlib", 1)
s = io.BytesIO(b"xy" + zlib.compress(b"abc"))
s.seek(2)
run("stream parse", lambda: d.parse_stream(s))
print("pos", s.tell())
s = io.BytesIO(); s.write(b"hd")
run("stream build", lambda: d.build_stream(b"abc", s))
print("pos", s.tell(), s.getvalue())
run("build returns", lambda: Compressed(Int16ub, "lzma", 9).build(5)[:6])
run("inner builderr", lambda: Compressed(Int16ub, "zlib").build("zz"))
