import sys, io
sys.path.insert(0, sys.argv[1])
from construct import *
from construct.lib import *
from construct.lib.bitstream import RestreamedBytesIO

def state(r):
    return (r.rbuffer, r.wbuffer, r.sincereadwritten, r.substream.tell() if hasattr(r.substream, "tell") else None)

class Chunky(object):
    """substream returning scripted results, including None and short reads"""
    def __init__(self, script):
        self.script = list(script)
        self.calls = []
    def read(self, n=None):
        self.calls.append(n)
        if not self.script:
            return b""
        item = self.script.pop(0)
        if isinstance(item, Exception):
            raise item
        return item
    def tell(self):
        return len(self.calls)

def attempt(label, fn):
    try:
        print(label, "->", repr(fn()))
    except Exception as e:
        print(label, "!!", type(e).__name__)

# direct use over BytesIO, bits decoding, many count sequences
seqs = [[None], [0], [1], [8], [9], [16], [17], [3, 5], [3, 5, 8, None], [1]*20, [24, 1], [25], [-1], [0, None, 0, 1],
        [4, -1, 4], [None, None], [7, None], [100], [8, 8, 8, 8]]
for data in [b"", b"\xa5", b"\xa5\x3c", b"\x01\x02\x03"]:
    for unit in [1, 2, 3]:
        for seq in seqs:
            r = RestreamedBytesIO(io.BytesIO(data), bytes2bits, unit, bits2bytes, 8)
            for c in seq:
                attempt("read data=%s unit=%d seq=%r count=%r" % (data.hex(), unit, seq, c), lambda: r.read(c) if c is not None else r.read())
                print("   state", state(r))
            attempt("   default-arg read", lambda: r.read())
            print("   state", state(r))
            attempt("   close", r.close)

# scripted substreams: None, empty, short chunks, exceptions, decoder that raises
scripts = [
    [b"\x01", None, b"\x02"],
    [None],
    [b"", b"\x01"],
    [b"\x01", b"\x02", b"\x03", b""],
    [b"\x01\x02", b"\x03"],
    [b"\x01", OSError("x"), b"\x02"],
    [bytearray(b"\x81"), b"\x7e"],
    ["str"],
    [b"\x01", 5],
]
for script in scripts:
    for seq in [[None], [4], [12], [8, 8, 8], [20], [4, None], [0, 4, 4, 4]]:
        sub = Chunky(script)
        r = RestreamedBytesIO(sub, bytes2bits, 1, bits2bytes, 8)
        for c in seq:
            attempt("script=%r seq=%r count=%r" % (script, seq, c), lambda: r.read(c) if c is not None else r.read())
            print("   state", state(r), "calls", sub.calls)

def baddecoder(b):
    if b == b"\x02":
        raise KeyError("bad")
    return b * 2
for seq in [[None], [2], [3], [4, 1], [6]]:
    r = RestreamedBytesIO(io.BytesIO(b"\x01\x02\x03"), baddecoder, 1, None, 1)
    for c in seq:
        attempt("baddecoder seq=%r count=%r" % (seq, c), lambda: r.read(c) if c is not None else r.read())
        print("   state", state(r))
    attempt("   retry", lambda: r.read(2))
    print("   state", state(r))

# write side untouched but checked, interleaved with read
out = io.BytesIO()
r = RestreamedBytesIO(out, bytes2bits, 1, bits2bytes, 8)
for chunk in [b"\x01", b"\x00\x01", b"\x00" * 5, b"\x01" * 11, b""]:
    attempt("write %r" % chunk, lambda: r.write(chunk))
    print("   state", state(r), out.getvalue())
attempt("close", r.close)

# through the library: unsized Bitwise / Bytewise regions (streaming path)
def parse_pos(d, data, **kw):
    s = io.BytesIO(data)
    try:
        res = d.parse_stream(s, **kw)
        return ("ok", res, s.tell())
    except Exception as e:
        return ("exc", type(e).__name__, s.tell())

def build_pos(d, obj, **kw):
    s = io.BytesIO()
    try:
        res = d.build_stream(obj, s, **kw)
        return ("ok", res, s.tell(), s.getvalue())
    except Exception as e:
        return ("exc", type(e).__name__, s.tell(), s.getvalue())

layouts = {
    "greedybits": Bitwise(GreedyRange(BitsInteger(3))),
    "greedybytes": Bitwise(GreedyBytes),
    "prefixed": Bitwise(Struct("n" / BitsInteger(4), "v" / Array(this.n, BitsInteger(5)), "rest" / GreedyBytes)),
    "varwidth": Bitwise(Struct("w" / BitsInteger(4), "v" / BitsInteger(this.w + 4, signed=True))),
    "island": Bitwise(Struct("a" / Nibble, "b" / Bytewise(GreedyBytes))),
    "island2": Bitwise(Struct("a" / Nibble, "b" / Bytewise(PascalString(Byte, "ascii")), "c" / Nibble)),
    "islandrange": Bitwise(Struct("a" / Nibble, "b" / Bytewise(GreedyRange(Int16ub)), "c" / GreedyBytes)),
    "swapped": Bitwise(Struct("w" / BitsInteger(8), "v" / BitsInteger(this.w, swapped=True))),
    "flagpad": Bitwise(Struct("f" / Flag, Padding(2), "n" / BitsInteger(5), "v" / Array(this.n, Flag))),
    "bitsswapped": BitsSwapped(GreedyBytes),
    "bitsswapped_bitwise": BitsSwapped(Bitwise(GreedyRange(BitsInteger(4)))),
}
datas = [b"", b"\x00", b"\xa5", b"\xa5\x3c", b"\x12\x34\x56", b"\x08\xff\x00\x81", b"\x10\x12\x34", b"\x40\x36\x16\x27", b"\xff" * 7,
         b"\x30\x12\x34\x56\x78"]
for name, d in layouts.items():
    print("class", name, type(d).__name__)
    attempt("sizeof " + name, d.sizeof)
    for data in datas:
        res = parse_pos(d, data)
        print("parse", name, data.hex(), res)
        if res[0] == "ok":
            print("rebuild", name, build_pos(d, res[1]))

# exhaustive 16-bit inputs on a streaming region
d = Bitwise(Struct("w" / BitsInteger(3), "v" / BitsInteger(this.w + 1, signed=True), "rest" / GreedyRange(BitsInteger(2))))
acc = 0
for n in range(65536):
    raw = n.to_bytes(2, "big")
    s = io.BytesIO(raw)
    try:
        o = d.parse_stream(s)
        t = (o.w, o.v, tuple(o.rest), s.tell())
    except Exception as e:
        t = (type(e).__name__, s.tell())
    acc = (acc * 1000003 + sum(repr(t).encode()) * (n + 1)) % (2**61 - 1)
print("exhaustive16 streaming checksum", acc)
