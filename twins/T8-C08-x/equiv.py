import sys, io, itertools
sys.path.insert(0, sys.argv[1])
from construct import *

class LoggingStream(io.BytesIO):
    """records every read/seek/tell so that call order is part of the transcript"""
    def __init__(self, data):
        super().__init__(data)
        self.log = []
    def read(self, n=-1):
        r = super().read(n)
        self.log.append(("r", n, len(r)))
        return r
    def seek(self, off, whence=0):
        r = super().seek(off, whence)
        self.log.append(("s", off, whence, r))
        return r
    def tell(self):
        r = super().tell()
        self.log.append(("t", r))
        return r

class FailingSeek(io.BytesIO):
    def seek(self, off, whence=0):
        if whence == 1:
            raise OSError("no relative seek")
        return super().seek(off, whence)

def parse_at(con, data, start, cls=io.BytesIO, **kw):
    s = cls(data)
    io.BytesIO.seek(s, start)
    try:
        r = con.parse_stream(s, **kw)
        out = ("ok", r, io.BytesIO.tell(s))
    except Exception as e:
        out = ("exc", type(e).__name__, str(e).replace("\n", " / "), io.BytesIO.tell(s))
    if hasattr(s, "log"):
        out = out + (tuple(s.log),)
    return out

def flat(r):
    if r[0] == "ok" and isinstance(r[1], Container):
        d = r[1]
        raw = d["raw"]
        return ("ok", d["t1"], raw.data, raw.offset1, raw.offset2, raw.length, d["t2"]) + r[2:]
    return r

inner = Struct("t1" / Tell, "raw" / RawCopy(GreedyBytes), "t2" / Tell)
terms = [b"", b"\x00", b"\xff", b"\x00\x00", b"ab", b"\x00\x00\x00", b"abc", "ab", bytearray(b"\x00")]
flags = list(itertools.product((False, True), repeat=3))

for term in terms:
    tb = bytes(term) if not isinstance(term, str) else term.encode()
    alphabet = sorted(set(tb) | {0, 0x61, 0x7a})
    for include, consume, require in flags:
        kw = dict(term=term, include=include, consume=consume, require=require)
        con_g = NullTerminated(GreedyBytes, **kw)
        con_s = NullTerminated(inner, **kw)
        con_b = NullTerminated(Byte, **kw)
        tag = "%r i%d c%d r%d" % (term, include, consume, require)
        maxlen = 5 if len(alphabet) <= 3 else 4
        for n in range(0, maxlen + 1):
            for tup in itertools.product(alphabet, repeat=n):
                data = bytes(tup)
                print("G", tag, data, parse_at(con_g, data, 0))
        for data in [b"", tb, tb * 2, b"x" + tb, b"xy" + tb + b"z", b"xyz" + tb + tb, tb[1:] + tb, b"q" + tb[:-1] if tb else b"q",
                     bytes(range(1, 40)) + tb + b"tail", b"no terminator here", b"x" * 7]:
            for start in range(0, min(len(data), 4) + 1):
                print("S", tag, data, start, flat(parse_at(con_s, data, start)))
                print("B", tag, data, start, parse_at(con_b, data, start))
            print("L", tag, data, flat(parse_at(con_s, data, 1 if data else 0, LoggingStream)))
            print("F", tag, data, flat(parse_at(con_s, data, 0, FailingSeek)))
        for obj in (b"", b"abc"):
            try:
                print("build", tag, obj, con_g.build(obj))
            except Exception as e:
                print("build", tag, obj, type(e).__name__, str(e).replace("\n", " / "))
        try:
            print("sizeof", tag, con_g.sizeof())
        except Exception as e:
            print("sizeof", tag, type(e).__name__)

# nestings with other delimiters and string classes built on NullTerminated
for include, consume, require in flags:
    for term in (b"\x00", b"\x00\x00", b"\xfe\xff"):
        kw = dict(term=term, include=include, consume=consume, require=require)
        nests = [
            ("Prefixed(NT)", Prefixed(Byte, NullTerminated(inner, **kw))),
            ("FixedSized5(NT)", FixedSized(5, NullTerminated(inner, **kw))),
            ("NT(Prefixed)", NullTerminated(Prefixed(Byte, inner), **kw)),
            ("NT(NT)", NullTerminated(NullTerminated(inner, term=b"a", include=include, consume=consume, require=require), **kw)),
            ("OffsettedEnd(NT)", OffsettedEnd(-1, NullTerminated(inner, **kw))),
            ("Xor(NT)", ProcessXor(b"\x00\x00", NullTerminated(inner, **kw))),
            ("NS(NT)", NullStripped(NullTerminated(inner, **kw))),
            ("Seq(NT,NT,Tell)", Sequence(NullTerminated(GreedyBytes, **kw), NullTerminated(GreedyBytes, **kw), Tell)),
            ("Prefixed(FixedSized4(NT))", Prefixed(Byte, FixedSized(4, NullTerminated(inner, **kw)))),
        ]
        tag = "%r i%d c%d r%d" % (term, include, consume, require)
        for name, con in nests:
            for data in (b"", b"\x06xya\x00\x00z\xfe\xff\x00", b"\x05a\x00\x00\x00\x00\x00\xfe\xff", b"\x04ab\xfe\xff\x00\x00ab",
                         b"\x03x\x00y\x00\x00", b"\x09\x00", b"abcdefgh"):
                for start in (0, 1, 2):
                    if start > len(data):
                        continue
                    print("N", tag, name, data, start, flat(parse_at(con, data, start)))

for con_name, con in (("CString8", CString("utf8")), ("CString16", CString("utf16")), ("CString32", CString("utf32"))):
    for data in (b"", b"\x00", b"ab\x00cd", b"a\x00b\x00\x00\x00c\x00", b"a\x00\x00\x00b\x00\x00\x00\x00\x00\x00\x00zz", b"a\x00b", b"abc"):
        for start in (0, 1):
            print("C", con_name, data, start, parse_at(con, data, start))
