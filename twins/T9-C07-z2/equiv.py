#!/usr/bin/env python
"""
C07 twin z2: observations of how context expressions get their values (UniExpr/BinExpr/FuncPath
calls, Bytes / Computed / LazyArray parameters) and of the scope LazyStruct opens when parsing and
sizing: parse results, built bytes, sizeof, stream positions, exception type names, order of user
callbacks, compiled behaviour.

usage: equiv.py <repo root>      (deterministic output; compare clean vs changed tree with cmp)
"""
import sys, io, operator
sys.path.insert(0, sys.argv[1])

from construct import *
from construct.lib import *
from construct.expr import UniExpr, BinExpr, FuncPath, Path, Path2

N = [0]
def show(label, func):
    N[0] += 1
    try:
        text = repr(func())
    except Exception as e:
        text = "EXC %s" % (e.__class__.__name__,)
    print("%03d %-76s %s" % (N[0], label, text))

log = []
def tap(tag, value):
    """a callable operand that records when it is resolved and with what"""
    def operand(obj, *args):
        log.append((tag, sorted(k for k in obj if not k.startswith("_")) if isinstance(obj, dict) else obj, args))
        return value
    return operand

def logged(label, func):
    del log[:]
    show(label, func)
    N[0] += 1
    print("%03d %-76s %r" % (N[0], label + " [operand log]", log))

ctx = Container(a=6, b=3, s="xy", items=[3, 1, 2], flag=True, none=None, inner=Container(c=10, items=[]))
ctx._params = ctx

# ----------------------------------------------------------------------------------------
print("# expressions called on a context")
exprs = [
    ("this.a + this.b", this.a + this.b), ("this.a - 10", this.a - 10), ("10 - this.a", 10 - this.a),
    ("this.a * this.b", this.a * this.b), ("this.a / this.b", this.a / this.b), ("this.a // 4", this.a // 4),
    ("this.a % 4", this.a % 4), ("2 ** this.b", 2 ** this.b), ("this.a ** 2", this.a ** 2),
    ("this.a ^ this.b", this.a ^ this.b), ("this.a >> 1", this.a >> 1), ("1 << this.b", 1 << this.b),
    ("this.a & 4", this.a & 4), ("this.a | 8", this.a | 8), ("8 | this.a", 8 | this.a),
    ("-this.a", -this.a), ("+this.a", +this.a), ("~this.flag", ~this.flag), ("~this.none", ~this.none), ("-(-this.a)", -(-this.a)),
    ("this.a > this.b", this.a > this.b), ("this.a >= 6", this.a >= 6), ("this.a < this.b", this.a < this.b),
    ("this.a <= 5", this.a <= 5), ("this.a == 6", this.a == 6), ("this.a != 6", this.a != 6),
    ("this.s + 'z'", this.s + "z"), ("this.s * this.b", this.s * this.b), ("this.s + this.a", this.s + this.a),
    ("this.inner.c + this.a", this.inner.c + this.a), ("this['inner']['c'] * 2", this["inner"]["c"] * 2),
    ("this._params.a + 1", this._params.a + 1), ("this.missing + 1", this.missing + 1), ("1 + this.missing", 1 + this.missing),
    ("this.a // (this.b - 3)", this.a // (this.b - 3)), ("(this.a + this.b) * (this.a - this.b)", (this.a + this.b) * (this.a - this.b)),
    ("len_(this.items)", len_(this.items)), ("sum_(this.items) + 1", sum_(this.items) + 1), ("min_(this.items)", min_(this.items)),
    ("max_(this.items) * 2", max_(this.items) * 2), ("abs_(this.b - this.a)", abs_(this.b - this.a)), ("len_(this.inner.items)", len_(this.inner.items)),
    ("len_(this.a)", len_(this.a)), ("len_(this.missing)", len_(this.missing)), ("len_([1,2,3]) constant", len_([1, 2, 3])),
    ("len_(this.items) == 3", len_(this.items) == 3), ("-len_(this.items)", -len_(this.items)),
]
for name, e in exprs:
    show("%s  called" % name, lambda: e(ctx))
    show("%s  repr/str" % name, lambda: (repr(e), str(e)))
show("len_ applied to a constant list (not an expression)", lambda: len_([1, 2]))
show("FuncPath(len, constant operand)(ctx)", lambda: FuncPath(len, [1, 2, 3, 4])(ctx))
show("FuncPath(len, lambda operand)(ctx)", lambda: FuncPath(len, lambda c: c.items)(ctx))
show("FuncPath(abs, type operand)(ctx)", lambda: FuncPath(abs, int)(ctx))

print("# operands that are plain callables, constants, classes; order of resolution")
logged("BinExpr(add, tap L, tap R)", lambda: BinExpr(operator.add, tap("L", 1), tap("R", 2))(ctx))
logged("BinExpr(sub, tap L, 5)", lambda: BinExpr(operator.sub, tap("L", 1), 5)(ctx))
logged("BinExpr(sub, 5, tap R)", lambda: BinExpr(operator.sub, 5, tap("R", 1))(ctx))
logged("BinExpr(add, tap L, this.missing)", lambda: BinExpr(operator.add, tap("L", 1), this.missing)(ctx))
logged("BinExpr(add, this.missing, tap R)", lambda: BinExpr(operator.add, this.missing, tap("R", 1))(ctx))
logged("BinExpr with extra call arguments", lambda: BinExpr(operator.add, tap("L", 1), tap("R", 2))(ctx, "extra1", "extra2"))
logged("UniExpr(neg, tap)", lambda: UniExpr(operator.neg, tap("U", 4))(ctx))
logged("UniExpr(neg, tap) with extra call arguments", lambda: UniExpr(operator.neg, tap("U", 4))(ctx, "extra"))
logged("nested: (tap A + tap B) * -tap C", lambda: BinExpr(operator.mul, BinExpr(operator.add, tap("A", 1), tap("B", 2)), UniExpr(operator.neg, tap("C", 3)))(ctx))
logged("FuncPath(len, tap)", lambda: FuncPath(len, tap("F", [1, 2]))(ctx))
logged("FuncPath(len, tap) with extra call arguments", lambda: FuncPath(len, tap("F", [1, 2]))(ctx, "extra"))
show("UniExpr(not_, 0)", lambda: UniExpr(operator.not_, 0)(ctx))
show("UniExpr(neg, int) class operand is called", lambda: UniExpr(operator.neg, int)(ctx))
show("BinExpr(add, 2, 3) constants", lambda: BinExpr(operator.add, 2, 3)(ctx))
show("BinExpr(add, None, 3)", lambda: BinExpr(operator.add, None, 3)(ctx))
show("BinExpr(eq, dict, this.inner) class operand is called", lambda: BinExpr(operator.eq, dict, this.inner)(ctx))
show("obj_ > 5 as a predicate (7, [..], ctx)", lambda: (obj_ > 5)(7, [1], ctx))
show("obj_.x + 1 on a container element", lambda: (obj_.x + 1)(Container(x=4), [], ctx))
show("list_[-1] alone as a predicate", lambda: list_[-1](7, [1, 2], ctx))
show("list_[-1] == 0 inside a BinExpr", lambda: (list_[-1] == 0)(7, [1, 0], ctx))

# ----------------------------------------------------------------------------------------
print("# Bytes / Computed parameters")
def three(d, data, obj, **kw):
    def parse():
        stream = io.BytesIO(data)
        return d.parse_stream(stream, **kw), stream.tell()
    return (lambda: parse()), (lambda: d.build(obj, **kw)), (lambda: d.sizeof(**kw))

def cb_len(c):
    log.append(("len callback", c._parsing, c._building, c._sizing))
    return c.n

for name, d in [
    ("Bytes(3)", Bytes(3)), ("Bytes(0)", Bytes(0)), ("Bytes(-1)", Bytes(-1)), ("Bytes(this.n)", Bytes(this.n)), ("Bytes(this.n + 1)", Bytes(this.n + 1)),
    ("Bytes(this._params.n)", Bytes(this._params.n)), ("Bytes(lambda: c.n)", Bytes(lambda c: c.n)), ("Bytes(this.missing)", Bytes(this.missing)),
    ("Bytes(lambda: c.missing attr)", Bytes(lambda c: c.missing)), ("Bytes(lambda: 1/0)", Bytes(lambda c: 1 // 0)), ("Bytes(len_(this.lst))", Bytes(len_(this.lst))),
    ("Bytes(cb_len)", Bytes(cb_len)),
]:
    for obj in (b"abc", b"abcd", 7, bytearray(b"xyz"), "abc", None):
        p, b, s = three(d, b"abcdef", obj, n=3, lst=[1, 2, 3])
        if obj == b"abc":
            logged("%s parse(abcdef, n=3)" % name, p)
            logged("%s sizeof(n=3)" % name, s)
            show("%s parse no kwargs" % name, lambda: d.parse(b"abcdef"))
            show("%s sizeof no kwargs" % name, lambda: d.sizeof())
        logged("%s build(%r, n=3)" % (name, obj), b)

for name, d in [
    ("Computed(7)", Computed(7)), ("Computed(None)", Computed(None)), ("Computed(this.n)", Computed(this.n)), ("Computed(this.n * 2 + 1)", Computed(this.n * 2 + 1)),
    ("Computed(lambda: c.n)", Computed(lambda c: c.n + 100)), ("Computed(this.missing)", Computed(this.missing)), ("Computed(len) builtin is called", Computed(len)),
    ("Computed(list) class is called", Computed(list)), ("Computed(cb_len)", Computed(cb_len)), ("Computed(b'const')", Computed(b"const")),
    ("Computed(len_(this.lst))", Computed(len_(this.lst))), ("Computed flags", Computed(lambda c: (c._parsing, c._building, c._sizing))),
]:
    p, b, s = three(d, b"zz", None, n=3, lst=[1, 2, 3])
    logged("%s parse" % name, p)
    logged("%s build(None)" % name, b)
    show("%s build('given')" % name, lambda: d.build("given", n=3, lst=[]))
    show("%s sizeof" % name, s)
    show("%s in Struct: parse/build" % name, lambda: (Struct("n" / Byte, "lst" / Computed([1]), "v" / d, "w" / Computed(this.v)).parse(b"\x05"), Struct("n" / Byte, "lst" / Computed([1]), "v" / d).build(dict(n=5, v="ignored"))))

# ----------------------------------------------------------------------------------------
print("# LazyArray count")
def lazy_parse(d, data, **kw):
    stream = io.BytesIO(data)
    ret = d.parse_stream(stream, **kw)
    return list(ret), len(ret), stream.tell()
for name, d in [
    ("LazyArray(3, Byte)", LazyArray(3, Byte)), ("LazyArray(0, Byte)", LazyArray(0, Byte)), ("LazyArray(-1, Byte)", LazyArray(-1, Byte)),
    ("LazyArray(this.n, Byte)", LazyArray(this.n, Byte)), ("LazyArray(this.n - 1, Int16ub)", LazyArray(this.n - 1, Int16ub)),
    ("LazyArray(lambda, Byte)", LazyArray(lambda c: c.n, Byte)), ("LazyArray(this.missing, Byte)", LazyArray(this.missing, Byte)),
    ("LazyArray(cb_len, Byte)", LazyArray(cb_len, Byte)), ("LazyArray(this.n, VarInt)", LazyArray(this.n, VarInt)), ("LazyArray(this.n, CString)", LazyArray(this.n, CString("ascii"))),
]:
    logged("%s parse n=3" % name, lambda: lazy_parse(d, b"\x01\x02\x03\x00\x05\x06\x00", n=3))
    logged("%s parse n=-2" % name, lambda: lazy_parse(d, b"\x01\x02\x03", n=-2))
    show("%s parse no kwargs" % name, lambda: lazy_parse(d, b"\x01\x02\x03\x04"))
    logged("%s build [1,2,3] n=3" % name, lambda: d.build([1, 2, 3], n=3))
    show("%s build [1,2] n=3" % name, lambda: d.build([1, 2], n=3))
    show("%s build [1,2] n=-2" % name, lambda: d.build([1, 2], n=-2))
    logged("%s sizeof n=3" % name, lambda: d.sizeof(n=3))
    show("%s sizeof no kwargs" % name, lambda: d.sizeof())
show("LazyArray element sees _index while building", lambda: LazyArray(3, Struct("i" / Rebuild(Byte, this._index))).build([dict()] * 3))
show("Struct(n, LazyArray(this.n, ...)) parse/build/sizeof", lambda: (
    lazy_parse(Struct("n" / Byte, "a" / LazyArray(this.n, Byte)).a, b"\x09\x08", n=2),
    Struct("n" / Byte, "a" / LazyArray(this.n, Byte)).build(dict(n=2, a=[7, 8])),
    Struct("n" / Byte, "a" / LazyArray(this._.n, Byte)).sizeof(n=4)))

# ----------------------------------------------------------------------------------------
print("# LazyStruct scope in parse and sizeof")
def probe(*extra):
    return [
        "flags" / Computed(lambda c: (c._parsing, c._building, c._sizing)),
        "par" / Computed(this._params.k),
        "idx" / Computed(this._index),
        "rootis" / Computed(lambda c: (c._root is c, c._root is c._, "_root" in c._, sorted(k for k in c._root if not k.startswith("_")))),
        "up" / Computed(lambda c: sorted(k for k in c._ if not k.startswith("_"))),
        "io" / Computed(lambda c: c._io is not None),
        "subcons" / Computed(lambda c: list(c._subcons.keys())[:3]),
    ] + list(extra)

def force(obj):
    """reads every member of lazy containers so that the lazily parsed values are observed too"""
    if isinstance(obj, dict):
        return dict((k, force(obj[k])) for k in obj.keys() if not str(k).startswith("_"))
    if isinstance(obj, list):
        return [force(x) for x in obj]
    return obj

L1 = LazyStruct("n" / VarInt, "data" / Bytes(this.n), *probe("tail" / Byte))
L2 = Struct("h" / Byte, "lazy" / LazyStruct("n" / VarInt, "data" / Bytes(this.n + this._.h), *probe("r" / Computed(this._root.h), "u" / Computed(this._.h))))
L3 = Array(2, LazyStruct("n" / VarInt, "data" / Bytes(this.n + this._index), *probe()))
L4 = LazyStruct("n" / VarInt, "deep" / Struct("m" / Byte, "s" / Struct(*probe("nn" / Computed(this._._.n), "rn" / Computed(this._root.n), "d" / Bytes(this._root.n)))))
L5 = Sequence(VarInt, LazyStruct("k" / VarInt, "in" / FocusedSeq("v", "v" / Computed(this._.k * 2), "p" / Padding(this._.k))), Byte)
L6 = LazyStruct("a" / Byte, "b" / Bytes(this.a), "c" / Bytes(this._params.k), "d" / Bytes(lambda c: c._index or 1))
L7 = LazyStruct("inner" / LazyStruct("x" / VarInt, "y" / Bytes(this.x)), "after" / Bytes(this.inner.x))
L8 = LazyStruct()
for name, d, data in [
    ("L1", L1, b"\x02abT"), ("L2", L2, b"\x01\x02abc"), ("L3", L3, b"\x01a\x01bc"), ("L4", L4, b"\x02\x09xy"),
    ("L5", L5, b"\x07\x02\x00\x00\x08"), ("L6", L6, b"\x02abcdef"), ("L7", L7, b"\x02abcd"), ("L8", L8, b""),
]:
    for kw in (dict(k=2), dict(k=2, _index=5), dict()):
        def parse():
            stream = io.BytesIO(data + b"REST")
            ret = d.parse_stream(stream, **kw)
            return force(ret), stream.tell()
        show("%s parse %r" % (name, sorted(kw)), parse)
        show("%s sizeof %r" % (name, sorted(kw)), lambda: d.sizeof(**kw))
        show("%s sizeof %r n=1 h=1 a=1" % (name, sorted(kw)), lambda: d.sizeof(n=1, h=1, a=1, **kw))
    show("%s build(parse) round trip" % name, lambda: d.build(force(d.parse(data, k=2)), k=2))
    show("%s repr of lazy result" % name, lambda: repr(d.parse(data, k=2))[:60])
show("LazyStruct sizeof with fields named like dict methods in the enclosing scope", lambda: Struct("get" / Byte, "l" / LazyStruct("x" / Bytes(2))).sizeof())
show("LazyStruct parse with fields named like dict methods in the enclosing scope", lambda: force(Struct("get" / Byte, "l" / LazyStruct("x" / Bytes(2))).parse(b"\x01ab")))

# ----------------------------------------------------------------------------------------
print("# compiled behaviour of formats using the touched classes")
fmt = Struct("n" / Byte, "data" / Bytes(this.n), "twice" / Computed(this.n * 2), "neg" / Computed(-this.n), "cnt" / Computed(len_(this.data)), "rest" / Bytes(1))
c = fmt.compile()
for data in (b"\x02abZ", b"\x00Z", b"\x05ab"):
    show("interpreted parse %r" % data, lambda: fmt.parse(data))
    show("compiled    parse %r" % data, lambda: c.parse(data))
for obj in (dict(n=2, data=b"ab", rest=b"Z"), dict(n=3, data=b"ab", rest=b"Z"), dict(n=0, data=b"", rest=b"ZZ")):
    show("interpreted build %r" % obj, lambda: fmt.build(obj))
    show("compiled    build %r" % obj, lambda: c.build(obj))
show("interpreted sizeof", lambda: fmt.sizeof())
show("interpreted sizeof n=4", lambda: Struct("data" / Bytes(this._.n), "c" / Computed(1)).sizeof(n=4))
print("# %d observations" % N[0])
