import sys, hashlib
sys.path.insert(0, sys.argv[1])
from construct.lib.hex import hexdump, hexundump, HexDumpDisplayedBytes, HexDumpDisplayedDict
import random

def show(label, fn):
    try:
        r = fn()
    except BaseException as e:
        print(label, "EXC", type(e).__name__)
    else:
        if isinstance(r, str) and len(r) > 400:
            print(label, "STR", len(r), hashlib.sha256(r.encode()).hexdigest(), repr(r[:120]), repr(r[-80:]))
        else:
            print(label, "OK", repr(r))

class FakeLen:
    def __init__(self, n, log):
        self.n = n; self.log = log
    def __len__(self):
        self.log.append("len")
        return self.n
    def __getitem__(self, i):
        self.log.append("getitem")
        return b""

class CountLen(bytes):
    calls = 0
    def __len__(self):
        CountLen.calls += 1
        return bytes.__len__(self)

rnd = random.Random(20)
datas = [b"", b"\x00", b"a", bytes(range(256)), b"0"*100, b"\n\"\"\"\\ %s %d", bytes(rnd.randrange(256) for _ in range(777)),
         bytearray(b"hello world bytearray"), memoryview(b"memview data 123")]
for di, d in enumerate(datas):
    for ls in [1, 2, 3, 7, 8, 16, 17, 32, 100, 1000]:
        show("dump d%d ls%d" % (di, ls), lambda: hexdump(d, ls))
        def rt():
            s = hexdump(d, ls)
            return hexundump(s, ls) == bytes(d)
        show("roundtrip d%d ls%d" % (di, ls), rt)

# boundary on the offset width
for n in [16**4 - 1, 16**4, 16**4 + 1, 16**4 + 17]:
    d = bytes((i * 7 + 3) & 0xFF for i in range(n))
    for ls in [16, 33, 4096]:
        show("big n%d ls%d" % (n, ls), lambda: hexdump(d, ls))
        show("big rt n%d ls%d" % (n, ls), lambda: hexundump(hexdump(d, ls), ls) == d)

# too long / fake sized objects: which calls happen, which exception
for n in [0, 5, 16**4 - 1, 16**4, 16**5, 16**8 - 1, 16**8, 16**8 + 1, 16**9]:
    for ls in [16, 2**12, "x", None, 0]:
        if n > 16**5 and n < 16**8 and isinstance(ls, int) and ls > 0:
            continue  # would take hundreds of millions of iterations
        log = []
        show("fake n%d ls%r" % (n, ls), lambda: hexdump(FakeLen(n, log), ls)[:200])
        print("   log", len(log), log[:6])

# bad linesize / data values
for ls in [0, -1, -5, 2.5, 16.0, True, False, None, "4", (1,), [2], 10**30]:
    for d in [b"", b"abcdefghij"]:
        show("badls %r %r" % (ls, d), lambda: hexdump(d, ls))
for d in [None, 5, "text", [1, 2, 300], [1, 2, 3], ("a",), [-1], {1: 2}]:
    show("baddata %r" % (d,), lambda: hexdump(d, 4))

# len-call counting
for n in [0, 10, 16**4 - 1, 16**4, 70000]:
    CountLen.calls = 0
    d = CountLen(b"q" * n)
    r = hexdump(d, 16)
    print("countlen", n, CountLen.calls, hashlib.sha256(r.encode()).hexdigest())

show("displayed bytes", lambda: str(HexDumpDisplayedBytes(b"display me \xff\x00" * 5)))
show("displayed dict", lambda: str(HexDumpDisplayedDict(data=b"dict data \x01\x02" * 3)))
show("displayed dict missing", lambda: str(HexDumpDisplayedDict()))
