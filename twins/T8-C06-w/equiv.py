import sys, io, enum, collections
sys.path.insert(0, sys.argv[1])
import construct
from construct import *
from construct.core import stream_read, stream_write, stream_seek, stream_tell, stream_read_entire

assert construct.__file__.startswith(sys.argv[1].rstrip("/")), construct.__file__


class Col(enum.IntEnum):
    RED = 1
    BIG = 99


class Pt(collections.namedtuple("Pt", "x y")):
    pass


class OddStr(object):
    def __str__(self):
        return "odd-str"
    def __repr__(self):
        return "odd-repr"
    def __format__(self, spec):
        return "odd-format"


class BadRepr(object):
    def __repr__(self):
        raise RuntimeError("bad repr")
    def __str__(self):
        raise RuntimeError("bad str")
    def __hash__(self):
        return 1


class BadHash(object):
    def __hash__(self):
        raise TypeError("nohash")
    def __repr__(self):
        return "BadHash()"


class SubBytes(bytes):
    def __repr__(self):
        return "SubBytes!"
    def __format__(self, spec):
        return "SubBytes-format"


class S(object):
    """stream whose operations fail / misbehave on demand"""
    def __init__(self, data=b"", fail=(), shortread=0, shortwrite=0, writeret="len"):
        self.inner = io.BytesIO(data)
        self.fail = fail
        self.shortread = shortread
        self.shortwrite = shortwrite
        self.writeret = writeret
    def read(self, n=-1):
        if "read" in self.fail:
            raise IOError("injected read")
        if "readkb" in self.fail:
            raise KeyboardInterrupt()
        d = self.inner.read(n)
        return d[:len(d) - self.shortread] if self.shortread else d
    def write(self, d):
        if "write" in self.fail:
            raise ValueError("injected write")
        n = self.inner.write(d)
        if self.writeret == "none":
            return None
        return n - self.shortwrite
    def seek(self, off, whence=0):
        if "seek" in self.fail:
            raise OSError("injected seek")
        return self.inner.seek(off, whence)
    def tell(self):
        if "tell" in self.fail:
            raise OSError("injected tell")
        return self.inner.tell()


def show(label, fn):
    try:
        r = fn()
        print(label, "->", "OK", repr(r))
    except BaseException as e:
        ctx = e.__context__
        print(label, "->", "EXC", type(e).__name__, repr(str(e)), "path=%r" % (getattr(e, "path", "n/a"),),
              "ctx=%s" % (type(ctx).__name__ if ctx is not None else None))


# ---- stream_read
lengths = [0, 1, 3, 4, 5, -1, True, 2.0, 2.5, None, "3", Col.RED, Col.BIG, OddStr(), (1,), (1, 2), Pt(1, 2), [2], 10 ** 30, -10 ** 30]
for li, length in enumerate(lengths):
    for sname, mk in [("ok", lambda: S(b"abcd")), ("failread", lambda: S(b"abcd", fail=("read",))),
                      ("short", lambda: S(b"abcd", shortread=1)), ("bytesio", lambda: io.BytesIO(b"abcd")),
                      ("kb", lambda: S(b"abcd", fail=("readkb",)))]:
        s = mk()
        show("stream_read L%d %s" % (li, sname), lambda: stream_read(s, length, "p%d" % li))
        inner = getattr(s, "inner", s)
        print("   pos", inner.tell())

# ---- stream_write
datas = [b"", b"a", b"abc", b"\x00\xff'\"\\", SubBytes(b"xy"), bytearray(b"ab"), "abc", None, 5, OddStr(), BadRepr()]
for di, data in enumerate(datas):
    for length in [0, 1, 2, 3, 5, -1, None]:
        for sname, mk in [("ok", lambda: S()), ("failwrite", lambda: S(fail=("write",))), ("short", lambda: S(shortwrite=1)),
                          ("none", lambda: S(writeret="none")), ("bytesio", lambda: io.BytesIO())]:
            s = mk()
            show("stream_write D%d len=%r %s" % (di, length, sname), lambda: stream_write(s, data, length, "w"))
            inner = getattr(s, "inner", s)
            print("   value", inner.getvalue(), inner.tell())

# ---- stream_seek / stream_tell
offsets = [0, 1, 4, 100, -1, True, 2.0, None, "3", Col.RED, Col.BIG, OddStr(), (1,), (1, 2), Pt(1, 2), [2], BadRepr(), SubBytes(b"q")]
whences = [0, 1, 2, 3, -1, None, Col.RED, OddStr(), (0,), "0"]
for oi, off in enumerate(offsets):
    for wi, wh in enumerate(whences):
        for sname, mk in [("ok", lambda: S(b"abcd")), ("failseek", lambda: S(b"abcd", fail=("seek",))), ("bytesio", lambda: io.BytesIO(b"abcd"))]:
            s = mk()
            show("stream_seek O%d W%d %s" % (oi, wi, sname), lambda: stream_seek(s, off, wh, "sk"))
            inner = getattr(s, "inner", s)
            print("   pos", inner.tell())
show("stream_tell fail", lambda: stream_tell(S(fail=("tell",)), "t"))
show("stream_read_entire fail", lambda: stream_read_entire(S(fail=("read",)), "t"))

# ---- FormatField
for fmt in "fdBHLQbhlqe?":
    for end in "=<>":
        d = FormatField(end, fmt)
        for data in [b"", b"\x00", b"\xff" * 2, b"\x7f\xf0\x00\x00", b"\xff" * 8, b"\x01" * 9]:
            show("FF %s%s parse %s" % (end, fmt, data.hex()), lambda: d.parse(data))
        for obj in [0, 1, -1, 255, 256, 65536, 2 ** 32, 2 ** 64, -2 ** 63, 1.5, float("inf"), float("nan"), 1e400, 1e39, None, "a", b"a",
                    True, Col.BIG, OddStr(), (1,), (1, 2), Pt(1, 2), [1], BadRepr()]:
            show("FF %s%s build %s" % (end, fmt, type(obj).__name__ + ":" + (repr(obj) if not isinstance(obj, BadRepr) else "bad")), lambda: d.build(obj))
for d, name in [(Int16ub, "Int16ub"), (Float32l, "Float32l"), (Struct("a" / Int8sb, "b" / Int32ul), "st")]:
    for mode in [dict(fail=("read",)), dict(shortread=1), dict()]:
        show("FFstream %s parse %r" % (name, sorted(mode)), lambda: d.parse_stream(S(b"\x01\x02\x03\x04\x05\x06", **mode)))
    for mode in [dict(fail=("write",)), dict(shortwrite=1), dict(writeret="none"), dict()]:
        obj = dict(a=-1, b=7) if name == "st" else 3
        show("FFstream %s build %r" % (name, sorted(mode)), lambda: d.build_stream(obj, S(**mode)))

# ---- Mapping
x = object
m = Mapping(Byte, {"zero": 0, "one": 1, (1, 2): 2, Pt(3, 4): 3, Col.BIG: 99, None: 5, 2.5: 6})
for data in [b"", b"\x00", b"\x01", b"\x02", b"\x03", b"\x04", b"\x05", b"\x06", b"\x63", b"\xff"]:
    show("Mapping parse %s" % data.hex(), lambda: m.parse(data))
for obj in ["zero", "one", "two", (1, 2), (1,), (1, 2, 3), Pt(3, 4), Pt(1, 2), Col.BIG, Col.RED, 99, 1, None, 2.5, [1], {}, {"a": 1}, set(),
            OddStr(), BadHash(), b"zero", SubBytes(b"zz"), bytearray(b"a"), Container(a=1), ListContainer([1])]:
    show("Mapping build %s" % (type(obj).__name__ + ":" + repr(obj)), lambda: m.build(obj))
show("Mapping build BadRepr", lambda: m.build(BadRepr()))
m2 = Mapping(Bytes(1), {"a": b"a", "l": b"l"})
m3 = Mapping(GreedyRange(Byte), {"k": (1,)})
for data in [b"", b"a", b"b", b"l", b"\x01"]:
    show("Mapping2 parse %s" % data.hex(), lambda: m2.parse(data))
    show("Mapping3 parse %s" % data.hex(), lambda: m3.parse(data))
show("Mapping3 build k", lambda: m3.build("k"))
show("Mapping3 build [1]", lambda: m3.build([1]))
e = Enum(Byte, a=1, b=2)
fl = FlagsEnum(Byte, a=1, b=2)
for data in [b"", b"\x01", b"\x03", b"\xff"]:
    show("Enum parse %s" % data.hex(), lambda: e.parse(data))
    show("Flags parse %s" % data.hex(), lambda: fl.parse(data))
for obj in ["a", "c", 1, 300, None, (1,)]:
    show("Enum build %r" % (obj,), lambda: e.build(obj))

# ---- through constructs that seek
for name, d in [("Pointer", Pointer(2, Byte)), ("PointerNeg", Pointer(-1, Byte)), ("PointerFar", Pointer(100, Byte)),
                ("Seek", Seek(2)), ("SeekBad", Seek(-5)), ("Seek2", Seek(-1, 2)), ("SeekW", Seek(0, 7)), ("Peek", Peek(Int16ub)),
                ("GR", GreedyRange(Int16ub)), ("Select", Select(Int32ub, Int16ub, Byte)), ("Tell", Tell), ("RawCopy", RawCopy(Int16ub)),
                ("BitwisePtr", Bitwise(Pointer(8, Bit))), ("BitwiseSeek", Bitwise(Seek(3)))]:
    for mode in [dict(), dict(fail=("seek",)), dict(fail=("tell",)), dict(fail=("read",)), dict(shortread=1)]:
        s = S(b"\x01\x02\x03\x04\x05", **mode)
        show("%s parse %r" % (name, sorted(mode.items())), lambda: d.parse_stream(s))
        print("   pos", s.inner.tell())
