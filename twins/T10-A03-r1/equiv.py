import sys, io
sys.path.insert(0, sys.argv[1])
from construct import *
from construct.lib import *

def show(label, fn):
    try:
        r = fn()
        print(label, "->", repr(r))
    except Exception as e:
        print(label, "!!", type(e).__name__, str(e).replace("\n", " | "))

def parse_pos(d, data, **kw):
    s = io.BytesIO(data)
    try:
        r = d.parse_stream(s, **kw)
        return (r, s.tell())
    except Exception as e:
        return ("EXC", type(e).__name__, str(e).replace("\n", " | "), s.tell())

def build_pos(d, obj, **kw):
    s = io.BytesIO()
    try:
        r = d._build(obj, s, Container(_params=Container(kw), _parsing=False, _building=True, _sizing=False, **kw), "(b)")
        return (r, s.getvalue(), s.tell())
    except Exception as e:
        return ("EXC", type(e).__name__, str(e).replace("\n", " | "), s.getvalue(), s.tell())

calls = []
def logging_pred(x, lst, ctx):
    calls.append((x, list(lst), ctx.get("_index")))
    return x >= 3

preds = [
    ("lambda_gt2", lambda x, lst, ctx: x > 2),
    ("lambda_last2", lambda x, lst, ctx: lst[-2:] == [0, 0]),
    ("const_True", True),
    ("const_False", False),
    ("const_1", 1),
    ("const_0", 0),
    ("const_None", None),
    ("const_str", "yes"),
    ("const_emptystr", ""),
    ("const_list", [0]),
    ("this_expr", obj_ == 3),
    ("ctx_index", lambda x, lst, ctx: ctx._index == 2),
    ("raising", lambda x, lst, ctx: 1 // (x - 2) > 5),
    ("truthy_obj", lambda x, lst, ctx: [x] if x == 2 else []),
]
datas = [b"", b"\x01", b"\x00\x00\x05", b"\x01\x02\x03\x04\x05", b"\x05\x00\x00\x09"]
objs = [[], [1], [0, 0, 5], [1, 2, 3, 4, 5], (5, 0, 0, 9), range(6), iter([1, 3, 7])]

for pname, p in preds:
    for discard in (False, True):
        d = RepeatUntil(p, Byte, discard=discard)
        for data in datas:
            print("parse", pname, discard, data, "->", parse_pos(d, data))
        for o in objs:
            if not hasattr(o, "__len__") and not isinstance(o, range):
                o = iter([1, 3, 7])
            print("build", pname, discard, repr(o) if not hasattr(o, "__next__") else "iter", "->", build_pos(d, o))
        show("sizeof %s %s" % (pname, discard), lambda: d.sizeof())

# predicate call order and arguments
for discard in (False, True):
    d = RepeatUntil(logging_pred, Byte, discard=discard)
    del calls[:]
    print("logparse", discard, parse_pos(d, b"\x01\x02\x03\x04"), calls)
    del calls[:]
    print("logbuild", discard, build_pos(d, [1, 2, 3, 4]), calls)
    del calls[:]
    print("logbuild-nomatch", discard, build_pos(d, [1, 2]), calls)

# predicate attribute changed after construction is seen at call time
d = RepeatUntil(False, Byte)
d.predicate = lambda x, lst, ctx: x == 9
print("mutated", parse_pos(d, b"\x01\x09\x02"), build_pos(d, [4, 9, 1]))
d.predicate = True
print("mutated2", parse_pos(d, b"\x01\x09\x02"), build_pos(d, [4, 9, 1]))

# nested in a Struct, with context access and _index
d = Struct("n" / Byte, "items" / RepeatUntil(lambda x, lst, ctx: len(lst) == ctx.n, "e" / Struct("i" / Index, "v" / Byte)), "tail" / Byte)
print("nested parse", parse_pos(d, b"\x02\x0a\x0b\x0c"))
show("nested build", lambda: d.build(dict(n=2, items=[dict(v=1), dict(v=2), dict(v=3)], tail=7)))
show("nested build nomatch", lambda: d.build(dict(n=5, items=[dict(v=1)], tail=7)))
show("nested short", lambda: d.parse(b"\x03\x01"))

# compiled code and KSY are produced from the same attributes
d = Struct("items" / RepeatUntil(obj_ == 0, Byte), "k" / RepeatUntil(list_[-1] > 4, Int16ub, discard=True))
show("compiled source", lambda: d.compile().source.split("\n")[-40:])
show("compiled parse", lambda: d.compile().parse(b"\x01\x00\x00\x01\x00\x09"))
show("compiled build", lambda: d.compile().build(dict(items=[1, 0], k=[1, 9])))
def ksy():
    from construct.core import KsyGen
    g = KsyGen()
    return (d._compileseq(g), g.types)
show("ksy", ksy)
print("attrs", sorted(k for k in vars(RepeatUntil(True, Byte))), [n for n in vars(RepeatUntil) if not n.startswith("_") or n in ("_parse", "_build", "_sizeof", "_emitparse", "_emitbuild", "_emitfulltype")])
