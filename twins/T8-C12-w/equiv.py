import sys
sys.path.insert(0, sys.argv[1])
import io
from construct import *

out = []
def show(label, fn):
    try:
        r = fn()
        out.append("%s -> %r" % (label, r))
    except Exception as e:
        msg = str(e) if isinstance(e, ConstructError) else ""
        out.append("%s !! %s %s" % (label, type(e).__name__, msg.replace("\n", " | ")))

def parse_at(d, data, start=0, **kw):
    s = io.BytesIO(data)
    s.seek(start)
    try:
        r = d.parse_stream(s, **kw)
    finally:
        out.append("   pos=%d" % s.tell())
    return r

def build_at(d, obj, prefix=b"", **kw):
    s = io.BytesIO()
    s.write(prefix)
    try:
        r = d.build_stream(obj, s, **kw)
    finally:
        out.append("   pos=%d data=%r" % (s.tell(), s.getvalue()))
    return r

class NoTell:
    """Readable/writable but cannot tell."""
    def __init__(self, data=b""):
        self.b = io.BytesIO(data)
    def read(self, n=-1):
        return self.b.read(n)
    def write(self, d):
        return self.b.write(d)
    def tell(self):
        raise OSError("no tell")

cases = []
for n in (0, 1, 2, 3, 4, 5, 17, -1, -5):
    cases.append(("Padding(%d)" % n, lambda n=n: Padding(n)))
    cases.append(("Padded(%d,Pass)" % n, lambda n=n: Padded(n, Pass)))
    cases.append(("Padded(%d,Byte)" % n, lambda n=n: Padded(n, Byte)))
    cases.append(("Padded(%d,Int24ub)" % n, lambda n=n: Padded(n, Int24ub)))
    cases.append(("Padded(%d,VarInt)" % n, lambda n=n: Padded(n, VarInt)))
    cases.append(("Padded(%d,GreedyBytes)" % n, lambda n=n: Padded(n, GreedyBytes)))
    cases.append(("Padded(%d,Byte,pattern=X)" % n, lambda n=n: Padded(n, Byte, pattern=b"X")))
    cases.append(("Padding(%d,pattern=Z)" % n, lambda n=n: Padding(n, pattern=b"Z")))
cases.append(("Padded(this.n,Int16ub)", lambda: Padded(this.n, Int16ub)))
cases.append(("Padding(this.n)", lambda: Padding(this.n)))
cases.append(("Padded(4,Padded(2,Byte))", lambda: Padded(4, Padded(2, Byte))))
cases.append(("Padded(2,Padded(4,Byte))", lambda: Padded(2, Padded(4, Byte))))
cases.append(("Padded(3,Seek(-1,1))", lambda: Padded(3, Seek(-1, 1))))
cases.append(("Padded(2.5,Byte)", lambda: Padded(2.5, Byte)))
cases.append(("Padded(True,Byte)", lambda: Padded(True, Byte)))
cases.append(("Padded('4',Byte)", lambda: Padded("4", Byte)))
cases.append(("Padded(None,Byte)", lambda: Padded(None, Byte)))
cases.append(("Padded(4,Byte,pattern=bad)", lambda: Padded(4, Byte, pattern=b"ab")))
cases.append(("Padded(4,Byte,pattern=str)", lambda: Padded(4, Byte, pattern="a")))
cases.append(("Struct(Padded,Byte)", lambda: Struct("a" / Padded(3, Int16ub), "b" / Byte)))
cases.append(("Bitwise(Padded(8,Nibble))", lambda: Bitwise(Padded(8, Nibble))))
cases.append(("Bitwise(Struct(Nibble,Padding(4)))", lambda: Bitwise(Struct("a" / Nibble, Padding(4)))))

datas = [b"", b"\x01", b"\x01\x02", b"\x01\x02\x03", b"\x81\x82\x03\x04", b"\x01\x02\x03\x04\x05\x06", bytes(range(20))]
values = [None, 0, 1, 255, 256, 70000, 2**24, -1, b"", b"ab", b"abcdefgh", "x", dict(a=1, b=2), [1]]
ctxs = [{}, dict(n=0), dict(n=2), dict(n=5), dict(n=1), dict(n=-1)]

for label, mk in cases:
    try:
        d = mk()
    except Exception as e:
        out.append("%s ctor !! %s %s" % (label, type(e).__name__, e))
        continue
    out.append("== %s" % label)
    uses_ctx = "this" in label
    for ctx in (ctxs if uses_ctx else [{}]):
        c = " ctx=%r" % (ctx,) if uses_ctx else ""
        for data in datas:
            show("%s parse %r%s" % (label, data, c), lambda: parse_at(d, data, **ctx))
        show("%s parse@2 %r%s" % (label, datas[-1], c), lambda: parse_at(d, datas[-1], 2, **ctx))
        for v in values:
            show("%s build %r%s" % (label, v, c), lambda: build_at(d, v, **ctx))
        show("%s build@3 %r%s" % (label, 1, c), lambda: build_at(d, 1, b"PRE", **ctx))
        show("%s sizeof%s" % (label, c), lambda: d.sizeof(**ctx))
    show("%s parse notell" % label, lambda: d.parse_stream(NoTell(b"\x01\x02\x03\x04\x05")))
    show("%s build notell" % label, lambda: d.build_stream(1, NoTell()))
    def comp():
        dc = d.compile()
        return [(repr(dc.parse(x)) if len(x) >= 5 else None) for x in datas], dc.build(1 if "Pass" not in label and "Padding" not in label else None)
    show("%s compiled" % label, comp)

print("\n".join(out))
