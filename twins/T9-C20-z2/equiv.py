#!/usr/bin/env python
"""usage: equiv.py <repo root>

Deterministic observations of Container equality, copy, deepcopy and pickling
(results, entry order, identity/sharing, order in which user callbacks run,
exception types).  The output must be byte-identical on the reference tree and
on the refactored tree.
"""
import copy
import hashlib
import pickle
import sys

root = sys.argv[1]
sys.path.insert(0, root)

from construct import *
from construct.lib import *
from construct.lib.containers import Container, ListContainer

N = [0]
LOG = []


def show(label, thunk):
    N[0] += 1
    del LOG[:]
    try:
        res = thunk()
        text = repr(res)
    except BaseException as e:
        # the message of a RecursionError depends on which call happened to hit the limit; only its type is observed
        text = "raised %s" % type(e).__name__ if isinstance(e, RecursionError) else "raised %s: %s" % (type(e).__name__, e)
    if LOG:
        text += "   calls=" + ",".join(LOG)
    print("%03d %s -> %s" % (N[0], label, text))


class V:
    """Value whose ==, deepcopy and pickling are logged."""
    def __init__(self, name, eq=True):
        self.name, self.eq = name, eq

    def __eq__(self, other):
        LOG.append("eq(%s,%s)" % (self.name, getattr(other, "name", other)))
        return self.eq

    __hash__ = None

    def __deepcopy__(self, memo):
        LOG.append("deepcopy(%s)" % self.name)
        return V(self.name + "'", self.eq)

    def __repr__(self):
        return "V(%s)" % self.name


class K:
    """Hashable key whose hash/eq/deepcopy are logged."""
    def __init__(self, name):
        self.name = name

    def __hash__(self):
        LOG.append("hash(%s)" % self.name)
        return hash(self.name)

    def __eq__(self, other):
        LOG.append("keyeq(%s)" % self.name)
        return isinstance(other, K) and other.name == self.name

    def __deepcopy__(self, memo):
        LOG.append("deepcopy(key %s)" % self.name)
        return K(self.name)

    def __repr__(self):
        return "K(%s)" % self.name


class S(str):
    """str subclass key: startswith is logged."""
    def startswith(self, prefix, *a):
        LOG.append("startswith(%s)" % str.__str__(self))
        return str.startswith(self, prefix, *a)
    __hash__ = str.__hash__
    __eq__ = str.__eq__


class LoggedDict(dict):
    def items(self):
        LOG.append("LoggedDict.items")
        return dict.items(self)

    def __contains__(self, k):
        LOG.append("contains(%r)" % (k,))
        return dict.__contains__(self, k)

    def __getitem__(self, k):
        LOG.append("getitem(%r)" % (k,))
        return dict.__getitem__(self, k)


class Sub(Container):
    pass


class Boom(Exception):
    pass


class Raiser:
    def __eq__(self, other):
        raise Boom("eq")
    __hash__ = None

    def __deepcopy__(self, memo):
        raise Boom("deepcopy")

    def __reduce__(self):
        raise Boom("reduce")


# ------------------------------------------------------------------ equality
pairs = {
    "empty/empty": (Container(), Container()),
    "empty/dict": (Container(), {}),
    "same order": (Container(a=1, b=2), Container(a=1, b=2)),
    "other order": (Container(a=1, b=2), Container(b=2, a=1)),
    "value differs": (Container(a=1, b=2), Container(a=1, b=3)),
    "extra key right": (Container(a=1), Container(a=1, b=2)),
    "extra key left": (Container(a=1, b=2), Container(a=1)),
    "private only left": (Container(a=1, _x=5), Container(a=1)),
    "private only right": (Container(a=1), {"a": 1, "_io": object}),
    "private differ": (Container(a=1, _x=5), Container(a=1, _x=6)),
    "only private": (Container(_a=1), Container(_b=2)),
    "underscore key": (Container({"_": 1}), Container()),
    "dunder key": (Container(__init__=1), Container()),
    "int keys": (Container({1: "a", 2: "b"}), {2: "b", 1: "a"}),
    "int key missing": (Container({1: "a"}), {}),
    "bytes key with underscore": (Container({b"_x": 1}), Container()),
    "None key": (Container({None: 1}), {None: 1}),
    "tuple key": (Container({("_a",): 1}), {}),
    "nested equal": (Container(a=Container(b=ListContainer([1, Container(c=2)]))), dict(a=dict(b=[1, dict(c=2)]))),
    "nested private": (Container(a=Container(b=1, _c=2)), dict(a=dict(b=1))),
    "nested list differs": (Container(a=ListContainer([1, 2])), Container(a=ListContainer([1, 3]))),
    "nested list shorter": (Container(a=ListContainer([1, 2])), Container(a=ListContainer([1]))),
    "list in list private": (Container(a=[[Container(_p=1, q=2)]]), Container(a=[[Container(q=2)]])),
    "shadowing keys": (Container(items=1, keys=2, update=3), dict(items=1, keys=2, update=3)),
    "shadowing keys differ": (Container(items=1, keys=2), dict(items=1, keys=3)),
    "1 vs True": (Container(a=1), Container(a=True)),
    "1 vs 1.0": (Container(a=1), Container(a=1.0)),
    "str vs bytes": (Container(a="x"), Container(a=b"x")),
    "subclass": (Sub(a=1), Container(a=1)),
    "subclass private": (Sub(a=1, _z=0), Sub(a=1)),
}
for name, (x, y) in pairs.items():
    show("eq  %-28s x==y" % name, lambda: x == y)
    show("eq  %-28s y==x" % name, lambda: y == x)
    show("ne  %-28s x!=y" % name, lambda: x != y)
    show("eq  %-28s x==x, y==y" % name, lambda: (x == x, y == y))

nan = float("nan")
show("eq nan same object", lambda: Container(a=nan) == Container(a=nan))
show("eq nan identity", lambda: (lambda c: c == c)(Container(a=nan)))
for other in (None, 1, "a", [], [("a", 1)], (), object):
    show("eq non-dict %r" % (other,), lambda: (Container(a=1) == other, Container() == other, Container(a=1) != other))

show("eq call order: values", lambda: Container(a=V("a1"), _p=V("p1"), b=V("b1")) == Container(b=V("b2"), a=V("a2"), _q=V("q2")))
show("eq call order: first value unequal", lambda: Container(a=V("a1", False), b=V("b1")) == Container(a=V("a2"), b=V("b2")))
show("eq call order: second pass unequal", lambda: Container(a=1, b=V("b1")) == Container(a=1, b=V("b2", False)))
show("eq call order: missing key stops", lambda: Container(a=V("a1"), zz=1, b=V("b1")) == Container(a=V("a2"), b=V("b2")))
show("eq call order: extra key on right", lambda: Container(a=V("a1")) == Container(a=V("a2"), b=V("b2")))
show("eq call order: keys", lambda: Container({K("k1"): 1, K("k2"): 2}) == Container({K("k2"): 2, K("k1"): 1}))
show("eq call order: str-subclass keys", lambda: Container({S("_p"): 1, S("q"): 2}) == {S("q"): 2, S("_r"): 3})
show("eq other is LoggedDict, equal", lambda: Container(a=1, _p=2, b=3) == LoggedDict(b=3, a=1, _q=9))
show("eq other is LoggedDict, first pass fails", lambda: Container(a=1, b=3) == LoggedDict(a=2, b=3))
show("eq other is LoggedDict, missing", lambda: Container(a=1, b=3) == LoggedDict(b=3))
show("eq other is LoggedDict, extra", lambda: Container(a=1) == LoggedDict(a=1, b=3))
show("eq reflected LoggedDict == Container", lambda: LoggedDict(a=1) == Container(a=1))
show("eq value raising", lambda: Container(a=Raiser()) == Container(a=1))
show("eq value raising on right", lambda: Container(a=1, b=2) == Container(a=1, b=Raiser()))
show("eq private value raising is skipped", lambda: Container(a=1, _b=Raiser()) == Container(a=1, _b=Raiser()))
show("eq identical container with raising value", lambda: (lambda c: c == c)(Container(a=Raiser())))

deep_a = Container(v=0)
deep_b = Container(v=0)
for i in range(10):
    deep_a = Container(n=deep_a, l=ListContainer([i]))
    deep_b = Container(l=ListContainer([i]), n=deep_b)
show("eq 10 levels deep", lambda: (deep_a == deep_b, deep_b == deep_a))
cyc = Container(a=1)
cyc.me = cyc
cyc2 = Container(a=1)
cyc2.me = cyc2
show("eq cyclic same", lambda: cyc == cyc)
show("eq cyclic different objects", lambda: cyc == cyc2)


# ------------------------------------------------------------------ copies
def views(c):
    cls = Container
    return (list(cls.keys(c)), [repr(v) for v in cls.values(c)], list(iter(c)), sorted(k for k in vars(c) if isinstance(k, str)) == sorted(k for k in cls.keys(c) if isinstance(k, str)), vars(c) is c, type(c).__name__)


shared = ListContainer([1, 2])
sources = {
    "empty": Container(),
    "flat": Container(b=2, a=1, _p=3),
    "shadowing": Container(items=1, keys=2, copy=3, update=4, __init__=5, search=6, values=7, clear=8, pop=9),
    "nested": Container(x=Container(y=Container(z=1), w=ListContainer([Container(q=1), [2, 3], {"d": 4}])), t=(1, [2])),
    "shared": Container(p=shared, q=shared, r=Container(s=shared)),
    "non-str keys": Container({1: "one", None: "none", b"b": "bytes", (1, 2): "tuple", "s": "str"}),
    "subclass": Sub(a=1, b=Sub(c=2)),
    "bytes values": Container(data=b"\x00\xff" * 10, text="caf\xe9", big=2 ** 100, f=1.5, n=None, t=True),
}
makers = {
    "copy()": lambda c: Container.copy(c),
    "copy.copy": copy.copy,
    "deepcopy": copy.deepcopy,
    "pickle0": lambda c: pickle.loads(pickle.dumps(c, 0)),
    "pickle2": lambda c: pickle.loads(pickle.dumps(c, 2)),
    "pickle5": lambda c: pickle.loads(pickle.dumps(c, 5)),
}
for sname, src in sources.items():
    for mname, make in makers.items():
        dup = make(src)
        show("%-9s %-12s views" % (mname, sname), lambda: views(dup))
        show("%-9s %-12s equal/distinct" % (mname, sname), lambda: (dup == src, src == dup, dup is src, dict.items(dup) == dict.items(src), repr(dup) == repr(src)))
        show("%-9s %-12s value identity" % (mname, sname), lambda: [dict.__getitem__(dup, k) is dict.__getitem__(src, k) for k in dict.keys(src)])

for mname, make in makers.items():
    dup = make(sources["shared"])
    show("%-9s shared substructure preserved" % mname, lambda: (dup["p"] is dup["q"], dup["p"] is dup["r"]["s"], dup["p"] is shared))
    dup = make(sources["nested"])
    dup["x"]["y"]["z"] = 99
    dict.__getitem__(dup, "x")["w"][1].append(4)
    dup["new"] = 1
    show("%-9s mutation of the duplicate, original now" % mname, lambda: repr(sources["nested"]))
    dup["x"]["y"]["z"] = 1
    dict.__getitem__(dup, "x")["w"][1][:] = [2, 3]
    src = Container(a=1, b=Container(c=2))
    dup = make(src)
    dup.a = 5
    dup.d = 6
    del dup["b"]
    dup.update(e=7)
    show("%-9s attribute/key/iteration coherence after edits" % mname, lambda: (views(dup), dup.a, dup["d"], dup.e, hasattr(dup, "b"), views(src)))
    c = Container(a=1)
    c.me = c
    c.lst = ListContainer([c])
    show("%-9s cyclic" % mname, lambda: (lambda d: (d is not c or mname == "never", d["me"] is d if mname not in ("copy()", "copy.copy") else d["me"] is c, type(d["lst"]).__name__, list(d)))(make(c)))

for proto in range(0, pickle.HIGHEST_PROTOCOL + 1):
    for sname in ("flat", "nested", "shared", "shadowing", "subclass"):
        if sname == "subclass":
            continue  # class defined in __main__; byte content depends on the module name only, but keep it simple
        show("pickle bytes proto=%d %s" % (proto, sname), lambda: hashlib.sha1(pickle.dumps(sources[sname], proto)).hexdigest())

show("__reduce__ shape", lambda: (lambda r: (r[0].__name__, r[1], r[2], r[3], type(r[4]).__name__, list(r[4]), len(r)))(Container(a=1, _b=2).__reduce__()))
show("__reduce__ subclass", lambda: (lambda r: (r[0].__name__, list(r[4])))(Sub(a=1).__reduce__()))
show("__reduce_ex__(4)", lambda: (lambda r: (r[0].__name__, r[1:4], list(r[4])))(Container(items=3).__reduce_ex__(4)))
show("__getstate__", lambda: (Container(a=1, _b=2).__getstate__(), type(Container().__getstate__()).__name__))

show("deepcopy call order", lambda: views(copy.deepcopy(Container({K("k1"): V("v1"), "s": V("v2"), K("k3"): 3}))))
show("deepcopy memo reuse", lambda: (lambda v, memo: (copy.deepcopy(Container(a=v, b=v), memo), len(memo) > 0))(ListContainer([1]), {}))
show("deepcopy direct call registers memo", lambda: (lambda c, memo: (Container.__deepcopy__(c, memo) is memo[id(c)], sorted(type(x).__name__ for x in memo.values())))(Container(a=1), {}))
show("deepcopy value raising", lambda: copy.deepcopy(Container(a=1, b=Raiser())))
show("pickle value raising", lambda: pickle.dumps(Container(a=1, b=Raiser())))
show("copy with shadowed copy key", lambda: views(copy.copy(Container(copy=1, __copy__=2) if False else Container(copy=1))))
show("Container.copy on plain dict", lambda: Container.copy({"a": 1}))
show("Container.__copy__ on plain dict", lambda: Container.__copy__({"a": 1}))
show("Container.__deepcopy__ on plain dict", lambda: Container.__deepcopy__({"a": 1}, {}))
show("Container.__deepcopy__ without memo", lambda: Container.__deepcopy__(Container(a=1)))
show("Container.__deepcopy__ memo None", lambda: Container.__deepcopy__(Container(a=1), None))
show("Container.__eq__ on plain dict self", lambda: Container.__eq__({"a": 1, "_b": 2}, Container(a=1)))

fmt = Struct("a" / Byte, "b" / Struct("c" / Int16ub, "d" / Array(2, Struct("e" / Byte))), "f" / Computed(this.a + 1))
obj = fmt.parse(b"\x01\x00\x02\x03\x04")
show("parsed == expected dict", lambda: (obj == dict(a=1, b=dict(c=2, d=[dict(e=3), dict(e=4)]), f=2), dict(a=1, b=dict(c=2, d=[dict(e=3), dict(e=4)]), f=2) == obj))
show("parsed deepcopy", lambda: (lambda d: (d == obj, d.b is obj.b, d.b.d[0] is obj.b.d[0], repr(d)))(copy.deepcopy(Container((k, v) for k, v in obj.items() if k != "_io"))))
show("parsed copy keeps private", lambda: (lambda d: (list(d), d._io is obj._io, d == obj))(copy.copy(obj)))
show("build from copy", lambda: fmt.build(copy.copy(obj)))
show("sizeof", lambda: fmt.sizeof())

print("observations:", N[0])
