import sys, io, hashlib
sys.path.insert(0, sys.argv[1])
from construct import *
from construct.core import ProcessRotateLeft
from fractions import Fraction


def run(label, fn):
    try:
        r = fn()
        print(label, "OK", repr(r))
    except Exception as e:
        print(label, "EXC", type(e).__name__)


def data_for(n):
    return bytes((i * 37 + 11) & 0xff for i in range(n))


# exhaustive amounts x groups, digest of parse and build results
for group in range(1, 9):
    for amount in range(-64, 65):
        d = ProcessRotateLeft(amount, group, GreedyBytes)
        h = hashlib.sha256()
        for mult in (0, 1, 2, 3):
            data = data_for(group * mult)
            p = d.parse(data)
            b = d.build(data)
            assert d.parse(b) == data and d.build(p) == data
            h.update(p); h.update(b"|"); h.update(b); h.update(b"#")
        print("rot", group, amount, h.hexdigest()[:16])

# wider groups, all amounts in range, bit-pair branch included
for group in range(9, 18):
    h = hashlib.sha256()
    for amount in range(-group * 8 - 3, group * 8 + 4):
        d = ProcessRotateLeft(amount, group, GreedyBytes)
        data = data_for(group * 2)
        p = d.parse(data); b = d.build(data)
        assert d.parse(b) == data and d.build(p) == data
        h.update(p); h.update(b"|"); h.update(b); h.update(b"#")
    print("wide", group, h.hexdigest()[:16])

# explicit outputs for a few
for amount, group, data in [
    (4, 1, b"\x0f\xf0"), (4, 2, b"\x0f\xf0"), (0, 3, b"abcdef"), (8, 3, b"abcdef"),
    (-8, 3, b"abcdef"), (13, 4, b"\x01\x02\x03\x04\x05\x06\x07\x08"), (-13, 4, b"\x01\x02\x03\x04\x05\x06\x07\x08"),
    (1000, 5, b"0123456789"), (-1000, 5, b"0123456789"), (7, 1, b"\x81\x7e"), (64, 8, b"ABCDEFGH"), (63, 8, b"ABCDEFGH"),
]:
    d = ProcessRotateLeft(amount, group, GreedyBytes)
    run("parse %d %d" % (amount, group), lambda: d.parse(data))
    run("build %d %d" % (amount, group), lambda: d.build(data))

# failing: bad length, bad group, odd types
for amount, group, data in [
    (1, 2, b"abc"), (0, 2, b"abc"), (8, 3, b"abcd"), (1, 0, b""), (1, -1, b"ab"), (0, 0, b"ab"),
    ("x", 1, b"ab"), (1, "x", b"ab"), (1.5, 1, b"ab"), (1, 1.0, b"ab"), (8.0, 2, b"abcd"), (None, 1, b"a"), (1, None, b"a"),
    (True, 1, b"\x81"), (3, True, b"\x81"),
    (9.5, 2, b"abcd"), (9.5, 2, b""), (9.0, 2, b""), (9.0, 2, b"ab"), (8.0, 2, b""), (9, 2.0, b""), (9, 2.0, b"ab"), (9, 2.5, b""),
    (Fraction(9), 2, b"abcd"), (Fraction(19, 2), 2, b"abcd"), (Fraction(19, 2), 2, b""), (9, Fraction(2), b"abcd"),
    ("%d", 1, b"ab"), ("%d", 2, b"ab"), ("%d", 2, b""),
]:
    d = ProcessRotateLeft(amount, group, GreedyBytes)
    run("fparse %r %r" % (amount, group), lambda: d.parse(data))
    run("fbuild %r %r" % (amount, group), lambda: d.build(data))

# context lambdas, stream positions, inner subcon, sizeof
d = Struct("a" / Byte, "g" / Byte, "r" / ProcessRotateLeft(this.a, this.g, Int16ub))
run("ctx parse", lambda: d.parse(b"\x04\x02\x0f\xf0"))
run("ctx build", lambda: d.build(dict(a=4, g=2, r=0xff00)))
run("ctx parse badlen", lambda: d.parse(b"\x04\x03\x0f\xf0"))
run("ctx build badlen", lambda: d.build(dict(a=4, g=3, r=0xff00)))
run("ctx group0", lambda: d.parse(b"\x04\x00\x0f\xf0"))
run("sizeof", lambda: ProcessRotateLeft(3, 2, Int16ub).sizeof())
run("sizeof greedy", lambda: ProcessRotateLeft(3, 2, GreedyBytes).sizeof())
run("inner short", lambda: ProcessRotateLeft(3, 1, Int32ub).parse(b"ab"))
run("inner builderr", lambda: ProcessRotateLeft(3, 1, Int32ub).build("zz"))

s = io.BytesIO(b"xy\x01\x02\x03\x04\x05\x06")
s.seek(2)
d = ProcessRotateLeft(12, 3, GreedyBytes)
run("stream parse", lambda: d.parse_stream(s))
print("pos", s.tell())
s = io.BytesIO(b"xy\x01\x02\x03\x04\x05")
s.seek(2)
run("stream parse bad", lambda: d.parse_stream(s))
print("pos", s.tell())
s = io.BytesIO()
s.write(b"hd")
run("stream build", lambda: d.build_stream(b"\x01\x02\x03\x04\x05\x06", s))
print("pos", s.tell(), s.getvalue())
s = io.BytesIO()
run("stream build bad", lambda: d.build_stream(b"\x01\x02\x03\x04", s))
print("pos", s.tell(), s.getvalue())
print("table", hashlib.sha256(repr(ProcessRotateLeft.precomputed_single_rotations).encode()).hexdigest()[:16])
