import sys
sys.path.insert(0, sys.argv[1])
import construct
from construct import *
from construct.core import KsyGen

assert construct.__file__.startswith(sys.argv[1]), construct.__file__


def show(label, con, bitwise=False):
    for entry in ("_compileseq", "_compilefulltype", "_compileprimitivetype", "_emitseq"):
        gen = KsyGen()
        try:
            r = getattr(con, entry)(gen, bitwise)
            out = repr(r)
        except Exception as e:
            out = "EXC %s %s" % (type(e).__name__, e)
        print(label, entry, bitwise, out)
        print("   gen", gen.nextid, repr(gen.instances), repr(gen.enums), repr(gen.types))


class Bare(Construct):
    pass


class Logged(Construct):
    """records the order in which Prefixed asks its members for their types"""
    log = []

    def __init__(self, tag, size=None, fail=None):
        super().__init__()
        self.tag = tag
        self.size = size
        self.fail = fail

    def _sizeof(self, context, path):
        Logged.log.append("sizeof " + self.tag)
        if self.size is None:
            raise SizeofError("no size", path=path)
        return self.size

    def _emitprimitivetype(self, ksy, bitwise):
        Logged.log.append("prim " + self.tag)
        if self.fail is not None:
            raise self.fail
        return "%s_%s" % (self.tag, ksy.allocateId())


cases = [
    ("byte_greedy", Prefixed(Byte, GreedyBytes)),
    ("byte_greedy_incl", Prefixed(Byte, GreedyBytes, includelength=True)),
    ("u16_greedy_incl", Prefixed(Int16ub, GreedyBytes, includelength=True)),
    ("u32le_struct", Prefixed(Int32ul, Struct("a" / Byte, "b" / Int16ub))),
    ("u32le_struct_incl", Prefixed(Int32ul, Struct("a" / Byte, "b" / Int16ub), includelength=True)),
    ("varint_greedy", Prefixed(VarInt, GreedyBytes)),
    ("varint_greedy_incl", Prefixed(VarInt, GreedyBytes, includelength=True)),
    ("incl_zero", Prefixed(Byte, GreedyBytes, includelength=0)),
    ("incl_str", Prefixed(Byte, GreedyBytes, includelength="yes")),
    ("incl_none", Prefixed(Byte, GreedyBytes, includelength=None)),
    ("enum_len", Prefixed(Enum(Byte, a=1), GreedyBytes, includelength=True)),
    ("pointer_len", Prefixed(Pointer(2, Byte), GreedyBytes)),
    ("pointer_both", Prefixed(Pointer(2, Byte), Pointer(3, Int16ub), includelength=True)),
    ("enum_both", Prefixed(Enum(Byte, a=1), Enum(Int16ub, b=2))),
    ("nested", Prefixed(Byte, Prefixed(Int16ub, GreedyBytes, includelength=True))),
    ("nested_types", Prefixed(Byte, Struct("p" / Prefixed(Byte, Array(2, Struct("q" / Byte)))))),
    ("array_sub", Prefixed(Byte, GreedyRange(Int16ub))),
    ("string_sub", Prefixed(Byte, GreedyString("utf8"))),
    ("bare_len", Prefixed(Bare(), GreedyBytes)),
    ("bare_len_incl", Prefixed(Bare(), GreedyBytes, includelength=True)),
    ("bare_sub", Prefixed(Byte, Bare())),
    ("bare_sub_incl", Prefixed(Byte, Bare(), includelength=True)),
    ("bare_both", Prefixed(Bare(), Bare(), includelength=True)),
    ("ctx_len", Prefixed(BytesInteger(this.n), GreedyBytes, includelength=True)),
    ("renamed", "blob" / Prefixed(Byte, GreedyBytes)),
    ("in_struct", Struct("n" / Byte, "blob" / Prefixed(Int16ul, GreedyBytes, includelength=True), "t" / Byte)),
    ("in_array", Array(2, Prefixed(Byte, GreedyBytes))),
    ("pascal", PascalString(Byte, "utf8")),
    ("prefixedarray", PrefixedArray(Byte, Int16ub)),
    ("float_len", Prefixed(Float32b, GreedyBytes, includelength=True)),
]

for label, con in cases:
    show(label, con, False)
    show(label, con, True)

# evaluation order / exception precedence between sizeof and the two type requests
combos = [
    ("ok", Logged("L", 2), Logged("S", 1)),
    ("len_nosize", Logged("L", None), Logged("S", 1)),
    ("len_fails", Logged("L", 2, KeyError("len")), Logged("S", 1, ValueError("sub"))),
    ("sub_fails", Logged("L", 2), Logged("S", 1, ValueError("sub"))),
    ("len_nosize_and_fails", Logged("L", None, KeyError("len")), Logged("S", 1, ValueError("sub"))),
    ("len_notimpl", Logged("L", 2, NotImplementedError()), Logged("S", 1)),
    ("sub_notimpl", Logged("L", 2), Logged("S", 1, NotImplementedError())),
]
for label, lf, sc in combos:
    for incl in (False, True):
        for bitwise in (False, True):
            Logged.log = []
            show("%s incl=%s" % (label, incl), Prefixed(lf, sc, includelength=incl), bitwise)
            print("   log", Logged.log)

# parse/build/sizeof of the same class still as before
for incl in (False, True):
    d = Prefixed(Byte, GreedyBytes, includelength=incl)
    for data in (b"", b"\x00", b"\x01", b"\x03abc", b"\x03ab", b"\x04abcXYZ"):
        try:
            print("parse", incl, data, d.parse(data))
        except Exception as e:
            print("parse", incl, data, "EXC", type(e).__name__)
    for obj in (b"", b"abc", b"x" * 255, b"x" * 256, None):
        try:
            print("build", incl, len(obj) if obj is not None else None, d.build(obj)[:4])
        except Exception as e:
            print("build", incl, "EXC", type(e).__name__)
    try:
        print("sizeof", d.sizeof())
    except Exception as e:
        print("sizeof EXC", type(e).__name__)

try:
    Prefixed(Byte, GreedyBytes).export_ksy()
    print("export ok")
except Exception as e:
    print("export EXC", type(e).__name__)
