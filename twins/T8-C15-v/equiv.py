import sys, io, hashlib
sys.path.insert(0, sys.argv[1])
from construct import *


def run(label, fn):
    try:
        r = fn()
        print(label, "OK", repr(r))
    except Exception as e:
        print(label, "EXC", type(e).__name__)


def data_for(n):
    return bytes((i * 37 + 11) & 0xff for i in range(n))


# every single-byte key, int and bytes spelling
for k in range(256):
    h = hashlib.sha256()
    for pad in (k, bytes([k])):
        d = ProcessXor(pad, GreedyBytes)
        for n in (0, 1, 5, 70):
            data = data_for(n)
            p = d.parse(data); b = d.build(data)
            assert p == b and d.parse(b) == data
            h.update(p); h.update(b"#")
    print("key1", k, h.hexdigest()[:16])

# byte-string keys of length 1..80 incl. all-zero, and near-zero
for n in range(0, 81):
    h = hashlib.sha256()
    for pad in (bytes(n), bytes((i * 7 + 3) & 0xff for i in range(n)), bytes(max(n - 1, 0)) + b"\x01" * min(n, 1)):
        d = ProcessXor(pad, GreedyBytes)
        for m in (0, 1, n - 1 if n else 0, n, n + 1, 2 * n + 3, 200):
            data = data_for(m)
            p = d.parse(data); b = d.build(data)
            assert p == b and d.parse(b) == data
            h.update(p); h.update(b"#")
    print("keyN", n, h.hexdigest()[:16])

# explicit
for pad, data in [
    (0xf0, b"\x00\xff"), (b"\xf0", b"\x00\xff"), (b"\x01\x02", b"\x00\x00\x00\x00\x00"), (b"", b"abc"), (0, b"abc"),
    (b"\x00" * 64, b"abc"), (b"\x00" * 65, b"abc"), (b"\x00" * 65 + b"\x01", b"a" * 70), (b"abc", b""), (b"abcdef", b"xy"),
]:
    d = ProcessXor(pad, GreedyBytes)
    run("parse %r" % (pad,), lambda: d.parse(data))
    run("build %r" % (pad,), lambda: d.build(data))

# failing pads
for pad in ("x", 1.5, None, bytearray(b"ab"), [1, 2], 256, -1, 1 << 70, True, False, memoryview(b"ab")):
    d = ProcessXor(pad, GreedyBytes)
    run("fparse %r" % (type(pad).__name__,), lambda: d.parse(b"\x01\x02\x03"))
    run("fbuild %r" % (type(pad).__name__,), lambda: d.build(b"\x01\x02\x03"))
    run("fparse-empty %r" % (type(pad).__name__,), lambda: d.parse(b""))
    run("fbuild-empty %r" % (type(pad).__name__,), lambda: d.build(b""))

# context lambda, inner subcon, offsets, sizeof
d = Struct("k" / Bytes(2), "v" / ProcessXor(this.k, Int32ub), )
run("ctx parse", lambda: d.parse(b"\x0f\xf0\x00\x00\x00\x01"))
run("ctx build", lambda: d.build(dict(k=b"\x0f\xf0", v=1)))
run("ctx short", lambda: d.parse(b"\x0f\xf0\x00"))
d = Struct("k" / Byte, "v" / ProcessXor(this.k, Struct("a" / Tell, "b" / Byte, "c" / Tell)))
run("tell parse", lambda: d.parse(b"\x0f\xf0\x00"))
run("tell build", lambda: d.build(dict(k=3, v=dict(b=5))))
run("sizeof", lambda: ProcessXor(b"ab", Int16ub).sizeof())
run("sizeof greedy", lambda: ProcessXor(b"ab", GreedyBytes).sizeof())
run("inner builderr", lambda: ProcessXor(b"ab", Int16ub).build("zz"))

s = io.BytesIO(b"xy\x01\x02\x03\x04\x05")
s.seek(2)
d = ProcessXor(b"\x10\x20\x30", GreedyBytes)
run("stream parse", lambda: d.parse_stream(s))
print("pos", s.tell())
s = io.BytesIO(); s.write(b"hd")
run("stream build", lambda: d.build_stream(b"\x01\x02\x03\x04\x05", s))
print("pos", s.tell(), s.getvalue())


class StrStream:
    def __init__(self): self.p = 0
    def read(self, n=None): return "abc"
    def tell(self): return 0
    def seek(self, *a): return 0
run("strstream", lambda: ProcessXor(b"ab", GreedyBytes).parse_stream(StrStream()))
run("strstream int", lambda: ProcessXor(5, GreedyBytes).parse_stream(StrStream()))
run("strstream zero", lambda: ProcessXor(b"\0\0", GreedyBytes).parse_stream(StrStream()))
