import sys, io, itertools
sys.path.insert(0, sys.argv[1])
from construct import *

def parse_at(con, data, start):
    s = io.BytesIO(data)
    s.seek(start)
    try:
        r = con.parse_stream(s)
        return ("ok", r, s.tell())
    except Exception as e:
        return ("exc", type(e).__name__, str(e).replace("\n", " / "), s.tell())

def flat(r):
    if r[0] == "ok" and isinstance(r[1], Container):
        d = r[1]
        raw = d["raw"]
        return ("ok", d["t1"], raw.data, raw.offset1, raw.offset2, raw.length, d["t2"], r[2])
    return r

pads = [b"", b"\x00", b"\xff", b"\x00\x00", b"\x00\x01", b"ab", b"\x00\x00\x00", b"abc", b"\x00\x00\x00\x00", b"aaaa", b"abcde"]
inner = Struct("t1" / Tell, "raw" / RawCopy(GreedyBytes), "t2" / Tell)

# exhaustive small payloads over a tiny alphabet related to each pad
for pad in pads:
    alphabet = sorted(set(pad) | {0, 0x61, 0x7a})
    con_g = NullStripped(GreedyBytes, pad=pad)
    con_s = NullStripped(inner, pad=pad)
    maxlen = 6 if len(alphabet) <= 3 else 5
    for n in range(0, maxlen + 1):
        for tup in itertools.product(alphabet, repeat=n):
            data = bytes(tup)
            print("G", pad, data, parse_at(con_g, data, 0))
    for data in [b"", pad, pad * 2, pad * 5, b"x" + pad, b"x" + pad * 3, pad + b"x", pad * 2 + b"x" + pad * 2,
                 b"xy" + pad * 2 + pad[:1], b"xyz" + pad * 2 + pad[:2], b"xyz" + pad[1:] + pad, pad[1:], pad[:1], pad[:-1],
                 b"q" * 7 + pad[:-1] if pad else b"q", bytes(range(40)) + pad * 4, pad * 4 + pad[:1] * 2]:
        for start in range(0, min(len(data), 5) + 1):
            print("S", pad, data, start, flat(parse_at(con_s, data, start)))
            print("B", pad, data, start, parse_at(NullStripped(Byte, pad=pad), data, start))

# build / sizeof untouched but recorded
for pad in pads:
    con = NullStripped(GreedyBytes, pad=pad)
    for obj in (b"", b"abc", pad * 2):
        try:
            print("build", pad, obj, con.build(obj))
        except Exception as e:
            print("build", pad, obj, type(e).__name__, str(e).replace("\n", " / "))
    try:
        print("sizeof", pad, con.sizeof())
    except Exception as e:
        print("sizeof", pad, type(e).__name__)

# nested inside / around other delimiters
for pad in (b"\x00", b"\x00\x00", b"ab", b"\x00\x00\x00"):
    nests = [
        ("Prefixed(NS)", Prefixed(Byte, NullStripped(inner, pad=pad))),
        ("FixedSized5(NS)", FixedSized(5, NullStripped(inner, pad=pad))),
        ("FixedSized6(NS)", FixedSized(6, NullStripped(inner, pad=pad))),
        ("NS(Prefixed)", NullStripped(Prefixed(Byte, inner), pad=pad)),
        ("NS(NS1)", NullStripped(NullStripped(inner, pad=b"\x00"), pad=pad)),
        ("OffsettedEnd(NS)", OffsettedEnd(-2, NullStripped(inner, pad=pad))),
        ("Xor(NS)", ProcessXor(b"\x00\x00", NullStripped(inner, pad=pad))),
        ("NT(NS)", NullTerminated(NullStripped(inner, pad=pad), term=b"\xfe")),
        ("Prefixed(FixedSized4(NS))", Prefixed(Byte, FixedSized(4, NullStripped(inner, pad=pad)))),
        ("PaddedString", PaddedString(6, "utf16")),
        ("PaddedString32", PaddedString(8, "utf32")),
    ]
    for name, con in nests:
        for data in (b"", b"\x06xy" + pad * 2 + b"\xfe" + pad, b"\x05a\x00\x00\x00\x00\x00\xfe", b"\x04abab\x00\x00ab",
                     b"\x03x\x00\x00\x00\x00\x00\x00\x00", b"\x09\x00", b"a\x00b\x00\x00\x00\x00\x00\x00"):
            for start in (0, 1, 2, 3):
                if start > len(data):
                    continue
                print("N", pad, name, data, start, flat(parse_at(con, data, start)))
