import sys, io
sys.path.insert(0, sys.argv[1])
from construct import *

log = []


class Probe(Construct):
    """Records every _parse/_build call and stream position; behaves per mode."""
    def __init__(self, tag, mode, nbytes=1):
        super().__init__()
        self.tag = tag
        self.mode = mode
        self.nbytes = nbytes

    def _act(self, what, stream):
        try:
            pos = stream.tell()
        except Exception:
            pos = None
        log.append((self.tag, what, pos))
        if self.mode == "explicit":
            raise ExplicitError("boom")
        if self.mode == "keyerr":
            raise KeyError("k")
        if self.mode == "stream":
            raise StreamError("s")
        if self.mode == "base":
            raise KeyboardInterrupt()
        if self.mode == "stopiter":
            raise StopIteration()

    def _parse(self, stream, context, path):
        data = stream.read(self.nbytes)  # consume BEFORE possibly failing so that seek-back matters
        self._act("parse", stream)
        if len(data) != self.nbytes:
            raise StreamError("short")
        return (self.tag, data)

    def _build(self, obj, stream, context, path):
        stream.write(b"<" + self.tag.encode() + b">")
        self._act("build", stream)
        return obj


def run(label, fn):
    del log[:]
    try:
        r = fn()
        print(label, "->", repr(r), "| log", log)
    except BaseException as e:
        print(label, "!!", type(e).__name__, getattr(e, "path", None), "| log", log)


def parse_pos(d, data, **ctx):
    s = io.BytesIO(data)
    try:
        r = d.parse_stream(s, **ctx)
        return ("ok", r, s.tell())
    except BaseException as e:
        return ("exc", type(e).__name__, getattr(e, "path", None), s.tell())


def build_pos(d, obj, **ctx):
    s = io.BytesIO(b"PRE")
    s.seek(3)
    try:
        r = d.build_stream(obj, s, **ctx)
        return ("ok", r, s.getvalue(), s.tell())
    except BaseException as e:
        return ("exc", type(e).__name__, getattr(e, "path", None), s.getvalue(), s.tell())


modes = ["ok", "explicit", "keyerr", "stream", "base", "stopiter"]
for m1 in modes:
    for m2 in modes:
        d = Select(Probe("a", m1, 2), Probe("b", m2, 1))
        for data in [b"", b"x", b"xyz"]:
            run("PARSE %s/%s %r" % (m1, m2, data), lambda: parse_pos(d, data))
        run("BUILD %s/%s" % (m1, m2), lambda: build_pos(d, 7))

run("EMPTY parse", lambda: parse_pos(Select(), b"abc"))
run("EMPTY build", lambda: build_pos(Select(), 1))
run("KW", lambda: [sc.name for sc in Select(num=Int32ub, text=CString("utf8")).subcons])

constructs = [
    ("IntOrCStr", Select(Int32ub, CString("utf8"))),
    ("ByteOrShort", Select(Int16ub, Byte)),
    ("OptByte", Optional(Byte)),
    ("OptShort", Optional(Int16ul)),
    ("ConstSel", Select(Const(b"AB"), Const(b"A"), Bytes(1))),
    ("ErrFirst", Select(Error, Byte)),
    ("ErrSecond", Select(Int16ub, Error)),
    ("CheckSel", Select(Struct("a" / Byte, Check(this.a > 5)), Struct("b" / Byte))),
    ("Nested", Select(Select(Const(b"\x01"), Const(b"\x02")), Select(Int16ub, Pass))),
    ("Named", Select("num" / Int32ub, "text" / CString("utf8"))),
    ("InStruct", Struct("x" / Select(Int16ub, Byte), "y" / Optional(Byte), "z" / Select(Const(b"Z"), Pass))),
    ("Ctx", Struct("n" / Byte, "v" / Select(Bytes(this.n), GreedyBytes))),
    ("Array", GreedyRange(Select(Const(b"\x00\x00"), Const(b"\x01")))),
    ("VarSel", Select(Padded(2, VarInt), VarInt)),
    ("Term", Select(Struct("a" / Byte, Terminated), Int16ub)),
]

datas = [b"", b"\x00", b"\x01", b"A", b"AB", b"ABC", b"\x07", b"\x00\x00\x01\x00", b"\x00\x00\x00\x01",
         b"ab\x00", b"\xff\xff", b"\x80", b"\x80\x01", b"\x05hello", b"\x02Z", b"\x01\x02Z\x03", b"\xd0\x90\x00", b"\xff\xfe\x00"]

objs = [None, 0, 1, 255, 256, 65535, 65536, 2**32, -1, "x", "Афон", b"A", b"AB", b"Z", b"", [b"\x01"], [b"\x00\x00", b"\x01", b"\x01"], [1],
        dict(a=9), dict(a=1), dict(b=1), dict(a=1, b=2), dict(x=1, y=2, z=None), dict(x=300, y=None, z=b"Z"), dict(x=None, y=None, z=None),
        dict(n=2, v=b"ab"), dict(n=2, v=b"abc"), dict(n=None, v=b"q")]

for name, d in constructs:
    for data in datas:
        print("PARSE", name, data, parse_pos(d, data))
    for obj in objs:
        print("BUILD", name, repr(obj), build_pos(d, obj))
    for data in datas:
        try:
            o = d.parse(data)
            b1 = d.build(o)
            o2 = d.parse(b1)
            b2 = d.build(o2)
            print("RT", name, data, repr(o), b1, o == o2, b1 == b2)
        except Exception as e:
            print("RT", name, data, "!!", type(e).__name__)
    try:
        print("SIZEOF", name, d.sizeof())
    except Exception as e:
        print("SIZEOF", name, "!!", type(e).__name__)
    print("FLAGBUILDNONE", name, d.flagbuildnone)


# non-seekable streams: tell/seek failures surface the same way
class NoSeek(io.BytesIO):
    def seek(self, *a):
        raise OSError("noseek")

class NoTell(io.BytesIO):
    def tell(self):
        raise OSError("notell")

for name, d in constructs[:5]:
    for cls in (NoSeek, NoTell):
        for data in [b"", b"A", b"AB\x00\x00"]:
            s = cls(data)
            try:
                r = d.parse_stream(s)
                print("NS", cls.__name__, name, data, "->", repr(r))
            except Exception as e:
                print("NS", cls.__name__, name, data, "!!", type(e).__name__, getattr(e, "path", None))

# context passing in build (sc.build(obj, **context))
d = Struct("k" / Byte, "s" / Select(Check(this.k == 1) >> Byte, Struct("q" / Bytes(this._.k))))
for obj in [dict(k=1, s=[None, 5]), dict(k=2, s=dict(q=b"ab")), dict(k=3, s=dict(q=b"ab")), dict(k=1, s=dict(q=b"a"))]:
    print("CTX", repr(obj), build_pos(d, obj))
for data in [b"\x01\x05", b"\x02ab", b"\x03ab", b"\x00"]:
    print("CTX", data, parse_pos(d, data))
