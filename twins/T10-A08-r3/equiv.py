import sys
sys.path.insert(0, sys.argv[1])

import io

from construct import *
from construct.lib import *
from construct.lib.bitstream import RestreamedBytesIO


class LoggedBytesIO(io.BytesIO):
    def read(self, n=-1):
        r = io.BytesIO.read(self, n)
        print("      sub.read(%r) -> %r, sub.tell=%d" % (n, r, self.tell()))
        return r


class NoneStream(object):
    """non-blocking style stream that answers None when it has nothing"""
    def __init__(self, chunks):
        self.chunks = list(chunks)

    def read(self, n):
        r = self.chunks.pop(0) if self.chunks else None
        print("      nonestream.read(%r) -> %r" % (n, r))
        return r


def logged(name, fn):
    def wrapper(data):
        r = fn(data)
        print("      %s(%r) -> %r" % (name, data, r))
        return r
    return wrapper


def state(s):
    return "rbuffer=%r wbuffer=%r tell=%r" % (s.rbuffer, s.wbuffer, s.tell())


def step(s, label, fn):
    try:
        r = fn()
        print("   %s -> %r | %s" % (label, r, state(s)))
    except Exception as e:
        print("   %s !! %s: %s | %s" % (label, type(e).__name__, e, state(s)))


def bitstream(data):
    return RestreamedBytesIO(LoggedBytesIO(data), logged("bytes2bits", bytes2bits), 1, logged("bits2bytes", bits2bytes), 8)


def bytestream(data):
    return RestreamedBytesIO(LoggedBytesIO(data), logged("bits2bytes", bits2bytes), 8, logged("bytes2bits", bytes2bits), 1)


def swapstream(data, unit):
    return RestreamedBytesIO(LoggedBytesIO(data), logged("swapbytes", swapbytes), unit, logged("swapbytes", swapbytes), unit)


print("== bit view of bytes")
s = bitstream(b"\xa5\x0f\xff")
step(s, "read(0)", lambda: s.read(0))
step(s, "read(3)", lambda: s.read(3))
step(s, "read(5)", lambda: s.read(5))
step(s, "read(9)", lambda: s.read(9))
step(s, "read(-1)", lambda: s.read(-1))
step(s, "read(100)", lambda: s.read(100))
step(s, "close", lambda: s.close())
step(s, "read()", lambda: s.read())
step(s, "read() again", lambda: s.read())
step(s, "read(1) at eof", lambda: s.read(1))
step(s, "read(0) at eof", lambda: s.read(0))
step(s, "close", lambda: s.close())

print("== read until EOF directly")
s = bitstream(b"\x01\x80")
step(s, "read(None)", lambda: s.read(None))
step(s, "seek(16)", lambda: s.seek(16))
step(s, "seek(0)", lambda: s.seek(0))
step(s, "seek(0,1)", lambda: s.seek(0, 1))
s = bitstream(b"")
step(s, "read() empty", lambda: s.read())
step(s, "read(1) empty", lambda: s.read(1))
step(s, "read(-5) empty", lambda: s.read(-5))

print("== byte view of bits")
s = bytestream(bytes2bits(b"hello") + b"\x01\x00\x01")
step(s, "read(2)", lambda: s.read(2))
step(s, "read(1)", lambda: s.read(1))
step(s, "read(3)", lambda: s.read(3))
step(s, "read()", lambda: s.read())
s = bytestream(bytes2bits(b"hi") + b"\x01\x00\x01")
step(s, "read()", lambda: s.read())

print("== swapped units")
for unit in (1, 2, 4, 5):
    s = swapstream(b"0123456789", unit)
    step(s, "unit %d read(3)" % unit, lambda: s.read(3))
    step(s, "unit %d read(4)" % unit, lambda: s.read(4))
    step(s, "unit %d read(4)" % unit, lambda: s.read(4))
    step(s, "unit %d read()" % unit, lambda: s.read())
    step(s, "unit %d close" % unit, lambda: s.close())

print("== substream answering None")
s = RestreamedBytesIO(NoneStream([b"ab", b"cd", None, b"ef"]), logged("upper", bytes.upper), 2, None, 2)
step(s, "read(3)", lambda: s.read(3))
step(s, "read(3)", lambda: s.read(3))
step(s, "read(1)", lambda: s.read(1))
step(s, "read()", lambda: s.read())
step(s, "read()", lambda: s.read())
s = RestreamedBytesIO(NoneStream([b"ab", b"", b"cd"]), logged("upper", bytes.upper), 2, None, 2)
step(s, "read()", lambda: s.read())
step(s, "read(2)", lambda: s.read(2))
step(s, "read(2)", lambda: s.read(2))

print("== odd count arguments")
s = bitstream(b"\xf0\xf0")
step(s, "read(True)", lambda: s.read(True))
step(s, "read(2.0)", lambda: s.read(2.0))
step(s, "read('3')", lambda: s.read("3"))
step(s, "read(count=4)", lambda: s.read(count=4))
step(s, "write then tell", lambda: s.write(b"\x01\x00"))

print("== through the public constructs")


def obs(label, fn):
    try:
        print("%s -> %r" % (label, fn()))
    except Exception as e:
        print("%s !! %s: %s" % (label, type(e).__name__, e))


d = BitStruct("a" / BitsInteger(3), "b" / Flag, "c" / Nibble, "t" / Tell, "d" / BitsInteger(8))
obs("BitStruct parse", lambda: [(k, v) for k, v in d.parse(b"\xb7\x5a").items() if k != "_io"])
obs("BitStruct parse short", lambda: d.parse(b"\xb7"))
obs("BitStruct parse compiled", lambda: [(k, v) for k, v in d.compile().parse(b"\xb7\x5a").items() if k != "_io"])
obs("Bitwise(GreedyBytes)", lambda: Bitwise(GreedyBytes).parse(b"\x81\x01"))
obs("Bitwise(GreedyRange(Bit))", lambda: Bitwise(GreedyRange(Bit)).parse(b"\xc3"))
obs("Bitwise(Bytes(12)) leftover", lambda: Struct("x" / Bitwise(Bytes(this._.n)), "r" / GreedyBytes).parse(b"\xff\x00\x55", n=16))
obs("Bitwise leftover bits", lambda: Bitwise(GreedyRange(BitsInteger(3))).parse(b"\xff"))
obs("Bytewise in Bitwise", lambda: Bitwise(Struct("n" / Nibble, "b" / Bytewise(Bytes(2)), "m" / Nibble)).parse(b"\x12\x34\x56"))
obs("ByteSwapped GreedyBytes", lambda: Restreamed(GreedyBytes, swapbytes, 2, swapbytes, 2, lambda n: n).parse(b"abcdef"))
obs("Restreamed Bytes(3) unit 2", lambda: Restreamed(Bytes(3), swapbytes, 2, swapbytes, 2, lambda n: n).parse(b"abcdef"))
obs("Restreamed Bytes(4) unit 2", lambda: Restreamed(Struct("a" / Bytes(4), "t" / Tell), swapbytes, 2, swapbytes, 2, lambda n: n).parse(b"abcdef"))
obs("Restreamed Bytes(9) short", lambda: Restreamed(Bytes(9), swapbytes, 2, swapbytes, 2, lambda n: n).parse(b"abcdef"))
obs("BitsSwapped", lambda: BitsSwapped(Bytes(2)).parse(b"\x01\x80"))
obs("BitStruct build", lambda: d.build(dict(a=5, b=True, c=7, d=90)))
obs("BitStruct sizeof", lambda: d.sizeof())
