import sys
sys.path.insert(0, sys.argv[1])
import io
from construct import *
from construct.lib import *

out = []
def show(label, fn):
    try:
        r = fn()
        out.append("%s -> %r" % (label, r))
    except Exception as e:
        msg = str(e) if isinstance(e, ConstructError) else ""
        out.append("%s !! %s %s" % (label, type(e).__name__, msg.replace("\n", " | ")))

def parse_at(d, data, start=0):
    s = io.BytesIO(data)
    s.seek(start)
    try:
        return d.parse_stream(s)
    finally:
        out.append("   pos=%d" % s.tell())

def build_at(d, obj, prefix=b""):
    s = io.BytesIO()
    s.write(prefix)
    try:
        return d.build_stream(obj, s)
    finally:
        out.append("   pos=%d data=%r" % (s.tell(), s.getvalue()))

ident = lambda b: b
double = lambda b: b + b
drop = lambda b: b[:-1]
tonone = lambda b: None
tolist = lambda b: list(b)
def boom(b):
    raise KeyError("boom")

# 1. Transformed directly, with every flavour of amount
amounts = [None, 0, 1, 2, 3, 4, 8, -1, True, False, 2.0, "2", (2,), b"\x02"]
funcs = [("ident", ident), ("double", double), ("drop", drop), ("swap", swapbytes), ("bits", bytes2bits),
         ("unbits", bits2bytes), ("none", tonone), ("list", tolist), ("boom", boom)]
subcons = [("Bytes2", Bytes(2)), ("Greedy", GreedyBytes), ("Int16ub", Int16ub), ("Pass", Pass)]
datas = [b"", b"\x01", b"\x01\x02", b"\x01\x02\x03", b"\x00\x01\x00\x01\x01\x00\x00\x01", bytes(range(1, 20))]
objs = [b"", b"a", b"ab", b"abc", 258, None, "ab"]

for sl, sc in subcons:
    for da in amounts:
        for fl, fn in funcs:
            d = Transformed(sc, fn, da, fn, da)
            label = "T(%s,%s,%r)" % (sl, fl, da)
            for data in datas:
                show("%s parse %r" % (label, data), lambda: parse_at(d, data))
            show("%s parse@1 %r" % (label, datas[-1]), lambda: parse_at(d, datas[-1], 1))
            for o in objs:
                show("%s build %r" % (label, o), lambda: build_at(d, o))
            show("%s build@2" % label, lambda: build_at(d, b"ab", b"PP"))
            show("%s sizeof" % label, lambda: d.sizeof())

# mixed decode / encode amounts
for da in (None, 2, 3, "2"):
    for ea in (None, 2, 3, "2", True):
        d = Transformed(Bytes(2), ident, da, double, ea)
        label = "Tmix(%r,%r)" % (da, ea)
        show("%s parse" % label, lambda: parse_at(d, b"abcdef"))
        show("%s build" % label, lambda: build_at(d, b"ab"))
        show("%s build1" % label, lambda: build_at(Transformed(Bytes(1), ident, da, double, ea), b"a"))
        show("%s sizeof" % label, lambda: d.sizeof())

# 2. the documented laws that run through Transformed
def both(label, pairs, datas, values):
    for side, d in pairs:
        for data in datas:
            show("%s.%s parse %r" % (label, side, data), lambda: parse_at(d, data))
        for v in values:
            show("%s.%s build %r" % (label, side, v), lambda: build_at(d, v))
        show("%s.%s sizeof" % (label, side), lambda: d.sizeof())

for n in (1, 2, 3, 4, 8, 16):
    for signed in (False, True):
        for swapped in (False, True):
            label = "law n=%d signed=%s swapped=%s" % (n, signed, swapped)
            a = BytesInteger(n, signed=signed, swapped=swapped)
            b = Bitwise(BitsInteger(8 * n, signed=signed, swapped=swapped))
            c = Bitwise(Bytewise(BytesInteger(n, signed=signed, swapped=swapped)))
            ds = [bytes(n - 1), bytes(range(0x7e, 0x7e + n)), b"\xff" * n, b"\x80" + bytes(n - 1), bytes(range(0xe0, 0xe0 + n + 1))]
            vs = [0, 1, -1, 2 ** (8 * n - 1) - 1, 2 ** (8 * n - 1), -2 ** (8 * n - 1), -2 ** (8 * n - 1) - 1,
                  2 ** (8 * n) - 1, 2 ** (8 * n), None, 1.0, "1", True]
            both(label, [("BytesInteger", a), ("Bitwise(BitsInteger)", b), ("Bitwise(Bytewise(BytesInteger))", c)], ds, vs)

both("int24", [("Int24ul", Int24ul), ("ByteSwapped(Int24ub)", ByteSwapped(Int24ub)),
               ("BytesInteger(3,swapped)", BytesInteger(3, swapped=True)), ("ByteSwapped(BytesInteger(3))", ByteSwapped(BytesInteger(3)))],
     [b"", b"\x01\x02", b"\x01\x02\x03", b"\x01\x02\x03\x04", b"\xff\xfe\xfd"], [0, 1, 0x010203, 2 ** 24 - 1, 2 ** 24, -1, None])

S = Struct("a" / Nibble, "b" / Nibble, "c" / BitsInteger(8))
both("bitstruct", [("BitStruct", BitStruct("a" / Nibble, "b" / Nibble, "c" / BitsInteger(8))), ("Bitwise(Struct)", Bitwise(S))],
     [b"", b"\x12", b"\x12\x34", b"\x12\x34\x56"],
     [dict(a=1, b=2, c=3), dict(a=16, b=2, c=3), dict(a=1, b=2), dict(a=1, b=2, c=256), None])

both("bitsswapped", [("BitsSwapped(Bytes(2))", BitsSwapped(Bytes(2))), ("BitsSwapped(Bitwise(Bytes(8)))", BitsSwapped(Bitwise(Bytes(8)))),
                     ("BitsSwapped(GreedyBytes)", BitsSwapped(GreedyBytes)), ("ByteSwapped(Bytes(0))", ByteSwapped(Bytes(0)))],
     [b"", b"\x01", b"\x01\x80", b"\x01\x80\xf0"],
     [b"", b"\x01", b"\x01\x80", b"\x01\x80\xf0", b"\x00\x01\x00\x00\x00\x00\x00\x01", None])

show("ByteSwapped(GreedyBytes)", lambda: ByteSwapped(GreedyBytes))
show("Bitwise(GreedyBytes) parse", lambda: parse_at(Bitwise(GreedyBytes), b"\x81"))
show("Bitwise(BitsInteger(7)) parse", lambda: parse_at(Bitwise(BitsInteger(7)), b"\x81"))
show("Bitwise(BitsInteger(7)) build", lambda: build_at(Bitwise(BitsInteger(7)), 1))
show("Bitwise(BitsInteger(12)) parse", lambda: parse_at(Bitwise(BitsInteger(12)), b"\x81\x82"))
show("Bitwise(BitsInteger(12)) build", lambda: build_at(Bitwise(BitsInteger(12)), 1))
show("compiled Bitwise", lambda: (Bitwise(BitsInteger(16)).compile().parse(b"\x01\x02"), Bitwise(BitsInteger(16)).compile().build(258)))
show("compiled ByteSwapped", lambda: (ByteSwapped(Int24ub).compile().parse(b"\x01\x02\x03"), ByteSwapped(Int24ub).compile().build(258)))

print("\n".join(out))
