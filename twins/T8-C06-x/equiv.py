import sys, io
sys.path.insert(0, sys.argv[1])
import construct
from construct import *
from construct.lib import RestreamedBytesIO, bytes2bits, bits2bytes, swapbytes

assert construct.__file__.startswith(sys.argv[1].rstrip("/")), construct.__file__


class Sub(object):
    """substream with selectable faults; records every call"""
    def __init__(self, data=b"", nonefter=None, failread=None, failwrite=None):
        self.inner = io.BytesIO(data)
        self.noneafter = nonefter
        self.failread = failread
        self.failwrite = failwrite
        self.reads = 0
        self.writes = 0
        self.log = []
    def read(self, n=-1):
        self.reads += 1
        self.log.append(("r", n))
        if self.failread is not None and self.reads >= self.failread:
            raise IOError("injected read")
        if self.noneafter is not None and self.reads > self.noneafter:
            return None
        return self.inner.read(n)
    def write(self, d):
        self.writes += 1
        self.log.append(("w", bytes(d)))
        if self.failwrite is not None and self.writes >= self.failwrite:
            raise IOError("injected write")
        return self.inner.write(d)
    def seek(self, off, whence=0):
        self.log.append(("s", off, whence))
        return self.inner.seek(off, whence)
    def tell(self):
        self.log.append(("t",))
        return self.inner.tell()


class Odd(object):
    """value with unusual equality semantics, used as seek target / whence"""
    def __init__(self, eq):
        self.eq = eq
    def __eq__(self, other):
        if self.eq == "raise":
            raise RuntimeError("eq")
        return self.eq
    def __ne__(self, other):
        return self.eq
    def __repr__(self):
        return "Odd(%r)" % (self.eq,)


def state(r):
    return (r.rbuffer, r.wbuffer, r.sincereadwritten)


def call(label, r, fn):
    try:
        res = ("OK", fn())
    except BaseException as e:
        res = ("EXC", type(e).__name__, str(e))
    print(label, res, state(r), r.substream.inner.tell() if hasattr(r.substream, "inner") else None)


configs = [("bit", bytes2bits, 1, bits2bytes, 8), ("byte", bits2bytes, 8, bytes2bits, 1), ("swap4", swapbytes, 4, swapbytes, 4),
           ("id1", lambda b: b, 1, lambda b: b, 1), ("dbl", lambda b: b + b, 2, lambda b: b[:1], 2)]
datas = [b"", b"\x00", b"\xa5", b"\x01\x02\x03", bytes(range(9)), b"\x01\x00" * 8, b"\x01" * 7]
counts = [None, 0, 1, 2, 7, 8, 9, 16, 100, -1, -100, True, False, 1.0, 2.5, "1", b"1", [1]]

# ---- direct reads
for cname, dec, du, enc, eu in configs:
    for data in datas:
        for ci, count in enumerate(counts):
            for subkw in [dict(), dict(nonefter=1), dict(nonefter=0), dict(failread=1), dict(failread=2)]:
                sub = Sub(data, **subkw)
                r = RestreamedBytesIO(sub, dec, du, enc, eu)
                tag = "read %s %s C%d %r" % (cname, data.hex(), ci, sorted(subkw.items()))
                call(tag + " #1", r, lambda: r.read(count))
                call(tag + " #2", r, lambda: r.read(count))
                call(tag + " #3 read()", r, lambda: r.read())
                call(tag + " #4 read(1)", r, lambda: r.read(1))
                call(tag + " tell", r, lambda: r.tell())
                call(tag + " close", r, lambda: r.close())
                print("   log", sub.log)

# ---- default argument and keyword use
for data in datas:
    r = RestreamedBytesIO(Sub(data), bytes2bits, 1, bits2bytes, 8)
    call("kw %s read(count=3)" % data.hex(), r, lambda: r.read(count=3))
    call("kw %s read(count=None)" % data.hex(), r, lambda: r.read(count=None))
    call("kw %s read()" % data.hex(), r, lambda: r.read())

# ---- seek / tell
ats = [0, 1, 3, 8, -1, None, 0.0, 3.0, True, "0", Odd(True), Odd(False), Odd("raise")]
whs = [0, 1, 2, -1, None, 0.0, False, True, "0", Odd(True), Odd(False), Odd("raise")]
for pre in [0, 3]:
    for ai, at in enumerate(ats):
        for wi, wh in enumerate(whs):
            r = RestreamedBytesIO(Sub(b"\x01\x02\x03"), bytes2bits, 1, bits2bytes, 8)
            r.read(pre)
            tag = "seek pre=%d A%d W%d" % (pre, ai, wi)
            call(tag, r, lambda: r.seek(at, wh))
            call(tag + " kw", r, lambda: r.seek(at=at, whence=wh))
            call(tag + " default", r, lambda: r.seek(at))
            call(tag + " then read(2)", r, lambda: r.read(2))
            call(tag + " seekable/tellable", r, lambda: (r.seekable(), r.tellable(), r.tell()))

# ---- writes
for cname, dec, du, enc, eu in configs:
    for chunks in [[b""], [b"\x01"], [b"\x01" * 8], [b"\x01" * 3, b"\x00" * 5], [b"\x01" * 9], [b"\x02" * 8], [b"ab", b"cd", b"e"], ["str"], [None], [bytearray(b"\x01" * 8)]]:
        for subkw in [dict(), dict(failwrite=1)]:
            sub = Sub(b"", **subkw)
            r = RestreamedBytesIO(sub, dec, du, enc, eu)
            tag = "write %s %r %r" % (cname, chunks, sorted(subkw.items()))
            for i, ch in enumerate(chunks):
                call(tag + " #%d" % i, r, lambda: r.write(ch))
            call(tag + " seek(tell)", r, lambda: r.seek(r.tell()))
            call(tag + " seek(0)", r, lambda: r.seek(0))
            call(tag + " close", r, lambda: r.close())
            print("   out", sub.inner.getvalue(), sub.log)

# ---- through constructs (Restreamed is used for variable-size subcons)
def parse_pos(d, data, **kw):
    s = io.BytesIO(data)
    try:
        r = d.parse_stream(s, **kw)
        return ("OK", r, s.tell())
    except Exception as e:
        return ("EXC", type(e).__name__, str(e), s.tell())


def build_pos(d, obj, **kw):
    s = io.BytesIO()
    try:
        r = d.build_stream(obj, s, **kw)
        return ("OK", r, s.getvalue(), s.tell())
    except Exception as e:
        return ("EXC", type(e).__name__, str(e), s.getvalue(), s.tell())


cons = dict(
    grbit=Bitwise(GreedyRange(Bit)),
    grnib=Bitwise(GreedyRange(Nibble)),
    gr3=Bitwise(GreedyRange(BitsInteger(3))),
    gbytes=Bitwise(GreedyBytes),
    pref=Bitwise(Struct("n" / Nibble, "v" / BitsInteger(this.n))),
    peek=Bitwise(Sequence(Peek(Nibble), GreedyRange(Nibble))),
    ptr=Bitwise(Sequence(Pointer(4, Bit), GreedyRange(Bit))),
    seek=Bitwise(Sequence(Seek(0), GreedyRange(Bit))),
    seek3=Bitwise(Sequence(Bit, Seek(1), GreedyRange(Bit))),
    seekbad=Bitwise(Sequence(Bit, Seek(0), GreedyRange(Bit))),
    tell=Bitwise(Sequence(Bit, Tell, GreedyRange(Bit), Tell)),
    sel=Bitwise(Sequence(Select(BitsInteger(12), BitsInteger(4)), GreedyRange(Bit))),
    opt=Bitwise(Sequence(Optional(BitsInteger(16)), GreedyBytes)),
    term=Bitwise(Sequence(GreedyRange(Octet), Terminated)),
    term2=Bitwise(Sequence(Nibble, Terminated)),
    bytew=Bitwise(Bytewise(GreedyRange(Byte))),
    bytew2=Bitwise(Sequence(Nibble, Nibble, Bytewise(GreedyBytes))),
    bsw=ByteSwapped(Bytes(3)),
    rs=Restreamed(GreedyBytes, swapbytes, 4, swapbytes, 4, None),
    rs2=Restreamed(Bytes(this.n), swapbytes, 2, swapbytes, 2, lambda n: n),
    bitsw=BitsSwapped(GreedyBytes),
    raw=Bitwise(RawCopy(GreedyRange(Nibble))),
    until=Bitwise(RepeatUntil(lambda x, lst, ctx: x == 1, Bit)),
    nullt=Bitwise(NullTerminated(GreedyBytes, term=b"\x01")),
)
cdatas = [b"", b"\x00", b"\x10", b"\xa5", b"\x35\xff", b"\x01\x02\x03", b"\x01\x02\x03\x04", b"\xf0\x0f\xaa\x55\x00", bytes(range(8, 17))]
objs = [[], [1], [1, 0, 1], [1] * 8, [1, 2, 3, 4], [0] * 16, b"", b"\x01" * 8, b"\x01\x00\x01", b"abc", b"abcd", dict(n=3, v=5), dict(n=0, v=0),
        [1, [1, 0]], [None, [1] * 7], [1, None, [1] * 6], [[1, 1, 0, 0, 1, 1, 0, 0], None], [3, 4, b"ab"], [None, b"\x01" * 8], None,
        dict(value=[1, 2]), [5, [1, 2, 3]]]
for name in sorted(cons):
    d = cons[name]
    for data in cdatas:
        print(name, "parse", data.hex(), parse_pos(d, data, n=2))
    for obj in objs:
        print(name, "build", repr(obj), build_pos(d, obj, n=2))

# truncation of canonical encodings
for name, d, obj in [("pref", cons["pref"], dict(n=12, v=0xabc)), ("grnib", cons["grnib"], [1, 2, 3, 4, 5, 6]), ("rs2", cons["rs2"], b"ab")]:
    enc = d.build(obj, n=2)
    print(name, "canon", enc.hex())
    for k in range(len(enc) + 1):
        print(name, "trunc", k, parse_pos(d, enc[:k], n=2))

# stream faults under a restreamed construct
for name in ["grbit", "pref", "peek", "gbytes", "term", "rs"]:
    d = cons[name]
    for k in range(1, 6):
        for kw in [dict(failread=k), dict(nonefter=k - 1)]:
            sub = Sub(b"\x35\xff\x01\x02", **kw)
            try:
                r = ("OK", d.parse_stream(sub))
            except Exception as e:
                r = ("EXC", type(e).__name__, str(e))
            print(name, "fault", sorted(kw.items()), r, sub.inner.tell(), sub.log)
