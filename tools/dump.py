#!/venv/bin/python
"""Debug aid: print the S summary of Class.method or a module-level function."""
import sys, os
sys.dont_write_bytecode = True
sys.path.insert(0, os.path.dirname(os.path.dirname(os.path.abspath(__file__))))
from sa.model import Model
from sa.summ import Summariser
root = os.environ.get("ROOT", "/repo")
m = Model(root)
S = Summariser(m)
for q in sys.argv[1:]:
    if "." in q:
        c, f = q.split(".", 1)
        fi = m.resolve(c, f)
        paths = S.summarise(fi, self_cls=c)
    else:
        fi = m.function(q)
        paths = S.summarise(fi)
    print("==", q, "->", fi.qual, fi.loc, len(paths), "paths")
    for i, p in enumerate(paths):
        print(" path", i)
        print(p.show())
