#!/venv/bin/python
"""Debug aid: print the rendered variants and S summaries of the code an emitter (Class._emitparse / Class._emitbuild) generates."""
import sys, os
sys.dont_write_bytecode = True
sys.path.insert(0, os.path.dirname(os.path.dirname(os.path.abspath(__file__))))
from sa.model import Model
from sa.tmpl import TemplateEvaluator, render_variants, emitters
from sa.tsumm import TemplateSummariser
from sa import norm as N
root = os.environ.get("ROOT", "/repo")
m = Model(root)
T = TemplateEvaluator(m)
SELF = ("param", "self")
for fi, owner in emitters(m):
    if fi.qual not in sys.argv[1:]:
        continue
    for em in T.evaluate(fi):
        for r in render_variants(em):
            print("=" * 20, fi.qual, "variant", getattr(r, "choice", ""))
            for b in r.text_blocks:
                print(b)
            print("RET:", r.text_ret)
            ts = TemplateSummariser(m, r, fi, owner if owner in m.classes else None, eval_attrs=set())
            for fn in ts.functions():
                ps = ts.summarise(ts.model.function(fn), bindings={"self": SELF, "code": ("free", "code")})
                print("--", fn, len(ps), "paths")
                for i, p in enumerate(ps):
                    print(" path", i)
                    print(p.show())
