#!/venv/bin/python
"""Re-run all 20 checks against every stored seeded change and refresh `caught_by` in its meta.json.

Each change is applied to a scratch copy of /repo's working tree under a temporary directory (removed afterwards); nothing in /repo is touched.
usage: refresh_seeds.py [ids...]
"""
import concurrent.futures as cf
import json
import os
import shutil
import subprocess
import sys
import tempfile

V = os.path.dirname(os.path.dirname(os.path.abspath(__file__)))
PROPS = ["C%02d" % i for i in range(1, 21)]


def one(sid):
    sd = os.path.join(V, "seeded", sid)
    tmp = tempfile.mkdtemp(prefix="seedref_")
    try:
        root = os.path.join(tmp, "repo")
        os.makedirs(root)
        shutil.copytree("/repo/construct", os.path.join(root, "construct"), ignore=shutil.ignore_patterns("__pycache__"))
        if os.path.isdir("/repo/docs"):
            shutil.copytree("/repo/docs", os.path.join(root, "docs"))
        r = subprocess.run(["patch", "-p1", "-s", "-d", root, "-i", os.path.join(sd, "patch.diff")], capture_output=True, text=True)
        if r.returncode:
            return sid, None, "patch does not apply: " + (r.stdout + r.stderr)[-200:]
        caught = {}
        env = dict(os.environ, SA_EVIDENCE_DIR=os.path.join(tmp, "evidence"))
        for p in PROPS:
            c = subprocess.run([os.path.join(V, "check"), p, "--root", root, "--tier", "quick"], capture_output=True, text=True, env=env)
            if c.returncode == 1:
                caught[p] = [l.strip()[:300] for l in c.stdout.splitlines() if l.startswith("  C")][:3]
            elif c.returncode == 2:
                caught[p + "(analysis-error)"] = [l.strip()[:300] for l in c.stdout.splitlines() if l.startswith("ANALYSIS")][:2]
        return sid, caught, None
    finally:
        shutil.rmtree(tmp, ignore_errors=True)


def main():
    ids = sys.argv[1:] or sorted(d for d in os.listdir(os.path.join(V, "seeded")) if os.path.exists(os.path.join(V, "seeded", d, "meta.json")))
    with cf.ThreadPoolExecutor(max_workers=int(os.environ.get("JOBS", "12"))) as ex:
        for sid, caught, err in ex.map(one, ids):
            if err:
                print("%-8s ERROR %s" % (sid, err))
                continue
            mp = os.path.join(V, "seeded", sid, "meta.json")
            m = json.load(open(mp))
            m["caught_by"] = caught
            with open(mp, "w") as fh:
                json.dump(m, fh, indent=1)
            own = m.get("property")
            real = sorted(k for k in caught if "analysis" not in k)
            print("%-8s %s caught=%s%s" % (sid, "own  " if own in real else ("other" if real else "MISS "), real, "  " + str([k for k in caught if "analysis" in k]) if any("analysis" in k for k in caught) else ""))


main()
