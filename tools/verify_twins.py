#!/venv/bin/python
"""Verify the behaviour-preserving refactorings under /verif/twins/<name>/patch.diff: each applies to /repo HEAD, keeps the repository's
test suite at the baseline, and leaves all 20 quick checks silent (exit 0).  Writes meta.json next to each patch.  Scratch worktrees under /tmp
are removed afterwards.   usage: verify_twins.py [names...]"""
import concurrent.futures as cf, json, os, shutil, subprocess, sys, tempfile
V = os.path.dirname(os.path.dirname(os.path.abspath(__file__)))
BASE = json.load(open("/root/.vp/BASELINE.json"))
PROPS = ["C%02d" % i for i in range(1, 21)]


def sh(cmd, **kw):
    return subprocess.run(cmd, capture_output=True, text=True, **kw)


def one(name):
    td = os.path.join(V, "twins", name)
    tmp = tempfile.mkdtemp(prefix="twin_")
    wt = os.path.join(tmp, "wt")
    try:
        sh(["git", "-C", "/repo", "worktree", "add", "--detach", wt, "HEAD"])
        eq = os.path.join(td, "equiv.py")
        before = sh(["/venv/bin/python", eq, wt]) if os.path.exists(eq) else None
        r = sh(["git", "-C", wt, "apply", os.path.join(td, "patch.diff")])
        if r.returncode:
            return name, {"applies": False, "error": r.stderr[-300:]}
        after = sh(["/venv/bin/python", eq, wt]) if os.path.exists(eq) else None
        equiv = None if before is None else {"exit_before": before.returncode, "exit_after": after.returncode, "same_output": before.stdout == after.stdout,
                                             "output_bytes": len(before.stdout)}
        t = sh(["/venv/bin/python", "-m", "pytest", "-q", "-p", "no:cacheprovider", "--timeout=900", "tests"], cwd=wt)
        tail = [l for l in t.stdout.splitlines() if " passed" in l or " failed" in l][-1:] or ["?"]
        failed = sorted(l.split(" - ")[0] for l in t.stdout.splitlines() if l.startswith(("FAILED", "ERROR")))
        res = {}
        env = dict(os.environ, SA_EVIDENCE_DIR=os.path.join(tmp, "ev"))
        for p in PROPS:
            c = sh([os.path.join(V, "check"), p, "--root", wt], env=env)
            if c.returncode:
                res[p] = {"exit": c.returncode, "lines": [l.strip()[:300] for l in c.stdout.splitlines() if l.startswith(("  C", "ANALYSIS"))][:3]}
        head = sh(["git", "-C", "/repo", "rev-parse", "--short", "HEAD"]).stdout.strip()
        out = {"applies": True, "applies_to": head, "tests": tail[0], "tests_failed": len(failed), "alarms": res}
        if equiv is not None:
            out["equivalence_script"] = equiv
        return name, out
    finally:
        sh(["git", "-C", "/repo", "worktree", "remove", "--force", wt])
        shutil.rmtree(tmp, ignore_errors=True)


def main():
    names = sys.argv[1:] or sorted(d for d in os.listdir(os.path.join(V, "twins")) if os.path.exists(os.path.join(V, "twins", d, "patch.diff")))
    with cf.ThreadPoolExecutor(max_workers=int(os.environ.get("JOBS", "4"))) as ex:
        for name, r in ex.map(one, names):
            mp = os.path.join(V, "twins", name, "meta.json")
            m = json.load(open(mp)) if os.path.exists(mp) else {}
            m["verified"] = r
            json.dump(m, open(mp, "w"), indent=1)
            print(name, "applies=%s" % r.get("applies"), r.get("tests"), "alarms=%s" % sorted(r.get("alarms", {})), "equiv=%s" % (r.get("equivalence_script") or {}).get("same_output"), flush=True)


main()
