#!/bin/sh
# run all 20 checks of one tier in parallel and print one line each: all_checks.sh [quick|thorough]
T=${1:-quick}
D=$(mktemp -d)
for i in 01 02 03 04 05 06 07 08 09 10 11 12 13 14 15 16 17 18 19 20; do
  ( /verif/check C$i --tier $T > $D/C$i.log 2>&1; echo "C$i rc=$? $(tail -1 $D/C$i.log)" > $D/C$i.res ) &
done
wait
cat $D/*.res
grep -h "^VIOLATION\|^ANALYSIS-ERROR" $D/*.log | head -20
rm -rf $D
