#!/bin/sh
# run all 20 checks of one tier in parallel and print one line each: all_checks.sh [quick|thorough]
T=${1:-quick}
D=$(mktemp -d)
# quick: all 20 at once; thorough: three at a time (each runs its variants in up to 12 worker processes)
P=20; [ "$T" = "thorough" ] && P=3
printf '%s\n' 01 02 03 04 05 06 07 08 09 10 11 12 13 14 15 16 17 18 19 20 | xargs -P $P -I{} sh -c "/verif/check C{} --tier $T > $D/C{}.log 2>&1; echo \"C{} rc=\$? \$(tail -1 $D/C{}.log)\" > $D/C{}.res"
cat $D/*.res
grep -h "^VIOLATION\|^ANALYSIS-ERROR" $D/*.log | head -20
rm -rf $D
