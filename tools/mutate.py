#!/venv/bin/python
"""Static mutation sweep of the *checker*: generate single-site AST mutants of /repo/construct (in memory), run all 20 rule
modules on each, and list the mutants no rule reports ("survivors").  Nothing of /repo is executed; survivors are read by hand:
they are either equivalent / outside every property, or a gap in the rules.

usage: mutate.py [--max N] [--seed S] [--scope core|lib|expr|all] [--ops a,b,c] [--out file.json] [--jobs J]
"""
import argparse
import ast
import importlib
import json
import multiprocessing
import os
import random
import sys
import traceback

V = os.path.dirname(os.path.dirname(os.path.abspath(__file__)))
sys.path.insert(0, V)
from sa.core import Ctx, PROPS, load_known, vanished_anchors   # noqa: E402
from sa.model import Model, AnalysisError                      # noqa: E402

PROTO = ("_parse", "_build", "_sizeof", "_actualsize", "_decode", "_encode", "_validate", "_emitparse", "_emitbuild", "_emitseq",
         "_emitprimitivetype", "_emitfulltype", "__init__", "__getitem__", "__iter__", "__eq__", "__call__", "__repr__", "__str__")

CMP = {ast.Lt: ast.LtE, ast.LtE: ast.Lt, ast.Gt: ast.GtE, ast.GtE: ast.Gt, ast.Eq: ast.NotEq, ast.NotEq: ast.Eq, ast.Is: ast.IsNot, ast.IsNot: ast.Is, ast.In: ast.NotIn, ast.NotIn: ast.In}
ARITH = {ast.Add: ast.Sub, ast.Sub: ast.Add, ast.Mult: ast.FloorDiv, ast.FloorDiv: ast.Mult, ast.LShift: ast.RShift, ast.RShift: ast.LShift,
         ast.BitAnd: ast.BitOr, ast.BitOr: ast.BitAnd, ast.Mod: ast.FloorDiv}


def sites(tree, scope_funcs):
    """Yield (kind, path-to-node as index list, description) for every mutable site inside the selected functions."""
    out = []

    def in_scope(stack):
        return any(isinstance(n, ast.FunctionDef) and scope_funcs(n, stack) for n in stack)

    def walk(node, stack):
        for field, value in ast.iter_fields(node):
            items = value if isinstance(value, list) else [value]
            for idx, ch in enumerate(items):
                if not isinstance(ch, ast.AST):
                    continue
                st2 = stack + [ch]
                if in_scope(st2):
                    q = ".".join(n.name for n in st2 if isinstance(n, (ast.ClassDef, ast.FunctionDef)))
                    ln = getattr(ch, "lineno", 0)
                    if isinstance(ch, ast.Compare) and len(ch.ops) == 1 and type(ch.ops[0]) in CMP:
                        out.append(("cmp", id(ch), q, ln, "%s -> %s" % (type(ch.ops[0]).__name__, CMP[type(ch.ops[0])].__name__)))
                    if isinstance(ch, ast.BinOp) and type(ch.op) in ARITH and not isinstance(ch.left, ast.Constant) or (isinstance(ch, ast.BinOp) and type(ch.op) in ARITH and not isinstance(getattr(ch.left, "value", 0), str)):
                        if not (isinstance(ch.op, ast.Mod) and isinstance(ch.left, (ast.Constant, ast.JoinedStr))):
                            out.append(("arith", id(ch), q, ln, "%s -> %s" % (type(ch.op).__name__, ARITH[type(ch.op)].__name__)))
                    if isinstance(ch, ast.BoolOp):
                        out.append(("bool", id(ch), q, ln, "and<->or"))
                    if isinstance(ch, ast.Constant) and isinstance(ch.value, bool):
                        out.append(("flag", id(ch), q, ln, "%s -> %s" % (ch.value, not ch.value)))
                    elif isinstance(ch, ast.Constant) and isinstance(ch.value, int) and 0 <= ch.value <= 8 and not isinstance(getattr(ch, "_parent_slice", None), ast.Slice):
                        out.append(("const", id(ch), q, ln, "%d -> %d" % (ch.value, ch.value + 1)))
                    if isinstance(ch, ast.UnaryOp) and isinstance(ch.op, ast.Not):
                        out.append(("not", id(ch), q, ln, "drop not"))
                    if isinstance(ch, ast.UnaryOp) and isinstance(ch.op, ast.USub):
                        out.append(("neg", id(ch), q, ln, "drop unary minus"))
                    if isinstance(ch, (ast.Expr, ast.Assign, ast.AugAssign)) and isinstance(node, (ast.FunctionDef, ast.If, ast.For, ast.While, ast.Try, ast.With)) and field in ("body", "orelse", "finalbody") \
                            and len(items) > 1 and not (isinstance(ch, ast.Expr) and isinstance(ch.value, ast.Constant)):
                        out.append(("del", id(ch), q, ln, "delete statement: %s" % ast.unparse(ch)[:60]))
                    if isinstance(ch, ast.ExceptHandler) and isinstance(ch.type, ast.Name) and ch.type.id == "Exception":
                        out.append(("narrow", id(ch), q, ln, "except Exception -> except ConstructError"))
                    if isinstance(ch, ast.Call) and len(ch.args) >= 2 and isinstance(ch.func, ast.Name) and ch.func.id in ("BinExpr", "stream_seek", "Container", "zip", "range", "integer2bits", "integer2bytes"):
                        out.append(("swapargs", id(ch), q, ln, "swap first two arguments of %s" % ch.func.id))
                walk(ch, st2)
    walk(tree, [tree])
    return out


def apply(tree, kind, nid):
    for node in ast.walk(tree):
        for field, value in ast.iter_fields(node):
            items = value if isinstance(value, list) else [value]
            for idx, ch in enumerate(items):
                if not isinstance(ch, ast.AST) or id(ch) != nid:
                    continue
                if kind == "cmp":
                    ch.ops = [CMP[type(ch.ops[0])]()]
                elif kind == "arith":
                    ch.op = ARITH[type(ch.op)]()
                elif kind == "bool":
                    ch.op = ast.Or() if isinstance(ch.op, ast.And) else ast.And()
                elif kind == "flag":
                    ch.value = not ch.value
                elif kind == "const":
                    ch.value = ch.value + 1
                elif kind in ("not", "neg"):
                    new = ch.operand
                    if isinstance(value, list):
                        value[idx] = new
                    else:
                        setattr(node, field, new)
                elif kind == "del":
                    value[idx] = ast.Pass()
                elif kind == "narrow":
                    ch.type = ast.Name(id="ConstructError", ctx=ast.Load())
                elif kind == "swapargs":
                    ch.args[0], ch.args[1] = ch.args[1], ch.args[0]
                return True
    return False


_BASE = None
_MODS = None
_KNOWN = None


def _init():
    global _BASE, _MODS, _KNOWN
    m = Model("/repo")
    _BASE = dict(m.sources)
    _MODS = {p: importlib.import_module("sa.rules." + p) for p in PROPS}
    _KNOWN = {(k["property"], k["rule"], k["where"], k["key"]) for k in load_known() if k.get("status") == "known"}


def evaluate(job):
    rel, text, desc = job
    src = dict(_BASE)
    src[rel] = text
    try:
        model = Model("/repo", sources=src)
    except Exception as e:
        return dict(desc, result="model-error", detail=str(e)[:200])
    if vanished_anchors(model):
        return dict(desc, result="anchor")
    hit, errs = [], []
    for p in PROPS:
        c = Ctx(p, "quick", "/repo", model=model)
        try:
            _MODS[p].run(c)
            for rule, st in c.rule_stats.items():
                if st["found"] < st["floor"]:
                    c.errors.append("floor %s" % rule)
        except AnalysisError as e:
            c.errors.append(str(e)[:100])
        except Exception:
            c.errors.append("internal: " + traceback.format_exc()[-200:])
        v = [o for o in c.obligations if not o.ok and (p, o.rule, o.where, o.key) not in _KNOWN]
        if v:
            hit.append(p)
        if c.errors:
            errs.append("%s: %s" % (p, c.errors[0][:120]))
    return dict(desc, result="caught" if hit else ("error-only" if errs else "survived"), caught_by=hit, errors=errs[:3])


def main():
    ap = argparse.ArgumentParser()
    ap.add_argument("--max", type=int, default=200)
    ap.add_argument("--seed", type=int, default=1)
    ap.add_argument("--scope", default="all")
    ap.add_argument("--ops", default="")
    ap.add_argument("--out", default="/tmp/scratch/mutants.json")
    ap.add_argument("--jobs", type=int, default=14)
    ap.add_argument("--all-functions", action="store_true")
    a = ap.parse_args()
    _init()
    files = {"core": ["construct/core.py"], "lib": ["construct/lib/binary.py", "construct/lib/bitstream.py", "construct/lib/containers.py", "construct/lib/hex.py"],
             "expr": ["construct/expr.py"]}
    rels = sum(files.values(), []) if a.scope == "all" else files[a.scope]
    rels = [r for r in _BASE if any(r.endswith(x) for x in rels)]
    ops = set(a.ops.split(",")) if a.ops else None
    cands = []
    for rel in rels:
        tree = ast.parse(_BASE[rel])
        scope = (lambda n, st: True) if (a.all_functions or not rel.endswith("core.py")) else (lambda n, st: n.name in PROTO or n.name[:1].isupper() or n.name.startswith("stream_"))
        for kind, nid, q, ln, what in sites(tree, scope):
            if ops and kind not in ops:
                continue
            cands.append((rel, kind, q, ln, what))
    random.Random(a.seed).shuffle(cands)
    cands = cands[:a.max]
    jobs = []
    for rel, kind, q, ln, what in cands:
        tree = ast.parse(_BASE[rel])
        scope = (lambda n, st: True) if (a.all_functions or not rel.endswith("core.py")) else (lambda n, st: n.name in PROTO or n.name[:1].isupper() or n.name.startswith("stream_"))
        target = [s for s in sites(tree, scope) if (s[0], s[2], s[3], s[4]) == (kind, q, ln, what)]
        if not target or not apply(tree, kind, target[0][1]):
            continue
        ast.fix_missing_locations(tree)
        try:
            text = ast.unparse(tree)
            compile(text, rel, "exec")
        except Exception:
            continue
        jobs.append((rel, text, {"file": rel, "op": kind, "function": q, "line": ln, "mutation": what}))
    print("%d mutants" % len(jobs), flush=True)
    ctxmp = multiprocessing.get_context("fork")
    with ctxmp.Pool(a.jobs) as pool:
        res = pool.map(evaluate, jobs, chunksize=1)
    os.makedirs(os.path.dirname(a.out), exist_ok=True)
    json.dump(res, open(a.out, "w"), indent=1)
    tally = {}
    for r in res:
        tally[r["result"]] = tally.get(r["result"], 0) + 1
    print(tally)
    for r in res:
        if r["result"] in ("survived", "error-only"):
            print("%-10s %s:%d %s | %s | %s %s" % (r["result"], r["file"].split("/")[-1], r["line"], r["function"], r["op"], r["mutation"], (r.get("errors") or [""])[0][:80]))


if __name__ == "__main__":
    main()
