#!/venv/bin/python
"""Regenerate MANIFEST.json from the META blocks of sa/rules/Cxx.py."""
import importlib, json, os, sys
sys.dont_write_bytecode = True
V = os.path.dirname(os.path.dirname(os.path.abspath(__file__)))
sys.path.insert(0, V)
props = [json.loads(l) for l in open(os.path.join(V, "properties.jsonl"))]
checks, na = [], []
for p in props:
    pid = p["id"]
    path = os.path.join(V, "sa", "rules", pid + ".py")
    if not os.path.exists(path):
        na.append({"property_id": pid, "reason": "static check not built yet in this round (see DESIGN.md section 3 for the planned rules); nothing is claimed"})
        continue
    mod = importlib.import_module("sa.rules." + pid)
    M = mod.META
    if M.get("not_applicable"):
        na.append({"property_id": pid, "reason": M["not_applicable"]})
        continue
    checks.append({
        "property_id": pid,
        "quick_cmd": "./check %s --tier quick" % pid,
        "thorough_cmd": "./check %s --tier thorough" % pid,
        "evidence_file": "/verif/evidence/%s.json" % pid,
        "replay_cmd_template": "./check %s --replay {path}" % pid,
        "engine": "sa",
        "level_claimed": {
            "category": M.get("level", "other"),
            "text": M.get("claim") or M["explanation"],
            "design_ref": "DESIGN.md section 3, " + pid,
        },
        "level_note": "Static analysis of the current source only; decides the structural clauses named in the claim, NOT the run-time behaviour as a whole. Undecided: %s Trusted base: %s. Assumptions: %s" % (
            M.get("undecided", ""), "; ".join(M.get("trusted_base", [])), "; ".join(M.get("assumptions", []))),
        "technique": M.get("technique", "static analysis: custom AST/path-sensitive summariser rules over construct/ (no execution)"),
    })
man = {
    "version": 1,
    "setup_cmd": "true",
    "hooks": {
        "guard": "CONSTRUCT_VERIF",
        "enable": "no hooks: the checks parse /repo/construct from disk and never import or run it",
        "baseline_off_cmd": "cd /repo && /venv/bin/python -m pytest -ra -q -p no:cacheprovider --timeout=900 --continue-on-collection-errors",
        "source_commits": [],
        "add_only": True,
    },
    "engines": [{
        "name": "sa", "path": "/verif/sa", "serves_properties": [c["property_id"] for c in checks],
        "kind_free_text": "repository-specific static analyser: source model (class hierarchy, singletons, macros), term normaliser, path-sensitive method summariser producing event traces, stream-position algebra, exception-flow and effect rules, generated-code template recovery; python ast only, nothing executed",
    }],
    "checks": checks,
    "notes": "All checks are static (ast-based) and re-parse /repo/construct on every run. Exit 0 = every obligation discharged (known findings printed), 1 = VIOLATION, 2 = ANALYSIS-ERROR (analysis could not be carried out; never a silent pass). known_findings.json lists recorded/fixed genuine defects.",
    "not_applicable": na,
}
json.dump(man, open(os.path.join(V, "MANIFEST.json"), "w"), indent=1)
print("checks:", [c["property_id"] for c in checks], "n/a:", [x["property_id"] for x in na])
