#!/venv/bin/python
"""Verify seeded changes and store them under /verif/seeded/<id>/.

For every /tmp/seed_out/Cxx/{a,b,c} (or the dirs given): take a scratch git worktree of /repo HEAD under /tmp, apply the
patch, regenerate it as `git diff` against HEAD, run the demo on clean and patched trees, run the repository's test suite
on the patched tree and compare with the stable baseline, run every registered check against the patched tree, and write
patch.diff / demo.py / meta.json.  Scratch worktrees are removed afterwards.
"""
import concurrent.futures as cf
import json
import os
import shutil
import subprocess
import sys
import tempfile

V = os.path.dirname(os.path.dirname(os.path.abspath(__file__)))
BASE = json.load(open("/root/.vp/BASELINE.json"))
STABLE = set(BASE["stable_pass"])
PROPS = ["C%02d" % i for i in range(1, 21)]


def sh(cmd, **kw):
    return subprocess.run(cmd, capture_output=True, text=True, **kw)


def junit_pass(path):
    import xml.etree.ElementTree as ET
    out = set()
    try:
        root = ET.parse(path).getroot()
    except Exception:
        return out
    for tc in root.iter("testcase"):
        if not any(ch.tag in ("failure", "error", "skipped") for ch in tc):
            out.add("%s::%s" % (tc.get("classname"), tc.get("name")))
    return out


def one(seed_dir, run_tests=True):
    sid = "%s-%s" % (os.path.basename(os.path.dirname(seed_dir)), os.path.basename(seed_dir))
    res = {"id": sid, "seed_dir": seed_dir}
    meta_in = json.load(open(os.path.join(seed_dir, "meta.json")))
    wt = tempfile.mkdtemp(prefix="seedwt_%s_" % sid, dir="/tmp")
    os.rmdir(wt)
    try:
        r = sh(["git", "-C", "/repo", "worktree", "add", "-q", "--detach", wt, "HEAD"])
        if r.returncode:
            res["error"] = "worktree: " + r.stderr
            return res
        r = sh(["patch", "-p1", "-s", "-d", wt, "-i", os.path.join(seed_dir, "patch.diff")])
        if r.returncode:
            res["error"] = "patch does not apply to HEAD: " + (r.stdout + r.stderr)[-300:]
            return res
        for dp, dn, fn in os.walk(wt):
            for f in fn:
                if f.endswith((".orig", ".rej")):
                    os.remove(os.path.join(dp, f))
        diff = sh(["git", "-C", wt, "diff"]).stdout
        res["patch"] = diff
        env = dict(os.environ, PYTHONDONTWRITEBYTECODE="1")
        demo = os.path.join(seed_dir, "demo.py")
        a = sh(["/venv/bin/python", demo, "/repo"], env=env, timeout=600)
        b = sh(["/venv/bin/python", demo, wt], env=env, timeout=600)
        res["demo_clean_rc"], res["demo_patched_rc"] = a.returncode, b.returncode
        res["demo_patched_out"] = (b.stdout + b.stderr).strip().splitlines()[-3:]
        imp = sh(["/venv/bin/python", "-c", "import sys; sys.path.insert(0, %r); import construct" % wt], env=env)
        res["imports"] = imp.returncode == 0
        if run_tests:
            jx = os.path.join(wt, "junit.xml")
            t = sh(["/venv/bin/python", "-m", "pytest", "-q", "-p", "no:cacheprovider", "--timeout=900", "--continue-on-collection-errors", "--junitxml=" + jx], cwd=wt, env=env, timeout=3000)
            passed = junit_pass(jx)
            res["tests_passed"] = len(passed)
            res["tests_missing_from_stable"] = sorted(STABLE - passed)[:10]
            res["tests_ok"] = STABLE <= passed
        caught = {}
        for p in PROPS:
            c = sh([os.path.join(V, "check"), p, "--root", wt, "--tier", "quick"], env=dict(os.environ, SA_EVIDENCE_DIR=os.path.join(wt, ".verif-evidence")))
            if c.returncode == 1:
                caught[p] = [l.strip()[:300] for l in c.stdout.splitlines() if l.startswith("  C")][:3]
            elif c.returncode == 2:
                caught[p + "(analysis-error)"] = [l.strip()[:300] for l in c.stdout.splitlines() if l.startswith("ANALYSIS")][:2]
        res["caught_by"] = caught
        res["meta_in"] = meta_in
        return res
    except Exception as e:
        res["error"] = repr(e)
        return res
    finally:
        sh(["git", "-C", "/repo", "worktree", "remove", "--force", wt])
        shutil.rmtree(wt, ignore_errors=True)


def store(res):
    if "error" in res:
        return
    d = os.path.join(V, "seeded", res["id"])
    os.makedirs(d, exist_ok=True)
    with open(os.path.join(d, "patch.diff"), "w") as fh:
        fh.write(res["patch"])
    shutil.copy(os.path.join(res["seed_dir"], "demo.py"), os.path.join(d, "demo.py"))
    mi = res["meta_in"]
    meta = {
        "id": res["id"],
        "property": mi.get("property"),
        "summary": mi.get("summary"),
        "site": mi.get("site"),
        "needs_to_manifest": mi.get("needs_to_manifest"),
        "why_tests_miss": mi.get("why_tests_miss"),
        "origin": "written by an independent sub-agent that saw only the property text and a scratch worktree of /repo",
        "verified": {
            "patch_applies_to": sh(["git", "-C", "/repo", "rev-parse", "--short", "HEAD"]).stdout.strip(),
            "imports": res["imports"],
            "demo_exit_clean_tree": res["demo_clean_rc"],
            "demo_exit_patched_tree": res["demo_patched_rc"],
            "demo_output_patched": res["demo_patched_out"],
            "stable_tests_all_pass_with_patch": res.get("tests_ok"),
            "tests_passed_with_patch": res.get("tests_passed"),
            "commands": ["git worktree add <scratch> HEAD; patch -p1 < patch.diff", "/venv/bin/python demo.py /repo ; /venv/bin/python demo.py <scratch>",
                         "cd <scratch> && /venv/bin/python -m pytest -q -p no:cacheprovider --timeout=900 --junitxml=...  (compared with BASELINE.stable_pass)",
                         "./check Cxx --root <scratch>  for all 20 properties"],
        },
        "caught_by": res["caught_by"],
        "kept": bool(res["imports"] and res["demo_clean_rc"] == 0 and res["demo_patched_rc"] != 0 and res.get("tests_ok", True)),
    }
    with open(os.path.join(d, "meta.json"), "w") as fh:
        json.dump(meta, fh, indent=1)


def main():
    args = [a for a in sys.argv[1:] if not a.startswith("--")]
    run_tests = "--notests" not in sys.argv
    if not args:
        args = sorted(os.path.join("/tmp/seed_out", p, x) for p in os.listdir("/tmp/seed_out") for x in ("a", "b", "c")
                      if os.path.exists(os.path.join("/tmp/seed_out", p, x, "patch.diff")))
    with cf.ThreadPoolExecutor(max_workers=int(os.environ.get("JOBS", "10"))) as ex:
        for res in ex.map(lambda d: one(d, run_tests), args):
            store(res)
            if "error" in res:
                print("%-8s ERROR %s" % (res["id"], res["error"][:200]))
            else:
                print("%-8s demo %s/%s tests_ok=%s caught=%s" % (res["id"], res["demo_clean_rc"], res["demo_patched_rc"], res.get("tests_ok"), sorted(res["caught_by"])))
            sys.stdout.flush()


if __name__ == "__main__":
    main()
