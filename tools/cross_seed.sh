#!/bin/sh
# cross_seed.sh <seed_dir>: which of the 20 quick checks report the seeded change (applied to a temp copy)
D=$(mktemp -d); mkdir -p $D/repo; cp -r /repo/construct /repo/docs $D/repo/; find $D -name __pycache__ -prune -exec rm -rf {} \; 2>/dev/null
patch -p1 -s -d $D/repo -i $1/${PATCHFILE:-patch.diff} || { echo "patch failed"; rm -rf $D; exit 3; }
for i in 01 02 03 04 05 06 07 08 09 10 11 12 13 14 15 16 17 18 19 20; do
  ( SA_EVIDENCE_DIR=$D/ev /verif/check C$i --root $D/repo > $D/C$i.log 2>&1; echo $? > $D/C$i.rc ) &
done; wait
for i in 01 02 03 04 05 06 07 08 09 10 11 12 13 14 15 16 17 18 19 20; do
  rc=$(cat $D/C$i.rc); [ "$rc" != "0" ] && { echo "C$i rc=$rc"; grep -E "^  C[0-9]|^ANALYSIS" $D/C$i.log | head -${2:-2} | cut -c1-260; }
done
rm -rf $D
