#!/venv/bin/python
"""Make /verif/twins/<name>/patch.diff from textual edits on a scratch worktree of /repo HEAD.
usage: mk_twin.py <name> <what> [--file F] OLD NEW [[--file F] OLD NEW ...]   (each OLD must occur exactly once)"""
import json, os, subprocess, sys, tempfile, shutil
V = os.path.dirname(os.path.dirname(os.path.abspath(__file__)))
name, what, rest = sys.argv[1], sys.argv[2], sys.argv[3:]
tmp = tempfile.mkdtemp(prefix="mktwin_")
wt = os.path.join(tmp, "wt")
try:
    subprocess.run(["git", "-C", "/repo", "worktree", "add", "--detach", wt, "HEAD"], capture_output=True)
    f = "construct/core.py"
    while rest:
        if rest[0] == "--file":
            f = rest[1]; rest = rest[2:]
        old, new, rest = rest[0], rest[1], rest[2:]
        p = os.path.join(wt, f)
        s = open(p).read()
        if s.count(old) != 1:
            sys.exit("OLD occurs %d times in %s: %r" % (s.count(old), f, old[:60]))
        open(p, "w").write(s.replace(old, new))
        compile(open(p).read(), p, "exec")
    d = subprocess.run(["git", "-C", wt, "diff"], capture_output=True, text=True).stdout
    os.makedirs(os.path.join(V, "twins", name), exist_ok=True)
    open(os.path.join(V, "twins", name, "patch.diff"), "w").write(d)
    json.dump({"what": what, "origin": "hand-made"}, open(os.path.join(V, "twins", name, "meta.json"), "w"), indent=1)
    print(d.count("\n"), "lines")
finally:
    subprocess.run(["git", "-C", "/repo", "worktree", "remove", "--force", wt], capture_output=True)
    shutil.rmtree(tmp, ignore_errors=True)
