#!/venv/bin/python
"""Print a markdown table of /verif/seeded: id, site, what, which checks catch it."""
import json, os
V = os.path.dirname(os.path.dirname(os.path.abspath(__file__)))
rows = []
for sid in sorted(os.listdir(os.path.join(V, "seeded"))):
    mp = os.path.join(V, "seeded", sid, "meta.json")
    if not os.path.exists(mp):
        continue
    m = json.load(open(mp))
    caught = sorted(k for k in m.get("caught_by", {}) if "analysis" not in k)
    own = m.get("property")
    rules = sorted({l.split()[0] for k in caught for l in m["caught_by"][k] if l.split()})
    mark = "own" if own in caught else ("other" if caught else "MISSED")
    rows.append((sid, (m.get("site") or "").replace("construct/", "")[:48], (m.get("summary") or "")[:110].replace("|", "/"), ", ".join(caught) or "-", ", ".join(rules)[:70], mark))
print("| id | site | change | caught by | rules | |")
print("|---|---|---|---|---|---|")
for r in rows:
    print("| %s | %s | %s | %s | %s | %s |" % r)
n = len(rows)
print("\n%d kept changes: %d caught by the check of their own property, %d only by another property's check, %d missed." % (
    n, sum(1 for r in rows if r[5] == "own"), sum(1 for r in rows if r[5] == "other"), sum(1 for r in rows if r[5] == "MISSED")))
