#!/venv/bin/python
"""Triage aid: copy /repo/construct to a temp dir, replace OLD by NEW (exactly one occurrence required, `--file` relative to construct/, default core.py),
run the given checks (default all 20, quick tier) against the copy and print which fire.  usage: try_edit.py [--file F] OLD NEW [Cxx...]"""
import os, shutil, subprocess, sys, tempfile, concurrent.futures as cf
V = os.path.dirname(os.path.dirname(os.path.abspath(__file__)))
a = sys.argv[1:]
f = "core.py"
if a[0] == "--file":
    f = a[1]; a = a[2:]
old, new, props = a[0], a[1], a[2:] or ["C%02d" % i for i in range(1, 21)]
tmp = tempfile.mkdtemp(prefix="tryedit_")
try:
    root = os.path.join(tmp, "repo")
    shutil.copytree("/repo/construct", os.path.join(root, "construct"), ignore=shutil.ignore_patterns("__pycache__"))
    shutil.copytree("/repo/docs", os.path.join(root, "docs"))
    p = os.path.join(root, "construct", f)
    s = open(p).read()
    if s.count(old) != 1:
        sys.exit("OLD occurs %d times" % s.count(old))
    s = s.replace(old, new)
    compile(s, p, "exec")
    open(p, "w").write(s)
    env = dict(os.environ, SA_EVIDENCE_DIR=os.path.join(tmp, "ev"))
    def one(pr):
        c = subprocess.run([os.path.join(V, "check"), pr, "--root", root], capture_output=True, text=True, env=env)
        return pr, c.returncode, c.stdout
    with cf.ThreadPoolExecutor(10) as ex:
        for pr, rc, out in ex.map(one, props):
            if rc:
                print(pr, "exit", rc)
                for l in out.splitlines():
                    if l.startswith(("  C", "ANALYSIS")):
                        print("   ", l.strip()[:260])
            else:
                print(pr, "silent")
finally:
    shutil.rmtree(tmp, ignore_errors=True)
