#!/venv/bin/python
"""Apply a seeded patch to a scratch copy of /repo's working tree, run demo + checks there, clean up.

usage: try_seed.py <seed_dir> [props...]     (seed_dir contains patch.diff, demo.py, meta.json)
"""
import json, os, shutil, subprocess, sys, tempfile
V = os.path.dirname(os.path.dirname(os.path.abspath(__file__)))
def main():
    sd = os.path.abspath(sys.argv[1])
    props = sys.argv[2:]
    meta = json.load(open(os.path.join(sd, "meta.json"))) if os.path.exists(os.path.join(sd, "meta.json")) else {}
    if not props:
        props = [meta.get("property")] if meta.get("property") else []
    tmp = tempfile.mkdtemp(prefix="seedtry_")
    try:
        root = os.path.join(tmp, "repo")
        os.makedirs(root)
        shutil.copytree("/repo/construct", os.path.join(root, "construct"), ignore=shutil.ignore_patterns("__pycache__"))
        if os.path.isdir("/repo/docs"):
            shutil.copytree("/repo/docs", os.path.join(root, "docs"))
        r = subprocess.run(["patch", "-p1", "-s", "-d", root, "-i", os.path.join(sd, "patch.diff")], capture_output=True, text=True)
        print("apply:", "ok" if r.returncode == 0 else "FAILED " + r.stdout + r.stderr)
        if r.returncode != 0:
            return 3
        demo = os.path.join(sd, "demo.py")
        if os.path.exists(demo) and "--nodemo" not in sys.argv:
            env = dict(os.environ, PYTHONDONTWRITEBYTECODE="1")
            a = subprocess.run(["/venv/bin/python", demo, "/repo"], capture_output=True, text=True, env=env, timeout=300)
            b = subprocess.run(["/venv/bin/python", demo, root], capture_output=True, text=True, env=env, timeout=300)
            print("demo clean rc=%d  patched rc=%d" % (a.returncode, b.returncode))
            if b.returncode != 0:
                print("   ", (b.stdout + b.stderr).strip().splitlines()[-1][:300] if (b.stdout + b.stderr).strip() else "")
        caught = []
        for p in props:
            if p.startswith("--"):
                continue
            r = subprocess.run([os.path.join(V, "check"), p, "--root", root, "--tier", os.environ.get("TIER", "quick")], capture_output=True, text=True,
                               env=dict(os.environ, SA_EVIDENCE_DIR=os.path.join(tmp, "evidence")))
            lines = [l for l in r.stdout.splitlines() if l.startswith("  C") or l.startswith("ANALYSIS-ERROR")]
            print("check %s rc=%d" % (p, r.returncode))
            for l in lines[:6]:
                print("   ", l[:260])
            if r.returncode == 1:
                caught.append(p)
        print("CAUGHT by:", caught)
        return 0
    finally:
        shutil.rmtree(tmp, ignore_errors=True)
sys.exit(main())
