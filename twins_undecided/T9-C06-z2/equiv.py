#!/usr/bin/env python
"""usage: equiv.py <repo root>

Deterministic observations of VarInt and ZigZag (and of Prefixed / PascalString /
PrefixedArray using them as length fields): parse results, stream positions, exception
types and messages, built bytes, sizeof, truncation at every offset, injected stream
faults, compiled parents.  Output must be byte-identical before and after the refactoring.
"""
import sys, io, random, enum

root = sys.argv[1]
sys.path.insert(0, root)

from construct import *

def show(*parts):
    print(" | ".join(str(p) for p in parts))

def outcome(func):
    try:
        res = func()
        return "ok %r %s" % (res, type(res).__name__)
    except ConstructError as e:
        return "%s [%s]" % (type(e).__name__, str(e).replace("\n", " / "))
    except Exception as e:
        return "FOREIGN %s [%s]" % (type(e).__name__, e)

def parse_pos(d, data, **kw):
    stream = io.BytesIO(data)
    res = outcome(lambda: d.parse_stream(stream, **kw))
    return "%s @%d" % (res, stream.tell())


class FaultyStream(object):
    def __init__(self, data, k, mode):
        self.inner = io.BytesIO(data)
        self.k = k
        self.mode = mode
        self.n = 0
        self.log = []
    def _tick(self, name):
        self.n += 1
        self.log.append(name)
        return self.n == self.k
    def read(self, count=None):
        bad = self._tick("r")
        if bad and self.mode == "raise":
            raise IOError("injected")
        data = self.inner.read() if count is None else self.inner.read(count)
        if bad and self.mode == "short":
            return data[:-1]
        return data
    def write(self, data):
        bad = self._tick("w%d" % len(data))
        if bad and self.mode == "raise":
            raise IOError("injected")
        if bad and self.mode == "short":
            return self.inner.write(data[:-1])
        return self.inner.write(data)
    def seek(self, offset, whence=0):
        bad = self._tick("s")
        if bad and self.mode == "raise":
            raise IOError("injected")
        return self.inner.seek(offset, whence)
    def tell(self):
        bad = self._tick("t")
        if bad and self.mode == "raise":
            raise IOError("injected")
        return self.inner.tell()


class Color(enum.IntEnum):
    red = 1
    big = 300

# 1. build: boundary values, round trip, stream position
values = [0, 1, 2, 63, 64, 126, 127, 128, 129, 255, 256, 300, 16383, 16384, 16385,
          2**21 - 1, 2**21, 2**28 - 1, 2**28, 2**31, 2**32 - 1, 2**32, 2**35, 2**56 - 1, 2**56,
          2**63 - 1, 2**63, 2**64 - 1, 2**64, 2**70 + 12345, 2**100, 2**200 - 1, 10**40]
for v in values:
    for name, d in [("VarInt", VarInt), ("ZigZag", ZigZag)]:
        for w in ([v] if name == "VarInt" else [v, -v, -v - 1]):
            b = outcome(lambda: d.build(w))
            show("build", name, w, b)
            try:
                blob = d.build(w)
            except Exception:
                continue
            show("roundtrip", name, w, parse_pos(d, blob + b"\xee"))

# 2. build from odd objects
odd = [True, False, -1, -128, -2**64, 1.0, 1.5, None, "7", b"\x07", [1], Color.red, Color.big,
       EnumInteger(200), EnumIntegerString.new(5, "five")]
for obj in odd:
    show("odd VarInt", repr(obj), outcome(lambda: VarInt.build(obj)))
    show("odd ZigZag", repr(obj), outcome(lambda: ZigZag.build(obj)))

# 3. parse: exhaustive short inputs over a small alphabet, with trailing garbage kept in the stream
alphabet = [0x00, 0x01, 0x7f, 0x80, 0x81, 0xff]
for a in alphabet:
    show("parse1", "%02x" % a, parse_pos(VarInt, bytes([a])), parse_pos(ZigZag, bytes([a])))
for a in alphabet:
    for b in alphabet:
        data = bytes([a, b])
        show("parse2", data.hex(), parse_pos(VarInt, data), parse_pos(ZigZag, data))
for a in [0x80, 0xff, 0x81]:
    for b in [0x80, 0xff]:
        for c in alphabet:
            data = bytes([a, b, c, 0x55])
            show("parse3", data.hex(), parse_pos(VarInt, data), parse_pos(ZigZag, data))
show("empty", parse_pos(VarInt, b""), parse_pos(ZigZag, b""))
show("overlong zero", parse_pos(VarInt, b"\x80\x80\x80\x00"), parse_pos(ZigZag, b"\x80\x80\x80\x00"))
show("long run", parse_pos(VarInt, b"\xff" * 40 + b"\x01"), parse_pos(ZigZag, b"\xff" * 40 + b"\x01"))
show("never ends", parse_pos(VarInt, b"\x80" * 64), parse_pos(ZigZag, b"\xff" * 64))

# 4. every truncation of canonical encodings
for v in [0, 127, 128, 300, 2**32, 2**64 + 5]:
    for name, d, w in [("VarInt", VarInt, v), ("ZigZag", ZigZag, -v)]:
        blob = d.build(w)
        for cut in range(len(blob) + 1):
            show("cut", name, w, cut, parse_pos(d, blob[:cut]))

# 5. sizeof and compile
for name, d in [("VarInt", VarInt), ("ZigZag", ZigZag)]:
    show("sizeof", name, outcome(d.sizeof))
    show("struct sizeof", name, outcome(Struct("a" / d).sizeof))
st = Struct("n" / VarInt, "z" / ZigZag, "data" / Bytes(this.n), "t" / Tell)
stc = st.compile()
for data in [b"\x02\x03ab", b"\x80\x01\x05" + b"q" * 128, b"\x02\x03a", b"\x80", b"\x00\x80", b""]:
    show("struct", data[:8].hex(), outcome(lambda: st.parse(data)).replace("\n", " "))
    show("compiled", data[:8].hex(), outcome(lambda: stc.parse(data)).replace("\n", " "))
show("struct build", outcome(lambda: st.build(dict(n=3, z=-70000, data=b"abc"))))
show("compiled build", outcome(lambda: stc.build(dict(n=3, z=-70000, data=b"abc"))))

# 6. as length / count fields
users = [
    ("Prefixed(VarInt)", Prefixed(VarInt, GreedyBytes), [b"", b"abc", b"x" * 127, b"y" * 128, b"z" * 300]),
    ("Prefixed(VarInt,incl)", Prefixed(VarInt, GreedyBytes, includelength=True), [b"", b"abc"]),
    ("PascalString(VarInt)", PascalString(VarInt, "utf8"), [u"", u"hello", u"А" * 100]),
    ("PrefixedArray(VarInt)", PrefixedArray(VarInt, Int16ub), [[], [1, 2, 3], list(range(130))]),
    ("PrefixedArray(ZigZag)", PrefixedArray(ZigZag, Byte), [[], [9, 8]]),
    ("Array(ZigZag)", Array(3, ZigZag), [[0, -1, 1], [-2**40, 2**40, -64]]),
    ("GreedyRange(VarInt)", GreedyRange(VarInt), [[], [1, 128, 2**30]]),
    ("Const(300,VarInt)", Const(300, VarInt), [None, 300]),
    ("Enum(VarInt)", Enum(VarInt, a=1, b=300), ["a", "b", 77]),
    ("Hex(VarInt)", Hex(VarInt), [0, 300, 2**33]),
]
for name, d, objs in users:
    for obj in objs:
        b = outcome(lambda: d.build(obj))
        show("user build", name, repr(obj)[:30], b[:90])
        try:
            blob = d.build(obj)
        except Exception:
            continue
        for cut in sorted(set([0, 1, 2, len(blob) // 2, max(len(blob) - 1, 0), len(blob)])):
            show("user parse", name, repr(obj)[:30], cut, parse_pos(d, blob[:cut])[:110])
show("huge prefix", parse_pos(Prefixed(VarInt, GreedyBytes), b"\xff\xff\xff\xff\xff\xff\xff\xff\xff\x7fabc"))
show("huge count", parse_pos(PrefixedArray(VarInt, Byte), b"\xff\xff\xff\x7fabc")[:120])
show("negative zigzag count", parse_pos(PrefixedArray(ZigZag, Byte), b"\x01abc"))
show("negative zigzag length", parse_pos(Prefixed(ZigZag, GreedyBytes), b"\x03abc"))

# 7. injected stream faults
for name, d, data in [("VarInt", VarInt, b"\x80\x80\x01"), ("ZigZag", ZigZag, b"\xff\xff\x03"),
                      ("Prefixed", Prefixed(VarInt, GreedyBytes), b"\x83\x00abc")]:
    for mode in ["raise", "short"]:
        for k in range(1, 7):
            stream = FaultyStream(data, k, mode)
            res = outcome(lambda: d.parse_stream(stream))
            show("fault parse", name, mode, k, res, "ops=" + ",".join(stream.log), "@%d" % stream.inner.tell())
for name, d, obj in [("VarInt", VarInt, 2**20), ("ZigZag", ZigZag, -2**20), ("VarInt0", VarInt, 0),
                     ("Prefixed", Prefixed(VarInt, GreedyBytes), b"q" * 200)]:
    for mode in ["raise", "short"]:
        for k in range(1, 4):
            stream = FaultyStream(b"", k, mode)
            res = outcome(lambda: d.build_stream(obj, stream))
            show("fault build", name, mode, k, res, "ops=" + ",".join(stream.log), stream.inner.getvalue().hex())

# 8. inside Bitwise/Bytewise restreaming
bw = Bitwise(Struct("flag" / Bit, "pad" / Padding(7), "v" / Bytewise(VarInt), "z" / Bytewise(ZigZag)))
for data in [b"\x80\xac\x02\x03", b"\x80\xac\x02", b"\x80\xac", b"\x80", b""]:
    show("bitwise", data.hex(), outcome(lambda: bw.parse(data)).replace("\n", " "))
show("bitwise build", outcome(lambda: bw.build(dict(flag=1, v=300, z=-2))))

# 9. pseudo-random differential sweep
rnd = random.Random(60620)
for i in range(120):
    n = rnd.randrange(0, 12)
    data = bytes(rnd.choice([rnd.randrange(256), 0x80 | rnd.randrange(128)]) for _ in range(n))
    show("rnd parse", i, data.hex(), parse_pos(VarInt, data), parse_pos(ZigZag, data))
for i in range(80):
    v = rnd.getrandbits(rnd.randrange(1, 130)) * rnd.choice([1, -1])
    show("rnd build", i, v, outcome(lambda: VarInt.build(v)), outcome(lambda: ZigZag.build(v)))
