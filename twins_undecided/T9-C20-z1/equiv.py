#!/usr/bin/env python
"""usage: equiv.py <repo root>

Deterministic observations of hexdump/hexundump and of search/search_all on
Container/ListContainer.  The output must be byte-identical on the reference
tree and on the refactored tree.
"""
import hashlib
import random
import sys

root = sys.argv[1]
sys.path.insert(0, root)

from construct import *
from construct.lib import *
from construct.lib.hex import hexdump, hexundump
from construct.lib.containers import Container, ListContainer

N = [0]


def show(label, thunk):
    N[0] += 1
    try:
        res = thunk()
        text = repr(res)
        if len(text) > 300:
            text = "%s... len=%d sha1=%s" % (text[:120], len(text), hashlib.sha1(text.encode()).hexdigest())
        print("%03d %s -> %s" % (N[0], label, text))
    except BaseException as e:
        print("%03d %s -> raised %s: %s" % (N[0], label, type(e).__name__, e))


rng = random.Random(20)

# ---------------------------------------------------------------- hexdump / hexundump
samples = [b"", b"\x00", b"A", b"hello world", bytes(range(256)), b"0" * 100, b" " * 33, b"\\\"'\n\t" * 7,
           bytes(rng.randrange(256) for _ in range(77))]
for data in samples:
    for linesize in (1, 2, 3, 7, 8, 16, 17, 32, 100):
        dump = hexdump(data, linesize)
        back = hexundump(dump, linesize)
        show("hexdump len=%d linesize=%d" % (len(data), linesize),
             lambda: (hashlib.sha1(dump.encode()).hexdigest(), dump.count("\n"), back == data, len(back)))
show("hexdump text", lambda: hexdump(b"construct\x00\xff", 4))
show("hexdump text 16", lambda: hexdump(bytes(range(40)), 16))
show("hexdump bytearray", lambda: hexdump(bytearray(b"abc\x80"), 2))
show("hexdump memoryview", lambda: hexdump(memoryview(b"abcdef"), 4))
show("hexdump list of ints", lambda: hexdump([65, 66, 67, 300 % 256], 3))
show("hexdump list with 300", lambda: hexdump([65, 300], 3))
show("hexdump str data", lambda: hexdump("abc", 3))
show("hexdump None", lambda: hexdump(None, 3))
show("hexdump linesize 0", lambda: hexdump(b"abc", 0))
show("hexdump linesize 0 empty", lambda: hexdump(b"", 0))
show("hexdump linesize -1", lambda: hexdump(b"abc", -1))
show("hexdump linesize str", lambda: hexdump(b"abc", "4"))
show("hexdump linesize float", lambda: hexdump(b"abc", 4.0))
show("hexdump linesize None", lambda: hexdump(b"abc", None))
for n in (16 ** 4 - 1, 16 ** 4, 16 ** 4 + 1):
    data = bytes((i * 7) & 0xFF for i in range(n))
    dump = hexdump(data, 64)
    lines = dump.split("\n")
    show("hexdump boundary len=%d" % n, lambda: (lines[1][:30], lines[-3][:30], len(lines), hexundump(dump, 64) == data))


class Counting(bytes):
    calls = []

    def __len__(self):
        Counting.calls.append("len")
        return bytes.__len__(self)


class Huge(bytes):
    def __len__(self):
        return 16 ** 8


class Big(bytes):
    def __len__(self):
        return 16 ** 4


show("hexdump counting len calls", lambda: (hexdump(Counting(b"abcdef"), 4), list(Counting.calls)))
show("hexdump claims 16**8 bytes", lambda: hexdump(Huge(b"abc"), 4))
show("hexdump claims 16**8 bytes, bad linesize", lambda: hexdump(Huge(b"abc"), None))
show("hexdump claims 16**4 bytes", lambda: hexdump(Big(b"abcdef"), 4))

good = hexdump(b"0123456789", 4)
show("hexundump good", lambda: hexundump(good, 4))
show("hexundump wrong linesize smaller", lambda: hexundump(good, 2))
show("hexundump wrong linesize larger", lambda: hexundump(good, 8))
show("hexundump linesize 0", lambda: hexundump(good, 0))
show("hexundump linesize -1", lambda: hexundump(good, -1))
show("hexundump linesize None", lambda: hexundump(good, None))
show("hexundump empty string", lambda: hexundump("", 4))
show("hexundump one line", lambda: hexundump("0000   41", 4))
show("hexundump two lines", lambda: hexundump("x\n0000   41", 4))
show("hexundump three lines", lambda: hexundump("x\n0000   41\n", 4))
show("hexundump four lines", lambda: hexundump("x\n0000   41\ny\n", 4))
show("hexundump five lines", lambda: hexundump("x\n0000   41\n0001   42 43\ny\n", 4))
show("hexundump no space in line", lambda: hexundump("x\n41\ny\n", 4))
show("hexundump no space, not hex", lambda: hexundump("x\nzz\ny\n", 4))
show("hexundump token too big", lambda: hexundump("x\n0000   41 100 42\ny\n", 4))
show("hexundump negative token", lambda: hexundump("x\n0000   41 -1 42\ny\n", 4))
show("hexundump bad token after good line", lambda: hexundump("x\n0000   41 42\n0002   4G\ny\n", 4))
show("hexundump single digit tokens", lambda: hexundump("x\n0000   4 1 f\ny\n", 4))
show("hexundump blank lines", lambda: hexundump("x\n\n   \n0000   41\ny\n", 4))
show("hexundump bytes input", lambda: hexundump(b"x\n0000   41\ny\n", 4))
show("hexundump None", lambda: hexundump(None, 4))
show("hexundump issue 882", lambda: hexundump("\n0000   30 31 32 33 34 35 36 5C 0123456\\\n0008   38                      8\n\n", 8))

d = HexDump(GreedyBytes)
show("HexDump parse str", lambda: str(d.parse(b"\x00\x01abc" * 5)))
show("HexDump build", lambda: d.build(b"xyz"))
d2 = Struct("x" / HexDump(Bytes(3)), "y" / HexDump(RawCopy(Int16ub)))
show("HexDump in Struct", lambda: str(d2.parse(b"abc\x01\x02")))
show("HexDump in Struct sizeof", lambda: d2.sizeof())


# ---------------------------------------------------------------- search / search_all
class Weird:
    """Not a container; has a _search of its own when placed in a ListContainer."""
    def __init__(self, ret=None, exc=None):
        self.ret, self.exc = ret, exc

    def _search(self, compiled_pattern, search_all):
        if self.exc:
            raise self.exc
        return self.ret

    def __repr__(self):
        return "Weird(%r, %r)" % (self.ret, self.exc)


class NoExceptionBase(BaseException):
    pass


trees = {
    "empty": Container(),
    "flat": Container(a=1, ab=2, b=3, _a=4, ba=5),
    "none values": Container(a=None, sub=Container(a=None, b=None), b=7, lst=ListContainer([Container(a=None), Container(a=8)])),
    "nested first": Container(sub=Container(a=1, deep=Container(a=2, b=3)), a=4, b=5),
    "nested last": Container(a=1, b=2, sub=Container(a=3, deep=Container(a=4))),
    "lists": Container(a=0, l=ListContainer([Container(a=1), ListContainer([Container(a=2), Container(b=3)]), 5, "a", None, Container(a=4)]), b=9),
    "int and bytes keys": Container({1: "one", b"a": "bytes", None: "none", "a": "str", ("a",): "tuple"}),
    "shadowing": Container(items=1, keys=2, search=3, _search=4, update=5, sub=Container(items=6, search_all=7)),
    "empty subs": Container(s=Container(), l=ListContainer(), a=1, s2=Container(l=ListContainer([ListContainer()]))),
    "plain dict and list values": Container(a=1, d={"a": 2}, l=[Container(a=3)], t=(Container(a=4),)),
    "weird in list": Container(l=ListContainer([Weird([10, 11]), Weird(None), Weird(exc=KeyError("k")), Weird("xy"), Container(a=12), Weird(13)]), a=14),
    "toplist": ListContainer([Container(a=1, b=2), 3, ListContainer([Container(a=4)]), Container(sub=Container(a=5), a=6)]),
    "toplist empty": ListContainer(),
    "toplist scalars": ListContainer([1, "a", None, b"a"]),
}
patterns = ["a", "b", "a.*", ".*", "_", "zz", "", "^a$", "items|search", "sub", "l"]
for name, tree in trees.items():
    for pat in patterns:
        show("search_all %-28s %r" % (name, pat), lambda: tree.__class__.search_all(tree, pat))
        show("search     %-28s %r" % (name, pat), lambda: tree.__class__.search(tree, pat))

show("search bad regex", lambda: Container(a=1).search("("))
show("search_all bad regex on list", lambda: ListContainer().search_all("("))
show("search bytes pattern", lambda: Container({b"a": 1, "a": 2}).search_all(b"a"))
show("search None pattern", lambda: Container(a=1).search(None))
show("list: Weird ret not iterable, search_all", lambda: ListContainer([Weird(13)]).search_all("a"))
show("list: Weird ret not iterable, search", lambda: ListContainer([Weird(13)]).search("a"))
show("list: Weird raising BaseException", lambda: ListContainer([Container(a=1), Weird(exc=NoExceptionBase("stop"))]).search_all("a"))
show("container: Weird raising BaseException in nested list", lambda: Container(l=ListContainer([Weird(exc=NoExceptionBase("stop"))])).search("a"))
show("container: nested list with non-iterable ret", lambda: Container(l=ListContainer([Weird(13)]), a=1).search_all("a"))

cyc = Container(a=1)
cyc.me = cyc
show("cyclic search no match", lambda: cyc.search("zz"))
show("cyclic search match", lambda: cyc.search("a"))
show("cyclic search_all", lambda: (lambda r: (len(r) > 100, set(r)))(cyc.search_all("a")))
cycl = ListContainer([Container(a=2)])
cycl.append(cycl)
show("cyclic list search no match", lambda: cycl.search("zz"))
show("cyclic list search_all", lambda: (lambda r: (len(r) > 100, set(r)))(cycl.search_all("a")))

fmt = Struct("aa" / Int8ub, "ab" / Struct("aba" / Int8ub, "abc" / Struct("abca" / Int8ub)), "ac" / Int8ub,
             "ad" / GreedyRange(Struct("ada" / Int8ub)))
obj = fmt.parse(b"\x11\x21\x02\x13\x51\x52")
for pat in ("aa", "ab.*", "ada", "ad", "_io", "a", "zz"):
    show("parsed search %r" % pat, lambda: obj.search(pat) if pat != "_io" else type(obj.search(pat)).__name__)
    show("parsed search_all %r" % pat, lambda: obj.search_all(pat) if pat != "_io" else [type(x).__name__ for x in obj.search_all(pat)])

print("observations:", N[0])
