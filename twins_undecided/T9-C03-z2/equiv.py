#!/usr/bin/env python
"""C03 twin z2: observations on the codec-encoded string constructs.

usage: equiv.py <repo root>
Deterministic; output must be byte-identical on the clean and the refactored tree.
"""
import sys, io

root = sys.argv[1] if len(sys.argv) > 1 else "."
sys.path.insert(0, root)

from construct import *
from construct.lib import *
import construct.core as core

LINE = [0]


def show(tag, value):
    LINE[0] += 1
    print("%04d %s -> %s" % (LINE[0], tag, value))


def exc(e):
    text = "EXC %s" % type(e).__name__
    if isinstance(e, ConstructError):
        text += " | " + str(e).replace("\n", " / ")
    return text


def do_parse(name, con, data, **kw):
    stream = io.BytesIO(data)
    try:
        obj = con.parse_stream(stream, **kw)
        show("parse %s %s" % (name, data.hex()), "%s:%r pos=%d" % (type(obj).__name__, obj, stream.tell()))
    except Exception as e:
        show("parse %s %s" % (name, data.hex()), "%s pos=%d" % (exc(e), stream.tell()))


def do_build(name, con, obj, **kw):
    stream = io.BytesIO()
    try:
        ret = con.build_stream(obj, stream, **kw)
        show("build %s %r" % (name, obj), "%s pos=%d" % (stream.getvalue().hex(), stream.tell()))
    except Exception as e:
        show("build %s %r" % (name, obj), "%s written=%s" % (exc(e), stream.getvalue().hex()))


def do_call(tag, f, *a, **kw):
    try:
        show(tag, repr(f(*a, **kw)))
    except Exception as e:
        show(tag, exc(e))


# ---- encodingunit over accepted spellings and rejects
for enc in ["ascii", "ASCII", "utf8", "utf-8", "UTF_8", "u8", "utf16", "UTF-16", "u16", "utf-16-be", "utf_16_le",
            "utf32", "Utf-32", "u32", "utf_32_be", "utf-32-le", "latin1", "cp1252", "", "utf_7", "utf__8", "UTF8 "]:
    do_call("encodingunit(%r)" % enc, core.encodingunit, enc)
do_call("encodingunit(None)", core.encodingunit, None)
do_call("encodingunit(b'utf8')", core.encodingunit, b"utf8")

# ---- constructor-time behaviour
for enc in ["utf8", "latin1", "", None, "utf-16-le"]:
    do_call("PaddedString(4,%r)" % (enc,), lambda e=enc: type(PaddedString(4, e)).__name__)
    do_call("CString(%r)" % (enc,), lambda e=enc: type(CString(e)).__name__)
    do_call("GreedyString(%r)" % (enc,), lambda e=enc: type(GreedyString(e)).__name__)
    do_call("PascalString(Byte,%r)" % (enc,), lambda e=enc: type(PascalString(Byte, e)).__name__)

ENCS = ["ascii", "utf8", "utf-8", "utf16", "utf_16_le", "UTF-16-BE", "utf32", "utf_32_le", "u32"]
TEXTS = [u"", u"a", u"hello", u"Афон", u"a\x00b", u"\x00", u"\U0001F600", u"\ud800", u"\xe9t\xe9"]
NONTEXT = [None, b"bytes", 5, [u"a"], bytearray(b"x")]

DATAS = [
    b"", b"\x00", b"\x00\x00", b"\x00\x00\x00\x00", b"a", b"a\x00", b"ab\x00cd\x00", b"a\x00b\x00\x00\x00",
    b"\xff", b"\xff\xfe", b"\xff\xfea\x00\x00\x00", b"\x00a\x00b\x00\x00", b"a\x00\x00\x00b\x00\x00\x00\x00\x00\x00\x00",
    b"\xd0\x90\xd1\x84\x00", b"\xd0", b"\x03abc", b"\x05ab", b"\x02\x10\x04rest", b"hello\x00\x00\x00", b"\x00\xd8\x00\x00",
    b"abcdefgh", b"\x01\x00\x00\x00",
]

for enc in ENCS:
    cons = [
        ("PaddedString(8,%r)" % enc, PaddedString(8, enc)),
        ("PaddedString(this.n,%r)" % enc, PaddedString(this.n, enc)),
        ("CString(%r)" % enc, CString(enc)),
        ("GreedyString(%r)" % enc, GreedyString(enc)),
        ("PascalString(Byte,%r)" % enc, PascalString(Byte, enc)),
        ("PascalString(VarInt,%r)" % enc, PascalString(VarInt, enc)),
        ("Struct(CString,Byte)(%r)" % enc, Struct("s" / CString(enc), "t" / Byte)),
    ]
    for name, con in cons:
        kw = dict(n=4) if "this.n" in name else {}
        do_call("sizeof %s" % name, con.sizeof, **kw)
        if hasattr(con, "_emitfulltype") and not name.startswith(("Pascal", "Struct")):
            do_call("_emitfulltype %s" % name, lambda c=con: sorted(c._emitfulltype(None, False).items(), key=lambda kv: kv[0]) and list(c._emitfulltype(None, False).items()))
        for data in DATAS:
            do_parse(name, con, data, **kw)
        for text in TEXTS:
            obj = dict(s=text, t=7) if name.startswith("Struct") else text
            do_build(name, con, obj, **kw)
        for bad in NONTEXT:
            obj = dict(s=bad, t=7) if name.startswith("Struct") else bad
            do_build(name, con, obj, **kw)

# ---- StringEncoded used directly, including encodings outside the table
for enc in ["latin1", "cp1252", "utf_7", "nosuchcodec", "utf8"]:
    d = core.StringEncoded(GreedyBytes, enc)
    for data in [b"", b"abc", b"\xe9", b"\x81", b"+AGE-"]:
        do_parse("StringEncoded(GreedyBytes,%r)" % enc, d, data)
    for text in [u"", u"abc", u"\xe9", u"€", u"А"]:
        do_build("StringEncoded(GreedyBytes,%r)" % enc, d, text)
    for bad in NONTEXT:
        do_build("StringEncoded(GreedyBytes,%r)" % enc, d, bad)
do_call("StringEncoded(GreedyBytes,'')", lambda: core.StringEncoded(GreedyBytes, ""))
do_call("StringEncoded(GreedyBytes,None)", lambda: core.StringEncoded(GreedyBytes, None))

# direct adapter calls (return values)
d = core.StringEncoded(GreedyBytes, "utf8")
do_call("_decode utf8 b'ok'", d._decode, b"ok", None, "(p)")
do_call("_decode utf8 b'\\xff'", d._decode, b"\xff", None, "(p)")
do_call("_decode utf8 5", d._decode, 5, None, "(p)")
do_call("_encode utf8 'ok'", d._encode, u"ok", None, "(p)")
do_call("_encode utf8 ''", d._encode, u"", None, "(p)")
do_call("_encode utf8 lone surrogate", d._encode, u"\udc00", None, "(p)")
do_call("_encode utf8 None", d._encode, None, None, "(p)")

# ---- generated code where the macros support it
for enc in ["utf8", "utf_16_le", "ascii"]:
    for name, con in [("PascalString(Byte,%r)" % enc, PascalString(Byte, enc)),
                      ("Struct(PascalString(VarInt,%r),Byte)" % enc, Struct("s" / PascalString(VarInt, enc), "t" / Byte)),
                      ("CString(%r)" % enc, CString(enc)),
                      ("PaddedString(4,%r)" % enc, PaddedString(4, enc)),
                      ("GreedyString(%r)" % enc, GreedyString(enc))]:
        try:
            c = con.compile()
        except Exception as e:
            show("compile %s" % name, exc(e))
            continue
        show("compile %s" % name, "ok")
        for data in DATAS[:18]:
            do_parse("compiled " + name, c, data)

print("total observations: %d" % LINE[0])
