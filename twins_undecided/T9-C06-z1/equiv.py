#!/usr/bin/env python
"""usage: equiv.py <repo root>

Deterministic observations of NullTerminated (and the CString macro built on it): parse
results, stream positions, exception types and messages, built bytes, sizeof, behaviour
under truncation and under injected stream faults, and through a compiled parent.
Output must be byte-identical before and after the refactoring.
"""
import sys, io, itertools, random

root = sys.argv[1]
sys.path.insert(0, root)

from construct import *

def show(*parts):
    print(" | ".join(str(p) for p in parts))

def outcome(func):
    try:
        return "ok %r" % (func(),)
    except ConstructError as e:
        return "%s [%s]" % (type(e).__name__, str(e).replace("\n", " / "))
    except Exception as e:
        return "FOREIGN %s [%s]" % (type(e).__name__, e)

def parse_pos(d, data, **kw):
    stream = io.BytesIO(data)
    res = outcome(lambda: d.parse_stream(stream, **kw))
    return "%s @%d" % (res, stream.tell())


class FaultyStream(object):
    """BytesIO wrapper whose k-th operation misbehaves."""
    def __init__(self, data, k, mode):
        self.inner = io.BytesIO(data)
        self.k = k
        self.mode = mode
        self.n = 0
        self.log = []
    def _tick(self, name):
        self.n += 1
        self.log.append(name)
        return self.n == self.k
    def read(self, count=None):
        bad = self._tick("r")
        if bad and self.mode == "raise":
            raise IOError("injected")
        data = self.inner.read() if count is None else self.inner.read(count)
        if bad and self.mode == "short":
            return data[:-1]
        return data
    def write(self, data):
        bad = self._tick("w")
        if bad and self.mode == "raise":
            raise IOError("injected")
        if bad and self.mode == "short":
            return self.inner.write(data[:-1])
        return self.inner.write(data)
    def seek(self, offset, whence=0):
        bad = self._tick("s")
        if bad and self.mode in ("raise", "noseek"):
            raise IOError("injected")
        return self.inner.seek(offset, whence)
    def tell(self):
        bad = self._tick("t")
        if bad and self.mode in ("raise", "notell"):
            raise IOError("injected")
        return self.inner.tell()


# 1. option matrix
terms = [b"\x00", b"\xff", b"\x00\x00", b"\r\n", b"\x00\x00\x00\x00", b""]
datas = [
    b"",
    b"\x00",
    b"abc\x00def",
    b"abc",
    b"ab\x00\x00cd",
    b"a\x00b\x00\x00\x00",
    b"a\x00\x00\x00b\x00\x00\x00\x00\x00\x00\x00zz",
    b"line1\r\nline2\r\n",
    b"\xff\xff",
    b"abc\xff",
    b"a\x00\x00",
]
for term in terms:
    for include, consume, require in itertools.product([False, True], repeat=3):
        d = NullTerminated(GreedyBytes, term=term, include=include, consume=consume, require=require)
        for data in datas:
            show("matrix", repr(term), "i%d c%d r%d" % (include, consume, require), repr(data), parse_pos(d, data))

# 2. different subcons, trailing fields see the right position
subs = [
    ("Byte", Byte),
    ("Int16ub", Int16ub),
    ("GreedyRange(Byte)", GreedyRange(Byte)),
    ("Struct", Struct("a" / Byte, "rest" / GreedyBytes)),
    ("Tell", Struct("t0" / Tell, "x" / Byte, "t1" / Tell)),
    ("Pass", Pass),
]
for name, sub in subs:
    for kw in [dict(), dict(include=True), dict(consume=False), dict(require=False)]:
        d = Struct("head" / Byte, "body" / NullTerminated(sub, **kw), "after" / Tell, "tail" / GreedyBytes)
        for data in [b"\x07\x01\x02\x00rest", b"\x07\x00", b"\x07\x01\x02", b"\x07", b""]:
            show("nested", name, sorted(kw.items()), repr(data), parse_pos(d, data))

# 3. CString in all encodings, every truncation of the canonical encoding
for enc in ["ascii", "utf8", "utf16", "utf_16_le", "utf32", "utf_32_be"]:
    d = CString(enc)
    for text in [u"", u"ab", u"Аф"]:
        full = outcome(lambda: d.build(text))
        show("cstring build", enc, repr(text), full)
        try:
            blob = d.build(text)
        except ConstructError:
            continue
        for cut in range(len(blob) + 1):
            show("cstring cut", enc, repr(text), cut, parse_pos(d, blob[:cut]))
    show("cstring sizeof", enc, outcome(d.sizeof))

# 4. build and sizeof
for term in [b"\x00", b"\r\n", b"\x00\x00"]:
    d = NullTerminated(GreedyBytes, term=term)
    for obj in [b"", b"abc", b"a\x00b", u"text", 5, None]:
        show("build", repr(term), repr(obj), outcome(lambda: d.build(obj)))
    show("sizeof", repr(term), outcome(d.sizeof))
show("build int", outcome(lambda: NullTerminated(Int16ub).build(513)))
show("build struct", outcome(lambda: NullTerminated(Struct("a" / Byte)).build(dict(a=1))))

# 5. injected stream faults: k-th operation raises / returns short / refuses seek or tell
fd = [
    ("plain", NullTerminated(GreedyBytes), b"ab\x00cd"),
    ("noconsume", NullTerminated(GreedyBytes, consume=False), b"ab\x00cd"),
    ("norequire", NullTerminated(GreedyBytes, require=False), b"abcd"),
    ("wide", NullTerminated(GreedyBytes, term=b"\x00\x00", include=True, consume=False), b"ab\x00\x00cd"),
    ("cstring16", CString("utf16"), u"hi".encode("utf16") + b"\x00\x00"),
    ("inner", Struct("s" / NullTerminated(Struct("p" / Tell, "v" / Int16ub)), "e" / Tell), b"\x01\x02\x00\x09"),
]
for name, d, data in fd:
    for mode in ["raise", "short", "noseek", "notell"]:
        for k in range(1, 9):
            stream = FaultyStream(data, k, mode)
            res = outcome(lambda: d.parse_stream(stream))
            show("fault parse", name, mode, k, res, "ops=" + "".join(stream.log), "@%d" % stream.inner.tell())
for name, d, obj in [("plain", NullTerminated(GreedyBytes), b"xyz"), ("wide", NullTerminated(Int16ub, term=b"\r\n"), 258)]:
    for mode in ["raise", "short"]:
        for k in range(1, 4):
            stream = FaultyStream(b"", k, mode)
            res = outcome(lambda: d.build_stream(obj, stream))
            show("fault build", name, mode, k, res, "ops=" + "".join(stream.log), repr(stream.inner.getvalue()))

# 6. non-bytes terminators and odd parameters
for term in [b"\x00", bytearray(b"\x00"), b"ab"]:
    d = NullTerminated(GreedyBytes, term=term, include=True)
    show("termtype", repr(term), parse_pos(d, b"xxab\x00yy"))

# 7. inside containers that recover / restream
rec = [
    ("GreedyRange(CString)", GreedyRange(CString("ascii")), b"a\x00bc\x00d"),
    ("Select", Select(NullTerminated(Int16ub), NullTerminated(GreedyBytes, require=False)), b"abc"),
    ("Optional", Optional(NullTerminated(GreedyBytes)), b"abc"),
    ("Peek", Sequence(Peek(NullTerminated(GreedyBytes)), GreedyBytes), b"ab\x00c"),
    ("Prefixed", Prefixed(Byte, NullTerminated(GreedyBytes, consume=False)), b"\x04ab\x00cZ"),
    ("FixedSized", FixedSized(4, NullTerminated(GreedyBytes, require=False)), b"abcdZ"),
    ("Bitwise", Bitwise(NullTerminated(GreedyBytes, term=b"\x01")), b"\x10\xff"),
    ("Array", Array(3, NullTerminated(GreedyBytes, include=True)), b"a\x00\x00b\x00c"),
    ("RawCopy", RawCopy(NullTerminated(GreedyBytes)), b"ab\x00c"),
]
for name, d, data in rec:
    for cut in range(len(data) + 1):
        show("container", name, cut, parse_pos(d, data[:cut]))

# 8. compiled parent (NullTerminated itself is linked, not emitted)
d = Struct("n" / Byte, "s" / NullTerminated(GreedyBytes), "m" / Byte)
dc = d.compile()
for data in [b"\x01ab\x00\x02", b"\x01ab\x00", b"\x01ab", b"\x01"]:
    show("compiled", repr(data), outcome(lambda: dc.parse(data)))
show("compiled build", outcome(lambda: dc.build(dict(n=1, s=b"q", m=2))))

# 9. pseudo-random inputs
rnd = random.Random(6061)
for i in range(60):
    term = rnd.choice([b"\x00", b"\x01\x02", b"\x00\x00\x00"])
    data = bytes(rnd.choice([0, 0, 1, 2, 65]) for _ in range(rnd.randrange(0, 14)))
    kw = dict(include=rnd.random() < .5, consume=rnd.random() < .5, require=rnd.random() < .5)
    d = Sequence(NullTerminated(GreedyBytes, term=term, **kw), Tell)
    show("random", i, repr(term), sorted(kw.items()), repr(data), parse_pos(d, data))
