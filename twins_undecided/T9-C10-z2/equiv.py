#!/usr/bin/env python
"""C10 equivalence probe (z2). Prints a deterministic log of observations about bit regions:
built bytes, parse results, sizeof, stream positions, exception type names and messages,
callback order, generated parser/builder source and its behaviour, KSY emitter results.
Run on the clean and on the changed tree; the two outputs must be identical.

usage: equiv.py <repo root>
"""
import sys, io, random
sys.path.insert(0, sys.argv[1])
from construct import *
from construct.lib import *
import construct.core as core
import construct.lib.binary as binary

LINES = [0]

def out(*parts):
    LINES[0] += 1
    print(" | ".join(str(p) for p in parts))

def show(x):
    if isinstance(x, Container):
        return "{" + ", ".join("%s=%s" % (k, show(v)) for k, v in x.items() if not str(k).startswith("_")) + "}"
    if isinstance(x, (list, tuple)):
        return type(x).__name__ + "[" + ", ".join(show(v) for v in x) + "]"
    return repr(x)

def attempt(fn, *a, **k):
    try:
        return show(fn(*a, **k))
    except Exception as e:
        return "EXC %s: %s" % (type(e).__name__, str(e).replace("\n", " / ")[:160])

def streamed(sub):
    return Restreamed(sub, bytes2bits, 1, bits2bytes, 8, lambda n: n // 8)

def both(label, make, obj, data, **kw):
    for kind, d in (("bitwise", Bitwise(make())), ("restreamed", streamed(make()))):
        out(label, kind, type(d).__name__, "build", attempt(d.build, obj, **kw))
        out(label, kind, "parse", attempt(d.parse, data, **kw))
        out(label, kind, "sizeof", attempt(d.sizeof, **kw))
        s = io.BytesIO(data + b"\xAA\xBB")
        out(label, kind, "parse_stream", attempt(d.parse_stream, s, **kw), "pos", s.tell())
        s = io.BytesIO()
        s.write(b"\x11")
        out(label, kind, "build_stream", attempt(d.build_stream, obj, s, **kw), "pos", s.tell(), "value", s.getvalue())

rnd = random.Random(2020)

# ---- bytes2bits and friends -------------------------------------------------
for data in (b"", b"\x00", b"\xff", b"ab", bytes(range(256)), bytearray(b"\x80\x01"), memoryview(b"\x0f"), [1, 2], (255,), "ab", [256], [-1], [1.0], 5, None, iter([3])):
    label = type(data).__name__ if isinstance(data, memoryview) or hasattr(data, "__next__") else repr(data)[:40]
    out("bytes2bits", label, attempt(bytes2bits, data))
out("bytes2bits type", type(bytes2bits(b"a")).__name__, type(binary.BYTES2BITS_CACHE).__name__, len(binary.BYTES2BITS_CACHE), binary.BYTES2BITS_CACHE[0x81])
for n in range(8):
    blob = bytes(rnd.randrange(256) for _ in range(n))
    bits = bytes2bits(blob)
    out("roundtrip", blob, bits, bits2bytes(bits) == blob, swapbytesinbits(bits) == bytes2bits(blob[::-1]))

# ---- single fields: every flag combination, boundaries ----------------------
def field_cases(width, signed):
    lo, hi = (-(1 << (width - 1)), (1 << (width - 1)) - 1) if signed else (0, (1 << width) - 1)
    return [lo - 1, lo, lo + 1, -1, 0, 1, hi - 1, hi, hi + 1]

for width in (1, 2, 3, 7, 8, 9, 16, 24):
    for signed in (False, True):
        for swapped in (False, True):
            fill = (-width) % 8
            def make(width=width, signed=signed, swapped=swapped, fill=fill):
                subs = ["v" / BitsInteger(width, signed=signed, swapped=swapped)]
                if fill:
                    subs.append("z" / BitsInteger(fill))
                return Struct(*subs)
            for v in field_cases(width, signed):
                sized, streaming = Bitwise(make()), streamed(make())
                obj = dict(v=v, z=(1 << fill) - 1 if fill else None)
                a, b = attempt(sized.build, obj), attempt(streaming.build, obj)
                out("field", width, signed, swapped, v, a, b)
            for _ in range(2):
                blob = bytes(rnd.randrange(256) for _ in range((width + fill) // 8))
                out("field parse", width, signed, swapped, blob, attempt(Bitwise(make()).parse, blob), attempt(streamed(make()).parse, blob))

# ---- build argument checks, order of callbacks ------------------------------
trace = []
def width_cb(ctx):
    trace.append("length")
    return ctx._params.get("w", 8)
def swap_cb(ctx):
    trace.append("swapped")
    r = ctx._params.get("s", False)
    if r == "boom":
        raise ValueError("from swapped callback")
    if r == "key":
        raise KeyError("from swapped callback")
    return r
d = BitsInteger(width_cb, signed=True, swapped=swap_cb)
for obj in (5, -128, 127, 128, -129, None, "7", 1.5, True, 2 ** 70):
    for kw in (dict(), dict(s=True), dict(w=16, s=True), dict(w=12, s=True), dict(w=0), dict(w=-3), dict(s="boom"), dict(s="key"), dict(w=12, s=0)):
        del trace[:]
        s = io.BytesIO()
        r = attempt(d.build_stream, obj, s, **kw)
        out("bitsinteger build", repr(obj), sorted(kw.items()), r, s.getvalue(), list(trace))
for kw in (dict(), dict(s=True), dict(w=16, s=True), dict(w=12, s=True), dict(w=0), dict(s="boom")):
    del trace[:]
    s = io.BytesIO(b"\x01\x00" * 12)
    out("bitsinteger parse", sorted(kw.items()), attempt(d.parse_stream, s, **kw), s.tell(), list(trace), attempt(d.sizeof, **kw))
out("bitsinteger attrs", sorted(k for k in vars(BitsInteger(3)) if not k.startswith("_")), BitsInteger(3).sizeof(), attempt(BitsInteger(this.n).sizeof), attempt(BitsInteger(this.n).sizeof, n=4))

# ---- generated code ----------------------------------------------------------
for d in (BitsInteger(5), BitsInteger(16, swapped=True), BitsInteger(8, signed=True), BitsInteger(24, signed=True, swapped=True),
          BitsInteger(this.n), BitsInteger(16, swapped=this.s), Bit, Nibble, Octet,
          Struct("a" / BitsInteger(3), "b" / Flag, "c" / BitsInteger(12, signed=True)), Array(3, BitsInteger(2))):
    code = core.CodeGen()
    out("emitparse", attempt(d._compileparse, code))
    out("emitbuild", attempt(d._compilebuild, code))
    for line in code.toString().splitlines():
        out("  block", line)
for d, bits, obj, kw in (
        (BitsInteger(5), b"\x01\x00\x01\x00\x01", 21, {}),
        (BitsInteger(16, swapped=True), bytes2bits(b"\x34\x12"), 0x1234, {}),
        (BitsInteger(16, signed=True, swapped=True), bytes2bits(b"\x00\x80"), -32768, {}),
        (BitsInteger(7, signed=True), b"\x01\x00\x00\x00\x00\x00\x00", -64, {}),
        (Struct("a" / BitsInteger(3), "b" / Flag, "c" / BitsInteger(12, signed=True)), bytes2bits(b"\xb8\x01"), dict(a=5, b=True, c=-2047), {}),
        (Array(3, BitsInteger(2)), b"\x00\x01\x01\x00\x01\x01", [1, 2, 3], {}),
        (BitsInteger(16, swapped=this._params.s), bytes2bits(b"\x34\x12"), 0x1234, dict(s=True)),
        (BitsInteger(5, swapped=True), bytes(5), 0, {}),
        (BitsInteger(4), bytes(4), 16, {})):
    c = attempt(d.compile)
    out("compile", c[:60])
    if not c.startswith("EXC"):
        c = d.compile()
        out("compiled parse", attempt(c.parse, bits, **kw), attempt(d.parse, bits, **kw))
        out("compiled build", attempt(c.build, obj, **kw), attempt(d.build, obj, **kw))
        for line in c.source.splitlines():
            if "integer2bits" in line or "bits2integer" in line:
                out("  source", line.strip())

# ---- KSY emitters of the Bitwise / Bytewise macros -------------------------
class Ksy(object):
    def __init__(self):
        self.types = {}
        self.enums = {}
        self.instances = {}
        self.n = 0
    def allocateId(self):
        self.n += 1
        return self.n
for label, d in (
        ("bitstruct", BitStruct("a" / BitsInteger(3), "b" / Flag, Padding(4))),
        ("bitwise octet", Bitwise(Octet)),
        ("bitwise array", Bitwise(Array(8, Bit))),
        ("bitwise unsized", Bitwise(GreedyRange(Bit))),
        ("bitwise dyn", Bitwise(Struct("n" / Nibble, "v" / BitsInteger(this.n)))),
        ("island", BitStruct("h" / Nibble, "i" / Bytewise(Int16ub), "t" / Nibble)),
        ("island bytes", Bitwise(Bytewise(Bytes(2)))),
        ("island greedy", Bitwise(Bytewise(GreedyBytes))),
        ("bytewise alone", Bytewise(Int8ub)),
        ("signed", Bitwise(BitsInteger(8, signed=True))),
        ("struct of bitstruct", Struct("x" / Byte, "y" / BitStruct("p" / Nibble, "q" / Nibble)))):
    for flag in (False, True):
        k = Ksy()
        out("ksy seq", label, flag, attempt(d._compileseq, k, flag), sorted(k.types.items()))
        k = Ksy()
        out("ksy prim", label, flag, attempt(d._compileprimitivetype, k, flag), sorted(k.types.items()))
        k = Ksy()
        out("ksy full", label, flag, attempt(d._compilefulltype, k, flag), sorted(k.types.items()))
    out("ksy attrs", label, type(d).__name__, [getattr(getattr(d, n, None), "__name__", None) for n in ("_emitseq", "_emitprimitivetype", "_emitfulltype")],
        sorted(k for k in vars(d) if k.startswith("_emit")))
out("export_ksy", attempt(BitStruct("a" / Octet).export_ksy)[:40])

# ---- sizeof of the wrappers ---------------------------------------------------
for label, d in (
        ("T 2/2", Transformed(Bytes(16), bytes2bits, 2, bits2bytes, 2)),
        ("T 2/3", Transformed(Bytes(16), bytes2bits, 2, bits2bytes, 3)),
        ("T None/None", Transformed(GreedyBytes, bytes2bits, None, bits2bytes, None)),
        ("T None/2", Transformed(GreedyBytes, bytes2bits, None, bits2bytes, 2)),
        ("T 2/None", Transformed(GreedyBytes, bytes2bits, 2, bits2bytes, None)),
        ("T 0/0", Transformed(Struct(), bytes2bits, 0, bits2bytes, 0)),
        ("T 2/2.0", Transformed(Bytes(16), bytes2bits, 2, bits2bytes, 2.0)),
        ("bitwise 24", Bitwise(Array(3, Octet))),
        ("bitwise 12", Bitwise(BitsInteger(12))),
        ("bytewise 2", Bytewise(Bytes(2))),
        ("bitwise dyn", Bitwise(BitsInteger(this.n))),
        ("bytewise dyn", Bytewise(Bytes(this.n))),
        ("nested", Bitwise(Struct("a" / Nibble, "b" / Bytewise(Bytes(this.n)), "c" / Nibble)))):
    out("sizeof", label, type(d).__name__, attempt(d.sizeof), attempt(d.sizeof, n=8), attempt(d.sizeof, n=3))

# ---- whole regions --------------------------------------------------------------
both("doc example", lambda: Struct("a" / Nibble, "b" / Bytewise(Float32b), "c" / Padding(4)), dict(a=9, b=1.5), b"\x93\xfc\x00\x00\x00")
both("mixed", lambda: Struct("a" / BitsInteger(3, signed=True), "f" / Flag, Padding(2), "b" / BitsInteger(10), "c" / BitsInteger(16, signed=True, swapped=True)),
     dict(a=-3, f=True, b=0x2aa, c=-2), b"\xb6\xaa\xfe\xff")
both("island unaligned", lambda: Struct("h" / BitsInteger(3), "i" / Bytewise(Int16ul), "t" / BitsInteger(5)), dict(h=5, i=0x1234, t=17), b"\xa6\x82\x51")
both("island array", lambda: Struct("h" / Bit, "i" / Bytewise(Array(2, Int8sb)), "t" / BitsInteger(7)), dict(h=1, i=[-1, 2], t=100), b"\xff\x81\x64")
both("nested struct", lambda: Struct("o" / BitsInteger(2), "in" / Struct("x" / BitsInteger(9), "y" / Array(3, Flag)), "z" / BitsInteger(2)),
     dict(o=2, z=1, **{"in": dict(x=300, y=[True, False, True])}), b"\xa5\x95")
both("dyn width", lambda: Struct("n" / BitsInteger(4), "v" / BitsInteger(this.n, signed=True), "r" / BitsInteger(12 - this.n)), dict(n=5, v=-9, r=100), b"\x5b\xe4")
both("not multiple of 8", lambda: BitsInteger(12), 100, b"\x06\x40")
both("overflow value", lambda: Struct("a" / BitsInteger(4), "b" / BitsInteger(4)), dict(a=16, b=0), b"\x00")
both("swapped bad width", lambda: Struct("a" / BitsInteger(12, swapped=True), "b" / Nibble), dict(a=1, b=2), b"\x00\x12")
for n in range(10):
    widths, left = [], rnd.choice((16, 24, 40, 64))
    total = left
    while left:
        w = min(left, rnd.randint(1, 24))
        widths.append(w)
        left -= w
    flags = [(rnd.random() < 0.5, w % 8 == 0 and rnd.random() < 0.6) for w in widths]
    vals = [rnd.randrange(-(1 << (w - 1)), 1 << (w - 1)) if sg else rnd.randrange(1 << w) for w, (sg, sw) in zip(widths, flags)]
    def make(widths=widths, flags=flags):
        return Struct(*[("f%d" % i) / BitsInteger(w, signed=sg, swapped=sw) for i, (w, (sg, sw)) in enumerate(zip(widths, flags))])
    blob = bytes(rnd.randrange(256) for _ in range(total // 8))
    both("rand%d %r %r" % (n, widths, flags), make, {"f%d" % i: v for i, v in enumerate(vals)}, blob)

out("lines", LINES[0] + 1)
