#!/usr/bin/env python
"""
C11 equivalence observations: printing and evaluation of context expressions.

usage: equiv.py <repo root>
Prints deterministic observations; the output on the clean tree and on the refactored tree must be byte-identical.
"""
import sys
import io
import operator
import itertools

root = sys.argv[1]
sys.path.insert(0, root)

from construct import *
from construct.lib import *
from construct.expr import Path, Path2, FuncPath, UniExpr, BinExpr, _operand

lineno = 0


def show(label, value):
    global lineno
    lineno += 1
    print("%04d %s => %s" % (lineno, label, value))


def outcome(func, *args, **kw):
    try:
        value = func(*args, **kw)
        return "%s:%r" % (type(value).__name__, value)
    except Exception as e:
        return "raised %s" % (type(e).__name__,)


class MyInt(int):
    pass


# ---------------------------------------------------------------- operand rendering
for value in [0, 1, -1, -7, 2.5, -2.5, -0.0, float("nan"), float("-inf"), True, False, "s", "-1", b"b", b"-1", None, [1, -2], (-1,), MyInt(-3), MyInt(3), -this.a, +this.a, ~this.a, this.a, this.a - 1, len_(this.a), obj_, list_]:
    show("_operand(%s, repr)" % (outcome(repr, value),), outcome(_operand, value, repr))
    show("_operand(%s, str)" % (outcome(repr, value),), outcome(_operand, value, str))

# ---------------------------------------------------------------- expression trees: repr, str, evaluation
BINARY = [operator.add, operator.sub, operator.mul, operator.truediv, operator.floordiv, operator.mod, operator.pow, operator.xor,
          operator.lshift, operator.rshift, operator.and_, operator.or_, operator.gt, operator.ge, operator.lt, operator.le, operator.eq, operator.ne]
UNARY = [operator.neg, operator.pos, operator.invert]
leaves = [this.a, this["b"], this._.c, obj_]
constants = [3, -2, True, "s", b"x"]
contexts = [Container(a=a, b=b, _=Container(c=c)) for a, b, c in [(0, 1, 2), (-1, 3, 0), (5, 2, -3)]]

trees = list(leaves)
trees += [u(x) for u in UNARY for x in leaves[:3]]
for op in BINARY:
    trees.append(op(this.a, this["b"]))
    trees.append(op(this._.c, -this.a))
    trees.append(op(~this.a, this["b"]))
    for const in constants:
        trees.append(op(this.a, const))
        if not (op is operator.mod and isinstance(const, (str, bytes))):
            trees.append(op(const, this["b"]))
trees += [u(t) for u in UNARY for t in trees[16:120:9]]
trees += [(this.a + 1) * (this["b"] - -1) ** 2, -(-this.a), ~(~(this.a == 0)), -(this.a ** -1), (-this.a) ** 2, 2 ** -this.a, -2 ** this.a]

for t in trees:
    show("repr", repr(t))
    show("str ", str(t))
    show("eval", " | ".join(outcome(t, ctx) for ctx in contexts))
    show("eval obj_ style (two and three arguments)", outcome(t, contexts[0], {}) + " | " + outcome(t, contexts[1], [], {}))

# ---------------------------------------------------------------- paths
p = Path("p")
for path in [p, p.x, p["x"], p.x.y, p["x"]["y"], p[0], p[-1], p.x[0].y, p._, p._._.z, p[b"k"], p[None], p[(1, 2)], p["it's"], this, obj_, this._params, this._index]:
    show("path repr", repr(path))
    show("path str ", str(path))
    show("path getfield", outcome(path.__getfield__))
    for target in [dict(x=dict(y=1)), dict(x=[dict(y=2)], _=dict(_=dict(z=3))), [10, 20, 30], Container(x=Container(y=4)), 5, None, {b"k": 6, None: 7, (1, 2): 8, "it's": 9}]:
        show("path call on %r" % (target,), outcome(path, target))
    show("path call with extra args", outcome(path, dict(x=dict(y=1)), [1], dict(x=2)))
show("path call without arguments", outcome(this.a))
show("root call without arguments", outcome(this))

# ---------------------------------------------------------------- list_ placeholder
for path in [list_, list_[0], list_[-1], list_[1:], list_[-1][0], list_["k"]]:
    show("list_ repr", repr(path))
    show("list_ str ", str(path))
    for args in [(1, [2, 3, 4], {}), (1, [[5], [6, 7]], {}), (1, [], {}), (1,), (), (1, {"k": 9}, {}), (1, None, {})]:
        show("list_ call %r" % (args,), outcome(path, *args))
show("list_ in arithmetic repr", repr(list_[-1] + 1))
show("list_ in arithmetic call", outcome(list_[-1] + 1, 1, [2, 3], {}))
show("list_ comparison repr", repr(list_[-1] == 255))

# ---------------------------------------------------------------- function helpers
for helper in [len_, sum_, min_, max_, abs_]:
    show("helper repr", repr(helper))
    show("helper str ", str(helper))
    for operand in [this.items, this.items[0], this.a - 7, obj_, -this.a, len_(this.items), abs_(this.a - 7), 5, -5, [3, 1, 2], "text", None, len, helper]:
        bound = outcome(helper, operand)
        show("helper applied to %s" % (outcome(repr, operand),), bound)
        result = helper(operand)
        if isinstance(result, FuncPath):
            show("bound repr", repr(result))
            show("bound str ", str(result))
            for ctx in [Container(items=[3, -1, 2], a=2), Container(items=[], a=7), Container(items=[[4, 5], 6], a=-1), Container(a=1), [1, 2, 3], -4, None]:
                show("bound call on %r" % (ctx,), outcome(result, ctx))
            show("bound call with extra args", outcome(result, Container(items=[3, -1, 2], a=2), [], {}))
    for direct in [FuncPath(helper(this.a)._FuncPath__func, -3), FuncPath(helper(this.a)._FuncPath__func, [4, -9, 2]), FuncPath(helper(this.a)._FuncPath__func, "ab"), FuncPath(helper(this.a)._FuncPath__func, 0)]:
        show("constant-bound repr", repr(direct))
        show("constant-bound str ", str(direct))
        show("constant-bound call", outcome(direct, Container(a=1)))
    show("helper in arithmetic repr", repr(helper(this.items) * 2 - 1))
    show("helper in arithmetic call", outcome(helper(this.items) * 2 - 1, Container(items=[3, 1, 2])))
    show("helper in arithmetic call on scalar", outcome(helper(this.items) * 2 - 1, Container(items=-6)))
show("helper call without arguments", outcome(len_))

# ---------------------------------------------------------------- inside constructs, interpreted and compiled
d = Struct(
    "n" / Int8sb,
    "items" / Array(abs_(this.n), Int8ub),
    "neg" / Computed(-this.n),
    "total" / Computed(sum_(this.items) + len_(this.items)),
    "low" / Computed(min_(this.items) - -1),
    "high" / Computed(max_(this.items) ** 2),
    "inner" / Struct(
        "k" / Int8ub,
        "up" / Computed(this._.n * 2 + this.k),
        "flag" / Computed(~(this._.n == this.k)),
    ),
    "tail" / IfThenElse((this.n > 2) & (this.inner.k != 0), Int16ub, Int8ub),
    "rest" / RepeatUntil(obj_ == 255, Int8ub),
    Check(this.total >= 0),
)
samples = [b"\x03\x01\x02\x03\x09\x00\x07\x01\xff", b"\x02\x05\x06\x00\x08\xff", b"\xfe\x05\x06\x02\x08\x04\xff", b"\x03\x01\x02\x03\x00\x00\x07\xff\xff", b"\x00\x01\x02", b"\x03\x01", b""]
compiled = d.compile()
for label, variant in [("interpreted", d), ("compiled", compiled)]:
    for sample in samples:
        stream = io.BytesIO(sample)
        show("%s parse_stream %r" % (label, sample), outcome(variant.parse_stream, stream))
        show("%s stream position" % (label,), stream.tell())
        try:
            obj = variant.parse(sample)
        except Exception:
            continue
        show("%s build" % (label,), outcome(variant.build, obj))
        stream = io.BytesIO()
        show("%s build_stream" % (label,), outcome(variant.build_stream, obj, stream))
        show("%s built stream position and content" % (label,), "%d %r" % (stream.tell(), stream.getvalue()))
    show("%s sizeof" % (label,), outcome(variant.sizeof))
    show("%s sizeof with context" % (label,), outcome(variant.sizeof, n=2))
show("generated code mentions", sorted(set(line.strip() for line in compiled.source.splitlines() if "this[" in line and "= " in line))[:12])

for length in [this.n, this.n - 1, -this.n, abs_(this.n), len_(this.n), this._.n, this.missing, 2 ** this.n, this.n / 2, this.n // 0]:
    f = Struct("n" / Int8sb, "data" / Bytes(length))
    for sample in [b"\x02abcd", b"\xfeabcd", b"\x00", b"\x05ab"]:
        stream = io.BytesIO(sample)
        show("Bytes(%r) parse %r" % (length, sample), outcome(f.parse_stream, stream))
        show("Bytes(%r) position" % (length,), stream.tell())
    show("Bytes(%r) build" % (length,), outcome(f.build, dict(n=2, data=b"xy")))
    show("Bytes(%r) sizeof" % (length,), outcome(f.sizeof))
    show("Bytes(%r) sizeof n=3" % (length,), outcome(f.sizeof, n=3))
    show("Bytes(%r) compiled parse" % (length,), outcome(lambda: f.compile().parse(b"\x02abcd")))

# ---------------------------------------------------------------- the overloads themselves
from construct.expr import ExprMixin, opnames
names = ["__add__", "__sub__", "__mul__", "__floordiv__", "__truediv__", "__div__", "__mod__", "__pow__", "__xor__", "__rshift__", "__lshift__", "__and__", "__or__",
         "__radd__", "__rsub__", "__rmul__", "__rfloordiv__", "__rtruediv__", "__rdiv__", "__rmod__", "__rpow__", "__rxor__", "__rrshift__", "__rlshift__", "__rand__", "__ror__",
         "__neg__", "__pos__", "__invert__", "__inv__", "__contains__", "__gt__", "__ge__", "__lt__", "__le__", "__eq__", "__ne__"]
show("public names of construct.expr", sorted(n for n in vars(sys.modules["construct.expr"]) if not n.startswith("_")))
show("star-exported from construct", sorted(n for n in ["this", "obj_", "list_", "len_", "sum_", "min_", "max_", "abs_", "Path", "BinExpr", "_binary", "_unary"] if n in globals()))
for name in names:
    func = vars(ExprMixin)[name]
    show("%s defined as" % (name,), "%s %s %s %s" % (type(func).__name__, func.__name__, func.__qualname__, func.__module__))
    show("%s argument count" % (name,), func.__code__.co_argcount)
    for holder in [this.a, obj_, len_(this.a), -this.a, this.a + 1, list_[0]]:
        bound = getattr(holder, name)
        unary = name in ("__neg__", "__pos__", "__invert__", "__inv__")
        result = bound() if unary else bound(7)
        show("%r.%s -> type, op, symbol" % (holder, name), "%s %s %s" % (type(result).__name__, result.op.__name__, opnames[result.op]))
        show("%r.%s -> repr" % (holder, name), repr(result))
        if unary:
            show("operand is the holder", result.operand is holder)
            show("with an argument", outcome(bound, 7))
        else:
            show("sides", "%r %r %s %s" % (result.lhs, result.rhs, result.lhs is holder, result.rhs is holder))
            show("keyword call", outcome(bound, other=7))
            show("without argument", outcome(bound))
            show("two arguments", outcome(bound, 7, 8))
show("__div__ is __floordiv__", vars(ExprMixin)["__div__"] is vars(ExprMixin)["__floordiv__"])
show("__inv__ is __invert__", vars(ExprMixin)["__inv__"] is vars(ExprMixin)["__invert__"])
show("__rdiv__ is __rfloordiv__", vars(ExprMixin)["__rdiv__"] is vars(ExprMixin)["__rfloordiv__"])
show("pow with modulus", outcome(pow, this.a, 2, 5))
show("divmod", outcome(divmod, this.a, 2))
show("matmul", outcome(operator.matmul, this.a, 2))
show("abs builtin", outcome(abs, this.a))
show("hash", outcome(hash, this.a))
show("bool", outcome(bool, this.a == 1))
show("in operator", outcome(lambda: 1 in this.a))
import pickle, copy
for e in [this.a + 1, -this.a, ~(this.a - this.b), 2 ** this.a, len_(this.a) % 3]:
    show("pickled %r" % (e,), outcome(lambda: pickle.loads(pickle.dumps(e))))
    show("deep-copied %r" % (e,), outcome(copy.deepcopy, e))
    show("shallow-copied %r" % (e,), outcome(copy.copy, e))
    try:
        clone = pickle.loads(pickle.dumps(e))
    except Exception:
        continue
    show("pickled clone evaluated", outcome(clone, Container(a=[1, 2], b=1)) + " " + outcome(clone, Container(a=4, b=1)))
