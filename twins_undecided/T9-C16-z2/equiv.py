#!/usr/bin/env python
"""equiv.py <repo root>

Deterministic observation dump for the lazy constructs (Lazy, LazyStruct, LazyArray and
their containers): parse results under many access histories, cache state (repr), stream
positions, built bytes, sizeof, exception type names and messages, compiled behaviour.
The output must be byte-identical before and after a behaviour-preserving refactoring.
"""
import sys, io, itertools

root = sys.argv[1] if len(sys.argv) > 1 else "."
sys.path.insert(0, root)
from construct import *

LINE = [0]


def out(tag, *vals):
    LINE[0] += 1
    print("%03d %s | %s" % (LINE[0], tag, " | ".join(str(v) for v in vals)))


def plain(x):
    if callable(x) and not isinstance(x, (dict, list)):
        x = x()
    if isinstance(x, dict):
        return {k: plain(x[k]) for k in x.keys() if not (isinstance(k, str) and k.startswith("_"))}
    if isinstance(x, list):
        return [plain(e) for e in x]
    return x


def attempt(func, *a, **kw):
    try:
        return ("ok", func(*a, **kw))
    except Exception as e:
        return ("raised", type(e).__name__, str(e))


class Recorder(object):
    """Order-of-evaluation probe: a context callable that logs when it is called."""
    def __init__(self, log, label, value):
        self.log, self.label, self.value = log, label, value
    def __call__(self, ctx):
        self.log.append(self.label)
        return self.value(ctx) if callable(self.value) else self.value


# ---------------------------------------------------------------- LazyStruct
members = [
    Const(b"MZ"),
    "num" / Int8ub,
    "ctx" / Bytes(this._params.n),
    Padding(2),
    "pfx" / Prefixed(Byte, GreedyBytes),
    "pfi" / Prefixed(Byte, Int16ub, includelength=True),
    "arr" / PrefixedArray(Byte, Int16ub),
    "var" / VarInt,
    "dflt" / Default(Byte, 7),
    "tail" / CString("ascii"),
]
data = b"MZ" + b"\x05" + b"xyz" + b"\x00\x00" + b"\x03abc" + b"\x03\x01\x02" + b"\x02\x00\x0a\x00\x0b" + b"\x85\x01" + b"\x09" + b"end\x00"
ls = LazyStruct(*members)
es = Struct(*members)
names = [m.name for m in members if m.name]

s = io.BytesIO(data + b"TRAILER")
e = es.parse_stream(s, n=3)
out("eager", plain(e), s.tell())
out("eager.build", es.build(e, n=3))
out("sizeof", attempt(ls.sizeof, n=3), attempt(es.sizeof, n=3), attempt(ls.sizeof))
out("struct attrs", ls.num.sizeof(), ls.pfx is ls.subcons[4], attempt(getattr, ls, "nosuch")[:2], ls.flagbuildnone)

orders = [names, names[::-1], names[1::2] + names[::2], ["tail", "tail", "num", "tail"], ["arr", "pfx", "arr", "ctx", "pfi"], []]
orders += [list(p) for p in itertools.permutations(["num", "pfx", "var", "tail"])][::3]
for order in orders:
    s = io.BytesIO(data + b"TRAILER")
    obj = ls.parse_stream(s, n=3)
    pos0 = s.tell()
    r0 = repr(obj)
    seen = []
    for i, nm in enumerate(order):
        how = i % 3
        v = obj[nm] if how == 0 else (getattr(obj, nm) if how == 1 else obj[ls._subconsindexes[nm]])
        seen.append((nm, plain(v), s.tell()))
    out("lazystruct order", order, pos0, r0, seen, repr(obj), str(obj))
    out("  build-after", ls.build(obj, n=3), repr(obj), s.tell())

s = io.BytesIO(data + b"TRAILER")
obj = ls.parse_stream(s, n=3)
out("len/keys", len(obj), list(obj.keys()), list(obj), repr(obj))
vals = obj.values()
out("values lazy gen", repr(obj), plain(next(vals)), repr(obj), plain(next(vals)), repr(obj), s.tell())
out("values rest", [plain(v) for v in vals], repr(obj))
out("items", [(k, plain(v)) for k, v in obj.items()], repr(obj), s.tell())
out("values again", [plain(v) for v in obj.values()], [plain(v) for v in obj.values()])
out("dict(items)", plain(dict(obj.items())), plain(Container(obj)))
out("index access", [plain(obj[i]) for i in range(len(obj))], repr(obj))
out("bad access", attempt(lambda: obj["nosuch"])[:2], attempt(lambda: obj.nosuch)[:2], attempt(lambda: obj[99])[:2], attempt(lambda: obj[-1])[:2])
out("hasattr", hasattr(obj, "num"), hasattr(obj, "nosuch"), hasattr(obj, "_nosuch"), "num" in list(obj.keys()))
out("eq", obj == obj, obj == e, e == obj, obj == dict(plain(e)), obj != obj)
s2 = io.BytesIO(data)
obj2 = ls.parse_stream(s2, n=3)
out("eq other lazy", obj == obj2, obj2 == obj, repr(obj2))

# building LazyStruct from assorted objects
out("build dict", attempt(ls.build, plain(e), n=3))
out("build container", attempt(ls.build, e, n=3))
out("build w/o default", attempt(ls.build, {k: v for k, v in plain(e).items() if k != "dflt"}, n=3))
out("build missing key", attempt(ls.build, {k: v for k, v in plain(e).items() if k != "pfx"}, n=3))
out("build missing ctx", attempt(ls.build, plain(e)))
out("build None", attempt(ls.build, None, n=3)[:2])
out("build wrong type", attempt(ls.build, dict(plain(e), num="x"), n=3))
allnone = LazyStruct(Const(b"AB"), "d" / Default(Byte, 3), Padding(1), "c" / Computed(this.d + 1))
out("build flagbuildnone", allnone.flagbuildnone, attempt(allnone.build, None), attempt(allnone.build, {}), attempt(allnone.build, dict(d=9)))
s = io.BytesIO()
ctx = allnone._build(None, s, Container(_params=Container(), _parsing=False, _building=True, _sizing=False), "(p)")
out("build returns ctx", sorted(k for k in ctx.keys()), ctx.d, ctx.c, ctx._io is s, ctx._root is ctx._, s.getvalue())

stop = LazyStruct("a" / Byte, StopIf(this.a == 0), "b" / Byte, "c" / Byte)
out("build stopif", attempt(stop.build, dict(a=0)), attempt(stop.build, dict(a=1, b=2, c=3)), attempt(stop.build, dict(a=1, b=2)))
s = io.BytesIO()
ctx = stop._build(dict(a=0, b=5), s, Container(_params=Container(), _parsing=False, _building=True, _sizing=False), "(p)")
out("build stopif ctx", sorted(k for k in ctx.keys() if not k.startswith("_")), ctx.a, ctx.b, s.getvalue())
stop2 = LazyStruct("a" / Byte, "s" / Struct("x" / Byte, StopIf(this.x == 0), "y" / Byte), "b" / Byte)
out("build nested stopif", attempt(stop2.build, dict(a=1, s=dict(x=0), b=2)), attempt(stop2.build, dict(a=1, s=dict(x=1, y=2), b=3)))
out("parse stopif", attempt(stop.parse, b"\x00")[:2])
stop3 = LazyStruct("a" / VarInt, StopIf(this.a == 0), "b" / Byte, "c" / Byte)
out("parse stopif2", attempt(stop3.parse, b"\x00")[:2], attempt(lambda: repr(stop3.parse(b"\x01\x02\x03"))))

log = []
probe = LazyStruct(
    "a" / Rebuild(Byte, Recorder(log, "rebuild-a", 1)),
    "b" / Bytes(Recorder(log, "len-b", this._params.k)),
    "c" / If(Recorder(log, "cond-c", True), Byte),
    "d" / Default(Byte, Recorder(log, "default-d", 4)),
)
out("callback order build", attempt(probe.build, dict(b=b"x", c=3), k=1), list(log))
del log[:]
po = probe.parse(b"\x01x\x03\x04", k=1)
out("callback order parse", list(log), repr(po))
out("callback order access", attempt(lambda: (po.d, po.c, po.a)), list(log), attempt(lambda: po.b), list(log), repr(po))
del log[:]
out("callback order sizeof", attempt(probe.sizeof, k=2), attempt(probe.sizeof), list(log))

# path reporting through named members
deep = LazyStruct("hdr" / Struct("k" / Byte, "inner" / LazyStruct("q" / Int16ub, "w" / Bytes(this._._.nosuch))), "t" / Byte)
out("error path parse", attempt(deep.parse, b"\x01\x00\x02\x03"))
out("error path sizeof", attempt(deep.sizeof))
out("error path build", attempt(deep.build, dict(hdr=dict(k=1, inner=dict(q=2, w=b"z")), t=1)))
out("error path build2", attempt(deep.build, dict(hdr=dict(k=1, inner=dict(q="bad", w=b"z")), t=1)))
short = LazyStruct("a" / Byte, "v" / VarInt, "z" / Int32ub)
so = attempt(short.parse, b"\x01\x81")
out("short stream", so)
so = short.parse(b"\x01\x02\xff")
out("short lazy member", repr(so), attempt(lambda: so.z), attempt(lambda: so.v), repr(so))

# ---------------------------------------------------------------- LazyArray
for count, sub, blob in [
    (5, Int16ub, bytes(range(10))),
    (4, VarInt, b"\x01\x82\x01\x03\x84\x02"),
    (3, Prefixed(Byte, GreedyBytes), b"\x01a\x00\x03xyz"),
    (3, Struct("k" / Byte, "d" / Bytes(this.k)), b"\x01a\x00\x02bc"),
    (0, Byte, b""),
]:
    la = LazyArray(count, sub)
    ea = Array(count, sub)
    s = io.BytesIO(blob + b"TRAILER")
    want = ea.parse_stream(s)
    out("array eager", count, plain(want), s.tell(), attempt(la.sizeof), attempt(ea.sizeof))
    hist = [list(range(count)), list(range(count))[::-1], [count - 1, 0, count - 1] if count else [], list(range(0, count, 2)) * 2]
    for order in hist:
        s = io.BytesIO(blob + b"TRAILER")
        obj = la.parse_stream(s)
        r0 = repr(obj)
        seen = [(i, plain(obj[i]), s.tell()) for i in order]
        out("lazyarray order", order, r0, seen, repr(obj), str(obj), len(obj))
        out("  slices", plain(obj[1:]), plain(obj[:-1]), plain(obj[::2]), plain(obj[::-1]), plain(obj[5:2]), repr(obj))
        out("  iter/eq", plain(list(obj)), obj == plain(want), obj == want, obj == plain(want)[:-1], obj == plain(want) + [0], obj != plain(want), s.tell())
        out("  build", la.build(obj), la.build(obj[:]), la.build(plain(want)), la.build(ListContainer(plain(want))))
    s = io.BytesIO(blob)
    obj = la.parse_stream(s)
    out("lazyarray bad index", attempt(lambda: obj[count])[:2], attempt(lambda: obj[-1])[:2], attempt(lambda: obj["a"])[:2], attempt(lambda: obj == 5)[:2])
    if hasattr(obj, "__getslice__"):
        out("lazyarray getslice", plain(obj.__getslice__(0, sys.maxsize)), plain(obj.__getslice__(1, 2)), plain(obj.__getslice__(0, 0)))

la = LazyArray(this.n, Int16ub)
out("ctx count parse", plain(la.parse(bytes(8), n=4)), plain(la.parse(bytes(8), n=0)), attempt(la.parse, bytes(8), n=-1), attempt(la.parse, bytes(8))[:2])
out("ctx count build", attempt(la.build, [1, 2], n=2), attempt(la.build, [1, 2], n=3), attempt(la.build, [1, 2], n=-2), attempt(la.build, [], n=0), attempt(la.build, [1, 2])[:2])
out("ctx count build2", attempt(la.build, [1, "x"], n=2), attempt(la.build, 5, n=2)[:2], attempt(la.build, iter([1, 2]), n=2)[:2], attempt(la.build, (1, 2), n=2))
out("ctx count sizeof", attempt(la.sizeof, n=4), attempt(la.sizeof, n=0), attempt(la.sizeof, n=-3), attempt(la.sizeof), attempt(LazyArray(lambda ctx: ctx["zz"], Byte).sizeof), attempt(LazyArray(lambda ctx: ctx.zz, Byte).sizeof))
out("ctx count sizeof2", attempt(LazyArray(lambda ctx: 1 // 0, Byte).sizeof)[:2], attempt(LazyArray(3, VarInt).sizeof), attempt(LazyArray(this.n, VarInt).sizeof), attempt(LazyArray(float("nan"), Byte).build, [])[:2], attempt(LazyArray(2.0, Byte).build, [1, 2]))
log = []
la = LazyArray(Recorder(log, "count", 2), Bytes(Recorder(log, "len", 1)))
out("array callbacks build", attempt(la.build, [b"a", b"b"]), list(log))
del log[:]
out("array callbacks sizeof", attempt(la.sizeof), list(log))
del log[:]
ao = la.parse(b"ab")
out("array callbacks parse", list(log), plain(ao[1]), list(log), plain(ao[0]), plain(ao[1]), list(log))
s = io.BytesIO()
ctx = Container(_params=Container(), _parsing=False, _building=True, _sizing=False)
ret = LazyArray(3, Byte)._build([7, 8, 9], s, ctx, "(p)")
out("array build ret", type(ret).__name__, ret, ctx._index, s.getvalue())
nested = LazyArray(2, LazyArray(2, Prefixed(Byte, GreedyBytes)))
no = nested.parse(b"\x01a\x02bc\x00\x01d")
out("nested lazyarray", repr(no), plain(no[1][0]), repr(no), repr(no[1]), plain(no), nested.build(no))

# ---------------------------------------------------------------- Lazy
d = Struct("a" / Int8ub, "b" / Lazy(Bytes(2)), "c" / Int16ub, "d" / Lazy(Prefixed(Byte, GreedyBytes)), "e" / Lazy(Computed(this.a + 1)), "f" / Byte)
blob = b"\x01\x02\x03\x04\x05\x03xyz\x09"
for order in [("b", "d", "e"), ("e", "d", "b"), ("d", "d", "b", "d"), ()]:
    s = io.BytesIO(blob + b"TRAILER")
    o = d.parse_stream(s)
    pos = s.tell()
    seen = [(k, o[k](), s.tell()) for k in order]
    out("lazy field", order, pos, o.a, o.c, o.f, seen)
    out("  build", d.build(o), d.build(dict(a=1, b=b"\x02\x03", c=0x0405, d=b"xyz", e=None, f=9)), d.build(dict(o, b=lambda: b"QQ")))
out("lazy sizeof", attempt(Lazy(Byte).sizeof), attempt(Lazy(VarInt).sizeof), attempt(Lazy(Bytes(this.n)).sizeof, n=3), attempt(d.sizeof))
out("lazy build", attempt(Lazy(Byte).build, 5), attempt(Lazy(Byte).build, lambda: 6), attempt(Lazy(Byte).build, "x"), attempt(Lazy(Byte).build, lambda: "x"), attempt(Lazy(Bytes(1)).build, int)[:2])
out("lazy unsizable", attempt(Lazy(VarInt).parse, b"\x01")[:2], attempt(Lazy(Prefixed(Byte, Byte)).parse(b"\x01\x02")))

# ---------------------------------------------------------------- embedding, surrounding parse, compiled
outer = Struct(
    "n" / Byte,
    "lz" / LazyStruct("a" / Bytes(this._.n), "b" / Int16ub, "v" / VarInt, "c" / Byte),
    "arr" / LazyArray(this.n, Int16ub),
    "l" / Lazy(Bytes(this.n)),
    "pk" / Peek(LazyStruct("x" / Byte, "y" / Byte)),
    "t" / Byte,
)
blob = b"\x02ab\x00\x05\x81\x01\x09" + b"\x00\x01\x00\x02" + b"xy" + b"\x7f\x7e"
for label, con in [("interpreted", outer), ("compiled", outer.compile())]:
    s = io.BytesIO(blob + b"TRAILER")
    o = con.parse_stream(s)
    pos = s.tell()
    seen = (plain(o.lz.c), plain(o.pk.y), plain(o.arr[1]), o.l(), plain(o.lz.a), plain(o.pk.x), plain(o.lz.v), plain(o.arr[0]), plain(o.lz.b))
    out("outer " + label, pos, o.n, o.t, seen, s.tell(), repr(o.lz), repr(o.arr), repr(o.pk))
    out("  build", attempt(con.build, dict(o, pk=None)), attempt(con.build, dict(n=1, lz=dict(a=b"q", b=1, v=300, c=2), arr=[5], l=b"z", pk=None, t=3)))
    out("  build errors", attempt(con.build, dict(n=1, lz=dict(a=b"q", b=1, v=300), arr=[5], l=b"z", t=3))[:2], attempt(con.build, dict(n=2, lz=dict(a=b"qq", b=1, v=3, c=2), arr=[5], l=b"zz", t=3))[:2])
wrapped = Struct("p" / Prefixed(Byte, LazyStruct("a" / Byte, "b" / Int16ub)), "f" / FixedSized(4, LazyArray(2, Byte)), "t" / Byte)
s = io.BytesIO(b"\x03\x01\x00\x02" + b"\x07\x08\x00\x00" + b"\x09" + b"TRAILER")
o = wrapped.parse_stream(s)
out("wrapped", s.tell(), o.t, plain(o.f[1]), plain(o.p.b), plain(o.p.a), plain(o.f[0]), s.tell(), wrapped.build(o), attempt(wrapped.sizeof))

# ---------------------------------------------------------------- member names, paths, hooks
shadow = LazyStruct("items" / Byte, Padding(1), "values" / Prefixed(Byte, GreedyBytes), "get" / VarInt, "update" / Int16ub, "items2" / Byte)
so = shadow.parse(b"\x01\x00\x02ab\x81\x01\x00\x07\x09")
out("shadow names", repr(so), list(so.keys()), [plain(v) for v in so.values()], repr(so), [(k, plain(v)) for k, v in so.items()])
out("shadow names access", plain(so["items"]), plain(so["values"]), plain(so[5]), plain(so["update"]), attempt(shadow.sizeof)[:2])
dup = LazyStruct("a" / Byte, "b" / Byte, "a" / Int16ub, Const(b"!"), "c" / Byte)
do = dup.parse(b"\x01\x02\x00\x03!\x04")
out("duplicate names", len(do), list(do.keys()), [plain(v) for v in do.values()], [(k, plain(v)) for k, v in do.items()], plain(do.a), plain(do[0]), plain(do[2]), repr(do))
out("duplicate names build", attempt(dup.build, do), attempt(dup.build, dict(a=3, b=2, c=4)))
hooklog = []
hooked = LazyStruct("a" / Byte * (lambda obj, ctx: hooklog.append(("a", obj))), "v" / VarInt * (lambda obj, ctx: hooklog.append(("v", obj))), "p" / Prefixed(Byte, GreedyBytes) * "docs here" * (lambda obj, ctx: hooklog.append(("p", obj))))
ho = hooked.parse(b"\x05\x06\x01z")
out("parsed hooks", list(hooklog), plain(ho.p), plain(ho.p), plain(ho.a), list(hooklog), hooked.p.docs, hooked.a.name, repr(ho))
for label, con, blob, kw, accs in [
    ("path parse const", LazyStruct("outer" / Struct("in1" / LazyStruct("x" / VarInt, "y" / Const(b"OKAY") * "doc"), "in2" / Byte)), b"\x01NOPE\x09", {},
        [lambda o: plain(o.outer.in1.y), lambda o: plain(o.outer.in1.x), lambda o: plain(o.outer.in2), lambda o: plain(o.outer.in1[1]), lambda o: repr(o.outer.in1)]),
    ("path parse check", LazyStruct("v" / VarInt, "chk" / Struct("m" / Const(b"OK"))), b"\x01NO", {},
        [lambda o: plain(o.chk), lambda o: plain(o[1]), lambda o: plain(o.v), lambda o: repr(o)]),
    ("path parse short", LazyStruct("a" / Byte, "big" / Struct("w" / Int32ub, "z" / Byte)), b"\x01\x02", {},
        [lambda o: plain(o.big), lambda o: plain(o.a), lambda o: repr(o)]),
    ("path parse array", LazyArray(3, "elt" / Struct("k" / Byte, "d" / Bytes(this.k))), b"\x01a\x05b", {}, []),
    ("path parse array2", LazyArray(3, "elt" / Struct("k" / Const(b"K"), "d" / Byte)), b"K\x01X\x02K\x03", {},
        [lambda o: plain(o[1]), lambda o: plain(o[2]), lambda o: plain(o[:1]), lambda o: attempt(list, o)[:2], lambda o: repr(o)]),
    ("path parse lazy", Struct("lz" / Lazy("inner" / Struct("q" / Bytes(this._._params.n), "m" / Const(b"M"))), "t" / Byte), b"\x01X\x02", dict(n=1),
        [lambda o: plain(o.lz()), lambda o: o.t]),
]:
    r = attempt(con.parse, blob, **kw)
    out(label, r if r[0] == "raised" else ("ok", type(r[1]).__name__))
    if r[0] == "ok":
        for acc in accs:
            out("  " + label, attempt(acc, r[1]))
out("path build", attempt(LazyStruct("o" / LazyArray(2, "e" / Struct("k" / Byte))).build, dict(o=[dict(k=1), dict(k="x")])), attempt(LazyStruct("o" / LazyArray(2, "e" / Byte)).build, dict(o=[1])))
out("path sizeof", attempt(LazyStruct("o" / LazyArray(this.n, "e" / Struct("k" / Bytes(this._.zz)))).sizeof, n=2), attempt(LazyStruct("o" / LazyArray(this.n, "e" / Byte)).sizeof), attempt(LazyStruct("o" / LazyArray(this._.n, "e" / Byte)).sizeof, n=6))
ren = "newname" / ("oldname" / Int16ub * "some docs")
out("renamed", ren.name, ren.docs, ren.subcon.name, ren.sizeof(), ren.parse(b"\x00\x05"), ren.build(6), attempt(ren.parse, b"\x00"), attempt(ren.build, "x"), attempt(("nm" / Bytes(this.zz)).sizeof))

out("done", LINE[0] + 1)
